import EdsProps.C02b
import EdsProps.C01b
import EdsProofs.C02cConds
import EdsProofs.C02cFilter
/-
  C02c — C02 at STORE level: the cooperative round on `ErsStore` refines the abstract round of C02, hence
  repeated reconciliation of the active replica set (no canary in progress) converges.

  EdsProps/C02.lean proves convergence of the abstract round `absRound mu mc ⟨e, o⟩`; EdsProps/C02b.lean
  links it to `rollingPlan (countAll …)` on cooperative ENTRY LISTS with `mu`, `mc` fixed.  This file
  closes the gap (DESIGN §14.7) down to the store-level sync `reconcileErs`:

    pods in a store → `ersPods` → `filterAndMap` → entries → `manageDeployment` (with the slow-start cap
    `calculateMaxCreation` recomputed from the clock and the stored status at EVERY round) → the three time
    gates of `Reconcile` (LastFullSync / PodDeletion / PodCreation) → pod writes → API server → kubelet,
    with the replica-set status the sync wrote carried forward into the next round.

  Definitions
    `CoopSetup d rs aff`        static hypotheses on the EDS and its active replica set
    `StratOk d N`               the rolling-update parameters parse on `N` nodes: maxUnavailable ≥ 1, additive
                                increase ≥ 1, maxParallelPodCreation ≥ 1, maxPodSchedulerFailure ≥ 0
                                (`StratOk.of_spec`: from positive spec values, numbers or percentages)
    `CoopStore d rs gen items st`   the cooperative store predicate (part 2 of the task)
    `storeEntries`, `emptyNodes`, `outdatedNodes`, `storeAbs`    entries and abstract counters of a store
    `GateFree d rs now`         no gate can fire at `now` (all stored conditions older than the frequency)
    `kubeletReady`, `nameCreates`, `coopRoundStore`, `nextErs`, `coopRound`, `coopRun`   the cooperative round
  Theorems
    `C02c_filter`       (part 2) `filterAndMap` on a cooperative store = `storeEntries`: a C02b-cooperative
                        entry list with distinct node names and `absOf = storeAbs`; nothing to clean up
    `C02c_sync`         one ungated sync: creation cap `mcOf … ≥ 1` for every clock value, creates on the first
                        `min e mc` empty nodes, deletes the first `min o (mu − e)` outdated pods, no clean-up,
                        stored status stamped ≤ now
    `C02c_refines`      (part 3) the round preserves `CoopStore` and `storeAbs' = absRound mu mc storeAbs`
    `C02c_converged`, `C02c_fixpoint`   the converged store; a sync there — at any instant, gated or not —
                        creates / deletes / cleans up nothing
    `coopRun_inv`, `C02_converges_store`, `C02_converges_store_within`   (part 4) convergence within
                        `2·outdated + empty` rounds, and stability
  No `_partial` theorem in this file.

  Simplifications (all explicit hypotheses, none silent):
    * settings absent: every listed `NodeItem.setting = none` (`CoopStore.noSetting`); node override
      annotations are ALLOWED (the node hash is part of the pod comparison; C10 `hA` is `CoopStore.hashOk`);
    * no DaemonSet migration in progress (`CoopSetup.noOldDs`); no canary (`noCanary`), not paused / frozen;
    * pods are classified by the controller's own comparison `comparePod`: "up to date" = it succeeds, "outdated"
      = it fails (a pod stamped with another template hash is outdated by `C10_detects_template`; so is a pod
      with a stale node hash).  This is more general than "stamped with `rs.templateGeneration` or not";
    * deletions are by pod name (`applyPodWritesHard` of C01b), so the store predicate asks that pod names
      identify the node (`nameNode`) and the API server's `generateName` is modelled by an injective function
      `gen` of the node name that does not collide with pods of other nodes (`genFresh`, `hinj`);
    * label patches (canary label removal) are not applied to the store: they do not touch any field read here;
    * the kubelet is cooperative and instantaneous ("hard"): deleted pods are gone, every created pod is bound
      to its node, Running and Ready before the next round; nodes, EDS object and settings do not change;
    * the back-off oracle of a round is `fun _ => false` (no pod is ever Failed; `C02c_sync`, `C02c_fixpoint`
      hold for every oracle);
    * rounds are at least `max 0 reconcileFrequency` apart and the first one is `GateFree` — otherwise a gate
      may fire and the round makes no progress (it is then a stutter step; not modelled).
  Not covered: canary phases and the EDS controller (promotion / rollback reduce to this phase, C05 / C07),
  pods that never become Ready, node churn.
-/
namespace Eds
open Spec.C03

/-! ### 0. The setting -/

/-- what is asked of the EDS `d` and of its active replica set `rs` (nothing here depends on
`rs.status`, on the pods or on the clock). -/
structure CoopSetup (d : EDS) (rs : ERS) (aff : Bool) : Prop where
  defaulted : isDefaulted d.strategy d.templateName = true
  /-- `rs` is the active replica set … -/
  active : d.status.activeReplicaSet = rs.name
  named : rs.name ≠ ""
  /-- … and no canary is in progress -/
  noCanary : d.status.canary = none
  notPaused : isRollingUpdatePaused d.annotations = false
  notFrozen : isRolloutFrozen d.annotations = false
  /-- no DaemonSet is being migrated (the controller would list its pods as well) -/
  noOldDs : SMap.get? d.annotations K.oldDaemonsetAnnot = none
  /-- the replica set carries its owner's name label (it is copied onto the pods) -/
  label : SMap.get? rs.labels K.edsNameLabel = some d.name
  /-- affinity mode: the template's required node affinity is not the empty term list (C10) -/
  affOk : aff = true → rs.template.affRequired ≠ some []

/-- the eligible nodes: listed for the replica set and fit for its template. -/
def fitItems (rs : ERS) (items : List NodeItem) : List NodeItem := candidates rs.template items []

/-- `maxUnavailable` resolved on `N` nodes (0 when it does not parse). -/
def muOf (d : EDS) (N : Nat) : Nat :=
  ((resolveIntOrPercent d.strategy.rollingUpdate.maxUnavailable N).getD 0).toNat

/-- the creation cap `calculateMaxCreation` yields for replica set `rs` at instant `now`
(0 when it fails). -/
def mcOf (d : EDS) (rs : ERS) (N : Nat) (now : Time) : Nat :=
  match calculateMaxCreation d.strategy.rollingUpdate.slowStartAdditiveIncrease
      d.strategy.rollingUpdate.slowStartInterval d.strategy.rollingUpdate.maxParallelPodCreation
      N (rollingUpdateStartTime rs.status now) now with
  | .ok mc => mc.toNat
  | _ => 0

/-- the rolling-update parameters parse on `N` nodes, with maxUnavailable ≥ 1, additive increase ≥ 1,
maxParallelPodCreation ≥ 1 and maxPodSchedulerFailure ≥ 0. -/
structure StratOk (d : EDS) (N : Nat) : Prop where
  mu : 1 ≤ muOf d N
  inc : 1 ≤ (resolveIntOrPercent d.strategy.rollingUpdate.slowStartAdditiveIncrease N).getD 0
  mp : 1 ≤ d.strategy.rollingUpdate.maxParallelPodCreation.getD 0
  ms : ∃ ms, resolveIntOrPercent d.strategy.rollingUpdate.maxPodSchedulerFailure N = some ms ∧ 0 ≤ ms

/-- the pods of the EDS in the store (what `getPodList` selects). -/
def edsPodsOf (d : EDS) (st : ErsStore) : List Pod := st.pods.filter (isEdsPod d)

/-- **The cooperative store.**  `items` is the node listing of the replica set (`getNodeList`), without
settings; `gen` is the API server's name generator for created pods (a function of the node name). -/
structure CoopStore (d : EDS) (rs : ERS) (gen : String → String) (items : List NodeItem) (st : ErsStore) :
    Prop where
  owner : ersOwner rs st = some d
  hitems : ersNodeItems d rs st = some items
  /-- simplification: no ExtendedDaemonsetSetting applies to any listed node -/
  noSetting : ∀ ni ∈ items, ni.setting = none
  nodesNodup : (st.nodes.map (·.name)).Nodup
  nodeNamed : ∀ ni ∈ items, ni.node.name ≠ ""
  /-- C10 `hA`: on a node without override annotations the template does not carry a node hash itself -/
  hashOk : ∀ ni ∈ items, ni.node.resHash = "" →
    (SMap.get? rs.template.annotations K.nodeHashAnnot).getD "" = ""
  /-- every pod of the EDS is live, Running and Ready, and sits on an eligible node -/
  settled : ∀ p ∈ edsPodsOf d st, p.deletion = none ∧ p.phase = "Running" ∧ p.ready = true ∧
    ∃ ni ∈ fitItems rs items, p.nodeName = ni.node.name
  onePer : OnePerNode (edsPodsOf d st)
  /-- pod names identify the node (deletions are by name) -/
  nameNode : ∀ p ∈ edsPodsOf d st, ∀ q ∈ edsPodsOf d st, p.name = q.name → p.nodeName = q.nodeName
  /-- the generator does not collide with a pod of another node -/
  genFresh : ∀ q ∈ edsPodsOf d st, ∀ m, gen m = q.name → m = q.nodeName

/-- the per-node entries of the store: each eligible node with the pod of the EDS on it. -/
def storeEntries (rs : ERS) (items : List NodeItem) (E : List Pod) : List Entry :=
  (fitItems rs items).map (fun ni => (ni, podOn E ni.node.name))

/-- eligible nodes without a pod of the EDS. -/
def emptyNodes (rs : ERS) (items : List NodeItem) (E : List Pod) : Nat :=
  (fitItems rs items).countP (fun ni => (podOn E ni.node.name).isNone)

/-- eligible nodes whose pod is outdated (`compareCurrentPodWithNewPod` fails: another template hash,
or a stale node hash). -/
def outdatedNodes (rs : ERS) (items : List NodeItem) (E : List Pod) : Nat :=
  (fitItems rs items).countP (fun ni =>
    match podOn E ni.node.name with
    | some p => !comparePod rs.templateGeneration p ni
    | none => false)

/-- the abstract state (C02.lean) of a store. -/
def storeAbs (d : EDS) (rs : ERS) (items : List NodeItem) (st : ErsStore) : Abs :=
  ⟨emptyNodes rs items (edsPodsOf d st), outdatedNodes rs items (edsPodsOf d st)⟩

/-! ### 1. The entry list of a cooperative store (part 2) -/

/-- a bound, live, Ready pod is classified by the pod comparison alone. -/
theorem classify_settled (tg : String) (wall : Time) (ni : NodeItem) (p : Pod)
    (hb : p.nodeName ≠ "") (hd : p.deletion = none) (hr : p.ready = true) :
    classify tg wall (ni, some p) = if comparePod tg p ni then .upToDate true true else .outdated true := by
  have hsi : p.schedulerIssue wall = false := by
    unfold Pod.schedulerIssue Pod.scheduled
    rw [hd]
    simp [hb]
  unfold classify
  simp only [hsi, Bool.false_eq_true, if_false, Pod.available, hr, hd, Option.isNone_none, if_true]
  cases comparePod tg p ni <;> rfl

theorem fitItems_sub {rs : ERS} {items : List NodeItem} {ni : NodeItem} (h : ni ∈ fitItems rs items) :
    ni ∈ items := (List.mem_filter.mp h).1

theorem items_names_nodup {d : EDS} {rs : ERS} {gen : String → String} {items : List NodeItem} {st : ErsStore}
    (S : CoopStore d rs gen items st) : (items.map (·.node.name)).Nodup :=
  List.Nodup.sublist (ersNodeItems_names_sublist d rs st items S.hitems) S.nodesNodup

theorem fitItems_names_nodup {d : EDS} {rs : ERS} {gen : String → String} {items : List NodeItem} {st : ErsStore}
    (S : CoopStore d rs gen items st) : ((fitItems rs items).map (·.node.name)).Nodup :=
  List.Nodup.sublist (List.filter_sublist.map _) (items_names_nodup S)

theorem storeEntries_names (rs : ERS) (items : List NodeItem) (E : List Pod) :
    (storeEntries rs items E).map (·.1.node.name) = (fitItems rs items).map (·.node.name) := by
  unfold storeEntries
  rw [List.map_map]
  rfl

theorem storeEntries_length (rs : ERS) (items : List NodeItem) (E : List Pod) :
    (storeEntries rs items E).length = (fitItems rs items).length := by
  simp [storeEntries]

section Entries
variable {d : EDS} {rs : ERS} {gen : String → String} {items : List NodeItem} {st : ErsStore}

theorem CoopStore.bound (S : CoopStore d rs gen items st) {p : Pod} (hp : p ∈ edsPodsOf d st) :
    p.nodeName ≠ "" := by
  obtain ⟨_, _, _, ni, hni, hn⟩ := S.settled p hp
  rw [hn]; exact S.nodeNamed ni (fitItems_sub hni)

/-- the entries of a cooperative store: each is an empty node, an outdated available pod or an
up-to-date ready pod. -/
theorem storeEntries_coop (S : CoopStore d rs gen items st) (wall : Time) :
    coop rs.templateGeneration wall (storeEntries rs items (edsPodsOf d st)) = true := by
  unfold coop storeEntries
  rw [List.all_map, List.all_eq_true]
  intro ni _
  simp only [Function.comp]
  cases hp : podOn (edsPodsOf d st) ni.node.name with
  | none => simp [coopEntry, isEmptyE]
  | some p =>
    obtain ⟨hpE, _⟩ := podOn_some hp
    obtain ⟨hd, _, hr, _⟩ := S.settled p hpE
    have hc := classify_settled rs.templateGeneration wall ni p (S.bound hpE) hd hr
    unfold coopEntry isOldE isCurE
    rw [hc]
    cases comparePod rs.templateGeneration p ni <;> simp

/-- the abstract state of the entry list is (eligible nodes without pod, eligible nodes with an
outdated pod). -/
theorem storeEntries_abs (S : CoopStore d rs gen items st) (wall : Time) :
    absOf rs.templateGeneration wall (storeEntries rs items (edsPodsOf d st)) = storeAbs d rs items st := by
  unfold absOf storeAbs coopE coopO storeEntries emptyNodes outdatedNodes
  rw [List.countP_map, List.countP_map]
  congr 1
  apply List.countP_congr
  intro ni _
  simp only [Function.comp]
  cases hp : podOn (edsPodsOf d st) ni.node.name with
  | none => simp [isOldE, classify_none]
  | some p =>
    obtain ⟨hpE, _⟩ := podOn_some hp
    obtain ⟨hd, _, hr, _⟩ := S.settled p hpE
    have hc := classify_settled rs.templateGeneration wall ni p (S.bound hpE) hd hr
    unfold isOldE
    rw [hc]
    cases hcp : comparePod rs.templateGeneration p ni <;> simp [hcp]

/-- the pods the replica-set controller lists are the pods of the EDS. -/
theorem ersPods_eq (C : CoopSetup d rs aff) : ersPods d st = edsPodsOf d st := by
  unfold ersPods edsPodsOf
  simp only [C.noOldDs, List.append_nil]
  rfl

theorem ersIgnore_nil (C : CoopSetup d rs aff) : ersIgnore d rs = [] := by
  unfold ersIgnore
  simp [C.noCanary]

theorem ersCanaryNodes_nil (C : CoopSetup d rs aff) : ersCanaryNodes d = [] := by
  unfold ersCanaryNodes
  rw [C.noCanary]

theorem ersRole_active (C : CoopSetup d rs aff) : ersRole d rs.name = "active" :=
  (ersRole_active_iff d rs.name).mpr ⟨by rw [C.active]; exact C.named, C.active⟩

/-- **Part 2.**  On a cooperative store `FilterAndMapPodsByNode` yields, for every back-off oracle,
the entry list `storeEntries` — a cooperative entry list in the sense of C02b, over the eligible
nodes, with distinct node names, whose abstract state is `storeAbs` — and hands nothing to the
clean-up. -/
theorem C02c_filter (C : CoopSetup d rs aff) (S : CoopStore d rs gen items st) (released : String → Bool)
    (wall : Time) :
    (filterAndMap released rs.template items (ersPods d st) (ersIgnore d rs)).byNode
      = storeEntries rs items (edsPodsOf d st) ∧
    (filterAndMap released rs.template items (ersPods d st) (ersIgnore d rs)).toDelete = [] ∧
    coop rs.templateGeneration wall (storeEntries rs items (edsPodsOf d st)) = true ∧
    ((storeEntries rs items (edsPodsOf d st)).map (·.1.node.name)).Nodup ∧
    absOf rs.templateGeneration wall (storeEntries rs items (edsPodsOf d st)) = storeAbs d rs items st := by
  rw [ersPods_eq C, ersIgnore_nil C]
  have hs : ∀ p ∈ edsPodsOf d st, p.nodeName ≠ "" ∧ p.phase = "Running" ∧
      p.nodeName ∈ candNames rs.template items [] := by
    intro p hp
    obtain ⟨_, hph, _, ni, hni, hn⟩ := S.settled p hp
    exact ⟨S.bound hp, hph, List.mem_map.mpr ⟨ni, hni, hn.symm⟩⟩
  obtain ⟨h1, h2⟩ := filterAndMap_settled released rs.template items (edsPodsOf d st) hs S.onePer
  refine ⟨h1, h2, storeEntries_coop S wall, ?_, storeEntries_abs S wall⟩
  rw [storeEntries_names]
  exact fitItems_names_nodup S

end Entries

/-! ### 2. One sync on a cooperative store -/

/-- **No gate fires at `now`**: every condition of the stored status was last updated at least
`max 0 reconcileFrequency` before `now` (in particular `now ≥ lastUpdate + reconcileFrequency` for
LastFullSync, PodDeletion and PodCreation) and last switched at or before `now` (in particular the
rolling update did not start in the future). -/
def GateFree (d : EDS) (rs : ERS) (now : Time) : Prop :=
  ∀ c ∈ rs.status.conds, c.lastUpdate + max 0 (ersFreq d) ≤ now ∧ c.lastTransition ≤ now

theorem GateFree.condsLe {d : EDS} {rs : ERS} {now : Time} (G : GateFree d rs now) : CondsLe now rs.status.conds :=
  fun c hc => ⟨by have := (G c hc).1; omega, (G c hc).2⟩

section Sync
variable {d : EDS} {rs : ERS} {aff : Bool} {gen : String → String} {items : List NodeItem} {st : ErsStore}

/-- the resolved strategy values. -/
theorem StratOk.resolved {N : Nat} (hK : StratOk d N) (hdef : isDefaulted d.strategy d.templateName = true) :
    ∃ ms mu inc iv mp : Int,
      resolveIntOrPercent d.strategy.rollingUpdate.maxPodSchedulerFailure N = some ms ∧ 0 ≤ ms ∧
      resolveIntOrPercent d.strategy.rollingUpdate.maxUnavailable N = some mu ∧ 1 ≤ mu ∧ mu.toNat = muOf d N ∧
      resolveIntOrPercent d.strategy.rollingUpdate.slowStartAdditiveIncrease N = some inc ∧ 1 ≤ inc ∧
      d.strategy.rollingUpdate.slowStartInterval = some iv ∧
      d.strategy.rollingUpdate.maxParallelPodCreation = some mp ∧ 1 ≤ mp := by
  obtain ⟨ms, hms, hms0⟩ := hK.ms
  have hmu := hK.mu
  unfold muOf at hmu
  cases hmu' : resolveIntOrPercent d.strategy.rollingUpdate.maxUnavailable N with
  | none => rw [hmu'] at hmu; simp at hmu
  | some mu =>
    rw [hmu'] at hmu
    simp only [Option.getD_some] at hmu
    have hinc := hK.inc
    cases hinc' : resolveIntOrPercent d.strategy.rollingUpdate.slowStartAdditiveIncrease N with
    | none => rw [hinc'] at hinc; simp at hinc
    | some inc =>
      rw [hinc'] at hinc
      simp only [Option.getD_some] at hinc
      have hmp := hK.mp
      cases hmp' : d.strategy.rollingUpdate.maxParallelPodCreation with
      | none => rw [hmp'] at hmp; simp at hmp
      | some mp =>
        rw [hmp'] at hmp
        simp only [Option.getD_some] at hmp
        cases hiv' : d.strategy.rollingUpdate.slowStartInterval with
        | none =>
          unfold isDefaulted isDefaultedRolling at hdef
          rw [hiv'] at hdef
          simp at hdef
        | some iv =>
          refine ⟨ms, mu, inc, iv, mp, hms, hms0, rfl, by omega, ?_, rfl, hinc, rfl, rfl, hmp⟩
          unfold muOf; rw [hmu']; rfl

theorem ersGated_false (G : GateFree d rs now) : ersGated d rs now = false := by
  unfold ersGated
  split
  · rename_i c hc
    have := (G c (List.mem_of_find?_eq_some hc)).1
    simp only [decide_eq_false_iff_not]
    omega
  · rfl

/-- **One sync of the active replica set on a cooperative store, no gate firing.**  With
`es = storeEntries …`, `e = coopE es` empty nodes and `o = coopO … es` outdated ones, the sync

  * uses a creation cap `mcOf d rs N now ≥ 1` (whatever the clock) and `muOf d N`,
  * creates the pods of the first `min e mc` empty eligible nodes,
  * deletes the first `min o (mu − e)` outdated pods (by name),
  * cleans up nothing,
  * and stores a status all of whose conditions are stamped at or before `now`. -/
theorem C02c_sync (C : CoopSetup d rs aff) (S : CoopStore d rs gen items st)
    (hK : StratOk d (fitItems rs items).length) (now : Time) (G : GateFree d rs now) (released : String → Bool) :
    1 ≤ mcOf d rs (fitItems rs items).length now ∧
    (reconcileErs rs st released aff now).creates =
      ((createCands (storeEntries rs items (edsPodsOf d st))).take
        (min (coopE (storeEntries rs items (edsPodsOf d st))) (mcOf d rs (fitItems rs items).length now))).map
        (createdFor rs aff) ∧
    (reconcileErs rs st released aff now).deletes =
      ((oldCands rs.templateGeneration now (storeEntries rs items (edsPodsOf d st))).take
        (min (coopO rs.templateGeneration now (storeEntries rs items (edsPodsOf d st)))
          (muOf d (fitItems rs items).length - coopE (storeEntries rs items (edsPodsOf d st))))).map (·.2.name) ∧
    (reconcileErs rs st released aff now).cleanupDeletes = [] ∧
    CondsLe now (((reconcileErs rs st released aff now).statusUpdate).getD rs.status).conds := by
  obtain ⟨hby, hdel, hcoop, _, _⟩ := C02c_filter C S released now
  obtain ⟨ms, mu, inc, iv, mp, hms, hms0, hmu, hmu1, hmuN, hinc, hinc1, hiv, hmp, hmp1⟩ := hK.resolved C.defaulted
  -- the strategy parameters
  have htarget : targeted (ersParams released d rs items (ersPods d st) now)
      = storeEntries rs items (edsPodsOf d st) := by
    unfold targeted dropCanaryNodes
    rw [ersParams_canaryNodes, ersCanaryNodes_nil C, ersParams_byNode]
    rw [hby]
    simp
  have hclean : (ersParams released d rs items (ersPods d st) now).toCleanUp = [] := by
    rw [ersParams_toCleanUp]; exact hdel
  have hlen : ((targeted (ersParams released d rs items (ersPods d st) now)).length : Int)
      = ((fitItems rs items).length : Nat) := by
    rw [htarget, storeEntries_length]
  have hle := G.condsLe
  have hstart := rollingUpdateStartTime_le rs.status now hle
  obtain ⟨mc, hmc, hmc1, _⟩ := calculateMaxCreation_ok d.strategy.rollingUpdate.slowStartAdditiveIncrease iv mp
    ((fitItems rs items).length : Nat) (rollingUpdateStartTime rs.status now) now inc hinc hinc1 hmp1 hstart
  have hmcN : mcOf d rs (fitItems rs items).length now = mc.toNat := by
    unfold mcOf
    rw [hiv, hmp, hmc]
  obtain ⟨r, st0, hmd, hst0, hconds, hcre, hdele, hcl⟩ :=
    manageDeployment_ok (ersParams released d rs items (ersPods d st) now) now now false ms mu mc
      (by rw [hlen]; exact hms) (by rw [hlen]; exact hmu)
      (by rw [hlen]; show calculateMaxCreation d.strategy.rollingUpdate.slowStartAdditiveIncrease
            d.strategy.rollingUpdate.slowStartInterval d.strategy.rollingUpdate.maxParallelPodCreation _
            (rollingUpdateStartTime rs.status now) now = _
          rw [hiv, hmp]; exact hmc)
  -- the sync is `ersFinish` of this result
  have hrun : reconcileErs rs st released aff now =
      ersFinish rs "active" (ersFreq d) (ersParams released d rs items (ersPods d st) now) r []
        (if now - rollingUpdateStartTime rs.status now < 5 * minute
          then (canaryLabelled d.name rs st).map (·.name) else []) false st0 aff now := by
    rw [reconcileErs_eq rs st released aff now d S.owner]
    unfold ersBody
    simp only [C.defaulted, ersGated_false G, S.hitems, Bool.not_true, Bool.false_eq_true, if_false]
    unfold ersRun
    rw [ersRole_active C]
    unfold ersStrategy
    simp only [beq_self_eq_true, if_true, hmd, hst0]
  -- the gates
  have hfc : ∀ t, "Canary" ≠ t → "Canary-Paused" ≠ t → "Canary-Failed" ≠ t → "Active" ≠ t →
      "RollingUpdatePaused" ≠ t → "RolloutFrozen" ≠ t → "PodsCleanupDone" ≠ t →
      ∀ c, findCond st0.conds t = some c → c.lastUpdate + ersFreq d ≤ now := by
    intro t h1 h2 h3 h4 h5 h6 h7 c hc
    rw [hconds, findCond_deploymentConds _ _ _ _ _ h5 h6 h4 h7] at hc
    have hc' : findCond (preConds (ersRole d rs.name) rs.status.conds now) t = some c := hc
    rw [findCond_preConds _ _ _ _ h1 h2 h3 h4] at hc'
    have := (G c (List.mem_of_find?_eq_some hc')).1
    omega
  obtain ⟨hD, hCr⟩ := ersFinish_ungated rs "active" (ersFreq d) (ersParams released d rs items (ersPods d st) now) r []
    (if now - rollingUpdateStartTime rs.status now < 5 * minute
      then (canaryLabelled d.name rs st).map (·.name) else []) false st0 aff now
    (hfc "PodDeletion" (by decide) (by decide) (by decide) (by decide) (by decide) (by decide) (by decide))
    (hfc "PodCreation" (by decide) (by decide) (by decide) (by decide) (by decide) (by decide) (by decide))
  -- the plan
  have hplan : rollingPlan (countAll rs.templateGeneration now (storeEntries rs items (edsPodsOf d st)))
      ((storeEntries rs items (edsPodsOf d st)).length : Nat) ms mu mc false false =
      ((createCands (storeEntries rs items (edsPodsOf d st))).take
        (min (coopE (storeEntries rs items (edsPodsOf d st))) mc.toNat),
       (oldCands rs.templateGeneration now (storeEntries rs items (edsPodsOf d st))).take
        (min (coopO rs.templateGeneration now (storeEntries rs items (edsPodsOf d st)))
          (mu.toNat - coopE (storeEntries rs items (edsPodsOf d st))))) := by
    have := rollingPlan_coop rs.templateGeneration now (storeEntries rs items (edsPodsOf d st)) hcoop ms
      mu.toNat mc.toNat hms0
    rw [Int.toNat_of_nonneg (by omega), Int.toNat_of_nonneg (by omega)] at this
    exact this
  have hpa : isRollingUpdatePaused (ersParams released d rs items (ersPods d st) now).edsAnnotations = false :=
    C.notPaused
  have hfr : isRolloutFrozen (ersParams released d rs items (ersPods d st) now).edsAnnotations = false :=
    C.notFrozen
  rw [htarget, hpa, hfr] at hcre hdele
  have hcre' : r.createE = _ := hcre.trans (congrArg Prod.fst hplan)
  have hdele' : r.deleteE = _ := hdele.trans (congrArg Prod.snd hplan)
  refine ⟨by rw [hmcN]; omega, ?_, ?_, ?_, ?_⟩
  · rw [hrun, hCr, hcre', hmcN]; rfl
  · rw [hrun, hD, hdele', hmuN]
  · rw [hrun, ersFinish_cleanupDeletes, hcl, hclean]; rfl
  · rw [hrun]
    apply ersFinish_status_condsLe
    rw [hconds]
    apply deploymentConds_condsLe
    exact preConds_condsLe _ _ _ hle

end Sync

/-! ### 3. The cooperative round on the store -/

/-- **The cooperative kubelet** on one pod: a pod that is not terminating is bound to the node it asks
for (`spec.nodeName`, or else the node-name affinity), leaves the Pending phase and becomes Ready.
Pods that are already bound, Running and Ready are left as they are. -/
def kubeletReady (now : Time) (p : Pod) : Pod :=
  if p.deletion.isSome then p else
  { p with nodeName := p.nodeOf.getD p.nodeName,
           phase := if p.phase == "" || p.phase == "Pending" then "Running" else p.phase,
           conds := if p.ready then p.conds else ⟨"Ready", "True", "", now⟩ :: p.conds }

/-- the API server stores each created pod under the name `gen node` (`generateName`). -/
def nameCreates (gen : String → String) (w : ErsWrites) : ErsWrites :=
  { w with creates := w.creates.map (fun x => (x.1, { x.2 with name := gen x.1 })) }

/-- **One cooperative round on the store**: (i) one sync of replica set `rs` at `now` (back-off
oracle: no node is released — irrelevant here, no pod is Failed); (ii) its pod writes applied "hard"
(`applyPodWritesHard` of C01b: deleted pods disappear, created pods exist, each under its generated
name); (iii) the cooperative kubelet.  Label patches are not applied (they only touch the canary label).
Nodes, EDS objects and settings stay as they are. -/
def coopRoundStore (rs : ERS) (aff : Bool) (gen : String → String) (now : Time) (st : ErsStore) : ErsStore :=
  let w := nameCreates gen (reconcileErs rs st (fun _ => false) aff now)
  { st with pods := (applyPodWritesHard w st.pods).map (kubeletReady now) }

/-- the replica set after the sync: the status it wrote, if any, is carried forward. -/
def nextErs (rs : ERS) (aff : Bool) (now : Time) (st : ErsStore) : ERS :=
  { rs with status := ((reconcileErs rs st (fun _ => false) aff now).statusUpdate).getD rs.status }

/-- the pod a cooperative round leaves on an eligible node it created for. -/
def coopPodFor (rs : ERS) (aff : Bool) (gen : String → String) (now : Time) (ni : NodeItem) : Pod :=
  kubeletReady now { (createPod rs (some ni.node) ni.setting aff).pod with name := gen ni.node.name }

theorem kubeletReady_isEdsPod (d : EDS) (now : Time) (p : Pod) :
    isEdsPod d (kubeletReady now p) = isEdsPod d p := by
  unfold kubeletReady
  split <;> rfl

/-- a bound, live, Running, Ready pod is left alone. -/
theorem kubeletReady_settled (now : Time) (p : Pod) (hb : p.nodeName ≠ "") (hd : p.deletion = none)
    (hph : p.phase = "Running") (hr : p.ready = true) : kubeletReady now p = p := by
  unfold kubeletReady
  rw [hd, nodeOf_of_bound hb, hph, hr]
  simp only [Option.isSome_none, Bool.false_eq_true, if_false, Option.getD_some, if_true]
  have : (("Running" : String) == "" || ("Running" : String) == "Pending") = false := by decide
  rw [this]
  simp only [Bool.false_eq_true, if_false]
  cases p
  simp_all

theorem comparePod_congr (tg : String) (p q : Pod) (ni : NodeItem) (ha : p.annotations = q.annotations)
    (hc : p.containers = q.containers) : comparePod tg p ni = comparePod tg q ni := by
  unfold comparePod compareSpecTemplateHash compareSettingOverwrite compareNodeHash
  rw [ha, hc]

/-- the pod left on a created node: bound to it, live, Running, Ready, a pod of the EDS, named by the
generator and up to date. -/
theorem coopPodFor_props {d : EDS} {rs : ERS} {aff : Bool} (C : CoopSetup d rs aff) (hns : d.ns = rs.ns)
    (gen : String → String) (now : Time) (ni : NodeItem) (hn : ni.node.name ≠ "") (hs : ni.setting = none)
    (hA : ni.node.resHash = "" → (SMap.get? rs.template.annotations K.nodeHashAnnot).getD "" = "") :
    (coopPodFor rs aff gen now ni).nodeName = ni.node.name ∧
    (coopPodFor rs aff gen now ni).name = gen ni.node.name ∧
    (coopPodFor rs aff gen now ni).deletion = none ∧
    (coopPodFor rs aff gen now ni).phase = "Running" ∧
    (coopPodFor rs aff gen now ni).ready = true ∧
    isEdsPod d (coopPodFor rs aff gen now ni) = true ∧
    comparePod rs.templateGeneration (coopPodFor rs aff gen now ni) ni = true := by
  have hnodeOf : (createPod rs (some ni.node) ni.setting aff).pod.nodeOf = some ni.node.name := by
    cases aff with
    | true => exact C10_nodeOf_affinity rs ni.node ni.setting (C.affOk rfl) hn
    | false => exact C10_nodeOf_nodeName rs ni.node ni.setting hn
  have hnodeOf' : ({ (createPod rs (some ni.node) ni.setting aff).pod with name := gen ni.node.name } : Pod).nodeOf
      = some ni.node.name := hnodeOf
  have heds : isEdsPod d (createPod rs (some ni.node) ni.setting aff).pod = true := by
    unfold isEdsPod
    rw [createPod_label_eds]
    have h1 : (createPod rs (some ni.node) ni.setting aff).pod.ns = d.ns := hns.symm
    have h2 : SMap.getD rs.labels K.edsNameLabel = d.name := by
      unfold SMap.getD; rw [C.label]; rfl
    rw [h1, h2]
    simp
  have hcmp : comparePod rs.templateGeneration (createPod rs (some ni.node) ni.setting aff).pod ni = true := by
    have := C10_roundtrip rs ni.node ni.setting aff (fun s h => by rw [hs] at h; cases h)
      (fun s h => by rw [hs] at h; cases h) (fun s h => by rw [hs] at h; cases h) hA
    exact this
  have hdel : ({ (createPod rs (some ni.node) ni.setting aff).pod with name := gen ni.node.name } : Pod).deletion
      = none := rfl
  have hk : coopPodFor rs aff gen now ni =
      { (createPod rs (some ni.node) ni.setting aff).pod with
        name := gen ni.node.name, nodeName := ni.node.name, phase := "Running",
        conds := [⟨"Ready", "True", "", now⟩] } := by
    unfold coopPodFor kubeletReady
    rw [hdel, hnodeOf']
    simp only [Option.isSome_none, Bool.false_eq_true, if_false, Option.getD_some]
    rfl
  rw [hk]
  refine ⟨rfl, rfl, rfl, rfl, rfl, ?_, ?_⟩
  · rw [← heds]; rfl
  · rw [← hcmp]
    exact comparePod_congr _ _ _ _ rfl rfl

/-! #### the step on the pod list -/

section ListStep
variable (cands : List NodeItem) (E : List Pod) (gen : String → String) (mk : NodeItem → Pod)
  (Ci : List NodeItem) (Dp : List (NodeItem × Pod))

/-- the pods of the EDS after the round: survivors of the by-name deletion, then the created pods. -/
def stepPods : List Pod :=
  E.filter (fun p => !(Dp.map (·.2.name)).contains p.name) ++ Ci.map mk

variable (hnd : (cands.map (·.node.name)).Nodup)
  (hone : OnePerNode E)
  (hname : ∀ p ∈ E, ∀ q ∈ E, p.name = q.name → p.nodeName = q.nodeName)
  (hfresh : ∀ q ∈ E, ∀ m, gen m = q.name → m = q.nodeName)
  (hinj : ∀ a b, gen a = gen b → a = b)
  (hmkNode : ∀ ni ∈ cands, (mk ni).nodeName = ni.node.name)
  (hmkName : ∀ ni ∈ cands, (mk ni).name = gen ni.node.name)
  (hC : ∀ ni ∈ Ci, ni ∈ cands ∧ podOn E ni.node.name = none)
  (hCnd : (Ci.map (·.node.name)).Nodup)
  (hD : ∀ x ∈ Dp, x.1 ∈ cands ∧ podOn E x.1.node.name = some x.2)

include hone hname hD in
/-- a pod of the EDS survives iff its node is not one of the deleted pods' nodes. -/
theorem keep_iff {p : Pod} (hp : p ∈ E) :
    (!(Dp.map (·.2.name)).contains p.name) = true ↔ p.nodeName ∉ Dp.map (·.1.node.name) := by
  simp only [Bool.not_eq_true', List.contains_eq_mem, decide_eq_false_iff_not]
  constructor
  · intro hk hmem
    obtain ⟨x, hx, hxn⟩ := List.mem_map.mp hmem
    obtain ⟨hx2, hx2n⟩ := podOn_some (hD x hx).2
    have : x.2 = p := hone.unique hx2 hp (by rw [hx2n, hxn])
    exact hk (List.mem_map.mpr ⟨x, hx, by rw [this]⟩)
  · intro hk hmem
    obtain ⟨x, hx, hxn⟩ := List.mem_map.mp hmem
    obtain ⟨hx2, hx2n⟩ := podOn_some (hD x hx).2
    have := hname x.2 hx2 p hp hxn
    exact hk (List.mem_map.mpr ⟨x, hx, by rw [← this, hx2n]⟩)

include hone hname hD in
theorem mem_stepPods {p : Pod} :
    p ∈ stepPods E mk Ci Dp ↔ (p ∈ E ∧ p.nodeName ∉ Dp.map (·.1.node.name)) ∨ ∃ ni ∈ Ci, p = mk ni := by
  unfold stepPods
  rw [List.mem_append, List.mem_filter, List.mem_map]
  constructor
  · rintro (⟨hp, hk⟩ | ⟨ni, hni, rfl⟩)
    · exact Or.inl ⟨hp, (keep_iff cands E Dp hone hname hD hp).mp hk⟩
    · exact Or.inr ⟨ni, hni, rfl⟩
  · rintro (⟨hp, hk⟩ | ⟨ni, hni, rfl⟩)
    · exact Or.inl ⟨hp, (keep_iff cands E Dp hone hname hD hp).mpr hk⟩
    · exact Or.inr ⟨ni, hni, rfl⟩

include hone hmkNode hC hCnd in
theorem stepPods_onePer : OnePerNode (stepPods E mk Ci Dp) := by
  intro n
  unfold stepPods
  rw [List.filter_append, List.length_append]
  by_cases hn : n ∈ Ci.map (·.node.name)
  · obtain ⟨ni, hni, hnin⟩ := List.mem_map.mp hn
    have h0 : E.filter (fun p => p.nodeName == n) = [] := by
      rw [List.filter_eq_nil_iff]
      intro p hp hpn
      exact podOn_none_iff.mp (hC ni hni).2 p hp (by rw [hnin]; simpa using hpn)
    have h1 : ((E.filter (fun p => !(Dp.map (·.2.name)).contains p.name)).filter
        (fun p => p.nodeName == n)).length = 0 := by
      have := (List.filter_sublist.filter (fun p : Pod => p.nodeName == n)
        (l₁ := E.filter (fun p => !(Dp.map (·.2.name)).contains p.name)) (l₂ := E)).length_le
      rw [h0] at this
      simpa using this
    have h2 : ((Ci.map mk).filter (fun p => p.nodeName == n)).length
        ≤ (Ci.filter (fun ni => ni.node.name == n)).length := by
      apply filter_map_length_le
      intro a ha hq
      rw [hmkNode a (hC a ha).1] at hq
      exact hq
    have h3 := nodup_filter_eq_length_le (fun ni : NodeItem => ni.node.name) n Ci hCnd
    omega
  · have h2 : (Ci.map mk).filter (fun p => p.nodeName == n) = [] := by
      rw [List.filter_eq_nil_iff]
      intro p hp hpn
      obtain ⟨ni, hni, rfl⟩ := List.mem_map.mp hp
      rw [hmkNode ni (hC ni hni).1] at hpn
      exact hn (List.mem_map.mpr ⟨ni, hni, by simpa using hpn⟩)
    have h1 := (List.filter_sublist.filter (fun p : Pod => p.nodeName == n)
      (l₁ := E.filter (fun p => !(Dp.map (·.2.name)).contains p.name)) (l₂ := E)).length_le
    have := hone n
    rw [h2]
    simp only [List.length_nil]
    omega

include hone hname hfresh hinj hmkNode hmkName hC hD in
theorem stepPods_nameNode : ∀ p ∈ stepPods E mk Ci Dp, ∀ q ∈ stepPods E mk Ci Dp,
    p.name = q.name → p.nodeName = q.nodeName := by
  intro p hp q hq hpq
  rcases (mem_stepPods cands E mk Ci Dp hone hname hD).mp hp with ⟨hp, _⟩ | ⟨ni, hni, rfl⟩ <;>
    rcases (mem_stepPods cands E mk Ci Dp hone hname hD).mp hq with ⟨hq, _⟩ | ⟨nj, hnj, rfl⟩
  · exact hname p hp q hq hpq
  · rw [hmkName nj (hC nj hnj).1] at hpq
    rw [hmkNode nj (hC nj hnj).1]
    exact (hfresh p hp nj.node.name hpq.symm).symm
  · rw [hmkName ni (hC ni hni).1] at hpq
    rw [hmkNode ni (hC ni hni).1]
    exact hfresh q hq ni.node.name hpq
  · rw [hmkName ni (hC ni hni).1, hmkName nj (hC nj hnj).1] at hpq
    rw [hmkNode ni (hC ni hni).1, hmkNode nj (hC nj hnj).1]
    exact hinj _ _ hpq

include hone hname hfresh hinj hmkNode hmkName hC hD in
theorem stepPods_genFresh : ∀ q ∈ stepPods E mk Ci Dp, ∀ m, gen m = q.name → m = q.nodeName := by
  intro q hq m hm
  rcases (mem_stepPods cands E mk Ci Dp hone hname hD).mp hq with ⟨hq, _⟩ | ⟨nj, hnj, rfl⟩
  · exact hfresh q hq m hm
  · rw [hmkName nj (hC nj hnj).1] at hm
    rw [hmkNode nj (hC nj hnj).1]
    exact hinj _ _ hm

include hnd hone hname hmkNode hC hCnd hD in
/-- node by node, the pod on an eligible node after the round is what the cooperative successor of
C02b (`coopUpd`) says. -/
theorem stepPods_entry {ni : NodeItem} (hni : ni ∈ cands) :
    (ni, podOn (stepPods E mk Ci Dp) ni.node.name) =
      coopUpd mk (Ci.map (·.node.name)) (Dp.map (·.1.node.name)) (ni, podOn E ni.node.name) := by
  have hone' := stepPods_onePer cands E mk Ci Dp hone hmkNode hC hCnd
  have hmem := @mem_stepPods cands E mk Ci Dp hone hname hD
  unfold coopUpd
  simp only []
  by_cases h1 : ni.node.name ∈ Ci.map (·.node.name)
  · rw [if_pos h1]
    obtain ⟨nj, hnj, hnjn⟩ := List.mem_map.mp h1
    have : nj = ni := inj_of_nodup_map _ hnd (hC nj hnj).1 hni hnjn
    subst this
    rw [podOn_eq_some hone' (hmem.mpr (Or.inr ⟨nj, hnj, rfl⟩)) (hmkNode nj hni)]
  · rw [if_neg h1]
    have hcre : ∀ nj ∈ Ci, (mk nj).nodeName ≠ ni.node.name := by
      intro nj hnj heq
      rw [hmkNode nj (hC nj hnj).1] at heq
      exact h1 (List.mem_map.mpr ⟨nj, hnj, heq⟩)
    by_cases h2 : ni.node.name ∈ Dp.map (·.1.node.name)
    · rw [if_pos h2]
      have : podOn (stepPods E mk Ci Dp) ni.node.name = none := by
        rw [podOn_none_iff]
        intro p hp hpn
        rcases hmem.mp hp with ⟨_, hk⟩ | ⟨nj, hnj, rfl⟩
        · exact hk (hpn ▸ h2)
        · exact hcre nj hnj hpn
      rw [this]
    · rw [if_neg h2]
      cases hp : podOn E ni.node.name with
      | none =>
        have : podOn (stepPods E mk Ci Dp) ni.node.name = none := by
          rw [podOn_none_iff]
          intro p hp' hpn
          rcases hmem.mp hp' with ⟨hpE, _⟩ | ⟨nj, hnj, rfl⟩
          · exact podOn_none_iff.mp hp p hpE hpn
          · exact hcre nj hnj hpn
        rw [this]
      | some p =>
        obtain ⟨hpE, hpn⟩ := podOn_some hp
        rw [podOn_eq_some hone' (hmem.mpr (Or.inl ⟨hpE, by rw [hpn]; exact h2⟩)) hpn]

end ListStep

/-! #### the step on the store -/

theorem filter_map_fix {α} (f : α → α) (q : α → Bool) (l : List α) (h1 : ∀ a ∈ l, q (f a) = q a)
    (h2 : ∀ a ∈ l, q a = true → f a = a) : (l.map f).filter q = l.filter q := by
  induction l with
  | nil => rfl
  | cons a l ih =>
    have ih := ih (fun b hb => h1 b (List.mem_cons_of_mem _ hb)) (fun b hb => h2 b (List.mem_cons_of_mem _ hb))
    rw [List.map_cons, List.filter_cons, List.filter_cons, h1 a List.mem_cons_self, ih]
    split
    · rename_i hq; rw [h2 a List.mem_cons_self hq]
    · rfl

theorem filter_swap {α} (p q : α → Bool) (l : List α) : (l.filter p).filter q = (l.filter q).filter p := by
  rw [List.filter_filter, List.filter_filter]
  congr 1
  funext a
  exact Bool.and_comm _ _

/-- a pod that is up to date on `ni` whatever `ni` is (only used to totalise `coopPodFor` below). -/
def canonPod (tg : String) (ni : NodeItem) : Pod :=
  { name := "", ns := "", labels := [],
    annotations := [⟨K.templateHashAnnot, tg⟩, ⟨K.nodeHashAnnot, ni.node.resHash⟩], owners := [],
    creation := 0, deletion := none, gracePeriod := none, nodeName := "x", affOther := "", affRequired := none,
    tolerations := [], containers := [], phase := "Running", startTime := none,
    conds := [⟨"Ready", "True", "", 0⟩], cstats := [] }

theorem canonPod_current (tg : String) (wall : Time) (ni : NodeItem) :
    classify tg wall (ni, some (canonPod tg ni)) = .upToDate true true := by
  rw [classify_settled tg wall ni (canonPod tg ni) (by show ("x" : String) ≠ ""; decide) rfl
    (by simp [canonPod, Pod.ready])]
  have : comparePod tg (canonPod tg ni) ni = true := by
    unfold comparePod compareSpecTemplateHash compareSettingOverwrite compareNodeHash canonPod
    have h1 : K.templateHashAnnot ≠ K.nodeHashAnnot := by decide
    simp [SMap.get?_cons, h1]
    split <;> simp
  rw [this]; rfl

/-- `mk` where it yields an up-to-date pod, the canonical pod elsewhere. -/
def totalise (tg : String) (wall : Time) (mk : NodeItem → Pod) (ni : NodeItem) : Pod :=
  if classify tg wall (ni, some (mk ni)) = .upToDate true true then mk ni else canonPod tg ni

theorem totalise_current (tg : String) (wall : Time) (mk : NodeItem → Pod) (ni : NodeItem) :
    classify tg wall (ni, some (totalise tg wall mk ni)) = .upToDate true true := by
  unfold totalise
  split
  · assumption
  · exact canonPod_current tg wall ni

theorem coopUpd_congr (mk mk' : NodeItem → Pod) (Cn Dn : List String) (e : Entry) (h : mk e.1 = mk' e.1) :
    coopUpd mk Cn Dn e = coopUpd mk' Cn Dn e := by
  unfold coopUpd
  rw [h]

theorem mem_createCands_storeEntries {rs : ERS} {items : List NodeItem} {E : List Pod} {ni : NodeItem}
    (h : ni ∈ createCands (storeEntries rs items E)) :
    ni ∈ fitItems rs items ∧ podOn E ni.node.name = none := by
  unfold createCands storeEntries at h
  simp only [List.mem_map, List.mem_filter] at h
  obtain ⟨e, ⟨⟨nj, hnj, rfl⟩, he⟩, rfl⟩ := h
  simp only [isEmptyE, Option.isNone_iff_eq_none] at he
  exact ⟨hnj, he⟩

theorem mem_oldCands_storeEntries {rs : ERS} {items : List NodeItem} {E : List Pod} {tg : String} {wall : Time}
    {x : NodeItem × Pod} (h : x ∈ oldCands tg wall (storeEntries rs items E)) :
    x.1 ∈ fitItems rs items ∧ podOn E x.1.node.name = some x.2 := by
  unfold oldCands storeEntries at h
  simp only [List.mem_filterMap, List.mem_map] at h
  obtain ⟨e, ⟨nj, hnj, rfl⟩, he⟩ := h
  simp only [] at he
  split at he
  · rename_i p hp
    split at he
    · simp only [Option.some.injEq] at he
      rw [← he]
      exact ⟨hnj, hp⟩
    · cases he
  · cases he

theorem createCands_names_sublist (es : List Entry) (n : Nat) :
    (((createCands es).take n).map (·.node.name)).Sublist (es.map (·.1.node.name)) := by
  have h1 : ((createCands es).take n).Sublist (createCands es) := List.take_sublist _ _
  have h2 : (createCands es).map (·.node.name) = (es.filter isEmptyE).map (·.1.node.name) := by
    unfold createCands; rw [List.map_map]; rfl
  have h3 := (List.filter_sublist (l := es) (p := isEmptyE)).map (fun e : Entry => e.1.node.name)
  exact (h2 ▸ h1.map (fun ni : NodeItem => ni.node.name)).trans h3

section StoreStep
variable {d : EDS} {rs : ERS} {aff : Bool} {gen : String → String} {items : List NodeItem} {st : ErsStore}

/-- the pods of the EDS after one cooperative round. -/
theorem coopRound_edsPods (C : CoopSetup d rs aff) (S : CoopStore d rs gen items st)
    (hK : StratOk d (fitItems rs items).length) (now : Time) (G : GateFree d rs now) :
    edsPodsOf d (coopRoundStore rs aff gen now st) =
      stepPods (edsPodsOf d st) (coopPodFor rs aff gen now)
        ((createCands (storeEntries rs items (edsPodsOf d st))).take
          (min (coopE (storeEntries rs items (edsPodsOf d st))) (mcOf d rs (fitItems rs items).length now)))
        ((oldCands rs.templateGeneration now (storeEntries rs items (edsPodsOf d st))).take
          (min (coopO rs.templateGeneration now (storeEntries rs items (edsPodsOf d st)))
            (muOf d (fitItems rs items).length - coopE (storeEntries rs items (edsPodsOf d st))))) := by
  obtain ⟨_, hcre, hdel, hclean, _⟩ := C02c_sync C S hK now G (fun _ => false)
  have hns : d.ns = rs.ns := (ersOwner_some S.owner).2.1
  have hpods : (coopRoundStore rs aff gen now st).pods =
      (st.pods.filter (fun p => !(((oldCands rs.templateGeneration now (storeEntries rs items (edsPodsOf d st))).take
          (min (coopO rs.templateGeneration now (storeEntries rs items (edsPodsOf d st)))
            (muOf d (fitItems rs items).length - coopE (storeEntries rs items (edsPodsOf d st))))).map
              (·.2.name)).contains p.name)).map (kubeletReady now) ++
      ((createCands (storeEntries rs items (edsPodsOf d st))).take
          (min (coopE (storeEntries rs items (edsPodsOf d st))) (mcOf d rs (fitItems rs items).length now))).map
        (coopPodFor rs aff gen now) := by
    unfold coopRoundStore applyPodWritesHard nameCreates
    simp only []
    rw [hcre, hdel, hclean, List.append_nil, List.map_append, List.map_map, List.map_map]
    congr 1
    rw [List.map_map]
    apply List.map_congr_left
    intro ni _
    rfl
  show (coopRoundStore rs aff gen now st).pods.filter (isEdsPod d) = _
  rw [hpods, List.filter_append]
  unfold stepPods
  congr 1
  · rw [filter_map_fix (kubeletReady now) (isEdsPod d) _ (fun a _ => kubeletReady_isEdsPod d now a)]
    · exact filter_swap _ _ _
    · intro p hp he
      have hpE : p ∈ edsPodsOf d st := List.mem_filter.mpr ⟨(List.mem_filter.mp hp).1, he⟩
      obtain ⟨hd, hph, hr, _⟩ := S.settled p hpE
      exact kubeletReady_settled now p (S.bound hpE) hd hph hr
  · rw [List.filter_eq_self]
    intro p hp
    obtain ⟨ni, hni, rfl⟩ := List.mem_map.mp hp
    have hfit := (mem_createCands_storeEntries (List.mem_of_mem_take hni)).1
    have hit := fitItems_sub hfit
    exact (coopPodFor_props C hns gen now ni (S.nodeNamed ni hit) (S.noSetting ni hit) (S.hashOk ni hit)).2.2.2.2.2.1

/-- **Part 3 — refinement.**  One cooperative round keeps the store cooperative, and acts on the
abstract counters (eligible nodes without pod, eligible nodes with an outdated pod) exactly as the
abstract round `absRound` of C02 with the `mu` and the creation cap `mc ≥ 1` the sync used. -/
theorem C02c_refines (C : CoopSetup d rs aff) (S : CoopStore d rs gen items st)
    (hK : StratOk d (fitItems rs items).length) (hinj : ∀ a b, gen a = gen b → a = b)
    (now : Time) (G : GateFree d rs now) :
    CoopStore d rs gen items (coopRoundStore rs aff gen now st) ∧
    1 ≤ mcOf d rs (fitItems rs items).length now ∧
    storeAbs d rs items (coopRoundStore rs aff gen now st) =
      absRound (muOf d (fitItems rs items).length) (mcOf d rs (fitItems rs items).length now)
        (storeAbs d rs items st) := by
  have hE' := coopRound_edsPods C S hK now G
  have hmc1 := (C02c_sync C S hK now G (fun _ => false)).1
  have hns : d.ns = rs.ns := (ersOwner_some S.owner).2.1
  generalize hnc : min (coopE (storeEntries rs items (edsPodsOf d st))) (mcOf d rs (fitItems rs items).length now)
    = nc at hE'
  generalize hndl : min (coopO rs.templateGeneration now (storeEntries rs items (edsPodsOf d st)))
    (muOf d (fitItems rs items).length - coopE (storeEntries rs items (edsPodsOf d st))) = nd at hE'
  have hprops : ∀ ni ∈ fitItems rs items, _ := fun ni hni =>
    coopPodFor_props C hns gen now ni (S.nodeNamed ni (fitItems_sub hni)) (S.noSetting ni (fitItems_sub hni))
      (S.hashOk ni (fitItems_sub hni))
  have hmkNode : ∀ ni ∈ fitItems rs items, (coopPodFor rs aff gen now ni).nodeName = ni.node.name :=
    fun ni hni => (hprops ni hni).1
  have hmkName : ∀ ni ∈ fitItems rs items, (coopPodFor rs aff gen now ni).name = gen ni.node.name :=
    fun ni hni => (hprops ni hni).2.1
  have hC : ∀ ni ∈ (createCands (storeEntries rs items (edsPodsOf d st))).take nc,
      ni ∈ fitItems rs items ∧ podOn (edsPodsOf d st) ni.node.name = none :=
    fun ni hni => mem_createCands_storeEntries (List.mem_of_mem_take hni)
  have hD : ∀ x ∈ (oldCands rs.templateGeneration now (storeEntries rs items (edsPodsOf d st))).take nd,
      x.1 ∈ fitItems rs items ∧ podOn (edsPodsOf d st) x.1.node.name = some x.2 :=
    fun x hx => mem_oldCands_storeEntries (List.mem_of_mem_take hx)
  have hnd := fitItems_names_nodup S
  have hCnd : (((createCands (storeEntries rs items (edsPodsOf d st))).take nc).map (·.node.name)).Nodup := by
    apply List.Nodup.sublist (createCands_names_sublist _ nc)
    rw [storeEntries_names]; exact hnd
  have S' : CoopStore d rs gen items (coopRoundStore rs aff gen now st) := by
    refine { owner := S.owner, hitems := S.hitems, noSetting := S.noSetting, nodesNodup := S.nodesNodup,
             nodeNamed := S.nodeNamed, hashOk := S.hashOk, settled := ?_, onePer := ?_, nameNode := ?_,
             genFresh := ?_ }
    · rw [hE']
      intro p hp
      rcases (mem_stepPods _ _ _ _ _ S.onePer S.nameNode hD).mp hp with ⟨hpE, _⟩ | ⟨ni, hni, rfl⟩
      · exact S.settled p hpE
      · have := hprops ni (hC ni hni).1
        exact ⟨this.2.2.1, this.2.2.2.1, this.2.2.2.2.1, ni, (hC ni hni).1, this.1⟩
    · rw [hE']; exact stepPods_onePer _ _ _ _ _ S.onePer hmkNode hC hCnd
    · rw [hE']; exact stepPods_nameNode _ _ gen _ _ _ S.onePer S.nameNode S.genFresh hinj hmkNode hmkName hC hD
    · rw [hE']; exact stepPods_genFresh _ _ gen _ _ _ S.onePer S.nameNode S.genFresh hinj hmkNode hmkName hC hD
  refine ⟨S', hmc1, ?_⟩
  rw [← storeEntries_abs S' now, ← storeEntries_abs S now]
  -- the new entry list is the cooperative successor of C02b
  have hes' : storeEntries rs items (edsPodsOf d (coopRoundStore rs aff gen now st)) =
      coopSucc (totalise rs.templateGeneration now (coopPodFor rs aff gen now))
        ((createCands (storeEntries rs items (edsPodsOf d st))).take nc,
         (oldCands rs.templateGeneration now (storeEntries rs items (edsPodsOf d st))).take nd)
        (storeEntries rs items (edsPodsOf d st)) := by
    rw [hE']
    show List.map _ (fitItems rs items) = List.map _ (List.map _ (fitItems rs items))
    rw [List.map_map]
    apply List.map_congr_left
    intro ni hni
    simp only [Function.comp]
    rw [stepPods_entry (fitItems rs items) (edsPodsOf d st) (coopPodFor rs aff gen now) _ _ hnd S.onePer S.nameNode
      hmkNode hC hCnd hD hni]
    apply coopUpd_congr
    simp only []
    unfold totalise
    rw [if_pos]
    rw [classify_settled _ _ _ _ (by rw [(hprops ni hni).1]; exact S.nodeNamed ni (fitItems_sub hni))
      (hprops ni hni).2.2.1 (hprops ni hni).2.2.2.2.1, (hprops ni hni).2.2.2.2.2.2]
    rfl
  have hnd' : (names (storeEntries rs items (edsPodsOf d st))).Nodup := by
    unfold names; rw [storeEntries_names]; exact hnd
  rw [hes', coopSucc_eq_step rs.templateGeneration now _ _ hnd' nc nd]
  have := coopStep_counts rs.templateGeneration now
    (totalise rs.templateGeneration now (coopPodFor rs aff gen now))
    (totalise_current rs.templateGeneration now _) (storeEntries rs items (edsPodsOf d st)) nc nd
  unfold absOf absRound
  simp only [Abs.mk.injEq]
  omega

end StoreStep

/-! ### 4. The converged store and the fixpoint -/

section Fixpoint
variable {d : EDS} {rs : ERS} {aff : Bool} {gen : String → String} {items : List NodeItem} {st : ErsStore}

theorem targeted_ersParams (C : CoopSetup d rs aff) (S : CoopStore d rs gen items st) (released : String → Bool)
    (now : Time) :
    targeted (ersParams released d rs items (ersPods d st) now) = storeEntries rs items (edsPodsOf d st) := by
  obtain ⟨hby, _, _, _, _⟩ := C02c_filter C S released now
  unfold targeted dropCanaryNodes
  rw [ersParams_canaryNodes, ersCanaryNodes_nil C, ersParams_byNode, hby]
  simp

theorem toCleanUp_ersParams (C : CoopSetup d rs aff) (S : CoopStore d rs gen items st) (released : String → Bool)
    (now : Time) : (ersParams released d rs items (ersPods d st) now).toCleanUp = [] := by
  rw [ersParams_toCleanUp]; exact (C02c_filter C S released now).2.1

/-- **The converged store.**  A cooperative store without empty eligible node and without outdated
pod: every eligible node carries exactly one pod of the EDS — live, Running, Ready, stamped with the
replica set's template generation (and passing the whole pod comparison) — and the EDS has no other pod. -/
theorem C02c_converged (S : CoopStore d rs gen items st)
    (he : emptyNodes rs items (edsPodsOf d st) = 0) (ho : outdatedNodes rs items (edsPodsOf d st) = 0) :
    (∀ ni ∈ fitItems rs items, ∃ p,
      (edsPodsOf d st).filter (fun q => q.nodeName == ni.node.name) = [p] ∧
      p.deletion = none ∧ p.phase = "Running" ∧ p.ready = true ∧
      SMap.get? p.annotations K.templateHashAnnot = some rs.templateGeneration ∧
      comparePod rs.templateGeneration p ni = true) ∧
    (∀ p ∈ edsPodsOf d st, ∃ ni ∈ fitItems rs items, p.nodeName = ni.node.name) := by
  constructor
  · intro ni hni
    unfold emptyNodes at he
    unfold outdatedNodes at ho
    rw [List.countP_eq_zero] at he ho
    have h1 := he ni hni
    have h2 := ho ni hni
    cases hp : podOn (edsPodsOf d st) ni.node.name with
    | none => rw [hp] at h1; simp at h1
    | some p =>
      rw [hp] at h2
      simp only [Bool.not_eq_true', Bool.not_eq_false] at h2
      have h2 : comparePod rs.templateGeneration p ni = true := by simpa using h2
      obtain ⟨hpE, hpn⟩ := podOn_some hp
      obtain ⟨hd, hph, hr, _⟩ := S.settled p hpE
      refine ⟨p, ?_, hd, hph, hr, ?_, h2⟩
      · apply eq_singleton_of_mem_of_length_le_one
        · exact List.mem_filter.mpr ⟨hpE, by simp [hpn]⟩
        · exact S.onePer ni.node.name
      · unfold comparePod compareSpecTemplateHash at h2
        simp only [Bool.and_eq_true, beq_iff_eq] at h2
        exact h2.1.1
  · intro p hp
    exact (S.settled p hp).2.2.2

/-- **Fixpoint.**  At a converged cooperative store a sync of the replica set — at ANY instant, with
any back-off oracle, whatever its stored status (gates firing or not) — creates nothing, deletes
nothing for updating and cleans up nothing. -/
theorem C02c_fixpoint (C : CoopSetup d rs aff) (S : CoopStore d rs gen items st)
    (he : emptyNodes rs items (edsPodsOf d st) = 0) (ho : outdatedNodes rs items (edsPodsOf d st) = 0)
    (now : Time) (released : String → Bool) :
    (reconcileErs rs st released aff now).creates = [] ∧
    (reconcileErs rs st released aff now).deletes = [] ∧
    (reconcileErs rs st released aff now).cleanupDeletes = [] := by
  rcases reconcileErs_cases rs st released aff now d S.owner with hno | ⟨items', r, adds, removes, se, st0, F⟩
  · exact ⟨hno.2.2.2.2, hno.2.2.2.1, hno.1⟩
  · have hitems : items' = items := by
      have := F.hitems; rw [S.hitems] at this; exact (Option.some.inj this).symm
    subst hitems
    have hs := F.strat
    rw [ersRole_active C] at hs
    rcases ersStrategy_active hs F.status with ⟨hm, -, -, -⟩ | ⟨-, hre, hadds, hrem, -⟩
    · have hcoop := storeEntries_coop S now
      have habs := storeEntries_abs S now
      unfold absOf storeAbs at habs
      simp only [Abs.mk.injEq] at habs
      have hall := coop_zero_all_current rs.templateGeneration now _ hcoop (by rw [habs.1, he]) (by rw [habs.2, ho])
      obtain ⟨hc, hdl⟩ := C02_fixpoint _ now now false r hm (by
        rw [targeted_ersParams C S released now]
        intro e hmem
        exact ⟨true, true, hall e hmem⟩)
      refine ⟨?_, ?_, ?_⟩
      · obtain ⟨b, hb⟩ := ersFinish_creates_eq rs (ersRole d rs.name) (ersFreq d)
          (ersParams released d rs items' (ersPods d st) now) r adds removes se st0 aff now
        rw [F.eq, hb, hc]; cases b <;> rfl
      · obtain ⟨b, hb⟩ := ersFinish_deletes_eq rs (ersRole d rs.name) (ersFreq d)
          (ersParams released d rs items' (ersPods d st) now) r adds removes se st0 aff now
        rw [F.eq, hb, hdl]; cases b <;> rfl
      · rw [F.eq, ersFinish_cleanupDeletes, manageDeployment_cleanup _ now now false r hm,
          toCleanUp_ersParams C S released now]
        rfl
    · have := ersFinish_errResult_noPodWrite rs (ersRole d rs.name) (ersFreq d)
        (ersParams released d rs items' (ersPods d st) now) (ersParams released d rs items' (ersPods d st) now)
        se st0 aff now
      rw [F.eq, hre, hadds, hrem]
      exact ⟨this.2.2.2.2, this.2.2.2.1, this.1⟩

end Fixpoint

/-! ### 5. Iterating the round: convergence -/

/-- one cooperative round on (replica set, store): the store after the round, and the replica set
with the status the sync wrote. -/
def coopRound (aff : Bool) (gen : String → String) (now : Time) (s : ERS × ErsStore) : ERS × ErsStore :=
  (nextErs s.1 aff now s.2, coopRoundStore s.1 aff gen now s.2)

/-- `k` cooperative rounds, round `i` (from 0) running at instant `clock i`. -/
def coopRun (aff : Bool) (gen : String → String) (clock : Nat → Time) : Nat → ERS × ErsStore → ERS × ErsStore
  | 0, s => s
  | k + 1, s => coopRound aff gen (clock k) (coopRun aff gen clock k s)

/-- the hypotheses do not read the replica set's status. -/
theorem CoopSetup.withStatus {d : EDS} {rs : ERS} {aff : Bool} (C : CoopSetup d rs aff) (s : ERSStatus) :
    CoopSetup d { rs with status := s } aff :=
  { defaulted := C.defaulted, active := C.active, named := C.named, noCanary := C.noCanary,
    notPaused := C.notPaused, notFrozen := C.notFrozen, noOldDs := C.noOldDs, label := C.label, affOk := C.affOk }

theorem CoopStore.withStatus {d : EDS} {rs : ERS} {gen : String → String} {items : List NodeItem} {st : ErsStore}
    (S : CoopStore d rs gen items st) (s : ERSStatus) : CoopStore d { rs with status := s } gen items st :=
  { owner := S.owner, hitems := S.hitems, noSetting := S.noSetting, nodesNodup := S.nodesNodup,
    nodeNamed := S.nodeNamed, hashOk := S.hashOk, settled := S.settled, onePer := S.onePer,
    nameNode := S.nameNode, genFresh := S.genFresh }

theorem CoopStore.ofStatus {d : EDS} {rs : ERS} {gen : String → String} {items : List NodeItem} {st : ErsStore}
    (s : ERSStatus) (S : CoopStore d { rs with status := s } gen items st) : CoopStore d rs gen items st :=
  { owner := S.owner, hitems := S.hitems, noSetting := S.noSetting, nodesNodup := S.nodesNodup,
    nodeNamed := S.nodeNamed, hashOk := S.hashOk, settled := S.settled, onePer := S.onePer,
    nameNode := S.nameNode, genFresh := S.genFresh }

theorem variant_absRound_le (mu mc : Nat) (hmu : 1 ≤ mu) (hmc : 1 ≤ mc) (s : Abs) :
    variant (absRound mu mc s) ≤ variant s - 1 := by
  unfold variant absRound
  simp only []
  omega

section Run
variable {d : EDS} {rs : ERS} {aff : Bool} {gen : String → String} {items : List NodeItem} {st : ErsStore}

/-- the invariant of the run: after `k` rounds the replica set is `rs` with a newer status, the store
is cooperative, no gate can fire at `clock k`, and the variant `2·outdated + empty` has dropped by at
least `k` (or reached 0). -/
theorem coopRun_inv (C : CoopSetup d rs aff) (S : CoopStore d rs gen items st)
    (hK : StratOk d (fitItems rs items).length) (hinj : ∀ a b, gen a = gen b → a = b)
    (clock : Nat → Time) (hclock : ∀ k, clock k + max 0 (ersFreq d) ≤ clock (k + 1))
    (G : GateFree d rs (clock 0)) (k : Nat) :
    (∃ s, (coopRun aff gen clock k (rs, st)).1 = { rs with status := s }) ∧
    CoopStore d rs gen items (coopRun aff gen clock k (rs, st)).2 ∧
    GateFree d (coopRun aff gen clock k (rs, st)).1 (clock k) ∧
    variant (storeAbs d rs items (coopRun aff gen clock k (rs, st)).2) ≤ variant (storeAbs d rs items st) - k := by
  induction k with
  | zero => exact ⟨⟨rs.status, rfl⟩, S, G, by simp [coopRun]⟩
  | succ k ih =>
    obtain ⟨⟨s, hs⟩, Sk, Gk, hv⟩ := ih
    have hrun : coopRun aff gen clock (k + 1) (rs, st) =
        coopRound aff gen (clock k) (coopRun aff gen clock k (rs, st)) := rfl
    rw [hrun]
    unfold coopRound
    simp only []
    generalize coopRun aff gen clock k (rs, st) = cur at hs Sk Gk hv
    obtain ⟨rsk, stk⟩ := cur
    simp only [] at hs Sk Gk hv ⊢
    subst hs
    have Ck := C.withStatus s
    have Sk' := Sk.withStatus s
    obtain ⟨S', hmc1, habs⟩ := C02c_refines Ck Sk' hK hinj (clock k) Gk
    have hle := (C02c_sync Ck Sk' hK (clock k) Gk (fun _ => false)).2.2.2.2
    refine ⟨⟨_, rfl⟩, CoopStore.ofStatus s S', ?_, ?_⟩
    · intro c hc
      have := hle c hc
      have := hclock k
      omega
    · have hvar := variant_absRound_le (muOf d (fitItems rs items).length)
        (mcOf d { rs with status := s } (fitItems rs items).length (clock k)) hK.mu hmc1 (storeAbs d rs items stk)
      have habs' : storeAbs d rs items (coopRoundStore { rs with status := s } aff gen (clock k) stk) =
          absRound (muOf d (fitItems rs items).length)
            (mcOf d { rs with status := s } (fitItems rs items).length (clock k)) (storeAbs d rs items stk) := habs
      rw [habs']
      omega

/-- **C02 at store level (`C02_converges_store`).**  `rs` is the active replica set of EDS `d`, no
canary in progress, not paused, not frozen (`CoopSetup`); the strategy parses with maxUnavailable ≥ 1,
additive increase ≥ 1, maxParallelPodCreation ≥ 1 (`StratOk`); the store is cooperative (`CoopStore`);
the API server names created pods injectively (`hinj`); successive rounds are at least
`max 0 reconcileFrequency` apart (`hclock`) and no gate can fire at the first one (`G`).

Then after any number `k ≥ 2·outdated + empty` of cooperative rounds (sync of `reconcileErs`, hard
application of its pod writes, cooperative kubelet; the replica-set status carried forward, the
slow-start cap recomputed from the clock at every round):

  * the store is still cooperative, no eligible node is empty, no pod is outdated;
  * every eligible node carries exactly one pod of the EDS — live, Running, Ready, stamped with
    `rs.templateGeneration` — and the EDS has no other pod;
  * a further sync, at any instant and with any back-off oracle, creates nothing, deletes nothing and
    cleans up nothing. -/
theorem C02_converges_store (C : CoopSetup d rs aff) (S : CoopStore d rs gen items st)
    (hK : StratOk d (fitItems rs items).length) (hinj : ∀ a b, gen a = gen b → a = b)
    (clock : Nat → Time) (hclock : ∀ k, clock k + max 0 (ersFreq d) ≤ clock (k + 1))
    (G : GateFree d rs (clock 0)) (k : Nat)
    (hk : 2 * outdatedNodes rs items (edsPodsOf d st) + emptyNodes rs items (edsPodsOf d st) ≤ k) :
    CoopStore d rs gen items (coopRun aff gen clock k (rs, st)).2 ∧
    emptyNodes rs items (edsPodsOf d (coopRun aff gen clock k (rs, st)).2) = 0 ∧
    outdatedNodes rs items (edsPodsOf d (coopRun aff gen clock k (rs, st)).2) = 0 ∧
    (∀ ni ∈ fitItems rs items, ∃ p,
      (edsPodsOf d (coopRun aff gen clock k (rs, st)).2).filter (fun q => q.nodeName == ni.node.name) = [p] ∧
      p.deletion = none ∧ p.phase = "Running" ∧ p.ready = true ∧
      SMap.get? p.annotations K.templateHashAnnot = some rs.templateGeneration ∧
      comparePod rs.templateGeneration p ni = true) ∧
    (∀ p ∈ edsPodsOf d (coopRun aff gen clock k (rs, st)).2, ∃ ni ∈ fitItems rs items, p.nodeName = ni.node.name) ∧
    (∀ (now : Time) (released : String → Bool),
      (reconcileErs (coopRun aff gen clock k (rs, st)).1 (coopRun aff gen clock k (rs, st)).2 released aff now).creates = [] ∧
      (reconcileErs (coopRun aff gen clock k (rs, st)).1 (coopRun aff gen clock k (rs, st)).2 released aff now).deletes = [] ∧
      (reconcileErs (coopRun aff gen clock k (rs, st)).1 (coopRun aff gen clock k (rs, st)).2 released aff now).cleanupDeletes = []) := by
  obtain ⟨⟨s, hs⟩, Sk, _, hv⟩ := coopRun_inv C S hK hinj clock hclock G k
  have hv0 : variant (storeAbs d rs items st) =
      2 * outdatedNodes rs items (edsPodsOf d st) + emptyNodes rs items (edsPodsOf d st) := rfl
  have hvk : variant (storeAbs d rs items (coopRun aff gen clock k (rs, st)).2) =
      2 * outdatedNodes rs items (edsPodsOf d (coopRun aff gen clock k (rs, st)).2) +
        emptyNodes rs items (edsPodsOf d (coopRun aff gen clock k (rs, st)).2) := rfl
  have he : emptyNodes rs items (edsPodsOf d (coopRun aff gen clock k (rs, st)).2) = 0 := by omega
  have ho : outdatedNodes rs items (edsPodsOf d (coopRun aff gen clock k (rs, st)).2) = 0 := by omega
  obtain ⟨h1, h2⟩ := C02c_converged Sk he ho
  refine ⟨Sk, he, ho, h1, h2, ?_⟩
  intro now released
  rw [hs]
  exact C02c_fixpoint (C.withStatus s) (Sk.withStatus s) he ho now released

/-- the "within" form: some number of rounds `k ≤ 2·outdated + empty` reaches the converged store. -/
theorem C02_converges_store_within (C : CoopSetup d rs aff) (S : CoopStore d rs gen items st)
    (hK : StratOk d (fitItems rs items).length) (hinj : ∀ a b, gen a = gen b → a = b)
    (clock : Nat → Time) (hclock : ∀ k, clock k + max 0 (ersFreq d) ≤ clock (k + 1))
    (G : GateFree d rs (clock 0)) :
    ∃ k, k ≤ 2 * outdatedNodes rs items (edsPodsOf d st) + emptyNodes rs items (edsPodsOf d st) ∧
      emptyNodes rs items (edsPodsOf d (coopRun aff gen clock k (rs, st)).2) = 0 ∧
      outdatedNodes rs items (edsPodsOf d (coopRun aff gen clock k (rs, st)).2) = 0 :=
  ⟨_, Nat.le_refl _, (C02_converges_store C S hK hinj clock hclock G _ (Nat.le_refl _)).2.1,
    (C02_converges_store C S hK hinj clock hclock G _ (Nat.le_refl _)).2.2.1⟩

end Run

/-! ### 6. The strategy hypotheses from the spec values -/

/-- a non-negative number or percentage. -/
def nonnegBudget (x : Option IntOrStr) : Bool :=
  match x with
  | some v => (v.kind == "int" || v.kind == "pct") && decide (0 ≤ v.val)
  | none => false

theorem resolve_of_positive (x : Option IntOrStr) (N : Int) (hx : Spec.C02.positiveBudget x = true) (hN : 1 ≤ N) :
    ∃ mu, resolveIntOrPercent x N = some mu ∧ 1 ≤ mu := by
  have hres : ∃ mu, resolveIntOrPercent x N = some mu := by
    cases x with
    | none => simp [Spec.C02.positiveBudget] at hx
    | some v =>
      simp only [Spec.C02.positiveBudget, Bool.and_eq_true, Bool.or_eq_true, beq_iff_eq] at hx
      unfold resolveIntOrPercent
      simp only []
      rcases hx.1 with h | h
      · exact ⟨v.val, by simp [h]⟩
      · by_cases h' : v.kind = "int"
        · exact ⟨v.val, by simp [h']⟩
        · exact ⟨ceilDiv100 (v.val * N), by simp [h]⟩
  obtain ⟨mu, hmu⟩ := hres
  exact ⟨mu, hmu, C02_budget_positive x N mu hx hN hmu⟩

theorem resolve_of_nonneg (x : Option IntOrStr) (N : Int) (hx : nonnegBudget x = true) (hN : 0 ≤ N) :
    ∃ ms, resolveIntOrPercent x N = some ms ∧ 0 ≤ ms := by
  cases x with
  | none => simp [nonnegBudget] at hx
  | some v =>
    simp only [nonnegBudget, Bool.and_eq_true, Bool.or_eq_true, beq_iff_eq, decide_eq_true_eq] at hx
    unfold resolveIntOrPercent
    simp only []
    by_cases h' : v.kind = "int"
    · exact ⟨v.val, by simp [h'], hx.2⟩
    · have hp : v.kind = "pct" := by
        rcases hx.1 with h | h
        · exact absurd h h'
        · exact h
      refine ⟨ceilDiv100 (v.val * N), by simp [hp], ?_⟩
      unfold ceilDiv100
      have := Int.mul_nonneg hx.2 hN
      omega

/-- **`StratOk` from the spec**: on at least one eligible node, a positive `maxUnavailable` (number or
percentage), a positive `slowStartAdditiveIncrease`, `maxParallelPodCreation ≥ 1` and a non-negative
`maxPodSchedulerFailure` satisfy the strategy hypotheses.  (With `"int"` values `N` plays no role.) -/
theorem StratOk.of_spec (d : EDS) (N : Nat) (hN : 1 ≤ N)
    (hmu : Spec.C02.positiveBudget d.strategy.rollingUpdate.maxUnavailable = true)
    (hinc : Spec.C02.positiveBudget d.strategy.rollingUpdate.slowStartAdditiveIncrease = true)
    (hmp : 1 ≤ d.strategy.rollingUpdate.maxParallelPodCreation.getD 0)
    (hms : nonnegBudget d.strategy.rollingUpdate.maxPodSchedulerFailure = true) : StratOk d N := by
  obtain ⟨mu, h1, h2⟩ := resolve_of_positive _ (N : Int) hmu (by omega)
  obtain ⟨inc, h3, h4⟩ := resolve_of_positive _ (N : Int) hinc (by omega)
  refine { mu := ?_, inc := ?_, mp := hmp, ms := resolve_of_nonneg _ (N : Int) hms (by omega) }
  · unfold muOf; rw [h1]; simp only [Option.getD_some]; omega
  · rw [h3]; exact h4

/-! ### 7. Non-vacuity: a two-node store, three rounds

EDS `d` (namespace `ns`, defaulted, reconcile frequency 10 s, maxUnavailable 1, slow start 5 / minute,
at most 250 parallel creations), no canary, active replica set `d-new` (template generation `new`);
eligible nodes `n1`, `n2`; `n1` runs the Ready pod `old-1` of generation `old`, `n2` is empty:
`outdated = 1`, `empty = 1`, bound `2·1 + 1 = 3`.  Affinity mode; rounds 10 s apart. -/

def exEds02c : EDS := exEds04 false
def exRs02c : ERS := exErs04 "d-new" "new"
def exSt02c : ErsStore := exStore04 [exPod04 "old-1" "n1" "d-old" "old"] false
def exItems02c : List NodeItem := [exNode01 "n1", exNode01 "n2"]
def exGen02c (n : String) : String := "d-new-" ++ n
def exClock02c (k : Nat) : Time := (k : Int) * (10 * sec)

theorem exGen02c_inj : ∀ a b, exGen02c a = exGen02c b → a = b :=
  fun _ _ h => (String.append_right_inj "d-new-").mp h

theorem onePerNode_of_nodup {E : List Pod} (h : (E.map (·.nodeName)).Nodup) : OnePerNode E :=
  fun n => nodup_filter_eq_length_le (fun p : Pod => p.nodeName) n E h

theorem exSetup02c : CoopSetup exEds02c exRs02c true where
  defaulted := by decide
  active := by decide
  named := by decide
  noCanary := by decide
  notPaused := by decide
  notFrozen := by decide
  noOldDs := by decide
  label := by decide
  affOk := by decide

theorem exStratOk02c : StratOk exEds02c (fitItems exRs02c exItems02c).length :=
  StratOk.of_spec _ _ (by decide) (by decide) (by decide) (by decide) (by decide)

theorem exPods02c : edsPodsOf exEds02c exSt02c = [exPod04 "old-1" "n1" "d-old" "old"] := by decide

theorem exStore02c : CoopStore exEds02c exRs02c exGen02c exItems02c exSt02c where
  owner := by decide
  hitems := by decide
  noSetting := by decide
  nodesNodup := by decide
  nodeNamed := by decide
  hashOk := by decide
  settled := by rw [exPods02c]; decide
  onePer := by rw [exPods02c]; exact onePerNode_of_nodup (by decide)
  nameNode := by rw [exPods02c]; decide
  genFresh := by
    rw [exPods02c]
    intro q hq m hm
    rw [List.mem_singleton.mp hq] at hm ⊢
    exfalso
    have h2 := congrArg String.toList hm
    unfold exGen02c at h2
    rw [String.toList_append] at h2
    have h3 := congrArg List.head? h2
    have e1 : "d-new-".toList = ['d', '-', 'n', 'e', 'w', '-'] := by decide
    have e2 : (exPod04 "old-1" "n1" "d-old" "old").name.toList = ['o', 'l', 'd', '-', '1'] := by decide
    rw [e1, e2] at h3
    simp at h3

theorem exClock02c_ok : ∀ k, exClock02c k + max 0 (ersFreq exEds02c) ≤ exClock02c (k + 1) := by
  intro k
  have : ersFreq exEds02c = 10 * sec := by decide
  rw [this]
  unfold exClock02c sec
  push_cast
  omega

theorem exGate02c : GateFree exEds02c exRs02c (exClock02c 0) := by
  intro c hc
  cases hc

/-- the hypotheses of `C02_converges_store` hold for the example; its conclusion after 3 rounds. -/
example :
    emptyNodes exRs02c exItems02c (edsPodsOf exEds02c (coopRun true exGen02c exClock02c 3 (exRs02c, exSt02c)).2) = 0 ∧
    outdatedNodes exRs02c exItems02c (edsPodsOf exEds02c (coopRun true exGen02c exClock02c 3 (exRs02c, exSt02c)).2) = 0 :=
  let h := C02_converges_store exSetup02c exStore02c exStratOk02c exGen02c_inj exClock02c exClock02c_ok exGate02c 3
    (by decide)
  ⟨h.2.1, h.2.2.1⟩

/-- the abstract counters of the example: one outdated node, one empty node. -/
example : storeAbs exEds02c exRs02c exItems02c exSt02c = ⟨1, 1⟩ := by decide

/-- pods of the store as (name, node, template hash, Ready). -/
def podView02c (s : ERS × ErsStore) : List (String × String × Option String × Bool) :=
  s.2.pods.map (fun p => (p.name, p.nodeName, SMap.get? p.annotations K.templateHashAnnot, p.ready))

/-- a checked run: round 1 creates on `n2` (maxUnavailable 1 is used up by the empty node, no deletion),
round 2 deletes `old-1`, round 3 creates on `n1`; round 4 changes nothing. -/
example : podView02c (coopRun true exGen02c exClock02c 1 (exRs02c, exSt02c)) =
    [("old-1", "n1", some "old", true), ("d-new-n2", "n2", some "new", true)] := by decide
example : podView02c (coopRun true exGen02c exClock02c 2 (exRs02c, exSt02c)) =
    [("d-new-n2", "n2", some "new", true)] := by decide

example : podView02c (coopRun true exGen02c exClock02c 3 (exRs02c, exSt02c)) =
    [("d-new-n2", "n2", some "new", true), ("d-new-n1", "n1", some "new", true)] := by decide
example : podView02c (coopRun true exGen02c exClock02c 4 (exRs02c, exSt02c)) =
    podView02c (coopRun true exGen02c exClock02c 3 (exRs02c, exSt02c)) := by decide
/-- the bound is attained: after 2 rounds the store has not converged yet. -/
example : storeAbs exEds02c exRs02c exItems02c (coopRun true exGen02c exClock02c 2 (exRs02c, exSt02c)).2 = ⟨1, 0⟩ := by
  decide
/-- node-name mode converges to the same pods. -/
example : podView02c (coopRun false exGen02c exClock02c 3 (exRs02c, exSt02c)) =
    [("d-new-n2", "n2", some "new", true), ("d-new-n1", "n1", some "new", true)] := by decide
/-- at the converged store the sync writes no pod (here at the next round's instant and 1 ns later). -/
example : (reconcileErs (coopRun true exGen02c exClock02c 3 (exRs02c, exSt02c)).1
      (coopRun true exGen02c exClock02c 3 (exRs02c, exSt02c)).2 (fun _ => false) true (exClock02c 3)).noPodWrite ∧
    (reconcileErs (coopRun true exGen02c exClock02c 3 (exRs02c, exSt02c)).1
      (coopRun true exGen02c exClock02c 3 (exRs02c, exSt02c)).2 (fun _ => true) true (exClock02c 3 + 1)).noPodWrite := by
  decide
/-- why the clock matters: run the second round only 1 s after the first — the LastFullSync gate fires,
the round writes nothing and the store stays where it was. -/
example : podView02c (coopRound true exGen02c (1 * sec) (coopRun true exGen02c exClock02c 1 (exRs02c, exSt02c))) =
    podView02c (coopRun true exGen02c exClock02c 1 (exRs02c, exSt02c)) := by decide

end Eds
