import EdsModel
import EdsProofs.FactsBridge
import EdsProofs.ReconcileEds
/-
  C12 — An ExtendedDaemonSet only ever touches its own objects.
-/
namespace Eds
open Generated

/-- **List sites are scoped** (obligation on the facts extracted from the Go source on this run):
every `client.List` of replica sets, pods or settings in the four controllers carries a namespace
option; only node lists (cluster-scoped objects) do not. -/
theorem C12_lists_scoped :
    Facts.listSites.all (fun s => s.2.2.1 == "NodeList" || s.2.2.2.1) = true := by decide

/-- the extractor still sees every list site the model accounts for (a site it silently stops
seeing would weaken the obligation above). -/
theorem C12_list_sites_known :
    Facts.listSites.map (fun s => (s.1, s.2.1, s.2.2.1)) = [
      ("controllers/extendeddaemonset/controller.go", "Reconcile", "ExtendedDaemonSetReplicaSetList"),
      ("controllers/extendeddaemonset/controller.go", "selectNodes", "PodList"),
      ("controllers/extendeddaemonset/controller.go", "selectNodes", "NodeList"),
      ("controllers/extendeddaemonset/controller.go", "countTargetedNodes", "NodeList"),
      ("controllers/extendeddaemonsetreplicaset/controller.go", "getExtendedDaemonsetSettings", "ExtendedDaemonsetSettingList"),
      ("controllers/extendeddaemonsetreplicaset/controller.go", "getPodList", "PodList"),
      ("controllers/extendeddaemonsetreplicaset/controller.go", "getNodeList", "NodeList"),
      ("controllers/extendeddaemonsetreplicaset/controller.go", "getOldDaemonsetPodList", "PodList"),
      ("controllers/extendeddaemonsetreplicaset/strategy/rollingupdate.go", "ManageDeployment", "PodList"),
      ("controllers/extendeddaemonsetsetting/controller.go", "Reconcile", "ExtendedDaemonsetSettingList"),
      ("controllers/extendeddaemonsetsetting/controller.go", "Reconcile", "NodeList")] := by decide

/-- **Deletes are owned**: every replica set the reconcile deletes is in the EDS's namespace and
carries its name label. -/
theorem C12_deletes_owned (d : EDS) (all : List ERS) (pods : List Pod) (nodes : List Node) (now : Time) (m : String)
    (nm : String) (h : nm ∈ (reconcileEds d all pods nodes now m).deletedErs) :
    ∃ e ∈ all, e.name = nm ∧ e.ns = d.ns ∧ SMap.get? e.labels K.edsNameLabel = some d.name := by
  unfold reconcileEds at h
  split at h
  · simp at h
  · split at h
    · simp at h
    · split at h
      · simp at h
      · rw [edsMain_deleted] at h
        unfold cleanupTargetsERS at h
        simp only [List.mem_map, List.mem_filter] at h
        obtain ⟨e, ⟨he, _⟩, rfl⟩ := h
        unfold ownErs at he
        simp only [List.mem_filter, Bool.and_eq_true, beq_iff_eq] at he
        exact ⟨e, he.1, rfl, he.2.1, he.2.2⟩

/-- **Creates are owned**: a created replica set lives in the EDS's namespace, carries its name
label (even if the EDS's own labels define that key) and is owned by it. -/
theorem C12_create_owned (d : EDS) (all : List ERS) (pods : List Pod) (nodes : List Node) (now : Time) (m : String)
    (n : NewErs) (h : (reconcileEds d all pods nodes now m).created = some n) :
    n.ns = d.ns ∧ n.ownerEds = d.name ∧ n.generateName = d.name ++ "-" := by
  unfold reconcileEds at h
  split at h
  · simp at h
  · split at h
    · simp at h
    · split at h
      · simp only [Option.some.injEq] at h
        subst h
        simp [newReplicaSetFromInstance]
      · rw [edsMain_created] at h
        simp at h

end Eds
