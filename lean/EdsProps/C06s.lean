import EdsProofs.BridgeStatus
import EdsProps.C06
/-
  EdsProps.C06s — C06 stated directly about the Lean definition that the translator regenerates from
  `manageCanaryPodFailures` (strategy/canary.go) on every run (EdsModel/Generated/DecStatus.lean), obtained by
  transporting the model-level theorems of EdsProps/C06.lean along `Bridge.src_manageCanaryPodFailures`.
  These are statements about what the code says *now*: `none` is a Go panic.

  Setting of every theorem (what `manageCanaryStatus` passes): non-nil pods `gs` with `Go.lastStateWF` container
  statuses, `ms` their canonical forms (`Bridge.PodsRel`), `params` with a non-nil `Strategy`, a `result` whose
  `FailedReason` is empty and whose `NewStatus` is a non-nil object of its own.
-/
namespace Eds
open Spec.C06

namespace Src
export Eds.Generated.Decisions (manageCanaryPodFailures)
end Src

section
variable (gs : List GPod) (ms : List Pod) (hrel : Bridge.PodsRel gs ms) (hwf : ∀ g ∈ gs, Bridge.podLastStatesWF g)
  (strat : Strategy) (pst st : ERSStatus) (R R' : GResult) (hst : R.newStatus = some st) (hfr : R.failedReason = "")
  (now : Time) (ape : Bool) (apm : Int) (slow : Option Dur) (afe : Bool) (afm : Int) (mrd cto : Option Dur)

include hrel hwf hst hfr

/-- the translated function returns exactly when the model does, with the model's flags and status. -/
theorem C06_src_model
    (h : Src.manageCanaryPodFailures (gs.map some) (some { strategy := some strat, newStatus := some pst }) (some R) now =
      some (some R')) :
    ∃ s st', Eds.manageCanaryPodFailures ms strat.canary pst st R.isFailed R.isPaused R.pausedReason R.isUnpaused now =
        some (s, st') ∧
      R'.isFailed = s.isFailed ∧ R'.failedReason = s.failedReason ∧ R'.isPaused = s.isPaused ∧
      R'.pausedReason = s.pausedReason ∧ R'.newStatus = some st' ∧ R'.isUnpaused = R.isUnpaused ∧ R'.isFrozen = R.isFrozen := by
  rw [show Src.manageCanaryPodFailures = Generated.Decisions.manageCanaryPodFailures from rfl,
    Bridge.src_manageCanaryPodFailures gs ms hrel hwf strat pst st R hst hfr now] at h
  cases hm : Eds.manageCanaryPodFailures ms strat.canary pst st R.isFailed R.isPaused R.pausedReason R.isUnpaused now with
  | none => rw [hm] at h; cases h
  | some v =>
    obtain ⟨s, st'⟩ := v
    rw [hm] at h
    simp only [Option.some.injEq] at h
    subst h
    exact ⟨s, st', rfl, rfl, rfl, rfl, rfl, rfl, rfl, rfl⟩

/-- a nil dereference of the translated function is a `none` of the model (and conversely). -/
theorem C06_src_panics_iff :
    Src.manageCanaryPodFailures (gs.map some) (some { strategy := some strat, newStatus := some pst }) (some R) now = none ↔
      Eds.manageCanaryPodFailures ms strat.canary pst st R.isFailed R.isPaused R.pausedReason R.isUnpaused now = none := by
  rw [show Src.manageCanaryPodFailures = Generated.Decisions.manageCanaryPodFailures from rfl,
    Bridge.src_manageCanaryPodFailures gs ms hrel hwf strat pst st R hst hfr now]
  cases Eds.manageCanaryPodFailures ms strat.canary pst st R.isFailed R.isPaused R.pausedReason R.isUnpaused now with
  | none => simp
  | some v => obtain ⟨s, st'⟩ := v; simp

/-- **Failed ⇔ trigger**, about the code. -/
theorem C06_src_failed_iff
    (hd : canaryDerefs strat.canary = some (ape, apm, slow, afe, afm, mrd, cto))
    (h : Src.manageCanaryPodFailures (gs.map some) (some { strategy := some strat, newStatus := some pst }) (some R) now =
      some (some R')) :
    R'.isFailed =
      expectFailed
        { autoPauseEnabled := ape, autoPauseMaxRestarts := apm, maxSlowStart := slow, autoFailEnabled := afe,
          autoFailMaxRestarts := afm, maxRestartsDuration := mrd, canaryTimeout := cto }
        R.isFailed
        ((findCond pst.conds "PodRestarting").map (fun rc => rc.lastUpdate - rc.lastTransition))
        ((findCond st.conds "Canary").map (fun c => now - c.lastTransition))
        ms := by
  obtain ⟨s, st', hm, hf, _⟩ := C06_src_model gs ms hrel hwf strat pst st R R' hst hfr now h
  rw [hf]
  exact C06_failed_iff ms strat.canary pst st st' R.isFailed R.isPaused R.pausedReason R.isUnpaused now s
    ape apm slow afe afm mrd cto hd hm

/-- **Failed is sticky**, about the code. -/
theorem C06_src_failed_sticky
    (h : Src.manageCanaryPodFailures (gs.map some) (some { strategy := some strat, newStatus := some pst }) (some R) now =
      some (some R'))
    (hf : R.isFailed = true) : R'.isFailed = true := by
  obtain ⟨s, st', hm, hf', _⟩ := C06_src_model gs ms hrel hwf strat pst st R R' hst hfr now h
  rw [hf']
  cases hd : canaryDerefs strat.canary with
  | none => unfold Eds.manageCanaryPodFailures at hm; rw [hd] at hm; exact absurd hm (by simp)
  | some v =>
    obtain ⟨ape, apm, slow, afe, afm, mrd, cto⟩ := v
    exact C06_failed_sticky ms strat.canary pst st st' R.isFailed R.isPaused R.pausedReason R.isUnpaused now s
      ape apm slow afe afm mrd cto hd hm hf

/-- **Paused ⇔ trigger** while not failed (any number of pods), about the code. -/
theorem C06_src_paused_iff
    (hd : canaryDerefs strat.canary = some (ape, apm, slow, afe, afm, mrd, cto))
    (h : Src.manageCanaryPodFailures (gs.map some) (some { strategy := some strat, newStatus := some pst }) (some R) now =
      some (some R'))
    (hnf : R'.isFailed = false) :
    R'.isPaused =
      expectPaused
        { autoPauseEnabled := ape, autoPauseMaxRestarts := apm, maxSlowStart := slow, autoFailEnabled := afe,
          autoFailMaxRestarts := afm, maxRestartsDuration := mrd, canaryTimeout := cto }
        R.isPaused R.isUnpaused now ms := by
  obtain ⟨s, st', hm, hf, _, hp, _⟩ := C06_src_model gs ms hrel hwf strat pst st R R' hst hfr now h
  rw [hp]
  rw [hf] at hnf
  exact C06_paused_iff_any_length ms strat.canary pst st st' R.isFailed R.isPaused R.pausedReason R.isUnpaused now s
    ape apm slow afe afm mrd cto hd hm hnf

/-- the Canary-Failed / Canary-Paused conditions the code writes carry the flags it returns. -/
theorem C06_src_conditions_written
    (h : Src.manageCanaryPodFailures (gs.map some) (some { strategy := some strat, newStatus := some pst }) (some R) now =
      some (some R')) :
    ∃ st', R'.newStatus = some st' ∧
      isCondTrue st'.conds "Canary-Failed" = R'.isFailed ∧
      isCondTrue st'.conds "Canary-Paused" = R'.isPaused := by
  obtain ⟨s, st', hm, hf, _, hp, _, hn, _⟩ := C06_src_model gs ms hrel hwf strat pst st R R' hst hfr now h
  refine ⟨st', hn, ?_, ?_⟩
  · rw [hf]
    exact C06_condition_failed_written ms strat.canary pst st st' R.isFailed R.isPaused R.pausedReason R.isUnpaused now s hm
  · rw [hp]
    exact C06_condition_paused_written ms strat.canary pst st st' R.isFailed R.isPaused R.pausedReason R.isUnpaused now s hm

end
end Eds
