import EdsProofs.C11c
import EdsProps.C11
import EdsProps.C11b
import EdsProps.L3Live
/-
  C11c — RECOVERY after faults as a theorem (property C11: "… Subsequent failure-free reconciliation then converges
  to the same final pods and status as the run without the failure").

  EdsProps/C11.lean and the `_faults` / `_stepF` theorems of EdsProps/L3.lean prove SAFETY under dropped writes;
  EdsProps/C11b.lean proves that the fixpoint is unique; EdsProps/C02c.lean proves convergence WITHOUT faults from any
  cooperative store.  This file closes the triangle: faulty cooperative rounds keep the cooperative-store invariant and
  never increase the measure, hence fault-free rounds afterwards converge — to the fixpoint of the fault-free run.
  Helpers: EdsProofs/C11c.lean (`stepPods_counts`: the counters after ANY set of creations / deletions).

  Definitions
    `coopRoundStoreF f rs aff gen t st`   the faulty cooperative round on the store: the sync `reconcileErs` at `t`, of
                               which only the writes `maskErs f` lets through are applied (ANY subset of the planned
                               creations — by node —, update deletions and clean-up deletions — by pod name —; hard
                               deletion, generated names), then the cooperative instantaneous kubelet of C02c
    `nextErsF`, `coopRoundF`   the replica set after it (status write applied iff `f.ersStatus`), the round on both
    `stopFaults`               nothing is applied: the process stopped before its first write
    `plannedCreates`, `plannedDeletes`, `appliedCreates`, `appliedDeletes`   the plan of the ungated sync and what `f` lets through
    `storeMeasure`             `2·outdated + empty` (= `variant (storeAbs …)` of C02c)
    `coopRunF`, `recoverRun`   `n` faulty rounds (pattern `fs i` at `clock i`); … followed by `k` fault-free rounds
    `NoCanaryLabel`            no pod of the EDS carries the canary label (needed for `Quiescent` of C11b only)
    `convergedCounters N`      (N, N, N, N, 0)
    `coopOpsF`, `coopRunOpsF`, `coopRunWF`   faulty rounds as `runF` of the cluster machine (`stepF`)
  Theorems (all at full strength except the one marked FALSE)
    1  `coopRoundF_ok`, `coopRunF_ok`, `C11c_answer_lost`    `f = {}` is the fault-free round / run of C02c
       `C11c_stopped_round`, `_pods`                         `stopFaults`: the kubelet alone; EDS pods, replica set unchanged
       `C11c_gated_round_stutters`                           a round held back by the LastFullSync gate is a stutter step
    2  `C11c_round`, `C11c_faulty_round_keeps_coop`          a faulty round keeps ALL of `CoopStore`; nodes, EDS objects,
                                                             settings, template unchanged; the next spaced round is ungated
                                                             whether the status write was applied or dropped
    3  `C11c_measure_exact`, `C11c_measure_monotone`, `C11c_measure_progress`
                                                             measure' + #applied creations + #applied deletions = measure
    4  `coopRunF_inv`, `C11c_recovers_store` (`_bound`)      n faulty rounds, then k ≥ measure-after-faults fault-free rounds
                                                             ⟹ the conclusion of `C02_converges_store`
       `quiescent_of_converged`, `C11c_recovered_quiescent`  the recovered store is `Quiescent` (C11b)
       `C11c_same_fixpoint`, `C11c_same_as_fault_free`       with `C11_fixpoint_unique`: same (node, hash) multiset, same
                                                             counters, no pod write — as the run without failure
       `C11c_counters_explicit`, `C11c_recovered_counters`   the next ungated sync reports (N, N, N, N, 0), whatever
                                                             statuses were written or dropped on the way
       `C11c_same_pod_list` — FALSE (`C11c_same_pod_list_false`, by `decide`); `C11c_same_pod_list_partial`
    5  `coopRoundF_sim`, `coopRunWF_sim`                     faulty rounds of the cluster machine = faulty rounds here
       `C11c_cluster_recovers`                               `LiveOn` ⟹ n faulty + k fault-free rounds ⟹ `ClusterConverged`
       `C11c_recovers_after_promotion`, `C11c_recovers_after_rollback`   … after a FAULTY daemonset reconcile (deletions
                                                             dropped; the dropped spec write of `L3Live_rollback_pending`)
    6  examples at the end: three nodes, a dropped creation, a dropped deletion + status write; bounds attained

  What survives a dropped write: EVERYTHING `C02_converges_store` needs.  In particular a dropped STATUS write does not
  gate the next round: the stored conditions are then older than the ones the sync would have written (`nextErsF_gateFree`).
  What does not hold is progress at an arbitrary instant: a retry less than `reconcileFrequency` after an APPLIED status
  write is held back by the gate (stutter, `C11c_gated_round_stutters`; example at the end) — the rounds of a run are
  therefore `max 0 reconcileFrequency` apart, as in C02c.

  Simplifications (beyond those of C02c, all explicit):
    * fault kinds: "call rejected", "process stopped before / after the j-th write" and "answer lost" all leave a SUBSET
      of the planned writes applied; the pattern `f : Faults` says which (it describes what was applied, not what was
      reported).  Every subset is allowed — an over-approximation of the Go code, which stops at the first error;
    * label patches are not applied at store level (as in C02c: they touch the canary label only, which no component
      of `CoopStore` or of the measure reads); `Quiescent` of C11b does read it, hence `NoCanaryLabel` (start store) and
      "the template does not carry the canary label" (`hT`) in the fixpoint theorems.  At cluster level `stepF` applies the
      label patches `f` lets through and the cooperative kubelet op overwrites the pod list (as in L3Live);
    * a fresh controller instance = the empty back-off oracle `fun _ => false` every round uses.
-/
namespace Eds
open Spec.C03 Cluster

/-! ### 1. The faulty cooperative round -/

/-- **One faulty cooperative round on the store**: the sync of `rs` at `now`; of its writes only those the fault
pattern `f` lets through (`maskErs f`: any subset of the creations — by node name —, of the update and clean-up
deletions — by pod name —) are applied "hard", created pods under their generated names; then the cooperative
kubelet.  `f = {}` is `coopRoundStore` of C02c. -/
def coopRoundStoreF (f : Faults) (rs : ERS) (aff : Bool) (gen : String → String) (now : Time) (st : ErsStore) :
    ErsStore :=
  let w := nameCreates gen (maskErs f (reconcileErs rs st (fun _ => false) aff now))
  { st with pods := (applyPodWritesHard w st.pods).map (kubeletReady now) }

/-- the replica set after the faulty sync: the status it wrote is carried forward iff `f.ersStatus`. -/
def nextErsF (f : Faults) (rs : ERS) (aff : Bool) (now : Time) (st : ErsStore) : ERS :=
  { rs with status := ((maskErs f (reconcileErs rs st (fun _ => false) aff now)).statusUpdate).getD rs.status }

/-- one faulty cooperative round on (replica set, store). -/
def coopRoundF (f : Faults) (aff : Bool) (gen : String → String) (now : Time) (s : ERS × ErsStore) : ERS × ErsStore :=
  (nextErsF f s.1 aff now s.2, coopRoundStoreF f s.1 aff gen now s.2)

/-- **the process stopped** before the first write of the reconcile: nothing is applied. -/
def stopFaults : Faults :=
  { edsDefaulted := false, ersCreate := false, ersDelete := fun _ => false, edsStatus := false, edsSpec := false,
    podDelete := fun _ => false, podLabel := fun _ => false, podCreate := fun _ => false, ersStatus := false }

theorem coopRoundStoreF_ok (rs : ERS) (aff : Bool) (gen : String → String) (now : Time) (st : ErsStore) :
    coopRoundStoreF {} rs aff gen now st = coopRoundStore rs aff gen now st := by
  unfold coopRoundStoreF coopRoundStore
  rw [maskErs_ok]

theorem nextErsF_ok (rs : ERS) (aff : Bool) (now : Time) (st : ErsStore) :
    nextErsF {} rs aff now st = nextErs rs aff now st := by
  unfold nextErsF nextErs
  rw [maskErs_ok]

theorem coopRoundF_ok (aff : Bool) (gen : String → String) (now : Time) (s : ERS × ErsStore) :
    coopRoundF {} aff gen now s = coopRound aff gen now s := by
  unfold coopRoundF coopRound
  rw [coopRoundStoreF_ok, nextErsF_ok]

/-- the creations the ungated sync plans on a cooperative store: the first `min e mc` empty eligible nodes. -/
def plannedCreates (d : EDS) (rs : ERS) (items : List NodeItem) (st : ErsStore) (now : Time) : List NodeItem :=
  (createCands (storeEntries rs items (edsPodsOf d st))).take
    (min (coopE (storeEntries rs items (edsPodsOf d st))) (mcOf d rs (fitItems rs items).length now))

/-- the update deletions it plans: the first `min o (mu − e)` outdated pods. -/
def plannedDeletes (d : EDS) (rs : ERS) (items : List NodeItem) (st : ErsStore) (now : Time) : List (NodeItem × Pod) :=
  (oldCands rs.templateGeneration now (storeEntries rs items (edsPodsOf d st))).take
    (min (coopO rs.templateGeneration now (storeEntries rs items (edsPodsOf d st)))
      (muOf d (fitItems rs items).length - coopE (storeEntries rs items (edsPodsOf d st))))

/-- … of which the fault pattern lets these through. -/
def appliedCreates (f : Faults) (d : EDS) (rs : ERS) (items : List NodeItem) (st : ErsStore) (now : Time) :
    List NodeItem :=
  (plannedCreates d rs items st now).filter (fun ni => f.podCreate ni.node.name)

def appliedDeletes (f : Faults) (d : EDS) (rs : ERS) (items : List NodeItem) (st : ErsStore) (now : Time) :
    List (NodeItem × Pod) :=
  (plannedDeletes d rs items st now).filter (fun x => f.podDelete x.2.name)

section Step
variable {d : EDS} {rs : ERS} {aff : Bool} {gen : String → String} {items : List NodeItem} {st : ErsStore}

/-- the writes of the masked sync, spelled out. -/
theorem maskedSync (C : CoopSetup d rs aff) (S : CoopStore d rs gen items st)
    (hK : StratOk d (fitItems rs items).length) (now : Time) (G : GateFree d rs now) (f : Faults) :
    (maskErs f (reconcileErs rs st (fun _ => false) aff now)).creates =
      (appliedCreates f d rs items st now).map (createdFor rs aff) ∧
    (maskErs f (reconcileErs rs st (fun _ => false) aff now)).deletes =
      (appliedDeletes f d rs items st now).map (·.2.name) ∧
    (maskErs f (reconcileErs rs st (fun _ => false) aff now)).cleanupDeletes = [] := by
  obtain ⟨_, hcre, hdel, hclean, _⟩ := C02c_sync C S hK now G (fun _ => false)
  unfold maskErs appliedCreates appliedDeletes plannedCreates plannedDeletes
  simp only []
  rw [hcre, hdel, hclean, List.filter_map, List.filter_map]
  exact ⟨rfl, rfl, rfl⟩

/-- the pods of the EDS after one faulty cooperative round. -/
theorem coopRoundF_edsPods (C : CoopSetup d rs aff) (S : CoopStore d rs gen items st)
    (hK : StratOk d (fitItems rs items).length) (now : Time) (G : GateFree d rs now) (f : Faults) :
    edsPodsOf d (coopRoundStoreF f rs aff gen now st) =
      stepPods (edsPodsOf d st) (coopPodFor rs aff gen now) (appliedCreates f d rs items st now)
        (appliedDeletes f d rs items st now) := by
  obtain ⟨hcre, hdel, hclean⟩ := maskedSync C S hK now G f
  have hns : d.ns = rs.ns := (ersOwner_some S.owner).2.1
  have hpods : (coopRoundStoreF f rs aff gen now st).pods =
      (st.pods.filter (fun p => !((appliedDeletes f d rs items st now).map (·.2.name)).contains p.name)).map
        (kubeletReady now) ++
      (appliedCreates f d rs items st now).map (coopPodFor rs aff gen now) := by
    unfold coopRoundStoreF applyPodWritesHard nameCreates
    simp only []
    rw [hcre, hdel, hclean, List.append_nil, List.map_append, List.map_map, List.map_map]
    congr 1
    rw [List.map_map]
    apply List.map_congr_left
    intro ni _
    rfl
  show (coopRoundStoreF f rs aff gen now st).pods.filter (isEdsPod d) = _
  rw [hpods, List.filter_append]
  unfold stepPods
  congr 1
  · rw [filter_map_fix (kubeletReady now) (isEdsPod d) _ (fun a _ => kubeletReady_isEdsPod d now a)]
    · exact filter_swap _ _ _
    · intro p hp he
      have hpE : p ∈ edsPodsOf d st := List.mem_filter.mpr ⟨(List.mem_filter.mp hp).1, he⟩
      obtain ⟨hd, hph, hr, _⟩ := S.settled p hpE
      exact kubeletReady_settled now p (S.bound hpE) hd hph hr
  · rw [List.filter_eq_self]
    intro p hp
    obtain ⟨ni, hni, rfl⟩ := List.mem_map.mp hp
    have hfit := (mem_createCands_storeEntries (List.mem_of_mem_take (List.mem_filter.mp hni).1)).1
    have hit := fitItems_sub hfit
    exact (coopPodFor_props C hns gen now ni (S.nodeNamed ni hit) (S.noSetting ni hit) (S.hashOk ni hit)).2.2.2.2.2.1

/-- the hypotheses of the list-level step lemmas (C02c `stepPods_*`, `stepPods_counts`) for the applied writes. -/
theorem applied_facts (S : CoopStore d rs gen items st) (now : Time) (f : Faults) :
    (∀ ni ∈ appliedCreates f d rs items st now,
      ni ∈ fitItems rs items ∧ podOn (edsPodsOf d st) ni.node.name = none) ∧
    ((appliedCreates f d rs items st now).map (·.node.name)).Sublist ((fitItems rs items).map (·.node.name)) ∧
    (∀ x ∈ appliedDeletes f d rs items st now, x.1 ∈ fitItems rs items ∧
      podOn (edsPodsOf d st) x.1.node.name = some x.2 ∧ comparePod rs.templateGeneration x.2 x.1 = false) ∧
    ((appliedDeletes f d rs items st now).map (·.1.node.name)).Sublist ((fitItems rs items).map (·.node.name)) := by
  refine ⟨?_, ?_, ?_, ?_⟩
  · intro ni hni
    exact mem_createCands_storeEntries (List.mem_of_mem_take (List.mem_filter.mp hni).1)
  · have h1 := (List.filter_sublist (l := plannedCreates d rs items st now)
      (p := fun ni => f.podCreate ni.node.name)).map (fun ni : NodeItem => ni.node.name)
    have h2 := createCands_names_sublist (storeEntries rs items (edsPodsOf d st))
      (min (coopE (storeEntries rs items (edsPodsOf d st))) (mcOf d rs (fitItems rs items).length now))
    rw [storeEntries_names] at h2
    exact h1.trans h2
  · intro x hx
    exact mem_oldCands_storeEntries_old S (List.mem_of_mem_take (List.mem_filter.mp hx).1)
  · have h1 := ((List.filter_sublist (l := plannedDeletes d rs items st now)
      (p := fun x => f.podDelete x.2.name)).trans (List.take_sublist _ _)).map
        (fun x : NodeItem × Pod => x.1.node.name)
    have h2 := oldCands_names_sublist rs.templateGeneration now (storeEntries rs items (edsPodsOf d st))
    rw [storeEntries_names] at h2
    exact h1.trans h2

/-- **One faulty cooperative round** (no gate firing), whatever the fault pattern `f`:
  * the store stays cooperative — EVERY component of `CoopStore` survives;
  * `empty' + #applied creations = empty + #applied deletions` and `outdated' + #applied deletions = outdated`. -/
theorem C11c_round (C : CoopSetup d rs aff) (S : CoopStore d rs gen items st)
    (hK : StratOk d (fitItems rs items).length) (hinj : ∀ a b, gen a = gen b → a = b)
    (now : Time) (G : GateFree d rs now) (f : Faults) :
    CoopStore d rs gen items (coopRoundStoreF f rs aff gen now st) ∧
    emptyNodes rs items (edsPodsOf d (coopRoundStoreF f rs aff gen now st)) +
        (appliedCreates f d rs items st now).length =
      emptyNodes rs items (edsPodsOf d st) + (appliedDeletes f d rs items st now).length ∧
    outdatedNodes rs items (edsPodsOf d (coopRoundStoreF f rs aff gen now st)) +
        (appliedDeletes f d rs items st now).length = outdatedNodes rs items (edsPodsOf d st) := by
  have hE' := coopRoundF_edsPods C S hK now G f
  have hns : d.ns = rs.ns := (ersOwner_some S.owner).2.1
  obtain ⟨hC, hCs, hD, hDs⟩ := applied_facts S now f
  have hnd := fitItems_names_nodup S
  have hCnd := List.Nodup.sublist hCs hnd
  have hD' : ∀ x ∈ appliedDeletes f d rs items st now,
      x.1 ∈ fitItems rs items ∧ podOn (edsPodsOf d st) x.1.node.name = some x.2 :=
    fun x hx => ⟨(hD x hx).1, (hD x hx).2.1⟩
  have hprops : ∀ ni ∈ fitItems rs items, _ := fun ni hni =>
    coopPodFor_props C hns gen now ni (S.nodeNamed ni (fitItems_sub hni)) (S.noSetting ni (fitItems_sub hni))
      (S.hashOk ni (fitItems_sub hni))
  have hmkNode : ∀ ni ∈ fitItems rs items, (coopPodFor rs aff gen now ni).nodeName = ni.node.name :=
    fun ni hni => (hprops ni hni).1
  have hmkName : ∀ ni ∈ fitItems rs items, (coopPodFor rs aff gen now ni).name = gen ni.node.name :=
    fun ni hni => (hprops ni hni).2.1
  have hmkCur : ∀ ni ∈ fitItems rs items,
      comparePod rs.templateGeneration (coopPodFor rs aff gen now ni) ni = true :=
    fun ni hni => (hprops ni hni).2.2.2.2.2.2
  refine ⟨?_, ?_⟩
  · refine { owner := S.owner, hitems := S.hitems, noSetting := S.noSetting, nodesNodup := S.nodesNodup,
             nodeNamed := S.nodeNamed, hashOk := S.hashOk, settled := ?_, onePer := ?_, nameNode := ?_,
             genFresh := ?_ }
    · rw [hE']
      intro p hp
      rcases (mem_stepPods _ _ _ _ _ S.onePer S.nameNode hD').mp hp with ⟨hpE, _⟩ | ⟨ni, hni, rfl⟩
      · exact S.settled p hpE
      · have := hprops ni (hC ni hni).1
        exact ⟨this.2.2.1, this.2.2.2.1, this.2.2.2.2.1, ni, (hC ni hni).1, this.1⟩
    · rw [hE']; exact stepPods_onePer _ _ _ _ _ S.onePer hmkNode hC hCnd
    · rw [hE']; exact stepPods_nameNode _ _ gen _ _ _ S.onePer S.nameNode S.genFresh hinj hmkNode hmkName hC hD'
    · rw [hE']; exact stepPods_genFresh _ _ gen _ _ _ S.onePer S.nameNode S.genFresh hinj hmkNode hmkName hC hD'
  · rw [hE']
    exact stepPods_counts S _ _ _ hmkNode hmkCur hC hCs hD hDs

/-- what the round does to the replica-set object: only its status may change, and the new status cannot gate
a round that runs at least `max 0 reconcileFrequency` later — whether the status write was applied (every
condition is stamped at or before `now`) or dropped (the stored conditions are older still). -/
theorem nextErsF_gateFree (C : CoopSetup d rs aff) (S : CoopStore d rs gen items st)
    (hK : StratOk d (fitItems rs items).length) (now : Time) (G : GateFree d rs now) (f : Faults)
    (t : Time) (ht : now + max 0 (ersFreq d) ≤ t) :
    (∃ s, nextErsF f rs aff now st = { rs with status := s }) ∧ GateFree d (nextErsF f rs aff now st) t := by
  refine ⟨⟨_, rfl⟩, ?_⟩
  have hle := (C02c_sync C S hK now G (fun _ => false)).2.2.2.2
  intro c hc
  unfold nextErsF maskErs at hc
  simp only [] at hc
  cases hf : f.ersStatus with
  | true =>
    rw [hf] at hc
    simp only [if_true] at hc
    have := hle c hc
    omega
  | false =>
    rw [hf] at hc
    simp only [Bool.false_eq_true, if_false, Option.getD_none] at hc
    have := G c hc
    omega

end Step

/-! ### 2. The named one-round theorems -/

section Named
variable {d : EDS} {rs : ERS} {aff : Bool} {gen : String → String} {items : List NodeItem} {st : ErsStore}

/-- the measure of C02: `2·outdated + empty`. -/
def storeMeasure (d : EDS) (rs : ERS) (items : List NodeItem) (st : ErsStore) : Nat :=
  2 * outdatedNodes rs items (edsPodsOf d st) + emptyNodes rs items (edsPodsOf d st)

theorem storeMeasure_eq_variant (d : EDS) (rs : ERS) (items : List NodeItem) (st : ErsStore) :
    storeMeasure d rs items st = variant (storeAbs d rs items st) := rfl

/-- **`C11c_faulty_round_keeps_coop`.**  A faulty cooperative round — ANY subset of the planned pod creations and
deletions applied, the status write applied or not — run when no gate can fire:
  * keeps the store cooperative: ALL ten components of `CoopStore` survive (no weaker variant is needed);
  * leaves the nodes, the EDS objects (spec and status), the settings and the DaemonSets of the store as they are;
  * changes nothing of the replica set but its status (name, labels, template, template generation unchanged);
  * cannot gate a later round: `GateFree` holds again at every instant `t ≥ now + max 0 reconcileFrequency`
    — a DROPPED status write leaves conditions that are older than the written ones, not newer, so it gates nothing. -/
theorem C11c_faulty_round_keeps_coop (C : CoopSetup d rs aff) (S : CoopStore d rs gen items st)
    (hK : StratOk d (fitItems rs items).length) (hinj : ∀ a b, gen a = gen b → a = b)
    (now : Time) (G : GateFree d rs now) (f : Faults) :
    CoopStore d rs gen items (coopRoundStoreF f rs aff gen now st) ∧
    (coopRoundStoreF f rs aff gen now st).nodes = st.nodes ∧
    (coopRoundStoreF f rs aff gen now st).edss = st.edss ∧
    (coopRoundStoreF f rs aff gen now st).settings = st.settings ∧
    (coopRoundStoreF f rs aff gen now st).daemonsets = st.daemonsets ∧
    (∃ s, nextErsF f rs aff now st = { rs with status := s }) ∧
    (nextErsF f rs aff now st).template = rs.template ∧
    (nextErsF f rs aff now st).templateGeneration = rs.templateGeneration ∧
    (∀ t, now + max 0 (ersFreq d) ≤ t → GateFree d (nextErsF f rs aff now st) t) :=
  ⟨(C11c_round C S hK hinj now G f).1, rfl, rfl, rfl, rfl, ⟨_, rfl⟩, rfl, rfl,
    fun t ht => (nextErsF_gateFree C S hK now G f t ht).2⟩

/-- **`C11c_measure_exact`.**  The measure drops by exactly the number of APPLIED creations and deletions. -/
theorem C11c_measure_exact (C : CoopSetup d rs aff) (S : CoopStore d rs gen items st)
    (hK : StratOk d (fitItems rs items).length) (hinj : ∀ a b, gen a = gen b → a = b)
    (now : Time) (G : GateFree d rs now) (f : Faults) :
    storeMeasure d rs items (coopRoundStoreF f rs aff gen now st) +
      ((maskErs f (reconcileErs rs st (fun _ => false) aff now)).creates.length +
       (maskErs f (reconcileErs rs st (fun _ => false) aff now)).deletes.length) = storeMeasure d rs items st := by
  obtain ⟨_, h1, h2⟩ := C11c_round C S hK hinj now G f
  obtain ⟨hc, hd, _⟩ := maskedSync C S hK now G f
  rw [hc, hd, List.length_map, List.length_map]
  unfold storeMeasure
  omega

/-- **`C11c_measure_monotone`.**  The measure `2·outdated + empty` never increases in a faulty round; it is
unchanged when no creation and no deletion is applied. -/
theorem C11c_measure_monotone (C : CoopSetup d rs aff) (S : CoopStore d rs gen items st)
    (hK : StratOk d (fitItems rs items).length) (hinj : ∀ a b, gen a = gen b → a = b)
    (now : Time) (G : GateFree d rs now) (f : Faults) :
    storeMeasure d rs items (coopRoundStoreF f rs aff gen now st) ≤ storeMeasure d rs items st ∧
    ((maskErs f (reconcileErs rs st (fun _ => false) aff now)).creates = [] →
     (maskErs f (reconcileErs rs st (fun _ => false) aff now)).deletes = [] →
      storeMeasure d rs items (coopRoundStoreF f rs aff gen now st) = storeMeasure d rs items st) := by
  have h := C11c_measure_exact C S hK hinj now G f
  refine ⟨by omega, fun h1 h2 => ?_⟩
  rw [h1, h2] at h
  simpa using h

/-- and it drops by at least one in a round that loses no pod write (C02: `variant_absRound_le`). -/
theorem C11c_measure_progress (C : CoopSetup d rs aff) (S : CoopStore d rs gen items st)
    (hK : StratOk d (fitItems rs items).length) (hinj : ∀ a b, gen a = gen b → a = b)
    (now : Time) (G : GateFree d rs now) :
    storeMeasure d rs items (coopRoundStoreF {} rs aff gen now st) ≤ storeMeasure d rs items st - 1 := by
  rw [coopRoundStoreF_ok]
  obtain ⟨_, hmc1, habs⟩ := C02c_refines C S hK hinj now G
  rw [storeMeasure_eq_variant, storeMeasure_eq_variant, habs]
  exact variant_absRound_le _ _ hK.mu hmc1 _

/-! #### the process stops; the answer is lost -/

theorem maskErs_stop (w : ErsWrites) :
    (maskErs stopFaults w).creates = [] ∧ (maskErs stopFaults w).deletes = [] ∧
    (maskErs stopFaults w).cleanupDeletes = [] ∧ (maskErs stopFaults w).labelAdds = [] ∧
    (maskErs stopFaults w).labelRemoves = [] ∧ (maskErs stopFaults w).statusUpdate = none := by
  simp [maskErs, stopFaults]

/-- **the process stops before its first write**: the round is the kubelet alone, the replica set is untouched. -/
theorem C11c_stopped_round (rs : ERS) (aff : Bool) (gen : String → String) (now : Time) (st : ErsStore) :
    coopRoundStoreF stopFaults rs aff gen now st = { st with pods := st.pods.map (kubeletReady now) } ∧
    nextErsF stopFaults rs aff now st = rs := by
  obtain ⟨h1, h2, h3, _, _, h6⟩ := maskErs_stop (reconcileErs rs st (fun _ => false) aff now)
  constructor
  · unfold coopRoundStoreF applyPodWritesHard nameCreates
    simp only []
    rw [h1, h2, h3]
    have : st.pods.filter (fun _ => true) = st.pods := List.filter_eq_self.mpr (fun _ _ => rfl)
    simp [this]
  · unfold nextErsF
    rw [h6]
    rfl

/-- … on a cooperative store it leaves the pods of the EDS — hence the counters — as they are. -/
theorem C11c_stopped_round_pods (S : CoopStore d rs gen items st) (now : Time) :
    edsPodsOf d (coopRoundStoreF stopFaults rs aff gen now st) = edsPodsOf d st := by
  rw [(C11c_stopped_round rs aff gen now st).1]
  show (st.pods.map (kubeletReady now)).filter (isEdsPod d) = st.pods.filter (isEdsPod d)
  apply filter_map_fix (kubeletReady now) (isEdsPod d) _ (fun a _ => kubeletReady_isEdsPod d now a)
  intro p hp he
  have hpE : p ∈ edsPodsOf d st := List.mem_filter.mpr ⟨hp, he⟩
  obtain ⟨hd, hph, hr, _⟩ := S.settled p hpE
  exact kubeletReady_settled now p (S.bound hpE) hd hph hr

/-- **the answer is lost**: a call that was applied although the client saw an error has the store effect of the
applied call — the fault pattern describes what was APPLIED, not what was reported.  In particular when every
call is applied and every answer lost the round is the fault-free round. -/
theorem C11c_answer_lost (aff : Bool) (gen : String → String) (now : Time) (s : ERS × ErsStore) :
    coopRoundF {} aff gen now s = coopRound aff gen now s := coopRoundF_ok aff gen now s

end Named

/-! ### 3. Runs: faulty rounds, then fault-free rounds -/

/-- `n` cooperative rounds, round `i` (from 0) at instant `clock i` under the fault pattern `fs i`. -/
def coopRunF (aff : Bool) (gen : String → String) (fs : Nat → Faults) (clock : Nat → Time) :
    Nat → ERS × ErsStore → ERS × ErsStore
  | 0, s => s
  | n + 1, s => coopRoundF (fs n) aff gen (clock n) (coopRunF aff gen fs clock n s)

theorem coopRunF_ok (aff : Bool) (gen : String → String) (clock : Nat → Time) (n : Nat) (s : ERS × ErsStore) :
    coopRunF aff gen (fun _ => {}) clock n s = coopRun aff gen clock n s := by
  induction n with
  | zero => rfl
  | succ n ih =>
    show coopRoundF {} aff gen (clock n) (coopRunF aff gen (fun _ => {}) clock n s) = coopRound aff gen (clock n) _
    rw [ih, coopRoundF_ok]

/-- the faulted run followed by `k` fault-free rounds (the clock goes on: round `n + i` at `clock (n + i)`). -/
def recoverRun (aff : Bool) (gen : String → String) (fs : Nat → Faults) (clock : Nat → Time) (n k : Nat)
    (s : ERS × ErsStore) : ERS × ErsStore :=
  coopRun aff gen (fun i => clock (n + i)) k (coopRunF aff gen fs clock n s)

section Run
variable {d : EDS} {rs : ERS} {aff : Bool} {gen : String → String} {items : List NodeItem} {st : ErsStore}

/-- **the invariant of a faulted run**: after `n` faulty rounds the replica set is `rs` with another status, the
store is cooperative, no gate can fire at `clock n`, and the measure has not grown. -/
theorem coopRunF_inv (C : CoopSetup d rs aff) (S : CoopStore d rs gen items st)
    (hK : StratOk d (fitItems rs items).length) (hinj : ∀ a b, gen a = gen b → a = b)
    (fs : Nat → Faults) (clock : Nat → Time) (hclock : ∀ k, clock k + max 0 (ersFreq d) ≤ clock (k + 1))
    (G : GateFree d rs (clock 0)) (n : Nat) :
    (∃ s, (coopRunF aff gen fs clock n (rs, st)).1 = { rs with status := s }) ∧
    CoopStore d rs gen items (coopRunF aff gen fs clock n (rs, st)).2 ∧
    GateFree d (coopRunF aff gen fs clock n (rs, st)).1 (clock n) ∧
    storeMeasure d rs items (coopRunF aff gen fs clock n (rs, st)).2 ≤ storeMeasure d rs items st := by
  induction n with
  | zero => exact ⟨⟨rs.status, rfl⟩, S, G, Nat.le_refl _⟩
  | succ n ih =>
    obtain ⟨⟨s, hs⟩, Sn, Gn, hv⟩ := ih
    have hrun : coopRunF aff gen fs clock (n + 1) (rs, st) =
        coopRoundF (fs n) aff gen (clock n) (coopRunF aff gen fs clock n (rs, st)) := rfl
    rw [hrun]
    unfold coopRoundF
    simp only []
    generalize coopRunF aff gen fs clock n (rs, st) = cur at hs Sn Gn hv
    obtain ⟨rsn, stn⟩ := cur
    simp only [] at hs Sn Gn hv ⊢
    subst hs
    have Cn := C.withStatus s
    have Sn' := Sn.withStatus s
    obtain ⟨S', _⟩ := C11c_round Cn Sn' hK hinj (clock n) Gn (fs n)
    obtain ⟨_, hG⟩ := nextErsF_gateFree Cn Sn' hK (clock n) Gn (fs n) (clock (n + 1)) (hclock n)
    have hm := (C11c_measure_monotone Cn Sn' hK hinj (clock n) Gn (fs n)).1
    refine ⟨⟨_, rfl⟩, CoopStore.ofStatus s S', hG, ?_⟩
    exact Nat.le_trans hm hv

/-- **`C11c_recovers_store`.**  `rs` is the active replica set of EDS `d`, no canary in progress (`CoopSetup`), the
strategy parses (`StratOk`), the store is cooperative (`CoopStore`), the name generator is injective; rounds are
at least `max 0 reconcileFrequency` apart and no gate can fire at the first one.

Run ANY number `n` of faulty rounds under ARBITRARY fault patterns `fs 0 … fs (n-1)` (any subset of the planned
pod creations / deletions applied, the status write applied or not, the process stopped, answers lost), then
`k ≥ 2·outdated + empty` fault-free rounds, the measure being taken AFTER the faults.  Then the conclusion of
`C02_converges_store` holds: the store is cooperative, no eligible node is empty, no pod is outdated, every
eligible node carries exactly one pod of the EDS — live, Running, Ready, stamped with `rs.templateGeneration` —
the EDS has no other pod, and a further sync (any instant, any back-off oracle) writes no pod. -/
theorem C11c_recovers_store (C : CoopSetup d rs aff) (S : CoopStore d rs gen items st)
    (hK : StratOk d (fitItems rs items).length) (hinj : ∀ a b, gen a = gen b → a = b)
    (fs : Nat → Faults) (clock : Nat → Time) (hclock : ∀ k, clock k + max 0 (ersFreq d) ≤ clock (k + 1))
    (G : GateFree d rs (clock 0)) (n k : Nat)
    (hk : storeMeasure d rs items (coopRunF aff gen fs clock n (rs, st)).2 ≤ k) :
    CoopStore d rs gen items (recoverRun aff gen fs clock n k (rs, st)).2 ∧
    emptyNodes rs items (edsPodsOf d (recoverRun aff gen fs clock n k (rs, st)).2) = 0 ∧
    outdatedNodes rs items (edsPodsOf d (recoverRun aff gen fs clock n k (rs, st)).2) = 0 ∧
    (∀ ni ∈ fitItems rs items, ∃ p,
      (edsPodsOf d (recoverRun aff gen fs clock n k (rs, st)).2).filter (fun q => q.nodeName == ni.node.name) = [p] ∧
      p.deletion = none ∧ p.phase = "Running" ∧ p.ready = true ∧
      SMap.get? p.annotations K.templateHashAnnot = some rs.templateGeneration ∧
      comparePod rs.templateGeneration p ni = true) ∧
    (∀ p ∈ edsPodsOf d (recoverRun aff gen fs clock n k (rs, st)).2, ∃ ni ∈ fitItems rs items, p.nodeName = ni.node.name) ∧
    (∀ (now : Time) (released : String → Bool),
      (reconcileErs (recoverRun aff gen fs clock n k (rs, st)).1 (recoverRun aff gen fs clock n k (rs, st)).2
        released aff now).creates = [] ∧
      (reconcileErs (recoverRun aff gen fs clock n k (rs, st)).1 (recoverRun aff gen fs clock n k (rs, st)).2
        released aff now).deletes = [] ∧
      (reconcileErs (recoverRun aff gen fs clock n k (rs, st)).1 (recoverRun aff gen fs clock n k (rs, st)).2
        released aff now).cleanupDeletes = []) ∧
    (∃ s, (recoverRun aff gen fs clock n k (rs, st)).1 = { rs with status := s }) := by
  obtain ⟨⟨s, hs⟩, Sn, Gn, _⟩ := coopRunF_inv C S hK hinj fs clock hclock G n
  unfold recoverRun
  generalize coopRunF aff gen fs clock n (rs, st) = cur at hs Sn Gn hk
  obtain ⟨rsn, stn⟩ := cur
  simp only [] at hs Sn Gn hk
  subst hs
  have hclock' : ∀ i, (fun i => clock (n + i)) i + max 0 (ersFreq d) ≤ (fun i => clock (n + i)) (i + 1) :=
    fun i => hclock (n + i)
  obtain ⟨h1, h2, h3, h4, h5, h6⟩ := C02_converges_store (C.withStatus s) (Sn.withStatus s) hK hinj
    (fun i => clock (n + i)) hclock' Gn k hk
  obtain ⟨⟨s', hs'⟩, _⟩ := coopRun_inv (C.withStatus s) (Sn.withStatus s) hK hinj
    (fun i => clock (n + i)) hclock' Gn k
  exact ⟨CoopStore.ofStatus s h1, h2, h3, h4, h5, h6, ⟨s', hs'⟩⟩

/-- the same with the bound taken BEFORE the faults (the measure does not grow under faults). -/
theorem C11c_recovers_store_bound (C : CoopSetup d rs aff) (S : CoopStore d rs gen items st)
    (hK : StratOk d (fitItems rs items).length) (hinj : ∀ a b, gen a = gen b → a = b)
    (fs : Nat → Faults) (clock : Nat → Time) (hclock : ∀ k, clock k + max 0 (ersFreq d) ≤ clock (k + 1))
    (G : GateFree d rs (clock 0)) (n k : Nat) (hk : storeMeasure d rs items st ≤ k) :
    CoopStore d rs gen items (recoverRun aff gen fs clock n k (rs, st)).2 ∧
    emptyNodes rs items (edsPodsOf d (recoverRun aff gen fs clock n k (rs, st)).2) = 0 ∧
    outdatedNodes rs items (edsPodsOf d (recoverRun aff gen fs clock n k (rs, st)).2) = 0 := by
  have hm := (coopRunF_inv C S hK hinj fs clock hclock G n).2.2.2
  obtain ⟨h1, h2, h3, _⟩ := C11c_recovers_store C S hK hinj fs clock hclock G n k (Nat.le_trans hm hk)
  exact ⟨h1, h2, h3⟩

end Run

/-! ### 4. The same fixpoint -/

/-- no pod of the EDS carries the canary label (the store-level round does not model label patches: the
label-removal patches of the active role only concern pods that still carry it). -/
def NoCanaryLabel (d : EDS) (st : ErsStore) : Prop :=
  ∀ p ∈ edsPodsOf d st, SMap.get? p.labels K.canaryLabel ≠ some "true"

theorem kubeletReady_labels (now : Time) (p : Pod) : (kubeletReady now p).labels = p.labels := by
  unfold kubeletReady
  split <;> rfl

/-- a created pod carries the canary label only if the template does. -/
theorem coopPodFor_canaryLabel (rs : ERS) (aff : Bool) (gen : String → String) (now : Time) (ni : NodeItem)
    (hs : ni.setting = none) :
    SMap.get? (coopPodFor rs aff gen now ni).labels K.canaryLabel = SMap.get? rs.template.labels K.canaryLabel := by
  unfold coopPodFor
  rw [kubeletReady_labels, hs]
  show SMap.get? (SMap.set (SMap.set _ _ _) _ _) _ = _
  rw [SMap.get?_set_other _ _ _ _ (by decide), SMap.get?_set_other _ _ _ _ (by decide)]

section Fix
variable {d : EDS} {rs : ERS} {aff : Bool} {gen : String → String} {items : List NodeItem} {st : ErsStore}

theorem C11c_round_noCanaryLabel (C : CoopSetup d rs aff) (S : CoopStore d rs gen items st)
    (hK : StratOk d (fitItems rs items).length) (now : Time) (G : GateFree d rs now) (f : Faults)
    (hT : SMap.get? rs.template.labels K.canaryLabel ≠ some "true") (L : NoCanaryLabel d st) :
    NoCanaryLabel d (coopRoundStoreF f rs aff gen now st) := by
  intro p hp
  rw [coopRoundF_edsPods C S hK now G f] at hp
  obtain ⟨hC, _, hD, _⟩ := applied_facts S now f
  have hD' : ∀ x ∈ appliedDeletes f d rs items st now,
      x.1 ∈ fitItems rs items ∧ podOn (edsPodsOf d st) x.1.node.name = some x.2 :=
    fun x hx => ⟨(hD x hx).1, (hD x hx).2.1⟩
  rcases (mem_stepPods (fitItems rs items) _ _ _ _ S.onePer S.nameNode hD').mp hp with ⟨hpE, _⟩ | ⟨ni, hni, rfl⟩
  · exact L p hpE
  · rw [coopPodFor_canaryLabel rs aff gen now ni (S.noSetting ni (fitItems_sub (hC ni hni).1))]
    exact hT

theorem coopRunF_noCanaryLabel (C : CoopSetup d rs aff) (S : CoopStore d rs gen items st)
    (hK : StratOk d (fitItems rs items).length) (hinj : ∀ a b, gen a = gen b → a = b)
    (fs : Nat → Faults) (clock : Nat → Time) (hclock : ∀ k, clock k + max 0 (ersFreq d) ≤ clock (k + 1))
    (G : GateFree d rs (clock 0))
    (hT : SMap.get? rs.template.labels K.canaryLabel ≠ some "true") (L : NoCanaryLabel d st) (n : Nat) :
    NoCanaryLabel d (coopRunF aff gen fs clock n (rs, st)).2 := by
  induction n with
  | zero => exact L
  | succ n ih =>
    obtain ⟨⟨s, hs⟩, Sn, Gn, _⟩ := coopRunF_inv C S hK hinj fs clock hclock G n
    have hrun : coopRunF aff gen fs clock (n + 1) (rs, st) =
        coopRoundF (fs n) aff gen (clock n) (coopRunF aff gen fs clock n (rs, st)) := rfl
    rw [hrun]
    unfold coopRoundF
    simp only []
    generalize coopRunF aff gen fs clock n (rs, st) = cur at hs Sn Gn ih
    obtain ⟨rsn, stn⟩ := cur
    simp only [] at hs Sn Gn ih ⊢
    subst hs
    exact C11c_round_noCanaryLabel (C.withStatus s) (Sn.withStatus s) hK (clock n) Gn (fs n) hT ih

theorem recoverRun_noCanaryLabel (C : CoopSetup d rs aff) (S : CoopStore d rs gen items st)
    (hK : StratOk d (fitItems rs items).length) (hinj : ∀ a b, gen a = gen b → a = b)
    (fs : Nat → Faults) (clock : Nat → Time) (hclock : ∀ k, clock k + max 0 (ersFreq d) ≤ clock (k + 1))
    (G : GateFree d rs (clock 0))
    (hT : SMap.get? rs.template.labels K.canaryLabel ≠ some "true") (L : NoCanaryLabel d st) (n k : Nat) :
    NoCanaryLabel d (recoverRun aff gen fs clock n k (rs, st)).2 := by
  obtain ⟨⟨s, hs⟩, Sn, Gn, _⟩ := coopRunF_inv C S hK hinj fs clock hclock G n
  have Ln := coopRunF_noCanaryLabel C S hK hinj fs clock hclock G hT L n
  unfold recoverRun
  rw [← coopRunF_ok]
  generalize coopRunF aff gen fs clock n (rs, st) = cur at hs Sn Gn Ln
  obtain ⟨rsn, stn⟩ := cur
  simp only [] at hs Sn Gn Ln
  subst hs
  exact coopRunF_noCanaryLabel (C.withStatus s) (Sn.withStatus s) hK hinj (fun _ => {}) (fun i => clock (n + i))
    (fun i => hclock (n + i)) Gn hT Ln k

/-- **a converged cooperative store is quiescent** in the sense of C11b (`QuiescentAt`), provided no pod of the
EDS carries the canary label. -/
theorem quiescent_of_converged (C : CoopSetup d rs aff) (S : CoopStore d rs gen items st)
    (he : emptyNodes rs items (edsPodsOf d st) = 0) (ho : outdatedNodes rs items (edsPodsOf d st) = 0)
    (L : NoCanaryLabel d st) : QuiescentAt d rs st items := by
  obtain ⟨h1, _⟩ := C02c_converged S he ho
  have hfit : ∀ ni ∈ items, fit rs.template ni.node = true → ni ∈ fitItems rs items := by
    intro ni hni hf
    unfold fitItems
    rw [candidates_nil_eq]
    exact List.mem_filter.mpr ⟨hni, hf⟩
  exact
    { owner := S.owner
      defaulted := C.defaulted
      active := ersRole_active C
      noCanary := C.noCanary
      listed := S.hitems
      nodeNames := items_names_nodup S
      onePod := by
        intro ni hni hf
        obtain ⟨p, hp, _⟩ := h1 ni (hfit ni hni hf)
        rw [ersPods_eq C, hp]
        rfl
      podOk := by
        intro p hp
        rw [ersPods_eq C] at hp
        obtain ⟨hd, hph, hr, ni, hni, hn⟩ := S.settled p hp
        obtain ⟨q, hq, _, _, _, _, hcmp⟩ := h1 ni hni
        have hmem : p ∈ (edsPodsOf d st).filter (fun q => q.nodeName == ni.node.name) :=
          List.mem_filter.mpr ⟨hp, by simp [hn]⟩
        rw [hq, List.mem_singleton] at hmem
        subst hmem
        have hni' := hni
        unfold fitItems at hni'
        rw [candidates_nil_eq] at hni'
        obtain ⟨hi, hf⟩ := List.mem_filter.mp hni'
        exact ⟨S.bound hp, hd, hph, hr, L p hp, ni, hi, hn.symm, hf, hcmp⟩ }

/-- the run never touches the nodes of the store. -/
theorem coopRunF_nodes (aff : Bool) (gen : String → String) (fs : Nat → Faults) (clock : Nat → Time) (n : Nat)
    (s : ERS × ErsStore) : (coopRunF aff gen fs clock n s).2.nodes = s.2.nodes := by
  induction n with
  | zero => rfl
  | succ n ih => exact ih

theorem recoverRun_nodes (aff : Bool) (gen : String → String) (fs : Nat → Faults) (clock : Nat → Time) (n k : Nat)
    (s : ERS × ErsStore) : (recoverRun aff gen fs clock n k s).2.nodes = s.2.nodes := by
  unfold recoverRun
  rw [← coopRunF_ok, coopRunF_nodes, coopRunF_nodes]

/-- **the recovered store is quiescent** for the replica set whatever status it carries. -/
theorem C11c_recovered_quiescent (C : CoopSetup d rs aff) (S : CoopStore d rs gen items st)
    (hK : StratOk d (fitItems rs items).length) (hinj : ∀ a b, gen a = gen b → a = b)
    (fs : Nat → Faults) (clock : Nat → Time) (hclock : ∀ k, clock k + max 0 (ersFreq d) ≤ clock (k + 1))
    (G : GateFree d rs (clock 0))
    (hT : SMap.get? rs.template.labels K.canaryLabel ≠ some "true") (L : NoCanaryLabel d st) (n k : Nat)
    (hk : storeMeasure d rs items (coopRunF aff gen fs clock n (rs, st)).2 ≤ k) (s : ERSStatus) :
    QuiescentAt d { rs with status := s } (recoverRun aff gen fs clock n k (rs, st)).2 items := by
  obtain ⟨h1, h2, h3, _⟩ := C11c_recovers_store C S hK hinj fs clock hclock G n k hk
  have Lk := recoverRun_noCanaryLabel C S hK hinj fs clock hclock G hT L n k
  exact quiescent_of_converged (C.withStatus s) (h1.withStatus s) h2 h3 Lk

end Fix

/-- **`C11c_same_fixpoint`.**  Two recoveries — possibly in different stores `st₁`, `st₂` holding different EDS
objects `d₁`, `d₂`, under different name generators, fault patterns, numbers of faulty rounds, clocks and affinity
modes — of the SAME replica set `rs` over the SAME stored nodes and the SAME strategy (the hypotheses of
`C11_fixpoint_unique`), each followed by enough fault-free rounds, end in stores that
  (a) carry the same multiset of (node, template hash) pairs of EDS pods,
  (b) make the sync of the replica set — under any common stored status `s`, at any instant, with any back-off
      oracles and affinity modes — report the same status counters, and
  (c) receive no pod write from it.
Nothing is assumed about pod names beyond each generator being injective and fresh for its own store. -/
theorem C11c_same_fixpoint {d₁ d₂ : EDS} {rs : ERS} {aff₁ aff₂ : Bool} {gen₁ gen₂ : String → String}
    {items₁ items₂ : List NodeItem} {st₁ st₂ : ErsStore}
    (C₁ : CoopSetup d₁ rs aff₁) (S₁ : CoopStore d₁ rs gen₁ items₁ st₁)
    (hK₁ : StratOk d₁ (fitItems rs items₁).length) (hinj₁ : ∀ a b, gen₁ a = gen₁ b → a = b)
    (fs₁ : Nat → Faults) (clock₁ : Nat → Time) (hclock₁ : ∀ k, clock₁ k + max 0 (ersFreq d₁) ≤ clock₁ (k + 1))
    (G₁ : GateFree d₁ rs (clock₁ 0)) (L₁ : NoCanaryLabel d₁ st₁)
    (C₂ : CoopSetup d₂ rs aff₂) (S₂ : CoopStore d₂ rs gen₂ items₂ st₂)
    (hK₂ : StratOk d₂ (fitItems rs items₂).length) (hinj₂ : ∀ a b, gen₂ a = gen₂ b → a = b)
    (fs₂ : Nat → Faults) (clock₂ : Nat → Time) (hclock₂ : ∀ k, clock₂ k + max 0 (ersFreq d₂) ≤ clock₂ (k + 1))
    (G₂ : GateFree d₂ rs (clock₂ 0)) (L₂ : NoCanaryLabel d₂ st₂)
    (hT : SMap.get? rs.template.labels K.canaryLabel ≠ some "true")
    (hnodes : st₁.nodes = st₂.nodes) (hstrat : d₁.strategy = d₂.strategy)
    (n₁ k₁ n₂ k₂ : Nat)
    (hk₁ : storeMeasure d₁ rs items₁ (coopRunF aff₁ gen₁ fs₁ clock₁ n₁ (rs, st₁)).2 ≤ k₁)
    (hk₂ : storeMeasure d₂ rs items₂ (coopRunF aff₂ gen₂ fs₂ clock₂ n₂ (rs, st₂)).2 ≤ k₂)
    (s : ERSStatus) (rel₁ rel₂ : String → Bool) (a₁ a₂ : Bool) (now : Time) :
    (hashAssignment d₁ (recoverRun aff₁ gen₁ fs₁ clock₁ n₁ k₁ (rs, st₁)).2).Perm
      (hashAssignment d₂ (recoverRun aff₂ gen₂ fs₂ clock₂ n₂ k₂ (rs, st₂)).2) ∧
    counters ((reconcileErs { rs with status := s } (recoverRun aff₁ gen₁ fs₁ clock₁ n₁ k₁ (rs, st₁)).2
        rel₁ a₁ now).statusUpdate.getD s) =
      counters ((reconcileErs { rs with status := s } (recoverRun aff₂ gen₂ fs₂ clock₂ n₂ k₂ (rs, st₂)).2
        rel₂ a₂ now).statusUpdate.getD s) ∧
    (reconcileErs { rs with status := s } (recoverRun aff₁ gen₁ fs₁ clock₁ n₁ k₁ (rs, st₁)).2 rel₁ a₁ now).noPodWrite ∧
    (reconcileErs { rs with status := s } (recoverRun aff₂ gen₂ fs₂ clock₂ n₂ k₂ (rs, st₂)).2 rel₂ a₂ now).noPodWrite := by
  have Q₁ := C11c_recovered_quiescent C₁ S₁ hK₁ hinj₁ fs₁ clock₁ hclock₁ G₁ hT L₁ n₁ k₁ hk₁ s
  have Q₂ := C11c_recovered_quiescent C₂ S₂ hK₂ hinj₂ fs₂ clock₂ hclock₂ G₂ hT L₂ n₂ k₂ hk₂ s
  exact C11_fixpoint_unique d₁ d₂ { rs with status := s } _ _ ⟨_, Q₁⟩ ⟨_, Q₂⟩
    (by rw [recoverRun_nodes, recoverRun_nodes]; exact hnodes) hstrat rel₁ rel₂ a₁ a₂ now

/-- the fault-free run is the recovery without faulty rounds. -/
theorem recoverRun_zero (aff : Bool) (gen : String → String) (fs : Nat → Faults) (clock : Nat → Time) (k : Nat)
    (s : ERS × ErsStore) : recoverRun aff gen fs clock 0 k s = coopRun aff gen clock k s := by
  unfold recoverRun
  simp only [Nat.zero_add]
  rfl

/-- **`C11c_same_as_fault_free`.**  From the same start, the run with `n` faulty rounds followed by `k` fault-free
ones (`k ≥` the measure after the faults) and the run WITHOUT any failure (`k' ≥ 2·outdated + empty`) end in stores
with the same (node, template hash) assignment, the same status counters reported by the next sync (under any
common stored status) and no pod write. -/
theorem C11c_same_as_fault_free {d : EDS} {rs : ERS} {aff : Bool} {gen : String → String} {items : List NodeItem}
    {st : ErsStore} (C : CoopSetup d rs aff) (S : CoopStore d rs gen items st)
    (hK : StratOk d (fitItems rs items).length) (hinj : ∀ a b, gen a = gen b → a = b)
    (fs : Nat → Faults) (clock : Nat → Time) (hclock : ∀ k, clock k + max 0 (ersFreq d) ≤ clock (k + 1))
    (G : GateFree d rs (clock 0)) (L : NoCanaryLabel d st)
    (hT : SMap.get? rs.template.labels K.canaryLabel ≠ some "true") (n k k' : Nat)
    (hk : storeMeasure d rs items (coopRunF aff gen fs clock n (rs, st)).2 ≤ k) (hk' : storeMeasure d rs items st ≤ k')
    (s : ERSStatus) (rel₁ rel₂ : String → Bool) (a₁ a₂ : Bool) (now : Time) :
    (hashAssignment d (recoverRun aff gen fs clock n k (rs, st)).2).Perm
      (hashAssignment d (coopRun aff gen clock k' (rs, st)).2) ∧
    counters ((reconcileErs { rs with status := s } (recoverRun aff gen fs clock n k (rs, st)).2
        rel₁ a₁ now).statusUpdate.getD s) =
      counters ((reconcileErs { rs with status := s } (coopRun aff gen clock k' (rs, st)).2
        rel₂ a₂ now).statusUpdate.getD s) ∧
    (reconcileErs { rs with status := s } (recoverRun aff gen fs clock n k (rs, st)).2 rel₁ a₁ now).noPodWrite ∧
    (reconcileErs { rs with status := s } (coopRun aff gen clock k' (rs, st)).2 rel₂ a₂ now).noPodWrite := by
  rw [← recoverRun_zero aff gen (fun _ => {}) clock k' (rs, st)]
  exact C11c_same_fixpoint C S hK hinj fs clock hclock G L C S hK hinj (fun _ => {}) clock hclock G L hT rfl rfl
    n k 0 k' hk hk' s rel₁ rel₂ a₁ a₂ now

section Counters
variable {d : EDS} {rs : ERS} {aff : Bool} {gen : String → String} {items : List NodeItem} {st : ErsStore}

/-- the counters of a converged replica set over `N` eligible nodes: desired = current = ready = available = `N`,
ignored = 0. -/
def convergedCounters (N : Nat) : Int × Int × Int × Int × Int := (N, N, N, N, 0)

theorem GateFree.mono {d : EDS} {rs : ERS} {t t' : Time} (G : GateFree d rs t) (h : t ≤ t') : GateFree d rs t' := by
  intro c hc
  have := G c hc
  omega

/-- **the counters at the fixpoint, explicitly.**  At a converged cooperative store a sync that no gate holds
back reports `desired = current = ready = available = N` (the number of eligible nodes) and `ignored = 0` —
whatever status the replica set stored before (written or dropped in earlier rounds). -/
theorem C11c_counters_explicit (C : CoopSetup d rs aff) (S : CoopStore d rs gen items st)
    (hK : StratOk d (fitItems rs items).length)
    (he : emptyNodes rs items (edsPodsOf d st) = 0) (ho : outdatedNodes rs items (edsPodsOf d st) = 0)
    (L : NoCanaryLabel d st) (now : Time) (G : GateFree d rs now) (released : String → Bool) (a : Bool) :
    counters ((reconcileErs rs st released a now).statusUpdate.getD rs.status) =
      convergedCounters (fitItems rs items).length := by
  have Q := quiescent_of_converged C S he ho L
  rw [C11_quiescent_counters Q released a now]
  have hN : fitItemsQ rs items = fitItems rs items := by unfold fitItems; exact candidates_nil_eq.symm
  rw [hN]
  unfold quiescentCounters convergedCounters
  rw [if_neg (fun h => by
    have h' : ersGated d rs now = true := h
    rw [ersGated_false G] at h'
    cases h')]
  obtain ⟨ms, mu, inc, iv, mp, hms, _, hmu, _, _, hinc, hinc1, hiv, hmp, hmp1⟩ := hK.resolved C.defaulted
  have hstart := rollingUpdateStartTime_le rs.status now G.condsLe
  obtain ⟨mc, hmc, _, _⟩ := calculateMaxCreation_ok d.strategy.rollingUpdate.slowStartAdditiveIncrease iv mp
    ((fitItems rs items).length : Nat) (rollingUpdateStartTime rs.status now) now inc hinc hinc1 hmp1 hstart
  have hres : mdResolve d.strategy.rollingUpdate ((fitItems rs items).length : Nat)
      (rollingUpdateStartTime rs.status now) now = .ok () := by
    unfold mdResolve
    rw [hms, hmu]
    simp only []
    rw [hiv, hmp, hmc]
    rfl
  rw [hres]

/-- the run behind `C11c_recovers_store`, with the gate: no gate can fire at or after `clock (n + k)`. -/
theorem recoverRun_gateFree (C : CoopSetup d rs aff) (S : CoopStore d rs gen items st)
    (hK : StratOk d (fitItems rs items).length) (hinj : ∀ a b, gen a = gen b → a = b)
    (fs : Nat → Faults) (clock : Nat → Time) (hclock : ∀ k, clock k + max 0 (ersFreq d) ≤ clock (k + 1))
    (G : GateFree d rs (clock 0)) (n k : Nat) :
    ∃ s, (recoverRun aff gen fs clock n k (rs, st)).1 = { rs with status := s } ∧
      GateFree d { rs with status := s } (clock (n + k)) := by
  obtain ⟨⟨s, hs⟩, Sn, Gn, _⟩ := coopRunF_inv C S hK hinj fs clock hclock G n
  unfold recoverRun
  generalize coopRunF aff gen fs clock n (rs, st) = cur at hs Sn Gn
  obtain ⟨rsn, stn⟩ := cur
  simp only [] at hs Sn Gn
  subst hs
  obtain ⟨⟨s', hs'⟩, _, Gk, _⟩ := coopRun_inv (C.withStatus s) (Sn.withStatus s) hK hinj
    (fun i => clock (n + i)) (fun i => hclock (n + i)) Gn k
  refine ⟨s', hs', ?_⟩
  rw [hs'] at Gk
  exact Gk

/-- **the status the recovered run reports**: the first sync at or after `clock (n + k)` writes (or leaves) the
counters `(N, N, N, N, 0)` — the same for every fault history, in particular for the run without failure. -/
theorem C11c_recovered_counters (C : CoopSetup d rs aff) (S : CoopStore d rs gen items st)
    (hK : StratOk d (fitItems rs items).length) (hinj : ∀ a b, gen a = gen b → a = b)
    (fs : Nat → Faults) (clock : Nat → Time) (hclock : ∀ k, clock k + max 0 (ersFreq d) ≤ clock (k + 1))
    (G : GateFree d rs (clock 0)) (L : NoCanaryLabel d st)
    (hT : SMap.get? rs.template.labels K.canaryLabel ≠ some "true") (n k : Nat)
    (hk : storeMeasure d rs items (coopRunF aff gen fs clock n (rs, st)).2 ≤ k)
    (now : Time) (hnow : clock (n + k) ≤ now) (released : String → Bool) (a : Bool) :
    counters ((reconcileErs (recoverRun aff gen fs clock n k (rs, st)).1 (recoverRun aff gen fs clock n k (rs, st)).2
        released a now).statusUpdate.getD (recoverRun aff gen fs clock n k (rs, st)).1.status) =
      convergedCounters (fitItems rs items).length := by
  obtain ⟨s, hs, Gs⟩ := recoverRun_gateFree C S hK hinj fs clock hclock G n k
  obtain ⟨h1, h2, h3, _⟩ := C11c_recovers_store C S hK hinj fs clock hclock G n k hk
  have Lk := recoverRun_noCanaryLabel C S hK hinj fs clock hclock G hT L n k
  rw [hs]
  exact C11c_counters_explicit (C.withStatus s) (h1.withStatus s) hK h2 h3 Lk now (Gs.mono hnow) released a

end Counters

/-! ### 5. The cluster machine: faulty rounds as runs of `stepF` -/

/-- **the operations of one faulty cooperative round** in the cluster machine: tick to `t`; `Op.reconcileErs` of
the replica set under the fault pattern `f` (`stepF f`: the status write and the pod writes `f` lets through
are applied by the cluster machine — graceful deletions, label patches included); then the cooperative,
instantaneous kubelet of C02c. -/
def coopOpsF (f : Faults) (name : String) (aff : Bool) (gen : String → String) (t : Time) (w : World) :
    List (Faults × Op) :=
  [ ({}, .tick (t - w.now).toNat),
    (f, .reconcileErs name (fun _ => false) aff),
    ({}, .kubelet (match findErs w name with
                   | some rs => (coopRoundStoreF f rs aff gen t w.store).pods
                   | none => w.pods)) ]

def coopRunOpsF (name : String) (aff : Bool) (gen : String → String) (fs : Nat → Faults) (clock : Nat → Time) :
    Nat → World → List (Faults × Op)
  | 0, _ => []
  | n + 1, w =>
    coopRunOpsF name aff gen fs clock n w ++
      coopOpsF (fs n) name aff gen (clock n) (runF w (coopRunOpsF name aff gen fs clock n w))

/-- the world after `n` faulty cooperative rounds: a `runF` of the cluster machine. -/
def coopRunWF (name : String) (aff : Bool) (gen : String → String) (fs : Nat → Faults) (clock : Nat → Time) (n : Nat)
    (w : World) : World :=
  runF w (coopRunOpsF name aff gen fs clock n w)

theorem runF_append (w : World) (l1 l2 : List (Faults × Op)) : runF w (l1 ++ l2) = runF (runF w l1) l2 := by
  unfold runF; rw [List.foldl_append]

theorem coopRunWF_succ (name : String) (aff : Bool) (gen : String → String) (fs : Nat → Faults) (clock : Nat → Time)
    (n : Nat) (w : World) :
    coopRunWF name aff gen fs clock (n + 1) w =
      runF (coopRunWF name aff gen fs clock n w)
        (coopOpsF (fs n) name aff gen (clock n) (coopRunWF name aff gen fs clock n w)) := by
  unfold coopRunWF
  rw [coopRunOpsF, runF_append]

theorem stepF_reconcileErs_some (f : Faults) (w : World) (name : String) (rel : String → Bool) (aff : Bool) (rs : ERS)
    (h : findErs w name = some rs) :
    stepF f w (.reconcileErs name rel aff) = applyErs w rs (maskErs f (ersWrites w rs rel aff)) := by
  simp only [stepF, h]

/-- **one faulty round of the cluster machine is one faulty round at store level.** -/
theorem coopRoundF_sim (f : Faults) (w : World) (rs : ERS) (aff : Bool) (gen : String → String) (t : Time)
    (hf : findErs w rs.name = some rs) (ht : w.now ≤ t) :
    (runF w (coopOpsF f rs.name aff gen t w)).store = coopRoundStoreF f rs aff gen t w.store ∧
    findErs (runF w (coopOpsF f rs.name aff gen t w)) rs.name = some (nextErsF f rs aff t w.store) ∧
    (runF w (coopOpsF f rs.name aff gen t w)).eds = w.eds ∧
    (runF w (coopOpsF f rs.name aff gen t w)).now = t := by
  have hnow : w.now + ((t - w.now).toNat : Int) = t := by
    rw [Int.toNat_of_nonneg (by omega)]; omega
  have hf1 : findErs (stepF {} w (.tick (t - w.now).toNat)) rs.name = some rs := hf
  have hrun : runF w (coopOpsF f rs.name aff gen t w) =
      stepF {} (applyErs (stepF {} w (.tick (t - w.now).toNat)) rs
        (maskErs f (ersWrites (stepF {} w (.tick (t - w.now).toNat)) rs (fun _ => false) aff)))
        (.kubelet (coopRoundStoreF f rs aff gen t w.store).pods) := by
    unfold coopOpsF runF
    simp only [List.foldl_cons, List.foldl_nil, hf]
    rw [stepF_reconcileErs_some _ _ _ _ _ rs hf1]
  rw [hrun]
  refine ⟨rfl, ?_, rfl, hnow⟩
  have := findErs_map_setStatus w rs
    (maskErs f (ersWrites (stepF {} w (.tick (t - w.now).toNat)) rs (fun _ => false) aff)) rs.name
    (stepF {} (applyErs (stepF {} w (.tick (t - w.now).toNat)) rs
        (maskErs f (ersWrites (stepF {} w (.tick (t - w.now).toNat)) rs (fun _ => false) aff)))
        (.kubelet (coopRoundStoreF f rs aff gen t w.store).pods)) rfl rfl
  rw [this, hf, Option.map_some, setStatusOf_self]
  congr 2
  show (maskErs f (reconcileErs rs w.store (fun _ => false) aff (w.now + ((t - w.now).toNat : Int)))).statusUpdate.getD _ = _
  rw [hnow]

/-- **`n` faulty rounds of the cluster machine are `n` faulty rounds at store level.** -/
theorem coopRunWF_sim (w : World) (rs : ERS) (aff : Bool) (gen : String → String) (fs : Nat → Faults)
    (clock : Nat → Time) (hf : findErs w rs.name = some rs) (h0 : w.now ≤ clock 0)
    (hmono : ∀ k, clock k ≤ clock (k + 1)) (n : Nat) :
    (coopRunWF rs.name aff gen fs clock n w).store = (coopRunF aff gen fs clock n (rs, w.store)).2 ∧
    findErs (coopRunWF rs.name aff gen fs clock n w) rs.name = some (coopRunF aff gen fs clock n (rs, w.store)).1 ∧
    (coopRunF aff gen fs clock n (rs, w.store)).1.name = rs.name ∧
    (coopRunWF rs.name aff gen fs clock n w).eds = w.eds ∧
    (coopRunWF rs.name aff gen fs clock n w).now ≤ clock n := by
  induction n with
  | zero => exact ⟨rfl, hf, rfl, rfl, h0⟩
  | succ n ih =>
    obtain ⟨h1, h2, h3, h4, h5⟩ := ih
    rw [coopRunWF_succ]
    have hrun : coopRunF aff gen fs clock (n + 1) (rs, w.store) =
        coopRoundF (fs n) aff gen (clock n) (coopRunF aff gen fs clock n (rs, w.store)) := rfl
    rw [hrun]
    generalize coopRunWF rs.name aff gen fs clock n w = W at h1 h2 h4 h5 ⊢
    generalize coopRunF aff gen fs clock n (rs, w.store) = cur at h1 h2 h3 ⊢
    obtain ⟨rsn, stn⟩ := cur
    simp only [] at h1 h2 h3
    rw [← h3] at h2 ⊢
    obtain ⟨g1, g2, g3, g4⟩ := coopRoundF_sim (fs n) W rsn aff gen (clock n) h2 h5
    unfold coopRoundF
    simp only []
    rw [← h1]
    refine ⟨g1, g2, rfl, g3.trans h4, ?_⟩
    rw [g4]; exact hmono n

section ClusterF
variable {w w' : World} {rs : ERS} {aff : Bool} {gen : String → String} {items : List NodeItem}

/-- **`C11c_cluster_recovers`.**  From a world `w'` with no canary in progress and `rs` live (reached from `w` by
whatever daemonset reconciles): `n` faulty cooperative rounds of the cluster machine (`runF`, arbitrary fault
patterns on the replica-set reconciles), then `k ≥ liveBound w rs items` fault-free rounds (`run`), end in the
converged cluster of L3Live — the one the run without failure reaches. -/
theorem C11c_cluster_recovers (L : LiveOn w' rs) (F : EdsFrame w w')
    (hdef : isDefaulted w.eds.strategy w.eds.templateName = true) (E : LiveEnv w rs aff)
    (hann : w'.eds.annotations = (clearCanaryAnnotations w.eds.annotations).1 ∨ w'.eds.annotations = w.eds.annotations)
    (hfind : findErs w' rs.name = some rs)
    (S : CoopStore w.eds rs gen items w.store) (hK : StratOk w.eds (fitItems rs items).length)
    (hinj : ∀ x y, gen x = gen y → x = y) (fs : Nat → Faults) (clock : Nat → Time) (h0 : w.now ≤ clock 0)
    (hclock : ∀ k, clock k + max 0 (ersFreq w.eds) ≤ clock (k + 1)) (G : GateFree w.eds rs (clock 0))
    (n k : Nat) (hk : liveBound w rs items ≤ k) :
    ClusterConverged
      (coopRunW rs.name aff gen (fun i => clock (n + i)) k (coopRunWF rs.name aff gen fs clock n w')) rs aff items ∧
    (coopRunW rs.name aff gen (fun i => clock (n + i)) k (coopRunWF rs.name aff gen fs clock n w')).eds = w'.eds ∧
    (coopRunW rs.name aff gen (fun i => clock (n + i)) k (coopRunWF rs.name aff gen fs clock n w')).store =
      (recoverRun aff gen fs clock n k (rs, w'.store)).2 := by
  have C := coopSetup_of_live L F hdef E hann
  have S' := coopStore_of_frame F S
  have hK' : StratOk w'.eds (fitItems rs items).length := hK.transfer F.strategy
  have hclock' : ∀ k, clock k + max 0 (ersFreq w'.eds) ≤ clock (k + 1) := by
    rw [ersFreq_congr F.strategy]; exact hclock
  have G' : GateFree w'.eds rs (clock 0) := G.transfer F.strategy
  have hmono : ∀ k, clock k ≤ clock (k + 1) := fun k => by have := hclock k; omega
  have hk' : storeMeasure w'.eds rs items w'.store ≤ k := by
    unfold storeMeasure; rw [edsPods_of_frame F]; exact hk
  have hm := (coopRunF_inv C S' hK' hinj fs clock hclock' G' n).2.2.2
  obtain ⟨_, _, _, c4, c5, c6, ⟨s, hs⟩⟩ := C11c_recovers_store C S' hK' hinj fs clock hclock' G' n k
    (Nat.le_trans hm hk')
  obtain ⟨s1, s2, s3, s4, s5⟩ := coopRunWF_sim w' rs aff gen fs clock hfind (by rw [F.now]; exact h0) hmono n
  have hfind1 : findErs (coopRunWF rs.name aff gen fs clock n w') (coopRunF aff gen fs clock n (rs, w'.store)).1.name =
      some (coopRunF aff gen fs clock n (rs, w'.store)).1 := by rw [s3]; exact s2
  obtain ⟨t1, t2, _, t4, _⟩ := coopRunW_sim (coopRunWF rs.name aff gen fs clock n w')
    (coopRunF aff gen fs clock n (rs, w'.store)).1 aff gen (fun i => clock (n + i)) hfind1 s5
    (fun i => hmono (n + i)) k
  rw [s3, s1] at t1 t2
  have hst : (coopRunW rs.name aff gen (fun i => clock (n + i)) k (coopRunWF rs.name aff gen fs clock n w')).store =
      (recoverRun aff gen fs clock n k (rs, w'.store)).2 := t1
  have heds : (coopRunW rs.name aff gen (fun i => clock (n + i)) k (coopRunWF rs.name aff gen fs clock n w')).eds =
      w'.eds := by rw [s3] at t4; exact t4.trans s4
  refine ⟨⟨?_, ?_, ?_, ?_⟩, heds, hst⟩
  · rw [heds]; exact ⟨L.active, L.noCanary, L.gen⟩
  · rw [hst, heds]
    refine ⟨?_, c5⟩
    intro ni hni
    obtain ⟨p, hp1, hp2, hp3, hp4, hp5, hp6⟩ := c4 ni hni
    exact ⟨p, hp1, hp2, hp3, hp4, by rw [← L.gen]; exact hp5, hp6⟩
  · refine ⟨_, t2, ?_, ?_⟩
    · show (recoverRun aff gen fs clock n k (rs, w'.store)).1 =
        { rs with status := (recoverRun aff gen fs clock n k (rs, w'.store)).1.status }
      rw [hs]
    · rw [hst]; exact c6
  · intro e hne
    rw [heds]
    exact ⟨ersRole_unknown_of_live L hne,
      fun st released aff' now ho => leftover_inert L e hne st released aff' now ho⟩

end ClusterF

section FinalF
variable {w : World} {a u : ERS} {c : Canary} {aff : Bool} {gen : String → String} {items : List NodeItem}

/-- **promotion, with faults everywhere but on the status and spec writes of the daemonset reconcile.**  The run

    `reconcileEds` under `fE` (replica-set deletions dropped at will)  ::  `n` faulty rounds of `u`  ::  `k` fault-free rounds

(`k ≥ liveBound w u items`) ends in the converged cluster for `u`, spec.template unchanged. -/
theorem C11c_recovers_after_promotion (H : CanaryWorld w a u c) (hdue : PromotionDue c w.eds.annotations u w.now)
    (E : LiveEnv w u aff) (hfind : findErs w u.name = some u)
    (S : CoopStore w.eds u gen items w.store) (hK : StratOk w.eds (fitItems u items).length)
    (hinj : ∀ x y, gen x = gen y → x = y) (fE : Faults) (hs : fE.edsStatus = true) (hp : fE.edsSpec = true)
    (fs : Nat → Faults) (clock : Nat → Time) (h0 : w.now ≤ clock 0)
    (hclock : ∀ k, clock k + max 0 (ersFreq w.eds) ≤ clock (k + 1)) (G : GateFree w.eds u (clock 0))
    (nn m : String) (n k : Nat) (hk : liveBound w u items ≤ k) :
    ClusterConverged (coopRunW u.name aff gen (fun i => clock (n + i)) k
      (coopRunWF u.name aff gen fs clock n (stepF fE w (.reconcileEds nn m)))) u aff items ∧
    (coopRunW u.name aff gen (fun i => clock (n + i)) k
      (coopRunWF u.name aff gen fs clock n (stepF fE w (.reconcileEds nn m)))).eds.templateHash = w.eds.templateHash ∧
    (coopRunW u.name aff gen (fun i => clock (n + i)) k
      (coopRunWF u.name aff gen fs clock n (stepF fE w (.reconcileEds nn m)))).eds.template = w.eds.template := by
  obtain ⟨L, F, h1, h2, h3⟩ := L3Live_promotion_stepF H hdue nn m fE hs hp
  have hsub : EdsSub (maskEds fE (edsWrites w m)) (edsMain w.eds w.own u w.pods w.nodes w.now) := by
    rw [← H.writes m]; exact EdsSub.mask fE _
  obtain ⟨hd, hc⟩ := hsub.main_none
  have hfind' : findErs (stepF fE w (.reconcileEds nn m)) u.name = some u :=
    findErs_applyEds w _ nn hd hc u hfind L.own
  obtain ⟨CC, heds, _⟩ := C11c_cluster_recovers L F H.defaulted E (Or.inl h3) hfind' S hK hinj fs clock h0 hclock G n k hk
  exact ⟨CC, by rw [heds]; exact h1, by rw [heds]; exact h2⟩

/-- **rollback, with the spec write of the first daemonset reconcile dropped, then faulty rounds.**  The run

    `reconcileEds` under `fE` (spec write dropped; status write, deletions at will)  ::  `reconcileEds`
      ::  `n` faulty rounds of `a`  ::  `k` fault-free rounds

(`k ≥ liveBound w a items`) ends in the converged cluster for `a`: spec.template is `a`'s template again. -/
theorem C11c_recovers_after_rollback (H : CanaryWorld w a u c) (hf : isCanaryFailed (some u) = true)
    (hv : isCanaryValid w.eds.annotations u.name = false)
    (E : LiveEnv w a aff) (hfind : findErs w a.name = some a)
    (S : CoopStore w.eds a gen items w.store) (hK : StratOk w.eds (fitItems a items).length)
    (hinj : ∀ x y, gen x = gen y → x = y) (fE : Faults) (hp : fE.edsSpec = false)
    (fs : Nat → Faults) (clock : Nat → Time) (h0 : w.now ≤ clock 0)
    (hclock : ∀ k, clock k + max 0 (ersFreq w.eds) ≤ clock (k + 1)) (G : GateFree w.eds a (clock 0))
    (nn m nn' m' : String) (n k : Nat) (hk : liveBound w a items ≤ k) :
    ClusterConverged (coopRunW a.name aff gen (fun i => clock (n + i)) k
      (coopRunWF a.name aff gen fs clock n (step (stepF fE w (.reconcileEds nn m)) (.reconcileEds nn' m')))) a aff items ∧
    (coopRunW a.name aff gen (fun i => clock (n + i)) k
      (coopRunWF a.name aff gen fs clock n (step (stepF fE w (.reconcileEds nn m)) (.reconcileEds nn' m')))).eds.templateHash
        = a.templateGeneration ∧
    (coopRunW a.name aff gen (fun i => clock (n + i)) k
      (coopRunWF a.name aff gen fs clock n (step (stepF fE w (.reconcileEds nn m)) (.reconcileEds nn' m')))).eds.template
        = a.template ∧
    ersRole (coopRunW a.name aff gen (fun i => clock (n + i)) k
      (coopRunWF a.name aff gen fs clock n (step (stepF fE w (.reconcileEds nn m)) (.reconcileEds nn' m')))).eds u.name
        = "unknown" := by
  have hne : u.name ≠ a.name := fun h => H.ne h.symm
  obtain ⟨H1, hv1, F1, _, _, hann1⟩ := L3Live_rollback_pending H hf hv nn m _ (SpecDropped.mask fE w m hp)
  obtain ⟨L, F2, h1, h2, h3, _⟩ := L3Live_rollback_writes H1 hf hv1 nn' m' _ (BothWrites.full _ m')
  have hsub1 : EdsSub (maskEds fE (edsWrites w m)) (edsMain w.eds w.own u w.pods w.nodes w.now) := by
    rw [← H.writes m]; exact EdsSub.mask fE _
  obtain ⟨hd1, hc1⟩ := hsub1.main_none
  have hfind1 : findErs (stepF fE w (.reconcileEds nn m)) a.name = some a :=
    findErs_applyEds w _ nn hd1 hc1 a hfind H1.aOwn
  have hsub2 : EdsSub (edsWrites (applyEds w (maskEds fE (edsWrites w m)) nn) m')
      (edsMain (applyEds w (maskEds fE (edsWrites w m)) nn).eds (applyEds w (maskEds fE (edsWrites w m)) nn).own u
        (applyEds w (maskEds fE (edsWrites w m)) nn).pods (applyEds w (maskEds fE (edsWrites w m)) nn).nodes
        (applyEds w (maskEds fE (edsWrites w m)) nn).now) := by
    rw [H1.writes m']; exact EdsSub.refl _
  obtain ⟨hd2, hc2⟩ := hsub2.main_none
  have hfind2 : findErs (step (stepF fE w (.reconcileEds nn m)) (.reconcileEds nn' m')) a.name = some a :=
    findErs_applyEds _ _ nn' hd2 hc2 a hfind1 L.own
  have h3' : (step (stepF fE w (.reconcileEds nn m)) (.reconcileEds nn' m')).eds.annotations =
      (clearCanaryAnnotations w.eds.annotations).1 := by rw [← hann1]; exact h3
  obtain ⟨CC, heds, _⟩ := C11c_cluster_recovers L (F1.trans F2) H.defaulted E (Or.inl h3') hfind2 S hK hinj fs clock
    h0 hclock G n k hk
  exact ⟨CC, (congrArg EDS.templateHash heds).trans h1, (congrArg EDS.template heds).trans h2, (CC.leftover u hne).1⟩

end FinalF

/-! ### 6. Gated rounds are stutter steps -/

section Gated
variable {d : EDS} {rs : ERS} {aff : Bool} {gen : String → String} {items : List NodeItem} {st : ErsStore}

/-- **a round the LastFullSync gate holds back is a stutter step** (e.g. a fresh controller instance that
reconciles at once after the previous one stopped, less than `reconcileFrequency` after the last status write):
whatever the fault pattern, the pods of the EDS, the replica set and hence the store predicate and the measure
are as before. -/
theorem C11c_gated_round_stutters (C : CoopSetup d rs aff) (S : CoopStore d rs gen items st) (now : Time)
    (hg : ersGated d rs now = true) (f : Faults) :
    edsPodsOf d (coopRoundStoreF f rs aff gen now st) = edsPodsOf d st ∧
    nextErsF f rs aff now st = rs ∧
    CoopStore d rs gen items (coopRoundStoreF f rs aff gen now st) ∧
    storeMeasure d rs items (coopRoundStoreF f rs aff gen now st) = storeMeasure d rs items st := by
  have hw : reconcileErs rs st (fun _ => false) aff now = { requeueAfter := ersGateWait d rs now } := by
    rw [reconcileErs_eq rs st _ aff now d S.owner]
    unfold ersBody
    simp [C.defaulted, hg]
  have hE : edsPodsOf d (coopRoundStoreF f rs aff gen now st) = edsPodsOf d st := by
    have hp : (coopRoundStoreF f rs aff gen now st).pods = st.pods.map (kubeletReady now) := by
      unfold coopRoundStoreF applyPodWritesHard nameCreates maskErs
      rw [hw]
      have : st.pods.filter (fun _ => true) = st.pods := List.filter_eq_self.mpr (fun _ _ => rfl)
      simp [this]
    show (coopRoundStoreF f rs aff gen now st).pods.filter (isEdsPod d) = st.pods.filter (isEdsPod d)
    rw [hp]
    apply filter_map_fix (kubeletReady now) (isEdsPod d) _ (fun a _ => kubeletReady_isEdsPod d now a)
    intro p hp he
    have hpE : p ∈ edsPodsOf d st := List.mem_filter.mpr ⟨hp, he⟩
    obtain ⟨hd, hph, hr, _⟩ := S.settled p hpE
    exact kubeletReady_settled now p (S.bound hpE) hd hph hr
  refine ⟨hE, ?_, ?_, ?_⟩
  · unfold nextErsF maskErs
    rw [hw]
    cases f.ersStatus <;> rfl
  · exact
      { owner := S.owner, hitems := S.hitems, noSetting := S.noSetting, nodesNodup := S.nodesNodup,
        nodeNamed := S.nodeNamed, hashOk := S.hashOk,
        settled := by rw [hE]; exact S.settled
        onePer := by rw [hE]; exact S.onePer
        nameNode := by rw [hE]; exact S.nameNode
        genFresh := by rw [hE]; exact S.genFresh }
  · unfold storeMeasure
    rw [hE]

end Gated

/-! ### 7. Non-vacuity: a three-node store, a rolling update with a dropped creation and a dropped deletion

EDS `d` of C02c (reconcile frequency 10 s, maxUnavailable 1), active replica set `d-new` (generation `new`), eligible
nodes `n1`, `n2`, `n3`; `n1` and `n2` run the Ready pods `old-1`, `old-2` of generation `old`, `n3` is empty:
measure `2·2 + 1 = 5`.  Faulty rounds: round 0 loses its creation (on `n3`), round 1 loses nothing, round 2 loses its
deletion (of `old-1`) AND its status write.  Then fault-free rounds. -/

def exSt11c : ErsStore :=
  { exStore04 [exPod04 "old-1" "n1" "d-old" "old", exPod04 "old-2" "n2" "d-old" "old"] false with
    nodes := [(exNode01 "n1").node, (exNode01 "n2").node, (exNode01 "n3").node] }
def exItems11c : List NodeItem := [exNode01 "n1", exNode01 "n2", exNode01 "n3"]

def exFs11c : Nat → Faults
  | 0 => { podCreate := fun _ => false }
  | 2 => { podDelete := fun _ => false, ersStatus := false }
  | _ => {}

theorem exStratOk11c : StratOk exEds02c (fitItems exRs02c exItems11c).length :=
  StratOk.of_spec _ _ (by decide) (by decide) (by decide) (by decide) (by decide)

theorem exPods11c : edsPodsOf exEds02c exSt11c =
    [exPod04 "old-1" "n1" "d-old" "old", exPod04 "old-2" "n2" "d-old" "old"] := by decide

theorem exStore11c : CoopStore exEds02c exRs02c exGen02c exItems11c exSt11c where
  owner := by decide
  hitems := by decide
  noSetting := by decide
  nodesNodup := by decide
  nodeNamed := by decide
  hashOk := by decide
  settled := by rw [exPods11c]; decide
  onePer := by rw [exPods11c]; exact onePerNode_of_nodup (by decide)
  nameNode := by rw [exPods11c]; decide
  genFresh := by
    rw [exPods11c]
    intro q hq m hm
    simp only [List.mem_cons, List.mem_nil_iff, or_false] at hq
    rcases hq with rfl | rfl
    · exact absurd hm (ExLive.gen_ne "d-new-" _ ['d', '-', 'n', 'e', 'w', '-'] ['o', 'l', 'd', '-', '1'] (by decide)
        (by decide) (by intro rest h; simp at h) m)
    · exact absurd hm (ExLive.gen_ne "d-new-" _ ['d', '-', 'n', 'e', 'w', '-'] ['o', 'l', 'd', '-', '2'] (by decide)
        (by decide) (by intro rest h; simp at h) m)

theorem exNoLabel11c : NoCanaryLabel exEds02c exSt11c := by rw [NoCanaryLabel, exPods11c]; decide

/-- two outdated pods, one empty node: measure 5. -/
example : storeAbs exEds02c exRs02c exItems11c exSt11c = ⟨1, 2⟩ ∧ storeMeasure exEds02c exRs02c exItems11c exSt11c = 5 := by
  decide

/-- the faulted rounds, evaluated: round 0 (creation on `n3` dropped) changes nothing; round 1 creates on `n3`;
round 2 (deletion of `old-1` dropped) changes nothing. -/
example : podView02c (coopRunF true exGen02c exFs11c exClock02c 1 (exRs02c, exSt11c)) =
    [("old-1", "n1", some "old", true), ("old-2", "n2", some "old", true)] := by decide
example : podView02c (coopRunF true exGen02c exFs11c exClock02c 2 (exRs02c, exSt11c)) =
    [("old-1", "n1", some "old", true), ("old-2", "n2", some "old", true), ("d-new-n3", "n3", some "new", true)] := by
  decide
example : podView02c (coopRunF true exGen02c exFs11c exClock02c 3 (exRs02c, exSt11c)) =
    podView02c (coopRunF true exGen02c exFs11c exClock02c 2 (exRs02c, exSt11c)) := by decide
/-- the measure after the three faulty rounds is 4: only the one applied creation counted. -/
example : storeMeasure exEds02c exRs02c exItems11c (coopRunF true exGen02c exFs11c exClock02c 3 (exRs02c, exSt11c)).2 = 4 := by
  decide
/-- the dropped status write of round 2 left the status of round 1 in place. -/
example : (coopRunF true exGen02c exFs11c exClock02c 3 (exRs02c, exSt11c)).1 =
    (coopRunF true exGen02c exFs11c exClock02c 2 (exRs02c, exSt11c)).1 := by decide

/-- after 4 fault-free rounds the faulted run carries the same pods as the run without failure after 5 rounds … -/
example : podView02c (recoverRun true exGen02c exFs11c exClock02c 3 4 (exRs02c, exSt11c)) =
    [("d-new-n3", "n3", some "new", true), ("d-new-n1", "n1", some "new", true), ("d-new-n2", "n2", some "new", true)] := by
  decide
example : podView02c (coopRun true exGen02c exClock02c 5 (exRs02c, exSt11c)) =
    [("d-new-n3", "n3", some "new", true), ("d-new-n1", "n1", some "new", true), ("d-new-n2", "n2", some "new", true)] := by
  decide
/-- … and both bounds are attained: one round less and a pod is still missing. -/
example : storeAbs exEds02c exRs02c exItems11c (recoverRun true exGen02c exFs11c exClock02c 3 3 (exRs02c, exSt11c)).2 = ⟨1, 0⟩ ∧
    storeAbs exEds02c exRs02c exItems11c (coopRun true exGen02c exClock02c 4 (exRs02c, exSt11c)).2 = ⟨1, 0⟩ := by
  decide

/-- `C11c_recovers_store` applied to the example (k = 4 = the measure after the faults). -/
example :
    emptyNodes exRs02c exItems11c (edsPodsOf exEds02c (recoverRun true exGen02c exFs11c exClock02c 3 4 (exRs02c, exSt11c)).2) = 0 ∧
    outdatedNodes exRs02c exItems11c (edsPodsOf exEds02c (recoverRun true exGen02c exFs11c exClock02c 3 4 (exRs02c, exSt11c)).2) = 0 :=
  let h := C11c_recovers_store exSetup02c exStore11c exStratOk11c exGen02c_inj exFs11c exClock02c exClock02c_ok exGate02c 3 4
    (by decide)
  ⟨h.2.1, h.2.2.1⟩

/-- `C11c_same_as_fault_free` applied: same assignment, same counters, no write — and the assignment evaluated. -/
example : (hashAssignment exEds02c (recoverRun true exGen02c exFs11c exClock02c 3 4 (exRs02c, exSt11c)).2).Perm
    (hashAssignment exEds02c (coopRun true exGen02c exClock02c 5 (exRs02c, exSt11c)).2) :=
  (C11c_same_as_fault_free exSetup02c exStore11c exStratOk11c exGen02c_inj exFs11c exClock02c exClock02c_ok exGate02c
    exNoLabel11c (by decide) 3 4 5 (by decide) (by decide) exRs02c.status (fun _ => false) (fun _ => false) true true 0).1
example : hashAssignment exEds02c (recoverRun true exGen02c exFs11c exClock02c 3 4 (exRs02c, exSt11c)).2 =
    [("n3", some "new"), ("n1", some "new"), ("n2", some "new")] := by decide

/-- `C11c_recovered_counters` applied and evaluated: the next ungated sync reports (3, 3, 3, 3, 0). -/
example : counters ((reconcileErs (recoverRun true exGen02c exFs11c exClock02c 3 4 (exRs02c, exSt11c)).1
      (recoverRun true exGen02c exFs11c exClock02c 3 4 (exRs02c, exSt11c)).2 (fun _ => false) true (exClock02c 7)).statusUpdate.getD
      (recoverRun true exGen02c exFs11c exClock02c 3 4 (exRs02c, exSt11c)).1.status) = convergedCounters 3 :=
  C11c_recovered_counters exSetup02c exStore11c exStratOk11c exGen02c_inj exFs11c exClock02c exClock02c_ok exGate02c
    exNoLabel11c (by decide) 3 4 (by decide) (exClock02c 7) (Int.le_refl _) _ _

/-- the process stops before its first write: nothing changes (`C11c_stopped_round`). -/
example : podView02c (coopRoundF stopFaults true exGen02c (exClock02c 0) (exRs02c, exSt11c)) = podView02c (exRs02c, exSt11c) ∧
    (coopRoundF stopFaults true exGen02c (exClock02c 0) (exRs02c, exSt11c)).1 = exRs02c := by decide

/-- why the spacing matters (`C11c_gated_round_stutters`): the status write of round 0 was applied, its creation
dropped; a retry 1 s later is held back by the LastFullSync gate and creates nothing — the retry one reconcile
period later does. -/
example : ersGated exEds02c (coopRunF true exGen02c exFs11c exClock02c 1 (exRs02c, exSt11c)).1 (1 * sec) = true ∧
    podView02c (coopRoundF {} true exGen02c (1 * sec) (coopRunF true exGen02c exFs11c exClock02c 1 (exRs02c, exSt11c))) =
      podView02c (coopRunF true exGen02c exFs11c exClock02c 1 (exRs02c, exSt11c)) := by decide

end Eds

/-! #### a statement that is FALSE as literally read -/
namespace Eds

/-- "the recovered store holds literally the same pod list as the run without failure" — FALSE: pods created in
different rounds carry different Ready-condition timestamps (and, in general, other names and another list order).
The true statement is `C11c_same_as_fault_free` (same multiset of (node, template hash), every pod settled). -/
def C11c_same_pod_list : Prop :=
  ∀ (d : EDS) (rs : ERS) (aff : Bool) (gen : String → String) (items : List NodeItem) (st : ErsStore),
    CoopSetup d rs aff → CoopStore d rs gen items st → StratOk d (fitItems rs items).length →
    (∀ a b, gen a = gen b → a = b) →
    ∀ (fs : Nat → Faults) (clock : Nat → Time), (∀ k, clock k + max 0 (ersFreq d) ≤ clock (k + 1)) →
    GateFree d rs (clock 0) → NoCanaryLabel d st → SMap.get? rs.template.labels K.canaryLabel ≠ some "true" →
    ∀ (n k k' : Nat), storeMeasure d rs items (coopRunF aff gen fs clock n (rs, st)).2 ≤ k →
      storeMeasure d rs items st ≤ k' →
      (recoverRun aff gen fs clock n k (rs, st)).2.pods = (coopRun aff gen clock k' (rs, st)).2.pods

theorem C11c_same_pod_list_false : ¬ C11c_same_pod_list := by
  intro h
  have := h exEds02c exRs02c true exGen02c exItems11c exSt11c exSetup02c exStore11c exStratOk11c exGen02c_inj
    exFs11c exClock02c exClock02c_ok exGate02c exNoLabel11c (by decide) 3 4 5 (by decide) (by decide)
  revert this
  decide

/-- the strongest true variant: the same pods up to names, timestamps and order — equal multisets of
(node, template hash), and in both stores every eligible node carries exactly one pod, live, Running, Ready. -/
theorem C11c_same_pod_list_partial {d : EDS} {rs : ERS} {aff : Bool} {gen : String → String} {items : List NodeItem}
    {st : ErsStore} (C : CoopSetup d rs aff) (S : CoopStore d rs gen items st)
    (hK : StratOk d (fitItems rs items).length) (hinj : ∀ a b, gen a = gen b → a = b)
    (fs : Nat → Faults) (clock : Nat → Time) (hclock : ∀ k, clock k + max 0 (ersFreq d) ≤ clock (k + 1))
    (G : GateFree d rs (clock 0)) (L : NoCanaryLabel d st)
    (hT : SMap.get? rs.template.labels K.canaryLabel ≠ some "true") (n k k' : Nat)
    (hk : storeMeasure d rs items (coopRunF aff gen fs clock n (rs, st)).2 ≤ k) (hk' : storeMeasure d rs items st ≤ k') :
    (hashAssignment d (recoverRun aff gen fs clock n k (rs, st)).2).Perm
      (hashAssignment d (coopRun aff gen clock k' (rs, st)).2) ∧
    (∀ ni ∈ fitItems rs items, ∃ p q,
      (edsPodsOf d (recoverRun aff gen fs clock n k (rs, st)).2).filter (fun x => x.nodeName == ni.node.name) = [p] ∧
      (edsPodsOf d (coopRun aff gen clock k' (rs, st)).2).filter (fun x => x.nodeName == ni.node.name) = [q] ∧
      p.deletion = none ∧ q.deletion = none ∧ p.phase = "Running" ∧ q.phase = "Running" ∧
      p.ready = true ∧ q.ready = true ∧
      SMap.get? p.annotations K.templateHashAnnot = some rs.templateGeneration ∧
      SMap.get? q.annotations K.templateHashAnnot = some rs.templateGeneration) := by
  refine ⟨(C11c_same_as_fault_free C S hK hinj fs clock hclock G L hT n k k' hk hk' rs.status (fun _ => false)
    (fun _ => false) aff aff 0).1, ?_⟩
  intro ni hni
  obtain ⟨_, _, _, h4, _⟩ := C11c_recovers_store C S hK hinj fs clock hclock G n k hk
  obtain ⟨_, _, _, g4, _⟩ := C02_converges_store C S hK hinj clock hclock G k' hk'
  obtain ⟨p, hp, hp1, hp2, hp3, hp4, _⟩ := h4 ni hni
  obtain ⟨q, hq, hq1, hq2, hq3, hq4, _⟩ := g4 ni hni
  exact ⟨p, q, hp, hq, hp1, hq1, hp2, hq2, hp3, hq3, hp4, hq4⟩

/-- the two pod lists of the example do differ — in the Ready timestamp of `d-new-n3` (created in round 1 instead of
round 0) — although their views (name, node, hash, Ready) coincide. -/
example : ((recoverRun true exGen02c exFs11c exClock02c 3 4 (exRs02c, exSt11c)).2.pods.map (·.conds)) ≠
    ((coopRun true exGen02c exClock02c 5 (exRs02c, exSt11c)).2.pods.map (·.conds)) := by decide

end Eds

/-! ### 8. Non-vacuity at cluster level: the two-node cluster of L3Live, faults in every phase -/
namespace Eds.ExC11c
open Eds Eds.Cluster Eds.ExLive

/-- promotion: the clean-up deletion of the daemonset reconcile fails; round 0 of `d-new` loses its deletion (of
`old-2`) and its status write; then two fault-free rounds. -/
def fsP : Nat → Faults
  | 0 => { podDelete := fun _ => false, ersStatus := false }
  | _ => {}

def wPF : World :=
  coopRunW "d-new" true genNew (fun i => clockP (1 + i)) 2
    (coopRunWF "d-new" true genNew fsP clockP 1 (stepF { ersDelete := fun _ => false } wP (.reconcileEds "x" "auto")))

example : ClusterConverged wPF uL true itemsL :=
  (C11c_recovers_after_promotion canaryWorldP dueP envP (by decide) storeP stratP genNew_inj
    { ersDelete := fun _ => false } rfl rfl fsP clockP (by decide) clockP_ok gateP "x" "auto" 1 2 (by decide)).1

/-- the faulty round leaves the pods where they were; the recovered cluster is the one of the run without failure. -/
example : viewL (coopRunWF "d-new" true genNew fsP clockP 1 (stepF { ersDelete := fun _ => false } wP (.reconcileEds "x" "auto"))) =
    (("d-new", none, "new"), [("d-new-n1", "n1", some "new", true), ("old-2", "n2", some "old", true)]) := by decide
example : viewL wPF = viewL (coopRunW "d-new" true genNew clockP 2 (step wP (.reconcileEds "x" "auto"))) := by decide

/-- rollback: the spec write of the first daemonset reconcile is dropped, a second reconcile completes it; round 0 of
`d-old` deletes the failed canary pod, round 1 loses its creation; then two fault-free rounds. -/
def fsR : Nat → Faults
  | 1 => { podCreate := fun _ => false }
  | _ => {}

def wRF : World :=
  coopRunW "d-old" true genOld (fun i => clockR (2 + i)) 2
    (coopRunWF "d-old" true genOld fsR clockR 2
      (step (stepF { edsSpec := false } wR (.reconcileEds "x" "auto")) (.reconcileEds "y" "auto")))

example : ClusterConverged wRF aL true itemsL :=
  (C11c_recovers_after_rollback canaryWorldR failedR notValidR envR (by decide) storeR stratR genOld_inj
    { edsSpec := false } rfl fsR clockR (by decide) clockR_ok gateR "x" "auto" "y" "auto" 2 2 (by decide)).1

example : viewL (coopRunWF "d-old" true genOld fsR clockR 2
      (step (stepF { edsSpec := false } wR (.reconcileEds "x" "auto")) (.reconcileEds "y" "auto"))) =
    (("d-old", none, "old"), [("old-2", "n2", some "old", true)]) := by decide
example : viewL wRF = viewL (coopRunW "d-old" true genOld clockR 2 (step wR (.reconcileEds "x" "auto"))) := by decide

end Eds.ExC11c
