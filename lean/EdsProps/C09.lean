import EdsProofs.Rolling
import EdsSpec.C09
/-
  C09 — Pod creation is rate limited by slow start and syncs are spaced.
-/
namespace Eds
open Spec.C09

/-- **Ramp.** For a positive interval and a clock not behind the activation instant, the creation
cap is `min maxParallelPodCreation ((1 + ⌊t / interval⌋) · increase)`, percentages resolved against
the number of targeted nodes (rounding up). -/
theorem C09_ramp (inc : Option IntOrStr) (iv mp nbNodes start now incv : Int)
    (hinc : resolveIntOrPercent inc nbNodes = some incv) (hiv : 0 < iv) (ht : start ≤ now) :
    calculateMaxCreation inc (some iv) (some mp) nbNodes start now
      = .ok (min mp ((1 + (now - start) / iv) * incv)) := by
  unfold calculateMaxCreation goDiv
  simp only [hinc]
  have h1 : ¬ iv ≤ 0 := by omega
  have h2 : (iv == 0) = false := by simp; omega
  simp only [h1, h2, if_false, Bool.false_eq_true]
  have h3 : Int.tdiv (now - start) iv = (now - start) / iv := by
    apply Int.tdiv_eq_ediv_of_nonneg; omega
  rw [h3]
  congr 1
  generalize (1 + (now - start) / iv) * incv = r
  simp only [Int.min_def]
  split <;> split <;> omega

/-- the reference formula of the specification is what the model computes, wherever it is defined. -/
theorem C09_ramp_ref (ru : RollingUpdate) (nbNodes start now v : Int)
    (h : rampRef ru nbNodes start now = some v) :
    calculateMaxCreation ru.slowStartAdditiveIncrease ru.slowStartInterval ru.maxParallelPodCreation nbNodes start now
      = .ok v := by
  unfold rampRef at h
  split at h
  · rename_i inc iv mp hinc hiv hmp
    split at h
    · rename_i hc
      simp only [Bool.and_eq_true, decide_eq_true_eq] at hc
      simp only [Option.some.injEq] at h
      rw [hiv, hmp, C09_ramp _ iv mp nbNodes start now inc hinc hc.1 hc.2, h]
    · simp at h
  · simp at h

/-- **Create bound.** One sync of the active role creates at most the cap, and only on nodes
lacking a pod. -/
theorem C09_create_bound (c : Counts) (N ms mu mc : Int) (paused frozen : Bool) :
    ((rollingPlan c N ms mu mc paused frozen).1.length : Int) ≤ max 0 mc ∧
    (rollingPlan c N ms mu mc paused frozen).1.length ≤ c.toCreate.length := by
  unfold rollingPlan
  simp only [calcLimits]
  split
  · simp only [List.length_take]
    constructor <;> omega
  · simp; omega

/-- through `manageDeployment`: the number of creations of a successful sync is bounded by the ramp. -/
theorem C09_sync_create_bound (p : StratParams) (now wall : Time) (cf : Bool) (r : StratResult)
    (h : manageDeployment p now wall cf = .ok r) :
    ∃ mc, calculateMaxCreation p.strategy.rollingUpdate.slowStartAdditiveIncrease
        p.strategy.rollingUpdate.slowStartInterval p.strategy.rollingUpdate.maxParallelPodCreation
        (targeted p).length (rollingUpdateStartTime p.ers.status now) now = .ok mc ∧
      (r.createE.length : Int) ≤ max 0 mc := by
  obtain ⟨ms, mu, mc, _, _, hmc, hc, _⟩ := manageDeployment_plan p now wall cf r h
  exact ⟨mc, hmc, by rw [hc]; exact (C09_create_bound _ _ ms mu mc _ _).1⟩

/-- **Delete bound** (= C03_cap): at most maxUnavailable update-deletions per sync. -/
theorem C09_delete_bound (c : Counts) (N ms mu mc : Int) (paused frozen : Bool) :
    ((rollingPlan c N ms mu mc paused frozen).2.length : Int) ≤ max 0 mu := plan_cap c N ms mu mc paused frozen

/-- the ramp starts at the activation instant: the transition time of a true Active condition, else now. -/
theorem C09_start_time (st : ERSStatus) (now : Time) :
    rollingUpdateStartTime st now =
      match findCond st.conds "Active" with
      | some c => if c.status == "True" then c.lastTransition else now
      | none => now := rfl

example : calculateMaxCreation (some ⟨"int", 2⟩) (some minute) (some 250) 10 0 (3 * minute + 5) = .ok 8 := by decide
example : calculateMaxCreation (some ⟨"pct", 10⟩) (some minute) (some 3) 25 0 (2 * minute) = .ok 3 := by decide

end Eds
