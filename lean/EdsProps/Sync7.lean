import EdsProofs.Cluster
import EdsProps.C03
import EdsProps.C04
import EdsProps.C08c
import EdsProps.C09
import EdsProps.C10c
import EdsProps.C13
import EdsProps.C15
import EdsProps.C18
/-
  Sync7 — theorems behind the newest specification clauses of `Driver/Handlers.lean`
  (`hEdsReconcile`, `hErsReconcile`), stated on the L2 models `reconcileEds` (EdsModel/ReconcileEds.lean)
  and `reconcileErs` (EdsModel/ReconcileErs.lean), for every input.

  ExtendedDaemonSet reconcile (through `reconcileEds_main`, `edsMain_statusUpdate`, and the new
  `updateInstance_canary_nodes` / `reconcileEds_canary_nodes`: the written canary node list is the previous one
  or `selectNodes` of it):

    1  `C15_keep_reconcile`  clause `C15.keep(reconcile)`                                              [full]
         hypotheses: node names distinct (`hnames`), the up-to-date replica set's template agrees with
         `spec.template` on the fitness of the listed nodes (`hfit`; `C15_keep_reconcile_same_template` takes
         `u.template = d.template`).  Both necessary: `Ex7.C15_keep_reconcile_needs_names`,
         `Ex7.C15_keep_reconcile_needs_template` (by `decide`).  `oldNodes.Nodup` is NOT needed
         (`Spec.C15.keep` is true by definition on a list with duplicates).
    2  `C04_list_growth_reconcile`  clauses `C04.list-growth` / `C15.count-vs-targeted`                [full]
         hypothesis `hfit` only (necessary: `Ex7.C04_list_growth_needs_template`); reuses `C15_never_exceeds`.

  Replica-set reconcile (through `reconcileErs_cases` / `reconcileErs_full`, `ersStrategy_active`):

    3  `C04_active_serves_rest_sync`  clause `C04.active-serves-rest`                                  [full]
         every sync of the active role (owner + role only): each creation is for a creation candidate = a
         targeted (fit, non-canary) entry without pod; #creations ≤ min (#candidates) (budget).
       `C04_active_serves_rest_sync_partial` (+ `…_partial_pos`)               [partial: hyp ADDED `hcg`, `hok`]
         exact list / count `= min (#candidates) (budget)` unless frozen, `> 0` when a candidate exists, not
         frozen, budget positive.  "Not gated (LastFullSync), no early error" alone is not enough:
         `Ex7.C04_active_serves_rest_sync_needs_create_gate`, `Ex7.C04_active_serves_rest_sync_needs_ok`.
    4  `C10_api_resources_sync`  clauses `C10.api-resources` / `C18.only-valid-setting-applied`         [full]
         hypothesis: distinct container names in the template (the handler's guard `distinctNames`; necessary:
         `Ex7.C10_api_resources_needs_names`).  `C10_api_resources_clause`: the Boolean of the handler
         (`apiResourcesClause`) is `true` on the model's creations when node names are distinct.
    5  `C09_delete_bound_sync`  clause `C09.delete-bound`                                               [full]
    6  non-vacuity examples in `namespace Ex7`, all by `decide`.
-/
namespace Eds
open Spec.C15

/-! ## 1. `C15.keep(reconcile)` -/

/-- the canary block of the status `updateInstance` computes holds the previous node list, or the
result of `selectNodes` run on the previous one. -/
theorem updateInstance_canary_nodes (d : EDS) (current u : ERS) (cu rdy avail : Int) (now : Time)
    (pods : List Pod) (nodes : List Node) :
    ∀ cs, (updateInstance d current u cu rdy avail now pods nodes).status.canary = some cs →
      cs.nodes = canaryNodesOf d.status ∨
      ∃ c sel short, d.strategy.canary = some c ∧
        selectNodes u.template c (targetedCount u.template nodes) (canaryNodesOf d.status) pods nodes
          = .ok (sel, short) ∧ cs.nodes = sel := by
  have hcur : (d.status.canary.getD { replicaSet := "", nodes := [] }).nodes = canaryNodesOf d.status := by
    unfold canaryNodesOf; cases d.status.canary <;> rfl
  cases hc : d.strategy.canary with
  | none =>
    intro cs h
    rw [updateInstance_no_canary _ _ _ _ _ _ _ _ _ hc] at h
    left
    have h' : d.status.canary = some cs := h
    unfold canaryNodesOf; rw [h']
  | some c =>
    cases hf : isCanaryFailed (some u) with
    | true =>
      intro cs h
      rw [updateInstance_failed _ _ _ _ _ _ _ _ _ c hc hf] at h
      cases h
    | false =>
      cases hact : isCanaryActive (some c) current.name u.name false with
      | false =>
        unfold updateInstance
        simp only [hc, hf, hact, manageStatus_inactive]
        intro cs h
        cases h
      | true =>
        unfold updateInstance
        simp only [hc, hf, hact, manageStatus_active, if_true]
        have key : ∀ (cs cs0 : CanaryStatus), cs0.nodes = canaryNodesOf d.status → some cs0 = some cs →
            cs.nodes = canaryNodesOf d.status := by
          intro cs cs0 h0 h; cases h; exact h0
        split
        · intro cs h; left; exact key cs ⟨u.name, _⟩ hcur h
        · split
          · split
            · next sel short hsel =>
              intro cs h
              right
              refine ⟨c, sel, short, rfl, ?_, ?_⟩
              · rw [← hcur]; exact hsel
              · simp only [Option.map_some, Option.some.injEq] at h
                rw [← h]
            · intro cs h; left; exact key cs ⟨u.name, _⟩ hcur h
          · intro cs h; left; exact key cs ⟨u.name, _⟩ hcur h

/-- `validNode` reads the template only through `fit` on the listed nodes. -/
theorem validNode_congr_fit {t t' : Template} (c : Canary) {nodes : List Node}
    (h : ∀ n ∈ nodes, fit t n = fit t' n) (x : String) :
    validNode t c nodes x = validNode t' c nodes x := by
  unfold validNode
  induction nodes with
  | nil => rfl
  | cons n rest ih =>
    simp only [List.any_cons]
    rw [h n List.mem_cons_self, ih (fun m hm => h m (List.mem_cons_of_mem n hm))]

theorem keep_congr_fit {t t' : Template} (c : Canary) {nodes : List Node}
    (h : ∀ n ∈ nodes, fit t n = fit t' n) (old new : List String) :
    keep t c nodes old new = keep t' c nodes old new := by
  have : validNode t c nodes = validNode t' c nodes := funext (validNode_congr_fit c h)
  unfold keep
  rw [this]

/-- an unchanged list keeps everything. -/
theorem keep_self (t : Template) (c : Canary) (nodes : List Node) (old : List String) :
    keep t c nodes old old = true := by
  unfold keep
  simp only [Bool.or_eq_true, beq_iff_eq]
  left
  apply List.filter_congr
  intro x hx
  cases hv : validNode t c nodes x <;> simp [hv, hx]

/-- the status write of `reconcileEds`, traced back to `updateInstance`: the canary node list it
carries is the previous one or the result of `selectNodes` (template of the up-to-date replica set,
request resolved against the nodes that template targets) on the previous one. -/
theorem reconcileEds_canary_nodes (d : EDS) (all : List ERS) (pods : List Pod) (nodes : List Node) (now : Time)
    (mode : String) (st : EDSStatus) (cs : CanaryStatus)
    (hst : (reconcileEds d all pods nodes now mode).statusUpdate = some st) (hcs : st.canary = some cs) :
    ∃ u, upToDateOf d (ownErs d all) = some u ∧
      (cs.nodes = canaryNodesOf d.status ∨
       ∃ c sel short, d.strategy.canary = some c ∧
         selectNodes u.template c (targetedCount u.template nodes) (canaryNodesOf d.status)
           (ownPods d pods) nodes = .ok (sel, short) ∧ cs.nodes = sel) := by
  obtain ⟨u, hu, hmain⟩ := reconcileEds_main d all pods nodes now mode (Or.inr (by rw [hst]; simp))
  rw [hmain] at hst
  have h1 := edsMain_statusUpdate _ _ _ _ _ _ st hst
  refine ⟨u, hu, ?_⟩
  unfold edsUpd at h1
  rw [h1] at hcs
  exact updateInstance_canary_nodes _ _ _ _ _ _ _ _ _ cs hcs

/-- **`C15.keep(reconcile)`.**  When a reconcile of the ExtendedDaemonSet writes a status with a canary
block, the canary nodes selected earlier (`d.status.canary.nodes`, `[]` without a block) that are still
valid are kept, in order — also when the canary is re-targeted to another replica set (`cs.replicaSet`
is not constrained).

Hypotheses (both necessary, see the counterexamples below): node names are distinct (true of every list
the API server returns), and the template of the up-to-date replica set — the one the selection is run
with — agrees with `spec.template` on which listed nodes are fit (they are the same template whenever
the replica set was created from the current spec, `u.template = d.template`). -/
theorem C15_keep_reconcile (d : EDS) (all : List ERS) (pods : List Pod) (nodes : List Node) (now : Time)
    (mode : String) (st : EDSStatus) (cs : CanaryStatus) (c : Canary)
    (hst : (reconcileEds d all pods nodes now mode).statusUpdate = some st)
    (hcs : st.canary = some cs) (hc : d.strategy.canary = some c)
    (hnames : (nodes.map (·.name)).Nodup)
    (hfit : ∀ u, upToDateOf d (ownErs d all) = some u → ∀ n ∈ nodes, fit u.template n = fit d.template n) :
    Spec.C15.keep d.template c nodes
      (match d.status.canary with | some x => x.nodes | none => []) cs.nodes = true := by
  show keep d.template c nodes (canaryNodesOf d.status) cs.nodes = true
  obtain ⟨u, hu, h | ⟨c', sel, short, hc', hsel, h⟩⟩ := reconcileEds_canary_nodes d all pods nodes now mode st cs hst hcs
  · rw [h]; exact keep_self _ _ _ _
  · rw [hc] at hc'
    cases hc'
    rw [h, ← keep_congr_fit c (hfit u hu)]
    exact C15_keep hsel hnames

/-- the same with the hypothesis on the templates in its usual form. -/
theorem C15_keep_reconcile_same_template (d : EDS) (all : List ERS) (pods : List Pod) (nodes : List Node)
    (now : Time) (mode : String) (st : EDSStatus) (cs : CanaryStatus) (c : Canary)
    (hst : (reconcileEds d all pods nodes now mode).statusUpdate = some st)
    (hcs : st.canary = some cs) (hc : d.strategy.canary = some c)
    (hnames : (nodes.map (·.name)).Nodup)
    (htpl : ∀ u, upToDateOf d (ownErs d all) = some u → u.template = d.template) :
    Spec.C15.keep d.template c nodes
      (match d.status.canary with | some x => x.nodes | none => []) cs.nodes = true :=
  C15_keep_reconcile d all pods nodes now mode st cs c hst hcs hc hnames
    (fun u hu n _ => by rw [htpl u hu])

/-! ## 2. `C04.list-growth` / `C15.count-vs-targeted` -/

theorem targetedCount_congr_fit {t t' : Template} {nodes : List Node}
    (h : ∀ n ∈ nodes, fit t n = fit t' n) : targetedCount t nodes = targetedCount t' nodes := by
  unfold targetedCount
  rw [List.filter_congr (fun n hn => h n hn)]

/-- **`C04.list-growth` / `C15.count-vs-targeted`.**  The canary node list a reconcile writes never exceeds
the larger of the previous length and the request resolved against the listed nodes fit for
`spec.template`.  (No condition on the node names; the templates must agree on fitness as in
`C15_keep_reconcile`, see `Ex7.C04_list_growth_needs_template`.) -/
theorem C04_list_growth_reconcile (d : EDS) (all : List ERS) (pods : List Pod) (nodes : List Node) (now : Time)
    (mode : String) (st : EDSStatus) (cs : CanaryStatus) (c : Canary) (k : Int)
    (hst : (reconcileEds d all pods nodes now mode).statusUpdate = some st)
    (hcs : st.canary = some cs) (hc : d.strategy.canary = some c)
    (hfit : ∀ u, upToDateOf d (ownErs d all) = some u → ∀ n ∈ nodes, fit u.template n = fit d.template n)
    (hk : resolveIntOrPercent c.replicas ((nodes.filter (fit d.template)).length : Int) = some k) :
    (cs.nodes.length : Int) ≤
      max k ((match d.status.canary with | some x => x.nodes | none => [] : List String).length : Int) := by
  show (cs.nodes.length : Int) ≤ max k ((canaryNodesOf d.status).length : Int)
  obtain ⟨u, hu, h | ⟨c', sel, short, hc', hsel, h⟩⟩ := reconcileEds_canary_nodes d all pods nodes now mode st cs hst hcs
  · rw [h]; omega
  · rw [hc] at hc'
    cases hc'
    rw [h]
    have hk' : requested c (targetedCount u.template nodes) = some k := by
      rw [targetedCount_congr_fit (hfit u hu)]; exact hk
    exact (C15_never_exceeds hsel hk').2.2

/-! ### Non-vacuity and counterexamples for 1 and 2 (fixtures of `EdsProofs/ReconcileEds.lean`, nodes of
`EdsProps/C15.lean`): daemonset `ns/ds` on template hash `h2`, active replica set `ds-a` (hash `h1`), up-to-date
replica set `ds-b` (hash `h2`, a canary in progress), clock at one minute. -/
namespace Ex7
open ExReconcile

/-- a defaulted strategy whose canary asks for `r` replicas. -/
def strat (r : IntOrStr) : Strategy :=
  (defaultSpec { rollingUpdate := ⟨none, none, none, none, none⟩,
                 canary := some { replicas := some r, duration := none, nodeSelector := none,
                                  antiAffinityKeys := [], autoPause := none, autoFail := none,
                                  noRestartsDuration := none, validationMode := "" },
                 reconcileFrequency := none } "auto").1

def canaryOf (r : IntOrStr) : Canary := ((strat r).canary.getD default)

/-- the daemonset in the middle of a canary of replica set `crs` on the nodes `old`. -/
def edsC (r : IntOrStr) (crs : String) (old : List String) (t : Template := tpl) : EDS :=
  { eds "h2" [] (status "ds-a" (some ⟨crs, old⟩)) with strategy := strat r, template := t }

def store (t : Template := tpl) : List ERS := [rs "ds-a" "h1" 3 [], { rs "ds-b" "h2" 1 [] with template := t }]

/-- a template that only fits nodes labelled `pool=x`. -/
def tplPool : Template := { tpl with nodeSelector := [⟨"pool", "x"⟩] }

/-- three requested, previous selection `n3` (now tainted) and `n1`: the reconcile writes `n1` (kept), `n2`,
`n4` (added).  Every hypothesis of `C15_keep_reconcile` / `C04_list_growth_reconcile` holds. -/
example :
    ((reconcileEds (edsC ⟨"int", 3⟩ "ds-b" ["n3", "n1"]) store [] exNodes15 minute "auto").statusUpdate.map
      (·.canary)) = some (some ⟨"ds-b", ["n1", "n2", "n4"]⟩) ∧
    (edsC ⟨"int", 3⟩ "ds-b" ["n3", "n1"]).strategy.canary = some (canaryOf ⟨"int", 3⟩) ∧
    (exNodes15.map (·.name)).Nodup ∧
    (upToDateOf (edsC ⟨"int", 3⟩ "ds-b" ["n3", "n1"]) (ownErs (edsC ⟨"int", 3⟩ "ds-b" ["n3", "n1"]) store)).map
      (·.template) = some (edsC ⟨"int", 3⟩ "ds-b" ["n3", "n1"]).template ∧
    resolveIntOrPercent (canaryOf ⟨"int", 3⟩).replicas ((exNodes15.filter (fit tpl)).length : Int) = some 3 ∧
    keep tpl (canaryOf ⟨"int", 3⟩) exNodes15 ["n3", "n1"] ["n1", "n2", "n4"] = true ∧
    keep tpl (canaryOf ⟨"int", 3⟩) exNodes15 ["n3", "n1"] ["n2", "n4"] = false := by decide

/-- the canary is re-targeted (the previous block names another replica set, `ds-0`): the block written names
`ds-b` and the still valid node `n1` is kept. -/
example :
    ((reconcileEds (edsC ⟨"int", 3⟩ "ds-0" ["n3", "n1"]) store [] exNodes15 minute "auto").statusUpdate.map
      (·.canary)) = some (some ⟨"ds-b", ["n1", "n2", "n4"]⟩) := by decide

/-- "50%" of the 3 fit nodes is 2; the previous list of 3 shrinks to its 2 still valid names and stays within
`max 2 3`. -/
example :
    ((reconcileEds (edsC ⟨"pct", 50⟩ "ds-b" ["n3", "n1", "n2"]) store [] exNodes15 minute "auto").statusUpdate.map
      (·.canary)) = some (some ⟨"ds-b", ["n1", "n2"]⟩) ∧
    resolveIntOrPercent (canaryOf ⟨"pct", 50⟩).replicas ((exNodes15.filter (fit tpl)).length : Int) = some 2 := by
  decide

def nodesDup : List Node := [exNode15 "a", exNode15 "a" [] [exTaint15], exNode15 "b"]

/-- **`hnames` cannot be dropped from `C15_keep_reconcile`**: a fit and a tainted node both named `a`; the name
`a` is still valid for the specification, yet the reconcile drops it.  Every other hypothesis holds. -/
theorem C15_keep_reconcile_needs_names :
    ((reconcileEds (edsC ⟨"int", 1⟩ "ds-b" ["a", "b"]) store [] nodesDup minute "auto").statusUpdate.map
      (·.canary)) = some (some ⟨"ds-b", ["b"]⟩) ∧
    (edsC ⟨"int", 1⟩ "ds-b" ["a", "b"]).strategy.canary = some (canaryOf ⟨"int", 1⟩) ∧
    (upToDateOf (edsC ⟨"int", 1⟩ "ds-b" ["a", "b"]) (ownErs (edsC ⟨"int", 1⟩ "ds-b" ["a", "b"]) store)).map
      (·.template) = some (edsC ⟨"int", 1⟩ "ds-b" ["a", "b"]).template ∧
    ¬ (nodesDup.map (·.name)).Nodup ∧
    keep tpl (canaryOf ⟨"int", 1⟩) nodesDup ["a", "b"] ["b"] = false := by decide

def nodesPool : List Node := [exNode15 "a", exNode15 "b" [⟨"pool", "x"⟩], exNode15 "c" [⟨"pool", "x"⟩]]

/-- **`hfit` cannot be dropped from `C15_keep_reconcile`**: the up-to-date replica set carries a template that
does not fit node `a`, `spec.template` fits it; `a` is dropped.  Node names are distinct. -/
theorem C15_keep_reconcile_needs_template :
    ((reconcileEds (edsC ⟨"int", 2⟩ "ds-b" ["a"]) (store tplPool) [] nodesPool minute "auto").statusUpdate.map
      (·.canary)) = some (some ⟨"ds-b", ["b", "c"]⟩) ∧
    (edsC ⟨"int", 2⟩ "ds-b" ["a"]).strategy.canary = some (canaryOf ⟨"int", 2⟩) ∧
    (nodesPool.map (·.name)).Nodup ∧
    (upToDateOf (edsC ⟨"int", 2⟩ "ds-b" ["a"]) (ownErs (edsC ⟨"int", 2⟩ "ds-b" ["a"]) (store tplPool))).map
      (·.template) = some tplPool ∧
    (edsC ⟨"int", 2⟩ "ds-b" ["a"]).template = tpl ∧
    keep tpl (canaryOf ⟨"int", 2⟩) nodesPool ["a"] ["b", "c"] = false := by decide

/-- **`hfit` cannot be dropped from `C04_list_growth_reconcile`**: `spec.template` fits the two `pool=x` nodes
("50%" of them is 1), the template of the up-to-date replica set fits all three ("50%" is 2): two nodes are
selected from an empty list. -/
theorem C04_list_growth_needs_template :
    ((reconcileEds (edsC ⟨"pct", 50⟩ "ds-b" [] tplPool) store [] nodesPool minute "auto").statusUpdate.map
      (·.canary)) = some (some ⟨"ds-b", ["a", "b"]⟩) ∧
    (edsC ⟨"pct", 50⟩ "ds-b" [] tplPool).strategy.canary = some (canaryOf ⟨"pct", 50⟩) ∧
    resolveIntOrPercent (canaryOf ⟨"pct", 50⟩).replicas ((nodesPool.filter (fit tplPool)).length : Int) = some 1 ∧
    ¬ ((["a", "b"] : List String).length : Int) ≤ max 1 (([] : List String).length : Int) := by decide

end Ex7

/-! ## replica-set controller: shared lemmas -/

/-- every item of the node listing is a stored node together with the setting `chooseSetting` picks for it
among the settings of the ExtendedDaemonSet's namespace. -/
theorem ersNodeItems_setting (d : EDS) (rs : ERS) (st : ErsStore) (items : List NodeItem)
    (h : ersNodeItems d rs st = some items) : ∀ ni ∈ items,
      ni.node ∈ st.nodes ∧
      chooseSetting d.name (st.settings.filter (fun s => s.ns == d.ns)) ni.node = some ni.setting := by
  intro ni hni
  refine ⟨ersNodeItems_mem d rs st items h ni hni, ?_⟩
  unfold ersNodeItems at h
  simp only [] at h
  split at h
  · cases h
  · rename_i ns hns
    obtain ⟨n, hn, hf⟩ := mapM_option_mem _ ns items h ni hni
    cases hc : chooseSetting d.name (st.settings.filter (fun s => s.ns == d.ns)) n with
    | none => rw [hc] at hf; cases hf
    | some s =>
      rw [hc] at hf
      simp only [Option.map_some, Option.some.injEq] at hf
      rw [← hf]
      exact hc

/-- when no setting is attached, no valid setting referencing the ExtendedDaemonSet matches the node. -/
theorem chooseSetting_go_none (n : Node) {l : List Setting} (h : chooseSetting.go n l = some none) :
    ∀ s ∈ l, s.status = "valid" → settingMatches s n.labels ≠ some true := by
  induction l with
  | nil => intro s hs; cases hs
  | cons q rest ih =>
    unfold chooseSetting.go at h
    split at h
    · rename_i hst
      intro s hs hv
      rcases List.mem_cons.mp hs with rfl | hs
      · simp [hv] at hst
      · exact ih h s hs hv
    · split at h
      · cases h
      · cases h
      · rename_i hq
        intro s hs hv
        rcases List.mem_cons.mp hs with rfl | hs
        · rw [hq]; simp
        · exact ih h s hs hv

theorem chooseSetting_none (edsName : String) (settings : List Setting) (n : Node)
    (h : chooseSetting edsName settings n = some none) :
    ∀ s ∈ settings, s.reference = some edsName → s.status = "valid" → settingMatches s n.labels ≠ some true := by
  intro s hs href hv
  unfold chooseSetting at h
  exact chooseSetting_go_none n h s (List.mem_filter.mpr ⟨hs, by simp [href]⟩) hv

section Ers
variable (rs : ERS) (st : ErsStore) (released : String → Bool) (aff : Bool) (now : Time) (d : EDS)

/-- **What a creation is** (any role): the pod built for an item of the node listing whose entry in the
per-node map holds no pod, on a node fit for the template. -/
theorem ersCreates_item (h : ersOwner rs st = some d)
    (x : String × Pod) (hx : x ∈ (reconcileErs rs st released aff now).creates) :
    ∃ items ni, ersNodeItems d rs st = some items ∧ ni ∈ items ∧
      x = (ni.node.name, (createPod rs (some ni.node) ni.setting aff).pod) ∧
      (ni, none) ∈ (ersFilter released d rs items (ersPods d st)).byNode ∧
      fit rs.template ni.node = true := by
  rcases reconcileErs_cases rs st released aff now d h with hno | ⟨items, r, adds, removes, se, st0, F⟩
  · exact (mem_nil_elim hno.2.2.2.2 hx).elim
  · rw [F.eq] at hx
    obtain ⟨ni, hni, rfl⟩ := ersFinish_creates_sub _ _ _ _ _ _ _ _ _ _ _ x hx
    have hs := F.strat
    have hkey : (ni, none) ∈ (ersParams released d rs items (ersPods d st) now).byNode := by
      rcases ersRole_cases d rs.name with hr | hr | hr
      · rw [hr] at hs
        rcases ersStrategy_active hs F.status with ⟨hm, -, -, -⟩ | ⟨-, hre, -, -, -⟩
        · exact (C01_create_only_empty_byNode _ now now false r hm ni hni).1
        · rw [hre] at hni
          exact (mem_nil_elim (ersErrResult_empty _ now).1 hni).elim
      · rw [hr] at hs
        obtain ⟨r0, hm, hr0, -, -, -⟩ := ersStrategy_canary hs
        have hni' : ni ∈ r0.createE := by rw [hr0] at hni; exact hni
        exact (C01_canary_create_only_empty _ now r0 hm ni hni').1
      · rw [hr] at hs
        obtain ⟨hr0, -, -, -⟩ := ersStrategy_unknown (by decide) (by decide) hs
        rw [hr0] at hni
        exact (mem_nil_elim (C01_unknown_role_creates_nothing _ now).1 hni).elim
    obtain ⟨h1, _, h3⟩ := key_listed rs released now d items (ersPods d st) _ hkey
    exact ⟨items, ni, F.hitems, h1, rfl, hkey, h3⟩

/-! ## 4. `C10.api-resources` / `C18.only-valid-setting-applied` -/

/-- what the model attaches to a node: a valid setting of the ExtendedDaemonSet's namespace that references
it and matches the node — or nothing, and then no such setting exists. -/
def SettingApplies (d : EDS) (st : ErsStore) (n : Node) : Option Setting → Prop
  | some s => s ∈ st.settings ∧ s.ns = d.ns ∧ s.reference = some d.name ∧ s.status = "valid" ∧
              settingMatches s n.labels = some true
  | none => ∀ s ∈ st.settings, s.ns = d.ns → s.reference = some d.name → s.status = "valid" →
              settingMatches s n.labels ≠ some true

/-- **`C10.api-resources` / `C18.only-valid-setting-applied`.**  Every pod the sync creates (any role, any
outcome) is created for a stored node `n` of that name with the setting `s` the model attached to it:
its container resources are resolved as `Spec.C10.resources` demands (well-formed node override, else the
setting, else the template), and `s` is a valid setting of the ExtendedDaemonSet's namespace referencing it
and matching the node — or `none`, when no such setting exists.

`hT` (distinct container names in the template — the guard `distinctNames` of the handler) is needed as
soon as a setting is attached (`Ex7.C10_api_resources_needs_names`). -/
theorem C10_api_resources_sync (h : ersOwner rs st = some d)
    (hT : (rs.template.containers.map (·.name)).Nodup) :
    ∀ x ∈ (reconcileErs rs st released aff now).creates,
      ∃ (n : Node) (s : Option Setting), n ∈ st.nodes ∧ n.name = x.1 ∧
        x.2 = (createPod rs (some n) s aff).pod ∧
        Spec.C10.resources x.2 rs.template n s = true ∧ SettingApplies d st n s := by
  intro x hx
  obtain ⟨items, ni, hi, hni, rfl, -, -⟩ := ersCreates_item rs st released aff now d h x hx
  obtain ⟨hnode, hch⟩ := ersNodeItems_setting d rs st items hi ni hni
  refine ⟨ni.node, ni.setting, hnode, rfl, rfl, C10_resources rs ni.node ni.setting aff (fun _ => hT), ?_⟩
  cases hs : ni.setting with
  | none =>
    rw [hs] at hch
    intro s hs' hns href hv
    exact chooseSetting_none d.name _ ni.node hch s (List.mem_filter.mpr ⟨hs', by simp [hns]⟩) href hv
  | some s =>
    rw [hs] at hch
    obtain ⟨hv, href, hm, hmem⟩ := C18_only_valid_used d.name _ ni.node s hch
    rw [List.mem_filter] at hmem
    exact ⟨hmem.1, by simpa using hmem.2, href, hv, hm⟩

/-- the clause exactly as `hErsReconcile` evaluates it (`C10.api-resources` and
`C18.only-valid-setting-applied` are the same Boolean), on a list of creations `(node name, pod)`. -/
def apiResourcesClause (d : EDS) (rs : ERS) (nodes : List Node) (settings : List Setting)
    (creates : List (String × Pod)) : Bool :=
  creates.all (fun c =>
    match nodes.find? (fun n => n.name == c.1) with
    | none => true
    | some n =>
      let applicable := settings.filter (fun s => s.ns == d.ns && s.reference == some d.name &&
                          s.status == "valid" && settingMatches s n.labels == some true)
      if applicable.isEmpty then Spec.C10.resources c.2 rs.template n none
      else applicable.any (fun s => Spec.C10.resources c.2 rs.template n (some s)))

theorem find?_name_of_nodup {nodes : List Node} (hnd : (nodes.map (·.name)).Nodup) {n : Node} (hn : n ∈ nodes) :
    nodes.find? (fun m => m.name == n.name) = some n := by
  induction nodes with
  | nil => cases hn
  | cons a rest ih =>
    simp only [List.map_cons, List.nodup_cons, List.mem_map, not_exists, not_and] at hnd
    rw [List.find?_cons]
    rcases List.mem_cons.mp hn with rfl | hn'
    · simp
    · have hne : a.name ≠ n.name := fun he => hnd.1 n hn' he.symm
      have : (a.name == n.name) = false := by simpa using hne
      rw [this]
      exact ih hnd.2 hn'

/-- **The model satisfies the clause**: with distinct node names in the store and distinct container names
in the template, the Boolean the handler computes is `true` on the model's own creations. -/
theorem C10_api_resources_clause (h : ersOwner rs st = some d)
    (hT : (rs.template.containers.map (·.name)).Nodup) (hnodes : (st.nodes.map (·.name)).Nodup) :
    apiResourcesClause d rs st.nodes st.settings (reconcileErs rs st released aff now).creates = true := by
  unfold apiResourcesClause
  rw [List.all_eq_true]
  intro x hx
  obtain ⟨n, s, hn, hname, -, hres, happ⟩ := C10_api_resources_sync rs st released aff now d h hT x hx
  rw [← hname, find?_name_of_nodup hnodes hn]
  simp only []
  cases s with
  | none =>
    have hempty : st.settings.filter (fun s => s.ns == d.ns && s.reference == some d.name &&
        s.status == "valid" && settingMatches s n.labels == some true) = [] := by
      rw [List.filter_eq_nil_iff]
      intro s hs hc
      simp only [Bool.and_eq_true, beq_iff_eq] at hc
      exact happ s hs hc.1.1.1 hc.1.1.2 hc.1.2 hc.2
    rw [hempty]
    exact hres
  | some s =>
    obtain ⟨hs, hns, href, hv, hm⟩ := happ
    have hmem : s ∈ st.settings.filter (fun s => s.ns == d.ns && s.reference == some d.name &&
        s.status == "valid" && settingMatches s n.labels == some true) := by
      rw [List.mem_filter]
      exact ⟨hs, by simp [hns, href, hv, hm]⟩
    have hne : (st.settings.filter (fun s => s.ns == d.ns && s.reference == some d.name &&
        s.status == "valid" && settingMatches s n.labels == some true)).isEmpty = false := by
      cases hl : st.settings.filter (fun s => s.ns == d.ns && s.reference == some d.name &&
        s.status == "valid" && settingMatches s n.labels == some true) with
      | nil => rw [hl] at hmem; cases hmem
      | cons _ _ => rfl
    rw [hne]
    simp only [Bool.false_eq_true, if_false]
    rw [List.any_eq_true]
    exact ⟨s, hmem, hres⟩

/-! ## 5. `C09.delete-bound` -/

/-- **`C09.delete-bound`, whole sync.**  In the active role, whatever the outcome of the sync, the number of
pods deleted for updating is at most `max 0 maxUnavailable`, the percentage being resolved against the
number of entries the rolling update worked on (`entries`: the targeted, non-canary nodes; `mu` is the `mu`
of `C03_cap`).  When `maxUnavailable` does not resolve nothing is deleted for updating. -/
theorem C09_delete_bound_sync (h : ersOwner rs st = some d) (hr : ersRole d rs.name = "active") :
    (∀ mu, resolveIntOrPercent d.strategy.rollingUpdate.maxUnavailable
        ((reconcileErs rs st released aff now).entries.length : Int) = some mu →
      ((reconcileErs rs st released aff now).deletes.length : Int) ≤ max 0 mu) ∧
    (resolveIntOrPercent d.strategy.rollingUpdate.maxUnavailable
        ((reconcileErs rs st released aff now).entries.length : Int) = none →
      (reconcileErs rs st released aff now).deletes = []) := by
  rcases reconcileErs_cases rs st released aff now d h with hno | ⟨items, r, adds, removes, se, st0, F⟩
  · refine ⟨fun mu _ => ?_, fun _ => hno.2.2.2.1⟩
    rw [hno.2.2.2.1]; simp only [List.length_nil]; omega
  · have hs := F.strat
    rw [hr] at hs
    have heq := F.eq
    rw [hr] at heq
    rw [heq]
    rcases ersStrategy_active hs F.status with ⟨hm, -, -, -⟩ | ⟨-, hre, hadds, hrem, -⟩
    · obtain ⟨mu', hmu', hcap⟩ := C03_cap _ now now false r hm
      have hstr : (ersParams released d rs items (ersPods d st) now).strategy = d.strategy := rfl
      rw [hstr] at hmu'
      rw [ersFinish_entries_active]
      have hlen : ((ersFinish rs "active" (ersFreq d) (ersParams released d rs items (ersPods d st) now) r adds
          removes se st0 aff now).deletes.length : Int) ≤ (r.deleteE.length : Int) := by
        obtain ⟨b, hb⟩ := ersFinish_deletes_eq rs "active" (ersFreq d)
          (ersParams released d rs items (ersPods d st) now) r adds removes se st0 aff now
        rw [hb]
        cases b
        · simp
        · simp
      constructor
      · intro mu hmu
        have : mu' = mu := Option.some.inj (hmu'.symm.trans hmu)
        omega
      · intro hnone
        rw [hnone] at hmu'
        cases hmu'
    · subst hre hadds hrem
      have hno := ersFinish_errResult_noPodWrite rs "active" (ersFreq d)
        (ersParams released d rs items (ersPods d st) now) (ersParams released d rs items (ersPods d st) now)
        se st0 aff now
      refine ⟨fun mu _ => ?_, fun _ => hno.2.2.2.1⟩
      rw [hno.2.2.2.1]; simp only [List.length_nil]; omega

end Ers

/-! ## 3. `C04.active-serves-rest` -/

/-- the creations of the plan: none while frozen, else the first `maxCreation` entries without pod
(`Int.toNat` clamps a negative budget to 0; `take` caps at the number of candidates).  The kernel's other
bound, `nbNodes − nbPods`, never binds: it is at least the number of candidates. -/
theorem rollingPlan_create_take (tg : String) (wall : Time) (es : List (NodeItem × Option Pod))
    (ms mu mc : Int) (paused frozen : Bool) :
    (rollingPlan (countAll tg wall es) (es.length : Int) ms mu mc paused frozen).1 =
      if frozen then [] else (noneNodes es).take mc.toNat := by
  have inv := countAll_inv tg wall es
  have hd := inv.desired
  have hcl := inv.createLen
  have hst := inv.stuck
  unfold Spec.C03.nStuck at hst
  rw [countAll_toCreate] at hcl
  unfold rollingPlan
  simp only [calcLimits, countAll_toCreate]
  cases frozen with
  | true => rfl
  | false =>
    simp only [Bool.not_false, if_true, Bool.false_eq_true, if_false]
    rw [List.take_eq_take_iff]
    omega

/-- the PodCreation gate of `Reconcile`, read from the *stored* status: a creation was stamped less than
the reconcile frequency ago. -/
def ersCreateGated (d : EDS) (rs : ERS) (now : Time) : Bool :=
  match findCond rs.status.conds "PodCreation" with
  | some c => decide (now - c.lastUpdate < ersFreq d)
  | none => false

/-- the creations of `ersFinish`: all of the strategy's, unless the PodCreation condition of the strategy's
status gates them. -/
theorem ersFinish_creates_gate (rs : ERS) (role : String) (freq : Dur) (sp : StratParams) (r : StratResult)
    (adds removes : List String) (se : Bool) (st0 : ERSStatus) (aff : Bool) (now : Time) :
    (ersFinish rs role freq sp r adds removes se st0 aff now).creates =
      if (match findCond st0.conds "PodCreation" with
          | some c => decide (now - c.lastUpdate < freq)
          | none => false) = true then []
      else r.createE.map (fun ni => (ni.node.name, (createPod rs (some ni.node) ni.setting aff).pod)) := by
  unfold ersFinish
  simp only []
  rw [findCond_finish2, findCond_finish1 _ _ _ _ _ _ (by decide) (by decide)]
  cases findCond st0.conds "PodCreation" <;> rfl

section Ers3
variable (rs : ERS) (st : ErsStore) (released : String → Bool) (aff : Bool) (now : Time) (d : EDS)

/-- **`C04.active-serves-rest`, whole sync — what holds of every sync** (only the owner and the active role
are assumed; not defaulted, gated, early-error, parse-error, frozen, creation-gated syncs included).
With `entries` the per-node entries the rolling update worked on and `createCands` its creation candidates:

* every creation is for a candidate: an entry without pod among `entries`, whose node is fit for
  the template and is not a canary node (`ersCanaryNodes d = d.status.canary.nodes`);
* the number of creations never exceeds `min (#candidates) (creation budget)`, the budget being
  `calculateMaxCreation` on the number of entries (`Int.toNat` clamps a negative budget to 0).

The exact count (`= min …`, `> 0`) needs more than "not gated, no early error": see
`C04_active_serves_rest_sync_partial`. -/
theorem C04_active_serves_rest_sync (h : ersOwner rs st = some d) (hr : ersRole d rs.name = "active") :
    (∀ x ∈ (reconcileErs rs st released aff now).creates,
      ∃ ni, ni ∈ (reconcileErs rs st released aff now).createCands ∧
        (ni, none) ∈ (reconcileErs rs st released aff now).entries ∧
        x = (ni.node.name, (createPod rs (some ni.node) ni.setting aff).pod) ∧
        fit rs.template ni.node = true ∧ ni.node.name ∉ ersCanaryNodes d) ∧
    (∀ mc, calculateMaxCreation d.strategy.rollingUpdate.slowStartAdditiveIncrease
        d.strategy.rollingUpdate.slowStartInterval d.strategy.rollingUpdate.maxParallelPodCreation
        ((reconcileErs rs st released aff now).entries.length : Int)
        (rollingUpdateStartTime rs.status now) now = .ok mc →
      (reconcileErs rs st released aff now).creates.length ≤
        min (reconcileErs rs st released aff now).createCands.length mc.toNat) := by
  rcases reconcileErs_cases rs st released aff now d h with hno | ⟨items, r, adds, removes, se, st0, F⟩
  · refine ⟨fun x hx => (mem_nil_elim hno.2.2.2.2 hx).elim, fun mc _ => ?_⟩
    rw [hno.2.2.2.2]; simp
  · have hs := F.strat
    rw [hr] at hs
    have heq := F.eq
    rw [hr] at heq
    rw [heq]
    rcases ersStrategy_active hs F.status with ⟨hm, -, -, -⟩ | ⟨-, hre, hadds, hrem, -⟩
    · have hcands : (ersFinish rs "active" (ersFreq d) (ersParams released d rs items (ersPods d st) now) r adds
          removes se st0 aff now).createCands =
          noneNodes (targeted (ersParams released d rs items (ersPods d st) now)) := by
        unfold ersFinish
        simp only [beq_self_eq_true, if_true]
        exact countAll_toCreate _ _ _
      rw [ersFinish_entries_active, hcands]
      constructor
      · intro x hx
        obtain ⟨ni, hni, rfl⟩ := ersFinish_creates_sub _ _ _ _ _ _ _ _ _ _ _ x hx
        have hmem := C01_create_only_empty _ now now false r hm ni hni
        obtain ⟨-, hfit, hnc⟩ := (C04_active_serves_rest rs released now d items (ersPods d st) ni).mp
          (List.mem_map.mpr ⟨_, hmem, rfl⟩)
        exact ⟨ni, mem_noneNodes.mpr hmem, hmem, rfl, hfit, hnc⟩
      · intro mc hmc
        obtain ⟨ms, mu, mc', -, -, hmc', hc, -⟩ := manageDeployment_plan _ now now false r hm
        have hmcEq : mc' = mc := by
          have : Outcome.ok mc' = Outcome.ok mc := hmc'.symm.trans hmc
          injection this
        have hlen : r.createE.length ≤
            min (noneNodes (targeted (ersParams released d rs items (ersPods d st) now))).length mc.toNat := by
          rw [hc, hmcEq, rollingPlan_create_take]
          split
          · simp
          · rw [List.length_take]; omega
        obtain ⟨b, hb⟩ := ersFinish_creates_eq rs "active" (ersFreq d)
          (ersParams released d rs items (ersPods d st) now) r adds removes se st0 aff now
        rw [hb]
        cases b
        · simpa using hlen
        · simp
    · subst hre hadds hrem
      have hno := ersFinish_errResult_noPodWrite rs "active" (ersFreq d)
        (ersParams released d rs items (ersPods d st) now) (ersParams released d rs items (ersPods d st) now)
        se st0 aff now
      refine ⟨fun x hx => (mem_nil_elim hno.2.2.2.2 hx).elim, fun mc _ => ?_⟩
      rw [hno.2.2.2.2]; simp

/-- **`C04.active-serves-rest`, whole sync — the exact count** [hyp ADDED: `hcg`, `hok`].  Active role, owner
defaulted, sync not gated (neither by LastFullSync nor — `hcg` — by the PodCreation stamp), no early error,
rolling-update parameters that parse (`hok`), creation budget `mc` (`calculateMaxCreation` on the number of
targeted nodes).  The statement with only "not gated by LastFullSync, no early error" is FALSE
(`Ex7.C04_active_serves_rest_sync_needs_create_gate`, `Ex7.C04_active_serves_rest_sync_needs_ok`).  With `cands` the
creation candidates of the sync:

* `cands` are exactly the entries without pod among the targeted entries, and every targeted entry is an
  item of the node listing, fit for the template, whose node is not a canary node
  (`ersCanaryNodes d = d.status.canary.nodes`);
* the sync creates nothing when the rollout is frozen, and otherwise exactly the pods of the first
  `mc.toNat` candidates: `min (#candidates) (max 0 mc)` pods. -/
theorem C04_active_serves_rest_sync_partial (h : ersOwner rs st = some d) (hr : ersRole d rs.name = "active")
    (hd : isDefaulted d.strategy d.templateName = true) (hg : ersGated d rs now = false)
    (he : (reconcileErs rs st released aff now).earlyErr = false)
    (hcg : ersCreateGated d rs now = false)
    (hok : ∀ items, ersNodeItems d rs st = some items →
      ∀ msg, manageDeployment (ersParams released d rs items (ersPods d st) now) now now false ≠ .err msg)
    (mc : Int)
    (hmc : calculateMaxCreation d.strategy.rollingUpdate.slowStartAdditiveIncrease
        d.strategy.rollingUpdate.slowStartInterval d.strategy.rollingUpdate.maxParallelPodCreation
        ((reconcileErs rs st released aff now).entries.length : Int)
        (rollingUpdateStartTime rs.status now) now = .ok mc) :
    ∃ items, ersNodeItems d rs st = some items ∧
      (∀ ni, ni ∈ (reconcileErs rs st released aff now).createCands ↔
        (ni, none) ∈ (reconcileErs rs st released aff now).entries) ∧
      (∀ e ∈ (reconcileErs rs st released aff now).entries,
        e.1 ∈ items ∧ fit rs.template e.1.node = true ∧ e.1.node.name ∉ ersCanaryNodes d) ∧
      (reconcileErs rs st released aff now).creates =
        (if isRolloutFrozen d.annotations then []
         else ((reconcileErs rs st released aff now).createCands.take mc.toNat).map
           (fun ni => (ni.node.name, (createPod rs (some ni.node) ni.setting aff).pod))) := by
  obtain ⟨items, r, adds, removes, se, st0, F⟩ := reconcileErs_full rs st released aff now d h hd hg he
  have hs := F.strat
  rw [hr] at hs
  have heq := F.eq
  rw [hr] at heq
  rw [heq] at hmc ⊢
  rcases ersStrategy_active hs F.status with ⟨hm, -, -, -⟩ | ⟨⟨msg, hmsg⟩, -, -, -, -⟩
  case inr => exact absurd hmsg (hok items F.hitems msg)
  have hcands : (ersFinish rs "active" (ersFreq d) (ersParams released d rs items (ersPods d st) now) r adds
      removes se st0 aff now).createCands = noneNodes (targeted (ersParams released d rs items (ersPods d st) now)) := by
    unfold ersFinish
    simp only [beq_self_eq_true, if_true]
    exact countAll_toCreate _ _ _
  rw [ersFinish_entries_active] at hmc ⊢
  rw [hcands]
  refine ⟨items, F.hitems, fun ni => mem_noneNodes, ?_, ?_⟩
  · intro e he'
    have := (C04_active_serves_rest rs released now d items (ersPods d st) e.1).mp (List.mem_map.mpr ⟨e, he', rfl⟩)
    exact this
  · -- the gate reads the stored PodCreation condition
    have hfc : findCond st0.conds "PodCreation" = findCond rs.status.conds "PodCreation" := by
      rw [manageDeployment_findCond _ now now false r st0 hm F.status "PodCreation" (by decide) (by decide)
        (by decide) (by decide)]
      exact preConds_findCond _ _ _ _ (by decide) (by decide) (by decide) (by decide)
    rw [ersFinish_creates_gate, hfc]
    have hgate : (match findCond rs.status.conds "PodCreation" with
        | some c => decide (now - c.lastUpdate < ersFreq d)
        | none => false) = false := hcg
    rw [hgate]
    simp only [Bool.false_eq_true, if_false]
    obtain ⟨ms, mu, mc', -, -, hmc', hc, -⟩ := manageDeployment_plan _ now now false r hm
    have hmcEq : mc' = mc := by
      have : Outcome.ok mc' = Outcome.ok mc := hmc'.symm.trans hmc
      injection this
    rw [hc, hmcEq, rollingPlan_create_take]
    have hann : (ersParams released d rs items (ersPods d st) now).edsAnnotations = d.annotations := rfl
    rw [hann]
    cases isRolloutFrozen d.annotations <;> rfl

/-- **… with a canary in progress**: every creation is on a targeted entry without pod — an item of the node
listing, fit, outside `cs.nodes` — their number is `min (#candidates) (budget)` unless frozen, and it is
positive as soon as a candidate exists, the rollout is not frozen and the budget is positive. -/
theorem C04_active_serves_rest_sync_partial_pos (h : ersOwner rs st = some d) (hr : ersRole d rs.name = "active")
    (cs : CanaryStatus) (hc : d.status.canary = some cs)
    (hd : isDefaulted d.strategy d.templateName = true) (hg : ersGated d rs now = false)
    (he : (reconcileErs rs st released aff now).earlyErr = false)
    (hcg : ersCreateGated d rs now = false)
    (hok : ∀ items, ersNodeItems d rs st = some items →
      ∀ msg, manageDeployment (ersParams released d rs items (ersPods d st) now) now now false ≠ .err msg)
    (mc : Int)
    (hmc : calculateMaxCreation d.strategy.rollingUpdate.slowStartAdditiveIncrease
        d.strategy.rollingUpdate.slowStartInterval d.strategy.rollingUpdate.maxParallelPodCreation
        ((reconcileErs rs st released aff now).entries.length : Int)
        (rollingUpdateStartTime rs.status now) now = .ok mc) :
    (∀ x ∈ (reconcileErs rs st released aff now).creates,
      ∃ ni, (ni, none) ∈ (reconcileErs rs st released aff now).entries ∧
        x = (ni.node.name, (createPod rs (some ni.node) ni.setting aff).pod) ∧
        fit rs.template ni.node = true ∧ ni.node.name ∉ cs.nodes) ∧
    (reconcileErs rs st released aff now).creates.length =
      (if isRolloutFrozen d.annotations then 0
       else min (reconcileErs rs st released aff now).createCands.length mc.toNat) ∧
    ((reconcileErs rs st released aff now).createCands ≠ [] → isRolloutFrozen d.annotations = false → 0 < mc →
      0 < (reconcileErs rs st released aff now).creates.length) := by
  obtain ⟨items, -, hcands, hent, hcre⟩ :=
    C04_active_serves_rest_sync_partial rs st released aff now d h hr hd hg he hcg hok mc hmc
  have hcn := ersCanaryNodes_some d hc
  have hlen : (reconcileErs rs st released aff now).creates.length =
      (if isRolloutFrozen d.annotations then 0
       else min (reconcileErs rs st released aff now).createCands.length mc.toNat) := by
    rw [hcre]
    cases isRolloutFrozen d.annotations with
    | true => rfl
    | false =>
      simp only [Bool.false_eq_true, if_false, List.length_map, List.length_take]
      omega
  refine ⟨?_, hlen, ?_⟩
  · intro x hx
    rw [hcre] at hx
    cases hfr : isRolloutFrozen d.annotations with
    | true => rw [hfr] at hx; cases hx
    | false =>
      rw [hfr] at hx
      simp only [Bool.false_eq_true, if_false] at hx
      obtain ⟨ni, hni, rfl⟩ := List.mem_map.mp hx
      have hmem := (hcands ni).mp (List.mem_of_mem_take hni)
      obtain ⟨-, hfit, hnc⟩ := hent _ hmem
      rw [hcn] at hnc
      exact ⟨ni, hmem, rfl, hfit, hnc⟩
  · intro hne hfr hpos
    rw [hlen, hfr]
    simp only [Bool.false_eq_true, if_false]
    have : 0 < (reconcileErs rs st released aff now).createCands.length := List.length_pos_iff.mpr hne
    omega

end Ers3

/-! ### Non-vacuity and counterexamples for 3, 4, 5 (store of `EdsProps/C04.lean`: EDS `d`, defaulted, reconcile
frequency 10 s, active replica set `d-old`, canary `d-new` on `n1`) -/
namespace Ex7

/-- four nodes; the canary node is `n1`; slow start adds `inc` pods per interval. -/
def eds7 (inc : Int) (ann : SMap := []) : EDS :=
  { exEds04 with
    annotations := ann,
    strategy := { exStrategy04 with
      rollingUpdate := { (exStrategy04).rollingUpdate with slowStartAdditiveIncrease := some ⟨"int", inc⟩ } } }

def store7 (inc : Int) (pods : List Pod := []) (ann : SMap := []) (settings : List Setting := []) : ErsStore :=
  { edss := [eds7 inc ann],
    nodes := [(exNode01 "n1").node, (exNode01 "n2").node, (exNode01 "n3").node, (exNode01 "n4").node],
    pods := pods, settings := settings, daemonsets := [] }

def okB {α} : Outcome α → Bool
  | .ok _ => true
  | _ => false

/-- **3.** the hypotheses of `C04_active_serves_rest_sync_partial(_pos)` hold: three targeted nodes without pod
(`n2`, `n3`, `n4`; `n1` is the canary node), budget 2: exactly `min 3 2 = 2` pods are created, on `n2`, `n3`. -/
example :
    ersOwner (exErs04 "d-old" "old") (store7 2) = some (eds7 2) ∧
    ersRole (eds7 2) (exErs04 "d-old" "old").name = "active" ∧
    (eds7 2).status.canary = some ⟨"d-new", ["n1"]⟩ ∧
    isDefaulted (eds7 2).strategy (eds7 2).templateName = true ∧
    ersGated (eds7 2) (exErs04 "d-old" "old") 100 = false ∧
    (reconcileErs (exErs04 "d-old" "old") (store7 2) (fun _ => true) true 100).earlyErr = false ∧
    ersCreateGated (eds7 2) (exErs04 "d-old" "old") 100 = false ∧
    ((ersNodeItems (eds7 2) (exErs04 "d-old" "old") (store7 2)).map (fun items =>
      okB (manageDeployment (ersParams (fun _ => true) (eds7 2) (exErs04 "d-old" "old") items
        (ersPods (eds7 2) (store7 2)) 100) 100 100 false))) = some true ∧
    (reconcileErs (exErs04 "d-old" "old") (store7 2) (fun _ => true) true 100).entries.length = 3 ∧
    calculateMaxCreation (eds7 2).strategy.rollingUpdate.slowStartAdditiveIncrease
      (eds7 2).strategy.rollingUpdate.slowStartInterval (eds7 2).strategy.rollingUpdate.maxParallelPodCreation
      3 (rollingUpdateStartTime (exErs04 "d-old" "old").status 100) 100 = .ok 2 ∧
    (reconcileErs (exErs04 "d-old" "old") (store7 2) (fun _ => true) true 100).createCands.map (·.node.name)
      = ["n2", "n3", "n4"] ∧
    (reconcileErs (exErs04 "d-old" "old") (store7 2) (fun _ => true) true 100).creates.map (·.1) = ["n2", "n3"] := by
  decide

/-- a node that already runs a pod is not a candidate; a frozen rollout creates nothing. -/
example :
    (reconcileErs (exErs04 "d-old" "old") (store7 2 [exPod04 "old-2" "n2" "d-old" "old"]) (fun _ => true) true
      100).creates.map (·.1) = ["n3", "n4"] ∧
    (reconcileErs (exErs04 "d-old" "old") (store7 2 [] [⟨K.rolloutFrozenAnnot, "true"⟩]) (fun _ => true) true
      100).creates = [] := by decide

/-- **`hcg` cannot be dropped** (the statement without it is false): a creation was stamped 5 s ago, LastFullSync
is absent — the sync is not gated, not an early error, the parameters parse, three candidates exist and the
budget is 2, yet nothing is created. -/
theorem C04_active_serves_rest_sync_needs_create_gate :
    ersGated (eds7 2) (exErs04 "d-old" "old" [⟨"PodCreation", "True", 0, 6 * sec, "", ""⟩]) (11 * sec) = false ∧
    (reconcileErs (exErs04 "d-old" "old" [⟨"PodCreation", "True", 0, 6 * sec, "", ""⟩]) (store7 2) (fun _ => true)
      true (11 * sec)).earlyErr = false ∧
    ersCreateGated (eds7 2) (exErs04 "d-old" "old" [⟨"PodCreation", "True", 0, 6 * sec, "", ""⟩]) (11 * sec) = true ∧
    (reconcileErs (exErs04 "d-old" "old" [⟨"PodCreation", "True", 0, 6 * sec, "", ""⟩]) (store7 2) (fun _ => true)
      true (11 * sec)).createCands.map (·.node.name) = ["n2", "n3", "n4"] ∧
    (reconcileErs (exErs04 "d-old" "old" [⟨"PodCreation", "True", 0, 6 * sec, "", ""⟩]) (store7 2) (fun _ => true)
      true (11 * sec)).creates = [] := by decide

/-- **`hok` cannot be dropped**: `maxUnavailable` of a kind that does not parse (the strategy is still
"defaulted"); the sync is a full one without early error, and creates nothing. -/
def storeBad7 : ErsStore :=
  { store7 2 with
    edss := [{ eds7 2 with strategy := { (eds7 2).strategy with
      rollingUpdate := { (eds7 2).strategy.rollingUpdate with maxUnavailable := some ⟨"bad", 1⟩ } } }] }

theorem C04_active_serves_rest_sync_needs_ok :
    (reconcileErs (exErs04 "d-old" "old") storeBad7 (fun _ => true) true 100).earlyErr = false ∧
    (storeBad7.edss.map (fun d => isDefaulted d.strategy d.templateName)) = [true] ∧
    (reconcileErs (exErs04 "d-old" "old") storeBad7 (fun _ => true) true 100).createCands.map (·.node.name)
      = ["n2", "n3", "n4"] ∧
    (reconcileErs (exErs04 "d-old" "old") storeBad7 (fun _ => true) true 100).creates = [] := by decide

/-! #### 4 -/

def mkC7 (nm : String) (cpu : String) : Container := { name := nm, res := { limits := [⟨"cpu", cpu⟩], requests := [] } }

/-- a setting of namespace `ns` referencing `ref`, selecting every node, with resources for container `agent`. -/
def setting7 (name ns ref status cpu : String) : Setting :=
  { name := name, ns := ns, creation := 0, reference := some ref,
    nodeSelector := { matchLabels := [], exprs := [] }, containers := [mkC7 "agent" cpu], status := status, error := "" }

def ers7 (cs : List Container) : ERS :=
  { exErs04 "d-old" "old" with template := { exTemplate01 with containers := cs } }

/-- settings in store order: invalid, other namespace, other daemonset, then the applicable one. -/
def settings7 : List Setting :=
  [setting7 "s-err" "ns" "d" "error" "1", setting7 "s-ns" "other" "d" "valid" "2",
   setting7 "s-ref" "ns" "e" "valid" "3", setting7 "s-ok" "ns" "d" "valid" "4"]

/-- **4.** hypotheses (owner, distinct container names, distinct node names) and conclusion: the created pods
carry the resources of the one applicable setting `s-ok`; the handler's clause holds, and fails on a pod
built with the invalid setting. -/
example :
    ersOwner (ers7 [mkC7 "agent" "0", mkC7 "trace" "0"]) (store7 2 [] [] settings7) = some (eds7 2) ∧
    ((ers7 [mkC7 "agent" "0", mkC7 "trace" "0"]).template.containers.map (·.name)).Nodup ∧
    ((store7 2 [] [] settings7).nodes.map (·.name)).Nodup ∧
    (reconcileErs (ers7 [mkC7 "agent" "0", mkC7 "trace" "0"]) (store7 2 [] [] settings7) (fun _ => true) true
      100).creates.map (fun x => (x.1, x.2.containers)) =
      [("n2", [mkC7 "agent" "4", mkC7 "trace" "0"]), ("n3", [mkC7 "agent" "4", mkC7 "trace" "0"])] ∧
    apiResourcesClause (eds7 2) (ers7 [mkC7 "agent" "0", mkC7 "trace" "0"]) (store7 2 [] [] settings7).nodes settings7
      (reconcileErs (ers7 [mkC7 "agent" "0", mkC7 "trace" "0"]) (store7 2 [] [] settings7) (fun _ => true) true
        100).creates = true ∧
    apiResourcesClause (eds7 2) (ers7 [mkC7 "agent" "0", mkC7 "trace" "0"]) (store7 2 [] [] settings7).nodes settings7
      [("n2", (createPod (ers7 [mkC7 "agent" "0", mkC7 "trace" "0"]) (some (exNode01 "n2").node)
        (some (setting7 "s-err" "ns" "d" "error" "1")) true).pod)] = false := by decide

/-- without any applicable setting the template's resources are used (`SettingApplies … none`). -/
example :
    (reconcileErs (ers7 [mkC7 "agent" "0"]) (store7 2 [] [] (settings7.take 3)) (fun _ => true) true
      100).creates.map (fun x => (x.1, x.2.containers)) = [("n2", [mkC7 "agent" "0"]), ("n3", [mkC7 "agent" "0"])] ∧
    apiResourcesClause (eds7 2) (ers7 [mkC7 "agent" "0"]) (store7 2 [] [] (settings7.take 3)).nodes (settings7.take 3)
      (reconcileErs (ers7 [mkC7 "agent" "0"]) (store7 2 [] [] (settings7.take 3)) (fun _ => true) true
        100).creates = true := by decide

/-- **`hT` cannot be dropped from `C10_api_resources_sync`**: two template containers named `agent`; only the
first receives the setting's resources, so the created pod does not satisfy `Spec.C10.resources` for the
attached setting (nor for no setting). -/
theorem C10_api_resources_needs_names :
    ersOwner (ers7 [mkC7 "agent" "0", mkC7 "agent" "0"]) (store7 2 [] [] settings7) = some (eds7 2) ∧
    (reconcileErs (ers7 [mkC7 "agent" "0", mkC7 "agent" "0"]) (store7 2 [] [] settings7) (fun _ => true) true
      100).creates.map (fun x => (x.1, x.2.containers)) =
      [("n2", [mkC7 "agent" "4", mkC7 "agent" "0"]), ("n3", [mkC7 "agent" "4", mkC7 "agent" "0"])] ∧
    apiResourcesClause (eds7 2) (ers7 [mkC7 "agent" "0", mkC7 "agent" "0"]) (store7 2 [] [] settings7).nodes settings7
      (reconcileErs (ers7 [mkC7 "agent" "0", mkC7 "agent" "0"]) (store7 2 [] [] settings7) (fun _ => true) true
        100).creates = false := by decide

/-! #### 5 -/

def podsOld7 : List Pod :=
  [exPod04 "old-2" "n2" "d-old" "old", exPod04 "old-3" "n3" "d-old" "old", exPod04 "old-4" "n4" "d-old" "old"]

/-- **5.** active replica set of a newer generation, three outdated pods on the targeted nodes, `maxUnavailable`
1 (resolved against the 3 entries): exactly one pod is deleted for updating — the bound is attained. -/
example :
    ersOwner (exErs04 "d-old" "old2") (store7 2 podsOld7) = some (eds7 2) ∧
    ersRole (eds7 2) (exErs04 "d-old" "old2").name = "active" ∧
    resolveIntOrPercent (eds7 2).strategy.rollingUpdate.maxUnavailable
      ((reconcileErs (exErs04 "d-old" "old2") (store7 2 podsOld7) (fun _ => true) true 100).entries.length : Int)
      = some 1 ∧
    (reconcileErs (exErs04 "d-old" "old2") (store7 2 podsOld7) (fun _ => true) true 100).deleteCands
      = ["old-2", "old-3", "old-4"] ∧
    (reconcileErs (exErs04 "d-old" "old2") (store7 2 podsOld7) (fun _ => true) true 100).deletes = ["old-2"] := by
  decide

/-- when `maxUnavailable` does not parse nothing is deleted for updating. -/
example :
    resolveIntOrPercent (storeBad7.edss.map (·.strategy.rollingUpdate.maxUnavailable)).head!
      ((reconcileErs (exErs04 "d-old" "old2") { storeBad7 with pods := podsOld7 } (fun _ => true) true
        100).entries.length : Int) = none ∧
    (reconcileErs (exErs04 "d-old" "old2") { storeBad7 with pods := podsOld7 } (fun _ => true) true 100).deletes = [] := by
  decide

end Ex7

end Eds
