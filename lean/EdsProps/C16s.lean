import EdsProofs.BridgeDefaults
import EdsProofs.BridgeSlowStart
import EdsProps.C16
/-
  EdsProps.C16s — property theorems stated directly about the Lean definitions that the translator
  regenerates from the Go source on every run (EdsModel/Generated/Dec*.lean), obtained by
  transporting the model-level theorems along the `src_*` bridges.  These are statements about what
  the code says *now*: `none` is a Go panic, so each also says the function does not crash.
-/
namespace Eds
open Spec.C16
namespace Src
export Eds.Generated.Decisions (isDefaultedExtendedDaemonSet defaultExtendedDaemonSet validateSpec calculateMaxCreation)
end Src

/-! ### C16 — defaulting and validation, on the translated functions -/

/-- the Go-side object for (strategy, template name, annotations). -/
def gEds (s : Strategy) (tn : String) (ann : SMap) : GEds :=
  { spec := { strategy := s, template := { name := tn } }, annotations := ann }

/-- **Defaulting never panics and is idempotent, on the code.** -/
theorem C16_src_idempotent (s : Strategy) (tn m : String) (ann : SMap) :
    ∃ d', Src.defaultExtendedDaemonSet (some (gEds s tn ann)) m = some (some d') ∧
          Src.defaultExtendedDaemonSet (some d') m = some (some d') := by
  refine ⟨gEds (defaultSpec s m).1 (defaultSpec s m).2 ann, Bridge.src_defaultEds s tn ann m, ?_⟩
  unfold gEds
  rw [Bridge.src_defaultEds, C16_idempotent]

/-- **The defaulted object is recognised, on the code** (for the two modes the controller passes). -/
theorem C16_src_recognised (s : Strategy) (tn m : String) (ann : SMap) (hm : m = "auto" ∨ m = "manual") :
    ∃ d', Src.defaultExtendedDaemonSet (some (gEds s tn ann)) m = some (some d') ∧
          Src.isDefaultedExtendedDaemonSet (some d') = some true := by
  refine ⟨gEds (defaultSpec s m).1 (defaultSpec s m).2 ann, Bridge.src_defaultEds s tn ann m, ?_⟩
  unfold gEds
  rw [Bridge.src_isDefaulted, C16_recognised_ctl s m hm]

/-- **Validation of a recognised spec never dereferences nil, on the code.** -/
theorem C16_src_validate_total (s : Strategy) (tn : String) (ann : SMap)
    (h : Src.isDefaultedExtendedDaemonSet (some (gEds s tn ann)) = some true) :
    ∃ r, Src.validateSpec (some (gEds s tn ann).spec) = some r := by
  unfold gEds at h
  rw [Bridge.src_isDefaulted] at h
  simp only [Option.some.injEq] at h
  have := C16_validate_total s tn h
  unfold gEds
  simp only []
  rw [Bridge.src_validateSpec]
  cases hv : Eds.validateSpec s <;> simp [Bridge.validateOut] <;> exact absurd hv this

/-- **The slow-start computation never panics on a recognised rolling-update strategy** (in
particular not on a zero interval: the F7b repair). -/
theorem C16_src_max_creation_total (r : RollingUpdate) (n : Int) (start now : Time)
    (h : isDefaultedRolling r = true) :
    ∃ v, Src.calculateMaxCreation (some r) n start now = some v := by
  rw [Bridge.src_calculateMaxCreation]
  unfold isDefaultedRolling at h
  simp only [Bool.and_eq_true, Option.isSome_iff_exists] at h
  obtain ⟨⟨⟨⟨_, ⟨mp, hmp⟩⟩, _⟩, ⟨iv, hiv⟩⟩, _⟩ := h
  unfold Eds.calculateMaxCreation goDiv
  simp only [hmp, hiv]
  cases resolveIntOrPercent r.slowStartAdditiveIncrease n with
  | none => exact ⟨_, rfl⟩
  | some sv =>
    simp only []
    by_cases hle : iv ≤ 0
    · simp only [hle, if_true]; exact ⟨_, rfl⟩
    · have : (iv == 0) = false := by simp; omega
      simp only [hle, if_false, this, Bool.false_eq_true]
      exact ⟨_, rfl⟩


end Eds
