import EdsModel
import EdsSpec.C06
import EdsProofs.CanaryS
/-
  C06 — A canary is marked failed / paused exactly when an auto-fail / auto-pause trigger fires.

  Subject: `manageCanaryPodFailures` (and its caller `manageCanaryStatus`) of strategy/canary.go, as
  modelled in EdsModel/CanaryS.lean; specification predicates: EdsSpec/C06.lean.

  Quantification: every list of evaluated pods (any length — including the empty list where stated —,
  any order, any container statuses / start times), every canary configuration for which the Go code
  does not dereference a nil pointer (`canaryDerefs … = some …`: autoPause/autoFail blocks and their
  `enabled` / `maxRestarts` present, as the defaulting webhook guarantees; the three durations are
  free `Option`s), every stored condition list, every previous failed / paused flag, every clock value.

  The hypothesis `manageCanaryPodFailures … = some (s, st')` says the Go function returned instead of
  panicking: the code dereferences `pod.Status.StartTime` when a slow-start limit is configured and the
  pod cannot start (or, with auto-pause enabled, is still creating its containers); the model returns
  `none` there.  Under that hypothesis `startTime` is set wherever the specification's
  `podCannotStart` / `podSlowCreate` look at it (lemma `fsCS_verdict`).

  All eight properties hold at full strength; there is no `_partial` theorem in this file.
-/
namespace Eds
open Spec.C06

section
variable (pods : List Pod) (canary : Option Canary) (paramsStatus st st' : ERSStatus)
  (failed0 paused0 : Bool) (reason0 : String) (unpaused : Bool) (now : Time) (s : FailState)
  (ape : Bool) (apm : Int) (slow : Option Dur) (afe : Bool) (afm : Int) (mrd cto : Option Dur)

/-- **1. Failed ⇔ trigger.**  After the sync the canary is failed iff it was failed before or some
evaluated pod fires an auto-fail trigger (restart count, restart span, canary timeout).  Holds for
every pod list, the empty one included (`expectFailed … [] = failed0`). -/
theorem C06_failed_iff
    (hd : canaryDerefs canary = some (ape, apm, slow, afe, afm, mrd, cto))
    (h : manageCanaryPodFailures pods canary paramsStatus st failed0 paused0 reason0 unpaused now = some (s, st')) :
    s.isFailed =
      expectFailed
        { autoPauseEnabled := ape, autoPauseMaxRestarts := apm, maxSlowStart := slow, autoFailEnabled := afe,
          autoFailMaxRestarts := afm, maxRestartsDuration := mrd, canaryTimeout := cto }
        failed0
        ((findCond paramsStatus.conds "PodRestarting").map (fun rc => rc.lastUpdate - rc.lastTransition))
        ((findCond st.conds "Canary").map (fun c => now - c.lastTransition))
        pods := by
  obtain ⟨hs, hp, _⟩ := mcpf_some pods canary paramsStatus st st' failed0 paused0 reason0 unpaused now s
    ape apm slow afe afm mrd cto hd h
  rw [hs] at hp ⊢
  rw [fold_isFailed _ _ _ hp, specCfg_mkFailCfg, cfgSpan_mkFailCfg, cfgAge_mkFailCfg]
  rfl

/-- **2. Failed is sticky.** -/
theorem C06_failed_sticky
    (hd : canaryDerefs canary = some (ape, apm, slow, afe, afm, mrd, cto))
    (h : manageCanaryPodFailures pods canary paramsStatus st failed0 paused0 reason0 unpaused now = some (s, st'))
    (hf : failed0 = true) : s.isFailed = true := by
  rw [C06_failed_iff pods canary paramsStatus st st' failed0 paused0 reason0 unpaused now s
    ape apm slow afe afm mrd cto hd h, hf]
  rfl

/-- **3 (any length).** Thanks to the F3 repair the paused characterisation needs no `pods ≠ []`:
while not failed, a manual unpause wins; otherwise the canary is paused iff it was paused before or
some pod fires an auto-pause trigger (restart count, cannot-start, slow container creation). -/
theorem C06_paused_iff_any_length
    (hd : canaryDerefs canary = some (ape, apm, slow, afe, afm, mrd, cto))
    (h : manageCanaryPodFailures pods canary paramsStatus st failed0 paused0 reason0 unpaused now = some (s, st'))
    (hnf : s.isFailed = false) :
    s.isPaused =
      expectPaused
        { autoPauseEnabled := ape, autoPauseMaxRestarts := apm, maxSlowStart := slow, autoFailEnabled := afe,
          autoFailMaxRestarts := afm, maxRestartsDuration := mrd, canaryTimeout := cto }
        paused0 unpaused now pods := by
  obtain ⟨hs, hp, _⟩ := mcpf_some pods canary paramsStatus st st' failed0 paused0 reason0 unpaused now s
    ape apm slow afe afm mrd cto hd h
  rw [hs] at hp hnf ⊢
  rw [fold_isPaused _ _ _ hp hnf, specCfg_mkFailCfg]
  cases pods with
  | nil =>
    -- no pod: not failed after means not failed before, so the override applies iff `unpaused`
    have hf0 : failed0 = false := hnf
    subst hf0
    cases unpaused <;> cases paused0 <;> rfl
  | cons p ps =>
    simp only [List.isEmpty_cons, Bool.false_eq_true, if_false, initFailState, Bool.false_and]
    rfl

/-- **3. Paused ⇔ trigger** (while not failed, over at least one evaluated pod). -/
theorem C06_paused_iff
    (hd : canaryDerefs canary = some (ape, apm, slow, afe, afm, mrd, cto))
    (h : manageCanaryPodFailures pods canary paramsStatus st failed0 paused0 reason0 unpaused now = some (s, st'))
    (hnf : s.isFailed = false) (_hne : pods ≠ []) :
    s.isPaused =
      expectPaused
        { autoPauseEnabled := ape, autoPauseMaxRestarts := apm, maxSlowStart := slow, autoFailEnabled := afe,
          autoFailMaxRestarts := afm, maxRestartsDuration := mrd, canaryTimeout := cto }
        paused0 unpaused now pods :=
  C06_paused_iff_any_length pods canary paramsStatus st st' failed0 paused0 reason0 unpaused now s
    ape apm slow afe afm mrd cto hd h hnf

/-- **4. Unpausing never un-fails**: the failed flag does not depend on the `unpaused` argument. -/
theorem C06_unpause_never_unfails (unpaused₁ unpaused₂ : Bool) (s₁ s₂ : FailState) (st₁ st₂ : ERSStatus)
    (h₁ : manageCanaryPodFailures pods canary paramsStatus st failed0 paused0 reason0 unpaused₁ now = some (s₁, st₁))
    (h₂ : manageCanaryPodFailures pods canary paramsStatus st failed0 paused0 reason0 unpaused₂ now = some (s₂, st₂)) :
    s₁.isFailed = s₂.isFailed := by
  cases hd : canaryDerefs canary with
  | none => unfold manageCanaryPodFailures at h₁; rw [hd] at h₁; exact absurd h₁ (by simp)
  | some v =>
    obtain ⟨ape, apm, slow, afe, afm, mrd, cto⟩ := v
    rw [C06_failed_iff pods canary paramsStatus st st₁ failed0 paused0 reason0 unpaused₁ now s₁
          ape apm slow afe afm mrd cto hd h₁,
        C06_failed_iff pods canary paramsStatus st st₂ failed0 paused0 reason0 unpaused₂ now s₂
          ape apm slow afe afm mrd cto hd h₂]

/-- **5. Disabled triggers never fire.**  With auto-fail disabled the failed flag is unchanged; with
auto-pause disabled and no manual unpause the paused flag is unchanged. -/
theorem C06_disabled_never_fire
    (hd : canaryDerefs canary = some (ape, apm, slow, afe, afm, mrd, cto))
    (h : manageCanaryPodFailures pods canary paramsStatus st failed0 paused0 reason0 unpaused now = some (s, st')) :
    (afe = false → s.isFailed = failed0) ∧
    (ape = false → unpaused = false → s.isFailed = false → s.isPaused = paused0) := by
  constructor
  · intro hafe
    rw [C06_failed_iff pods canary paramsStatus st st' failed0 paused0 reason0 unpaused now s
      ape apm slow afe afm mrd cto hd h]
    subst hafe
    unfold expectFailed failTrigger
    simp
  · intro hape hun _
    obtain ⟨hs, hp, _⟩ := mcpf_some pods canary paramsStatus st st' failed0 paused0 reason0 unpaused now s
      ape apm slow afe afm mrd cto hd h
    rw [hs] at hp ⊢
    rw [fold_isPaused_disabled _ _ _ hp hape hun]
    subst hun
    simp [initFailState]

/-- the paused half of 5 does not need `s.isFailed = false`: with auto-pause disabled and no manual
unpause the loop never touches the paused flag, failed or not. -/
theorem C06_disabled_never_pause_strong
    (hd : canaryDerefs canary = some (ape, apm, slow, afe, afm, mrd, cto))
    (h : manageCanaryPodFailures pods canary paramsStatus st failed0 paused0 reason0 unpaused now = some (s, st'))
    (hape : ape = false) (hun : unpaused = false) : s.isPaused = paused0 := by
  obtain ⟨hs, hp, _⟩ := mcpf_some pods canary paramsStatus st st' failed0 paused0 reason0 unpaused now s
    ape apm slow afe afm mrd cto hd h
  rw [hs] at hp ⊢
  rw [fold_isPaused_disabled _ _ _ hp hape hun]
  subst hun
  simp [initFailState]

/-- **6a. The Canary-Failed condition is written**: it reads true in the returned status iff the
returned flag is set. -/
theorem C06_condition_failed_written
    (h : manageCanaryPodFailures pods canary paramsStatus st failed0 paused0 reason0 unpaused now = some (s, st')) :
    isCondTrue st'.conds "Canary-Failed" = s.isFailed := by
  cases hd : canaryDerefs canary with
  | none => unfold manageCanaryPodFailures at h; rw [hd] at h; exact absurd h (by simp)
  | some v =>
    obtain ⟨ape, apm, slow, afe, afm, mrd, cto⟩ := v
    obtain ⟨_, _, hc⟩ := mcpf_some pods canary paramsStatus st st' failed0 paused0 reason0 unpaused now s
      ape apm slow afe afm mrd cto hd h
    rw [hc, finalConds_failed]

/-- **6b. The Canary-Paused condition is written.** -/
theorem C06_condition_paused_written
    (h : manageCanaryPodFailures pods canary paramsStatus st failed0 paused0 reason0 unpaused now = some (s, st')) :
    isCondTrue st'.conds "Canary-Paused" = s.isPaused := by
  cases hd : canaryDerefs canary with
  | none => unfold manageCanaryPodFailures at h; rw [hd] at h; exact absurd h (by simp)
  | some v =>
    obtain ⟨ape, apm, slow, afe, afm, mrd, cto⟩ := v
    obtain ⟨_, _, hc⟩ := mcpf_some pods canary paramsStatus st st' failed0 paused0 reason0 unpaused now s
      ape apm slow afe afm mrd cto hd h
    rw [hc, finalConds_paused]

/-- **8. Manual unpause with no pod to evaluate** (documents the repair of defect F3): a previous
pause is still lifted. -/
theorem C06_empty_unpause_override
    (h : manageCanaryPodFailures [] canary paramsStatus st false paused0 reason0 true now = some (s, st')) :
    s.isPaused = false := by
  cases hd : canaryDerefs canary with
  | none => unfold manageCanaryPodFailures at h; rw [hd] at h; exact absurd h (by simp)
  | some v =>
    obtain ⟨ape, apm, slow, afe, afm, mrd, cto⟩ := v
    obtain ⟨hs, _, _⟩ := mcpf_some [] canary paramsStatus st st' false paused0 reason0 true now s
      ape apm slow afe afm mrd cto hd h
    rw [hs]
    rfl

end

/-- **7. A paused or failed canary creates no pod.** -/
theorem C06_blocks_creation (p : StratParams) (now : Time) (r : StratResult)
    (h : manageCanaryStatus p now = some r) (hb : r.isPaused = true ∨ r.isFailed = true) :
    r.createE = [] := by
  unfold manageCanaryStatus at h
  simp only [] at h
  split at h
  · exact absurd h (by simp)
  · injection h with h
    subst h
    simp only [] at hb ⊢
    rcases hb with hb | hb <;> simp [hb]

/-- **C08: a canary resumes on unpause** (full statement, including the case with no evaluable pod):
after a sync that read the unpaused annotation and did not end failed, the canary is not paused, so
its Canary-Paused condition is false and pods are created again on canary nodes lacking one. -/
theorem C08_canary_resumes_on_unpause (p : StratParams) (now : Time) (r : StratResult)
    (h : manageCanaryStatus p now = some r) (hu : isCanaryUnpaused p.edsAnnotations = true)
    (hnf : r.isFailed = false) : r.isPaused = false := by
  unfold manageCanaryStatus at h
  simp only [] at h
  split at h
  · exact absurd h (by simp)
  · rename_i s st hm
    injection h with h
    subst h
    simp only [] at hnf ⊢
    cases hd : canaryDerefs p.strategy.canary with
    | none =>
      simp [manageCanaryPodFailures, hd] at hm
    | some d =>
      obtain ⟨ape, apm, slow, afe, afm, mrd, cto⟩ := d
      rw [C06_paused_iff_any_length _ _ _ _ _ _ _ _ _ _ _ ape apm slow afe afm mrd cto hd hm hnf, hu]
      rfl

/-! ### Non-vacuity: the hypotheses are satisfiable, and the triggers do fire.
Auto-pause at > 2 restarts, auto-fail at > 5 restarts, evaluated at `now = 20 min`. -/

def exCanary06 (slow : Option Dur) : Canary :=
  { replicas := some ⟨"int", 1⟩, duration := some (10 * minute), nodeSelector := none,
    antiAffinityKeys := [],
    autoPause := some { enabled := some true, maxRestarts := some 2, maxSlowStartDuration := slow },
    autoFail := some { enabled := some true, maxRestarts := some 5, maxRestartsDuration := none,
                       canaryTimeout := none },
    noRestartsDuration := none, validationMode := "auto" }

def exPod06 (name : String) (restarts : Int) (waiting : Option String) (start : Option Time) : Pod :=
  { name := name, ns := "d", labels := [], annotations := [], owners := [], creation := 0, deletion := none,
    gracePeriod := none, nodeName := name, affOther := "", affRequired := none, tolerations := [],
    containers := [], phase := "Running", startTime := start, conds := [],
    cstats := [{ name := "c", restarts := restarts, waiting := waiting, lastTerm := none }] }

def exSt06 : ERSStatus :=
  { status := "canary", desired := 0, current := 0, ready := 0, available := 0, ignored := 0, conds := [] }

def exRun (pods : List Pod) (slow : Option Dur) (failed0 paused0 unpaused : Bool) :=
  manageCanaryPodFailures pods (some (exCanary06 slow)) exSt06 exSt06 failed0 paused0 "" unpaused (20 * minute)

/-- the dereference hypothesis is satisfiable. -/
example : canaryDerefs (some (exCanary06 none)) = some (true, 2, none, true, 5, none, none) := rfl
/-- two healthy pods: the function returns, nothing fires. -/
example : (exRun [exPod06 "a" 0 none (some 0), exPod06 "b" 0 none (some 0)] none false false false).map
    (fun r => (r.1.isFailed, r.1.isPaused)) = some (false, false) := by decide
/-- 6 restarts > 5 on the *second* pod: failed (and, being failed, not paused). -/
example : (exRun [exPod06 "a" 0 none (some 0), exPod06 "b" 6 none (some 0)] none false false false).map
    (fun r => (r.1.isFailed, r.1.isPaused)) = some (true, false) := by decide
/-- 3 restarts > 2 on the first pod: paused, not failed. -/
example : (exRun [exPod06 "a" 3 none (some 0), exPod06 "b" 0 none (some 0)] none false false false).map
    (fun r => (r.1.isFailed, r.1.isPaused)) = some (false, true) := by decide
/-- cannot-start past the 1-minute slow-start limit: paused; within the limit (limit 30 min): not. -/
example : (exRun [exPod06 "a" 0 (some "ImagePullBackOff") (some 0)] (some minute) false false false).map
    (fun r => (r.1.isFailed, r.1.isPaused)) = some (false, true) := by decide
example : (exRun [exPod06 "a" 0 (some "ImagePullBackOff") (some 0)] (some (30 * minute)) false false false).map
    (fun r => (r.1.isFailed, r.1.isPaused)) = some (false, false) := by decide
/-- still creating containers past the slow-start limit: paused. -/
example : (exRun [exPod06 "a" 0 (some "ContainerCreating") (some 0)] (some minute) false false false).map
    (fun r => (r.1.isFailed, r.1.isPaused)) = some (false, true) := by decide
/-- a manual unpause lifts a previous pause but never a failure (2, 4). -/
example : (exRun [exPod06 "a" 0 none (some 0)] none false true true).map
    (fun r => (r.1.isFailed, r.1.isPaused)) = some (false, false) := by decide
example : (exRun [exPod06 "a" 0 none (some 0)] none true true true).map
    (fun r => (r.1.isFailed, r.1.isPaused)) = some (true, true) := by decide
/-- the `= some` hypothesis is a real restriction: a pod that cannot start and has no `startTime`,
with a slow-start limit configured, is a nil dereference in Go (`none` in the model). -/
example : (exRun [exPod06 "a" 0 (some "ImagePullBackOff") none] (some minute) false false false) = none := by decide
/-- 8: no pod, previously paused, manual unpause. -/
example : (exRun [] none false true true).map
    (fun r => (r.1.isFailed, r.1.isPaused)) = some (false, false) := by decide

def exErs06 : ERS :=
  { name := "new", ns := "d", uid := "new", labels := [], annotations := [], creation := 0, deleted := false,
    ownerEds := some "d", selector := none, templateGeneration := "2",
    template := { labels := [], annotations := [], nodeSelector := [], affOther := "", affRequired := none,
                  tolerations := [], containers := [] },
    status := exSt06 }
def exNode06 : NodeItem := { node := { name := "n1", labels := [], annotations := [], taints := [] }, setting := none }
def exParams06 (ann : SMap) : StratParams :=
  { edsName := "d", edsAnnotations := ann,
    strategy := { rollingUpdate := ⟨none, none, none, none, none⟩, canary := some (exCanary06 none),
                  reconcileFrequency := none },
    ers := exErs06, newStatus := exSt06, canaryNodes := ["n1"], byNode := [(exNode06, none)],
    toCleanUp := [], unscheduled := [] }

/-- 7: one canary node without a pod — created when running, not created while paused. -/
example : (manageCanaryStatus (exParams06 []) 0).map (fun r => (r.isPaused, r.isFailed, r.podsToCreate))
    = some (false, false, ["n1"]) := by decide
example : (manageCanaryStatus (exParams06 [⟨K.canaryPausedAnnot, "true"⟩]) 0).map
    (fun r => (r.isPaused, r.isFailed, r.podsToCreate)) = some (true, false, []) := by decide
end Eds
