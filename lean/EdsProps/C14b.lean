import EdsProps.C14
import EdsProps.C02b
/-
  EdsProps.C14b — C14, last sentence, for the active replica set: "once the system is quiescent,
  desired equals the number of eligible nodes and current, ready, available … equal the numbers of
  daemon pods that exist, are Ready, and run the live template".  On a cooperative entry list with
  no empty node and no outdated pod (the state `C02_converges_coop` reaches) the status a sync of the
  active replica set reports has all four counters equal to the number of targeted nodes, nothing
  ignored, and the sync creates and deletes nothing.
-/
namespace Eds

/-- **Quiescent counters of the active replica set.** -/
theorem C14_quiescent_counts (p : StratParams) (now wall : Time) (cf : Bool) (r : StratResult) (st : ERSStatus)
    (h : manageDeployment p now wall cf = .ok r) (hst : r.newStatus = some st)
    (hc : coop p.ers.templateGeneration wall (targeted p) = true)
    (he : coopE (targeted p) = 0) (ho : coopO p.ers.templateGeneration wall (targeted p) = 0) :
    st.desired = (targeted p).length ∧ st.current = (targeted p).length ∧
    st.ready = (targeted p).length ∧ st.available = (targeted p).length ∧ st.ignored = 0 ∧
    r.createE = [] ∧ r.deleteE = [] := by
  obtain ⟨h1, h2, h3, h4, h5, _⟩ := manageDeployment_status p now wall cf r st h hst
  have hcnt := countAll_coop p.ers.templateGeneration wall (targeted p) hc
  obtain ⟨d1, _, d3, d4, d5, _, _, d8, _, _, _, _⟩ := hcnt
  obtain ⟨ms, mu, mc, _, _, _, hcr, hdl⟩ := manageDeployment_plan p now wall cf r h
  have hfix := C02_fixpoint_plan (countAll p.ers.templateGeneration wall (targeted p)) (targeted p).length ms mu mc
    (isRollingUpdatePaused p.edsAnnotations) (isRolloutFrozen p.edsAnnotations)
  have eqs := countAll_coop_eq p.ers.templateGeneration wall (targeted p) hc
  have hE : createCands (targeted p) = [] := by
    have := createCands_length (targeted p); rw [he] at this
    exact List.eq_nil_of_length_eq_zero this
  have hO : oldCands p.ers.templateGeneration wall (targeted p) = [] := by
    have := oldCands_length p.ers.templateGeneration wall (targeted p); rw [ho] at this
    exact List.eq_nil_of_length_eq_zero this
  have hplan := hfix (by rw [eqs]; exact hE) (by rw [eqs]) (by rw [eqs]; exact hO)
  rw [he, ho] at d3 d4 d5
  refine ⟨by rw [h1, d1], by rw [h3, d3]; simp, by rw [h2, d5]; simp, by rw [h4, d4]; simp,
          by rw [h5, d8], by rw [hcr, hplan], by rw [hdl, hplan]⟩

end Eds
