import EdsProps.C01
import EdsProps.C03
import EdsProps.C07
import EdsSpec.C02
/-
  C11 — Any failed API call or controller crash is recovered without breaking safety.

  Shape of the argument (DESIGN.md §9 C11):
  * the controllers keep no decision state outside the API objects: the L2 models are functions of
    the store (plus the failed-pod back-off, over which every safety theorem is quantified), so a
    fresh instance on whatever store a crash left behaves like any other reconcile;
  * every safety predicate on a reconcile's writes is *downward closed*: it still holds of any
    subset of the writes (a rejected call, an answer lost after the call was applied, a process
    stop after k writes all leave a subset applied);
  * the one sequential two-write plan (status, then spec of the EDS rollback) is re-planned from
    whatever the first write left (C07_recoverable).
  Convergence after the fault to the same final state is C02's statement (partial there); the
  scenario_faults stream checks it on the real reconcilers for every fault index and kind.
-/
namespace Eds
open Spec.C03

/-! ### Downward closure of the safety predicates -/

/-- a predicate required of every element of a write list survives dropping writes. -/
theorem C11_all_sublist {α} (P : α → Prop) (applied planned : List α) (h : applied.Sublist planned)
    (hp : ∀ x ∈ planned, P x) : ∀ x ∈ applied, P x :=
  fun x hx => hp x (h.subset hx)

/-- "never two creations for one node" survives dropping writes. -/
theorem C11_nodup_sublist (applied planned : List NodeItem) (h : applied.Sublist planned)
    (hn : (planned.map (·.node.name)).Nodup) : (applied.map (·.node.name)).Nodup :=
  (h.map _).nodup hn

/-- the availability budget survives dropping deletions: a subset of the planned deletions removes
no more available pods than the plan. -/
theorem C11_budget_sublist (applied planned : List (NodeItem × Pod)) (h : applied.Sublist planned) :
    availDeleted applied ≤ availDeleted planned := by
  unfold availDeleted
  have := (h.filter (fun e => e.2.available)).length_le
  omega

/-- **Safety under faults, active role**: whatever subset of the planned update-deletions is
applied, the budget, the cap and "creation only on empty eligible nodes, at most one per node" hold. -/
theorem C11_safe_under_faults_active (p : StratParams) (now wall : Time) (cf : Bool) (r : StratResult)
    (h : manageDeployment p now wall cf = .ok r)
    (appliedDel : List (NodeItem × Pod)) (appliedCre : List NodeItem)
    (hd : appliedDel.Sublist r.deleteE) (hc : appliedCre.Sublist r.createE)
    (hn : (p.byNode.map (·.1.node.name)).Nodup) :
    (∃ ms mu,
      resolveIntOrPercent p.strategy.rollingUpdate.maxPodSchedulerFailure (targeted p).length = some ms ∧
      resolveIntOrPercent p.strategy.rollingUpdate.maxUnavailable (targeted p).length = some mu ∧
      availDeleted appliedDel ≤ max 0 (mu - unavailableNodes p.ers.templateGeneration wall (targeted p) ms) ∧
      (appliedDel.length : Int) ≤ max 0 mu) ∧
    (∀ ni ∈ appliedCre, (ni, none) ∈ targeted p) ∧
    (appliedCre.map (·.node.name)).Nodup := by
  obtain ⟨ms, mu, hms, hmu, hb⟩ := C03_budget p now wall cf r h
  obtain ⟨mu', hmu', hcap⟩ := C03_cap p now wall cf r h
  have hmm : mu' = mu := by rw [hmu] at hmu'; exact (Option.some.inj hmu').symm
  subst hmm
  refine ⟨⟨ms, mu', hms, hmu, ?_, ?_⟩, ?_, ?_⟩
  · exact Int.le_trans (C11_budget_sublist _ _ hd) hb
  · have := hd.length_le
    omega
  · exact C11_all_sublist _ _ _ hc (C01_create_only_empty p now wall cf r h)
  · exact C11_nodup_sublist _ _ hc (C01_create_nodup p now wall cf r h hn)

/-! ### Statelessness -/

/-- the per-node map and clean-up contract holds for EVERY state of the in-memory failed-pod
back-off (`released` is arbitrary): a fresh controller instance (empty back-off) after a crash is
just one instance of it. -/
theorem C11_stateless_filter (released : String → Bool) (t : Template) (nodes : List NodeItem) (pods : List Pod)
    (ignore : List String) (hn : (nodes.map (·.node.name)).Nodup) (hp : (pods.map (·.name)).Nodup) :
    Spec.C01.holds t nodes ignore pods
      ((filterAndMap released t nodes pods ignore).byNode.map (fun e => (e.1.node.name, e.2.map (·.name))))
      ((filterAndMap released t nodes pods ignore).toDelete.map (·.name)) = true :=
  C01_holds released t nodes pods ignore hn hp

/-! ### The two-step plan -/

/-- **Two-step recovery**: see `C07_recoverable` — after the status write alone (spec write rejected,
answer lost, or process stopped in between) the next reconcile plans the spec write again. -/
theorem C11_two_step (d : EDS) (list : List ERS) (u a : ERS) (c : Canary) (pods : List Pod)
    (nodes : List Node) (now : Time) (st' : EDSStatus)
    (hc : d.strategy.canary = some c)
    (hact : lastWhere (fun e => e.name == st'.activeReplicaSet) list = some a)
    (hf : isCanaryFailed (some u) = true)
    (hv : isCanaryValid d.annotations u.name = false)
    (htpl : a.templateGeneration ≠ d.templateHash) :
    (edsMain { d with status := st' } list u pods nodes now).specUpdate =
      some (a.templateGeneration, (clearCanaryAnnotations d.annotations).1) ∧
    (edsMain { d with status := st' } list u pods nodes now).err = false :=
  C07_recoverable d list u a c pods nodes now st' hc hact hf hv htpl

end Eds
