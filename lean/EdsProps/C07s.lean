import EdsProofs.BridgeCleanup
import EdsModel.EdsCtl
/-
  EdsProps.C07s — property theorems stated directly about the Lean definitions that the translator
  regenerates from the Go source on every run (EdsModel/Generated/Dec*.lean), obtained by
  transporting the model-level theorems along the `src_*` bridges.  These are statements about what
  the code says *now*: `none` is a Go panic, so each also says the function does not crash.
-/
namespace Eds

namespace Src
export Eds.Generated.Decisions (shouldDeleteERS)
end Src

/-! ### C07 / C13 — a replica set is deleted only with zero counters and after the retention -/

theorem C07_src_retention (now : Time) (e : ERS) (h : Src.shouldDeleteERS now (some e) = some true) :
    e.status.available + e.status.current + e.status.desired + e.status.ready = 0 ∧
    (∀ c, findCond e.status.conds "Canary-Failed" = some c → c.status = "True" →
        now ≥ c.lastTransition + 2 * minute) := by
  rw [Bridge.src_shouldDeleteERS] at h
  simp only [Option.some.injEq] at h
  unfold Eds.shouldDeleteERS at h
  simp only [Bool.and_eq_true, beq_iff_eq, Bool.not_eq_true'] at h
  refine ⟨h.2, ?_⟩
  intro c hc hs
  have h1 := h.1
  simp only [hc, hs] at h1
  simp at h1
  omega

theorem C07_src_total (now : Time) (ers : Option ERS) : ∃ b, Src.shouldDeleteERS now ers = some b := by
  cases ers with
  | none => exact ⟨true, rfl⟩
  | some e => exact ⟨_, Bridge.src_shouldDeleteERS now e⟩


end Eds
