import EdsProofs.ReconcileEds
import EdsProps.C12
import EdsProps.C13
/-
  C12c — "never adopted as its replica set": the names an ExtendedDaemonSet's status points to.

  Subject: `reconcileEds d all pods nodes now mode` (EdsModel/ReconcileEds.lean); `all` is every replica
  set of the store, any namespace, any labels.  `ownErs d all` is the list the reconcile works on:

      ownErs d all = all.filter (fun e => e.ns == d.ns && SMap.get? e.labels K.edsNameLabel == some d.name)

  (`C12_ownErs_mem`: membership = listed ∧ same namespace ∧ name label `K.edsNameLabel ↦ d.name`).

  Quantification: every ExtendedDaemonSet (any status, any annotations, any strategy), every list of replica
  sets, pods, nodes, every instant and defaulting mode.

    `C12_no_adoption`   if the reconcile writes a status `s`, then                                   [full]
      * no replica set is created by this reconcile (so "the replica set created by this very reconcile" never
        is what a written status names: creation and status write are different exits);
      * `s.activeReplicaSet` is the name of a member `e` of `ownErs d all` — either a replica set named like
        the previous `d.status.activeReplicaSet`, or the up-to-date one (`upToDateOf d (ownErs d all)`).
        This is stronger than the disjunction "empty, or the previous name, or an own member": it is *always*
        an own member; a previous name that no own replica set bears is dropped, and `""` is never written;
      * `s.canary` is `none`, or — only when the strategy has no canary section — the previous
        `d.status.canary` carried over untouched, or `some cs` with `cs.replicaSet` the name of the up-to-date
        own replica set.
    `C12_no_adoption_names`   the same in the disjunctive form of the property text (corollary).
    `C12_foreign_never_named` a replica set that is not own (other namespace or without the name label) and
      whose name no own replica set bears is never the written `activeReplicaSet`; nor the written canary
      replica set when the strategy has a canary section.
  No `_partial` theorem in this file.
-/
namespace Eds

/-- membership in the list the reconcile works on. -/
theorem C12_ownErs_mem (d : EDS) (all : List ERS) (e : ERS) :
    e ∈ ownErs d all ↔ e ∈ all ∧ e.ns = d.ns ∧ SMap.get? e.labels K.edsNameLabel = some d.name := by
  unfold ownErs
  simp only [List.mem_filter, Bool.and_eq_true, beq_iff_eq]

/-- the replica set `selectCurrentReplicaSet` returns is listed: the one named like the previous
`status.activeReplicaSet`, or the up-to-date one. -/
theorem currentOf_listed (d : EDS) (list : List ERS) (u : ERS) (now : Time) :
    ((currentOf d list u now).1 ∈ list ∧ (currentOf d list u now).1.name = d.status.activeReplicaSet) ∨
    (currentOf d list u now).1 = u := by
  unfold currentOf
  simp only []
  cases ha : lastWhere (fun e => e.name == d.status.activeReplicaSet) list with
  | none =>
    right
    cases (selectCurrent d.strategy.canary d.annotations none u false now).1 <;> rfl
  | some a =>
    obtain ⟨hm, hn⟩ := lastWhere_mem ha
    cases (selectCurrent d.strategy.canary d.annotations (some a) u false now).1 with
    | active => left; exact ⟨hm, by simpa using hn⟩
    | upToDate => right; rfl

/-- the canary block of the status before the node selection. -/
theorem managedStatus_canary (d : EDS) (current u : ERS) (cur rdy avail : Int) (now : Time) :
    (managedStatus d current u cur rdy avail now).canary = none ∨
    ∃ cs, (managedStatus d current u cur rdy avail now).canary = some cs ∧ cs.replicaSet = u.name := by
  unfold managedStatus manageStatus
  simp only []
  split
  · left; rfl
  · split
    · right; exact ⟨_, rfl, rfl⟩
    · left; rfl

/-- the canary block of the status `updateInstance` computes. -/
theorem updateInstance_canary (d : EDS) (current u : ERS) (cur rdy avail : Int) (now : Time)
    (pods : List Pod) (nodes : List Node) :
    (updateInstance d current u cur rdy avail now pods nodes).status.canary = none ∨
    (d.strategy.canary = none ∧
      (updateInstance d current u cur rdy avail now pods nodes).status.canary = d.status.canary) ∨
    ∃ cs, (updateInstance d current u cur rdy avail now pods nodes).status.canary = some cs ∧
      cs.replicaSet = u.name := by
  cases hc : d.strategy.canary with
  | none =>
    right; left
    rw [updateInstance_no_canary _ _ _ _ _ _ _ _ _ hc]
    exact ⟨rfl, rfl⟩
  | some c =>
    rcases updateInstance_status_shape d current u cur rdy avail now pods nodes c hc with h | ⟨sel, h⟩
    · rw [h]
      rcases managedStatus_canary d current u cur rdy avail now with hm | ⟨cs, hm, hn⟩
      · exact Or.inl hm
      · exact Or.inr (Or.inr ⟨cs, hm, hn⟩)
    · rw [h]
      rcases managedStatus_canary d current u cur rdy avail now with hm | ⟨cs, hm, hn⟩
      · left; simp only [hm, Option.map_none]
      · right; right
        exact ⟨{ cs with nodes := sel }, by simp only [hm, Option.map_some], hn⟩

/-- **Never adopted.**  A status written by the reconcile names, as active replica set, an own replica
set (named like the previous active one, or the up-to-date one), and as canary replica set nothing, or
the up-to-date own replica set — or, when the strategy has no canary section, whatever the previous
status held, untouched.  No replica set is created by a reconcile that writes a status. -/
theorem C12_no_adoption (d : EDS) (all : List ERS) (pods : List Pod) (nodes : List Node) (now : Time)
    (mode : String) (s : EDSStatus)
    (h : (reconcileEds d all pods nodes now mode).statusUpdate = some s) :
    (reconcileEds d all pods nodes now mode).created = none ∧
    (∃ e ∈ ownErs d all, s.activeReplicaSet = e.name ∧
      (e.name = d.status.activeReplicaSet ∨ upToDateOf d (ownErs d all) = some e)) ∧
    (s.canary = none ∨
     (d.strategy.canary = none ∧ s.canary = d.status.canary) ∨
     ∃ cs e, s.canary = some cs ∧ e ∈ ownErs d all ∧ cs.replicaSet = e.name ∧
       upToDateOf d (ownErs d all) = some e) := by
  rcases reconcileEds_cases d all pods nodes now mode with hr | hr | ⟨_, hr⟩ | ⟨u, hu, hr⟩
  · rw [hr] at h; cases h
  · rw [hr] at h; cases h
  · rw [hr] at h; cases h
  · rw [hr] at h ⊢
    have hs := edsMain_statusUpdate d (ownErs d all) u pods nodes now s h
    have hul : u ∈ ownErs d all := (lastWhere_mem hu).1
    refine ⟨edsMain_created _ _ _ _ _ _, ?_, ?_⟩
    · have ha : s.activeReplicaSet = (currentOf d (ownErs d all) u now).1.name := by
        rw [hs]; unfold edsUpd; exact updateInstance_activeReplicaSet _ _ _ _ _ _ _ _ _
      rcases currentOf_listed d (ownErs d all) u now with ⟨hm, hn⟩ | hcu
      · exact ⟨_, hm, ha, Or.inl hn⟩
      · rw [hcu] at ha
        exact ⟨u, hul, ha, Or.inr hu⟩
    · rw [hs]
      unfold edsUpd
      rcases updateInstance_canary d (currentOf d (ownErs d all) u now).1 u
          ((ownErs d all).foldl (fun a e => a + e.status.current) 0)
          ((ownErs d all).foldl (fun a e => a + e.status.ready) 0)
          ((ownErs d all).foldl (fun a e => a + e.status.available) 0) now (ownPods d pods) nodes
        with hc | hc | ⟨cs, hc, hn⟩
      · exact Or.inl hc
      · exact Or.inr (Or.inl hc)
      · exact Or.inr (Or.inr ⟨cs, u, hc, hul, hn, hu⟩)

/-- the disjunctive form of the property text: the written active replica set is `""`, the previous
one, or an own replica set (listed, same namespace, name label) — in fact always the last; same for the
canary replica set. -/
theorem C12_no_adoption_names (d : EDS) (all : List ERS) (pods : List Pod) (nodes : List Node) (now : Time)
    (mode : String) (s : EDSStatus)
    (h : (reconcileEds d all pods nodes now mode).statusUpdate = some s) :
    (s.activeReplicaSet = "" ∨ s.activeReplicaSet = d.status.activeReplicaSet ∨
      ∃ e ∈ all, e.ns = d.ns ∧ SMap.get? e.labels K.edsNameLabel = some d.name ∧ e.name = s.activeReplicaSet) ∧
    (∀ cs, s.canary = some cs →
      cs.replicaSet = "" ∨ (∃ cs0, d.status.canary = some cs0 ∧ cs.replicaSet = cs0.replicaSet) ∨
      ∃ e ∈ all, e.ns = d.ns ∧ SMap.get? e.labels K.edsNameLabel = some d.name ∧ e.name = cs.replicaSet) := by
  obtain ⟨-, ⟨e, he, hn, -⟩, hc⟩ := C12_no_adoption d all pods nodes now mode s h
  constructor
  · obtain ⟨h1, h2, h3⟩ := (C12_ownErs_mem d all e).mp he
    exact Or.inr (Or.inr ⟨e, h1, h2, h3, hn.symm⟩)
  · intro cs hcs
    rcases hc with hc | ⟨-, hc⟩ | ⟨cs', e', hc, he', hn', -⟩
    · rw [hc] at hcs; cases hcs
    · rw [hc] at hcs
      exact Or.inr (Or.inl ⟨cs, hcs, rfl⟩)
    · rw [hc] at hcs
      cases hcs
      obtain ⟨h1, h2, h3⟩ := (C12_ownErs_mem d all e').mp he'
      exact Or.inr (Or.inr ⟨e', h1, h2, h3, hn'.symm⟩)

/-- **A foreign replica set is never named.**  If no own replica set bears the name `nm` (e.g. `nm` is the
name of a replica set of another namespace, or of one without the name label), no written status names
`nm` as active replica set — even if the previous status did; nor as canary replica set when the strategy
has a canary section. -/
theorem C12_foreign_never_named (d : EDS) (all : List ERS) (pods : List Pod) (nodes : List Node) (now : Time)
    (mode : String) (s : EDSStatus) (nm : String)
    (h : (reconcileEds d all pods nodes now mode).statusUpdate = some s)
    (hf : ∀ e ∈ all, e.ns = d.ns → SMap.get? e.labels K.edsNameLabel = some d.name → e.name ≠ nm) :
    s.activeReplicaSet ≠ nm ∧
    (d.strategy.canary ≠ none → ∀ cs, s.canary = some cs → cs.replicaSet ≠ nm) := by
  obtain ⟨-, ⟨e, he, hn, -⟩, hc⟩ := C12_no_adoption d all pods nodes now mode s h
  constructor
  · obtain ⟨h1, h2, h3⟩ := (C12_ownErs_mem d all e).mp he
    rw [hn]; exact hf e h1 h2 h3
  · intro hcan cs hcs
    rcases hc with hc | ⟨hc, -⟩ | ⟨cs', e', hc, he', hn', -⟩
    · rw [hc] at hcs; cases hcs
    · exact absurd hc hcan
    · rw [hc] at hcs
      cases hcs
      obtain ⟨h1, h2, h3⟩ := (C12_ownErs_mem d all e').mp he'
      rw [hn']; exact hf e' h1 h2 h3

/-! ### Non-vacuity (the small world of EdsProofs/ReconcileEds.lean: daemonset `ns/ds`, replica sets `ds-a`
(template `h1`) and `ds-b` (template `h2`)). -/

open ExReconcile

/-- a status is written; it names own replica sets. -/
example : ((reconcileEds dCanary (store 1) [] [] minute "auto").statusUpdate.map (·.activeReplicaSet)) = some "ds-a" ∧
    (ownErs dCanary (store 1)).map (·.name) = ["ds-a", "ds-b"] := by decide

/-- a canary in progress (`ds-b` not failed): the written status names `ds-a` as active and `ds-b` — the
up-to-date own replica set — as canary. -/
def storeRunning12c : List ERS := [rs "ds-a" "h1" 3 [], rs "ds-b" "h2" 1 []]
example : ((reconcileEds { dCanary with status := { dCanary.status with state := "" } } storeRunning12c [] [] minute "auto").statusUpdate.map
      (fun s => (s.activeReplicaSet, s.canary.map (·.replicaSet)))) = some ("ds-a", some "ds-b") ∧
    (upToDateOf dCanary (ownErs dCanary storeRunning12c)).map (·.name) = some "ds-b" := by decide

/-- a *foreign* replica set — same name label, same template hash, but in another namespace, and even named
by the previous status as the active one — is not adopted: the written status names the own `ds-b`. -/
def foreign12c : ERS := { rs "ds-x" "h2" 3 [] with ns := "other" }
/-- … and one of the right namespace without the name label is not adopted either. -/
def unlabelled12c : ERS := { rs "ds-y" "h2" 3 [] with labels := [] }
def dForeign12c : EDS := eds "h2" [] (status "ds-x" none)
example : (ownErs dForeign12c [foreign12c, unlabelled12c, rs "ds-b" "h2" 1 []]).map (·.name) = ["ds-b"] ∧
    ((reconcileEds dForeign12c [foreign12c, unlabelled12c, rs "ds-b" "h2" 1 []] [] [] minute "auto").statusUpdate.map
      (fun s => (s.activeReplicaSet, s.canary.map (·.replicaSet)))) = some ("ds-b", none) ∧
    ((reconcileEds { dForeign12c with status := status "ds-y" none } [foreign12c, unlabelled12c, rs "ds-b" "h2" 1 []] [] []
      minute "auto").statusUpdate.map (fun s => (s.activeReplicaSet, s.canary.map (·.replicaSet))))
      = some ("ds-b", none) := by decide

/-- with only foreign replica sets around, the reconcile creates its own and writes no status. -/
example : (reconcileEds dForeign12c [foreign12c, unlabelled12c] [] [] minute "auto").statusUpdate = none ∧
    (reconcileEds dForeign12c [foreign12c, unlabelled12c] [] [] minute "auto").created.map (·.generateName) = some "ds-" := by
  decide

/-- the middle disjunct of the canary clause is attained: a strategy without canary section carries the
previous canary block over, whatever it names. -/
def dNoCanary12c : EDS :=
  { eds "h2" [] (status "ds-b" (some ⟨"ds-zzz", ["n1"]⟩)) with strategy := { strategy with canary := none } }
example : dNoCanary12c.strategy.canary = none ∧
    ((reconcileEds dNoCanary12c [rs "ds-b" "h2" 1 []] [] [] minute "auto").statusUpdate.map
      (fun s => (s.activeReplicaSet, s.canary.map (·.replicaSet)))) = some ("ds-b", some "ds-zzz") := by decide

end Eds
