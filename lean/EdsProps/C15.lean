import EdsModel
import EdsSpec.C15
/-
  C15 — Canary nodes are valid, distinct, stable and as many as requested.
-/
namespace Eds
open Spec.C15

/-- **Percent.** The requested number of canary nodes is the percentage of the targeted nodes,
rounded up (shared arithmetic with C03). -/
theorem C15_percent (v targeted : Int) :
    requested { replicas := some ⟨"pct", v⟩, duration := none, nodeSelector := none, antiAffinityKeys := [],
                autoPause := none, autoFail := none, noRestartsDuration := none, validationMode := "" } targeted
      = some ((v * targeted + 99) / 100) := by
  simp [requested, resolveIntOrPercent, ceilDiv100]

end Eds
