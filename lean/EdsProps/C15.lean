import EdsModel
import EdsSpec.C15
import EdsProofs.SelectNodes
import EdsProofs.ReconcileEds
/-
  C15 — Canary nodes are valid, distinct, stable and as many as requested.

  All statements are about one successful call
      selectNodes t c base cur pods nodes = .ok (res, short)
  (`cur` = `status.canary.nodes` before, `res` = after, `short` = "fewer than requested": the
  reconcile reports an error), and about the caller `updateInstance` / `edsMain`.

  Notation used in the comments: `listed` = the nodes passing the canary node selector
  (`Sel.listed c nodes`), `kept` = the previously selected names surviving the first loop
  (`Sel.kept t c pods nodes cur`).

  Known and accepted (finding F6a): a previously selected name that is *not* the name of a listed
  node is never re-examined and stays; `Spec.C15.allValid` is therefore false in general
  (`C15_allValid_counterexample`), and `C15_all_valid_if_listed` proves the complement.
-/
namespace Eds
open Spec.C15 Sel

variable {t : Template} {c : Canary} {base : Int} {cur : List String} {pods : List Pod}
  {nodes : List Node} {res : List String} {short : Bool}

/-! ### 5. the request -/

/-- **Percent.** The requested number of canary nodes is the percentage of the targeted nodes,
rounded up (shared arithmetic with C03). -/
theorem C15_percent (v targeted : Int) :
    requested { replicas := some ⟨"pct", v⟩, duration := none, nodeSelector := none, antiAffinityKeys := [],
                autoPause := none, autoFail := none, noRestartsDuration := none, validationMode := "" } targeted
      = some ((v * targeted + 99) / 100) := by
  simp [requested, resolveIntOrPercent, ceilDiv100]

/-- `ceilDiv100 a` is `⌈a / 100⌉`: the least integer `q` with `a ≤ 100 q`. -/
theorem C15_ceilDiv100_is_ceiling (a : Int) :
    a ≤ 100 * ceilDiv100 a ∧ 100 * (ceilDiv100 a - 1) < a := by
  unfold ceilDiv100
  omega

/-- what the request resolves to: an integer is taken as it is, a percentage is resolved against
`targeted` and rounded up, anything else is an error. -/
theorem C15_requested_iff (c : Canary) (targeted k : Int) :
    requested c targeted = some k ↔
      ∃ x, c.replicas = some x ∧
        ((x.kind = "int" ∧ k = x.val) ∨ (x.kind = "pct" ∧ k = ceilDiv100 (x.val * targeted))) := by
  unfold requested resolveIntOrPercent
  cases c.replicas with
  | none => simp
  | some x =>
    simp only [Option.some.injEq, exists_eq_left', beq_iff_eq]
    by_cases h1 : x.kind = "int"
    · have h2 : x.kind ≠ "pct" := by rw [h1]; decide
      simp [h1, eq_comm]
    · by_cases h2 : x.kind = "pct"
      · have h1' : ¬ ("pct" = "int") := by decide
        simp [h2, h1', eq_comm]
      · simp [h1, h2]

/-- **The request is resolved against the number of nodes the ExtendedDaemonSet targets**: a
successful `selectNodes` resolved `spec.strategy.canary.replicas` against its argument `base`
(`Spec.C15.requested c base`; `updateInstance` passes the ExtendedDaemonSet's `status.desired`, see
`C15_update_uses_select`), with the rounding up of `ceilDiv100`, and the error flag compares the result
with that number. -/
theorem C15_request_resolved_against_targeted
    (h : selectNodes t c base cur pods nodes = .ok (res, short)) :
    ∃ k, requested c base = some k ∧ short = decide ((res.length : Int) < k) ∧
      ∃ x, c.replicas = some x ∧
        ((x.kind = "int" ∧ k = x.val) ∨
         (x.kind = "pct" ∧ k = ceilDiv100 (x.val * base) ∧
            x.val * base ≤ 100 * k ∧ 100 * (k - 1) < x.val * base)) := by
  obtain ⟨nb, add, hr, hshort, -⟩ := selectNodes_shape h
  refine ⟨nb, hr, hshort, ?_⟩
  obtain ⟨x, hx, h⟩ := (C15_requested_iff c base nb).mp hr
  refine ⟨x, hx, ?_⟩
  rcases h with h | ⟨h1, h2⟩
  · exact Or.inl h
  · have := C15_ceilDiv100_is_ceiling (x.val * base)
    rw [← h2] at this
    exact Or.inr ⟨h1, h2, this.1, this.2⟩

/-- without a resolvable request there is no selection at all: the call is an error. -/
theorem C15_unresolvable_request_is_error (t : Template) (c : Canary) (base : Int) (cur : List String)
    (pods : List Pod) (nodes : List Node) (h : requested c base = none) :
    selectNodes t c base cur pods nodes = .err "replicas" :=
  selectNodes_err_iff t c base cur pods nodes h

/-! ### 1. distinct -/

/-- **Distinct.** The first loop only erases and the second only appends names that are not in the
list yet: a duplicate-free list stays duplicate-free.  (No hypothesis on the node names is needed.) -/
theorem C15_distinct (h : selectNodes t c base cur pods nodes = .ok (res, short)) (hnd : cur.Nodup) :
    res.Nodup := by
  obtain ⟨nb, add, -, -, hres, haddnd, hnew, -⟩ := selectNodes_shape h
  rw [hres, List.nodup_append]
  refine ⟨filt_nodup hnd, haddnd, ?_⟩
  intro a ha b hb hab
  subst hab
  exact hnew a hb ha

theorem C15_distinct_spec (h : selectNodes t c base cur pods nodes = .ok (res, short)) :
    distinct cur res = true := by
  unfold distinct
  by_cases hnd : cur.Nodup
  · simp [C15_distinct h hnd]
  · simp [hnd]

/-! ### 2. what is added is valid -/

/-- every name of the result is a previously selected one or the name of a listed node that is fit. -/
theorem C15_mem_result (h : selectNodes t c base cur pods nodes = .ok (res, short)) {x : String}
    (hx : x ∈ res) : (x ∈ cur ∧ x ∈ kept t c pods nodes cur) ∨ validNode t c nodes x = true := by
  obtain ⟨nb, add, -, -, hres, -, -, hfrom, -⟩ := selectNodes_shape h
  rw [hres] at hx
  rcases List.mem_append.mp hx with hx | hx
  · exact Or.inl ⟨filt_subset hx, hx⟩
  · exact Or.inr (validNode_iff.mpr (hfrom x hx))

/-- **New names are valid**: a name of the result that was not selected before is the name of an
existing node that matches the canary node selector and is eligible for the pod. -/
theorem C15_new_valid (h : selectNodes t c base cur pods nodes = .ok (res, short)) :
    ∀ x ∈ res, x ∉ cur → validNode t c nodes x = true := by
  intro x hx hnx
  rcases C15_mem_result h hx with ⟨hc, -⟩ | hv
  · exact absurd hc hnx
  · exact hv

theorem C15_new_valid_spec (h : selectNodes t c base cur pods nodes = .ok (res, short)) :
    newValid t c nodes cur res = true := by
  unfold newValid added
  rw [List.all_eq_true]
  intro x hx
  rw [List.mem_filter] at hx
  exact C15_new_valid h x hx.1 (by simpa using hx.2)

/-! ### 3. what was selected before is kept -/

/-- **Previously selected names are only removed when they are listed and unfit.** -/
theorem C15_removed_only_unfit (h : selectNodes t c base cur pods nodes = .ok (res, short)) :
    ∀ x ∈ cur, x ∉ res → ∃ n ∈ listed c nodes, n.name = x ∧ fit t n = false := by
  intro x hx hnx
  obtain ⟨nb, add, -, -, hres, -⟩ := selectNodes_shape h
  have hnk : x ∉ kept t c pods nodes cur := fun hk => hnx (by rw [hres]; exact List.mem_append_left _ hk)
  obtain ⟨n, hn, h⟩ := filt_removed hx hnk
  exact ⟨n, mem_sortByRestarts.mp hn, h⟩

/-- a previously selected name that no listed node of that name makes unfit is kept
(in particular every name that is *not listed* — finding F6a — and, with distinct node names,
every name that is still valid). -/
theorem C15_kept_if_not_unfit (h : selectNodes t c base cur pods nodes = .ok (res, short)) {x : String}
    (hx : x ∈ cur) (hok : ∀ n ∈ listed c nodes, n.name = x → fit t n = true) : x ∈ res := by
  apply Decidable.byContradiction
  intro hnx
  obtain ⟨n, hn, hname, hfit⟩ := C15_removed_only_unfit h x hx hnx
  rw [hok n hn hname] at hfit
  cases hfit

/-- **Order.** The result is the surviving previous names — a sublist of the previous list, so in
their previous relative order — followed by the added names, which are new to that prefix and pairwise
distinct. -/
theorem C15_kept_prefix (h : selectNodes t c base cur pods nodes = .ok (res, short)) :
    ∃ add, res = kept t c pods nodes cur ++ add ∧ (kept t c pods nodes cur).Sublist cur ∧
      add.Nodup ∧ (∀ y ∈ add, y ∉ kept t c pods nodes cur) ∧
      (∀ y ∈ add, validNode t c nodes y = true) := by
  obtain ⟨nb, add, -, -, hres, hnd, hnew, hfrom, -⟩ := selectNodes_shape h
  exact ⟨add, hres, filt_sublist _ _ _, hnd, hnew, fun y hy => validNode_iff.mpr (hfrom y hy)⟩

/-- with distinct node names an added name was not selected before (it cannot have been dropped as
unfit and then added as fit). -/
theorem C15_added_not_previous (h : selectNodes t c base cur pods nodes = .ok (res, short))
    (hnames : (nodes.map (·.name)).Nodup) :
    ∃ add, res = kept t c pods nodes cur ++ add ∧ ∀ y ∈ add, y ∉ cur := by
  obtain ⟨nb, add, -, -, hres, -, hnew, hfrom, -⟩ := selectNodes_shape h
  refine ⟨add, hres, ?_⟩
  intro y hy hyc
  obtain ⟨n, hn, hname, hunfit⟩ := filt_removed hyc (hnew y hy)
  obtain ⟨m, hm, hname', hfit⟩ := hfrom y hy
  have := eq_of_name_eq (listed_names_nodup hnames) (mem_sortByRestarts.mp hn) hm (hname.trans hname'.symm)
  subst this
  rw [hfit] at hunfit
  cases hunfit

/-- **Relative order of the kept names**: with duplicate-free inputs, the previously selected names that
are in the result appear there in their previous order, and before every added name:
restricting the result to the old names gives the same list as restricting the old list to the result. -/
theorem C15_keep_order (h : selectNodes t c base cur pods nodes = .ok (res, short))
    (hnd : cur.Nodup) (hnames : (nodes.map (·.name)).Nodup) :
    res.filter (fun x => cur.contains x) = cur.filter (fun x => res.contains x) ∧
    (cur.filter (fun x => res.contains x)) <+: res := by
  obtain ⟨add, hres, hadd⟩ := C15_added_not_previous h hnames
  have hsub : (kept t c pods nodes cur).Sublist cur := filt_sublist _ _ _
  have h1 : res.filter (fun x => cur.contains x) = kept t c pods nodes cur := by
    rw [hres, List.filter_append]
    have ha : add.filter (fun x => cur.contains x) = [] := by
      rw [List.filter_eq_nil_iff]
      intro y hy
      simpa using hadd y hy
    have hk : (kept t c pods nodes cur).filter (fun x => cur.contains x) = kept t c pods nodes cur := by
      rw [List.filter_eq_self]
      intro y hy
      simpa using hsub.subset hy
    rw [ha, hk, List.append_nil]
  have h2 : cur.filter (fun x => res.contains x) = kept t c pods nodes cur := by
    have h3 := filter_eq_of_sublist (fun x => res.contains x) hsub hnd (by
      intro x hx hp
      have hp' : x ∈ res := by simpa using hp
      rw [hres] at hp'
      rcases List.mem_append.mp hp' with hk | ha
      · exact hk
      · exact absurd hx (hadd x ha))
    rw [← h3, List.filter_eq_self]
    intro y hy
    simp only [List.contains_eq_mem, decide_eq_true_eq]
    rw [hres]
    exact List.mem_append_left _ hy
  rw [h1, h2]
  exact ⟨rfl, by rw [hres]; exact List.prefix_append _ _⟩

/-- **Nodes selected earlier that are still valid are kept, in order** (`Spec.C15.keep`), when the
node names are distinct.

The hypothesis is needed: with two listed nodes of the same name, one fit and one unfit, the name is
"valid" for the specification but the first loop drops it (`C15_keep_counterexample`).  Node names
are unique in a cluster, so the hypothesis holds for every list the API server returns. -/
theorem C15_keep (h : selectNodes t c base cur pods nodes = .ok (res, short))
    (hnames : (nodes.map (·.name)).Nodup) : keep t c nodes cur res = true := by
  unfold keep
  simp only []
  by_cases hnd : cur.Nodup
  case neg => simp [hnd]
  case pos =>
    simp only [Bool.or_eq_true, beq_iff_eq]
    left
    obtain ⟨add, hres, hadd⟩ := C15_added_not_previous h hnames
    have hsub : (kept t c pods nodes cur).Sublist cur := filt_sublist _ _ _
    -- every still-valid old name survives the first loop
    have hkept : ∀ x ∈ cur, validNode t c nodes x = true → x ∈ kept t c pods nodes cur := by
      intro x hx hv
      obtain ⟨m, hm, hname, hfit⟩ := validNode_iff.mp hv
      apply filt_kept hx
      intro n hn hname'
      have := eq_of_name_eq (listed_names_nodup hnames) (mem_sortByRestarts.mp hn) hm (hname'.trans hname.symm)
      rw [this]; exact hfit
    rw [hres, List.filter_append]
    have ha : add.filter (fun x => (cur.filter (validNode t c nodes)).contains x) = [] := by
      rw [List.filter_eq_nil_iff]
      intro y hy
      simp only [List.contains_eq_mem, List.mem_filter, decide_eq_true_eq, not_and]
      intro hyc
      exact absurd hyc (hadd y hy)
    have hk : (kept t c pods nodes cur).filter (fun x => (cur.filter (validNode t c nodes)).contains x)
        = (kept t c pods nodes cur).filter (validNode t c nodes) := by
      apply List.filter_congr
      intro x hx
      have hxc : x ∈ cur := hsub.subset hx
      cases hv : validNode t c nodes x <;> simp [hv, hxc]
    rw [ha, hk, List.append_nil]
    exact filter_eq_of_sublist _ hsub hnd hkept

/-! ### 4. / 6. the count, and the error -/

/-- **Error iff short.** -/
theorem C15_short_iff (h : selectNodes t c base cur pods nodes = .ok (res, short)) {k : Int}
    (hk : requested c base = some k) : short = decide ((res.length : Int) < k) := by
  obtain ⟨nb, add, hr, hshort, -⟩ := selectNodes_shape h
  have : nb = k := by
    have := hr.symm.trans hk
    exact Option.some.inj this
  rw [← this]; exact hshort

/-- **Error if fewer valid nodes exist than requested.** -/
theorem C15_error_if_short (h : selectNodes t c base cur pods nodes = .ok (res, short)) {k : Int}
    (hk : requested c base = some k) : short = true → (res.length : Int) < k := by
  intro hs
  rw [C15_short_iff h hk] at hs
  simpa using hs

/-- on success (no error) with a list that had to grow, the count is exactly the request. -/
theorem C15_reaches_request (h : selectNodes t c base cur pods nodes = .ok (res, short)) {k : Int}
    (hk : requested c base = some k) (hlt : ((kept t c pods nodes cur).length : Int) < k)
    (hs : short = false) : (res.length : Int) = k := by
  obtain ⟨nb, add, hr, hshort, -, -, -, -, -, hle⟩ := selectNodes_shape h
  have : nb = k := Option.some.inj (hr.symm.trans hk)
  subst this
  have := hle hlt
  rw [hs] at hshort
  have hge : ¬ (res.length : Int) < nb := by simpa using hshort.symm
  omega

/-- **Never beyond the request through the controller's own choice**: names are added only while the
survivors of the previous selection are fewer than the request, and then only up to the request;
otherwise the result is the (possibly longer) surviving previous selection. -/
theorem C15_never_exceeds (h : selectNodes t c base cur pods nodes = .ok (res, short)) {k : Int}
    (hk : requested c base = some k) :
    (((kept t c pods nodes cur).length : Int) < k → (res.length : Int) ≤ k) ∧
    (¬ ((kept t c pods nodes cur).length : Int) < k → res = kept t c pods nodes cur) ∧
    (res.length : Int) ≤ max k cur.length := by
  obtain ⟨nb, add, hr, -, hres, -, -, -, hne, hle⟩ := selectNodes_shape h
  have : nb = k := Option.some.inj (hr.symm.trans hk)
  subst this
  have hkl : (kept t c pods nodes cur).length ≤ cur.length := filt_length_le _ _ _
  have hres' : ¬ ((kept t c pods nodes cur).length : Int) < nb → res = kept t c pods nodes cur := by
    intro hnlt
    have : add = [] := by
      apply Decidable.byContradiction
      intro hadd
      exact hnlt (hne hadd)
    rw [hres, this, List.append_nil]
  refine ⟨hle, hres', ?_⟩
  by_cases hlt : ((kept t c pods nodes cur).length : Int) < nb
  · have := hle hlt
    omega
  · rw [hres' hlt]
    omega

/-- **Count** (`Spec.C15.count`). -/
theorem C15_count (h : selectNodes t c base cur pods nodes = .ok (res, short)) :
    count c base cur res short = true := by
  obtain ⟨nb, add, hr, -⟩ := selectNodes_shape h
  have hk : requested c base = some nb := hr
  unfold count
  rw [hk]
  simp only [Bool.and_eq_true, beq_iff_eq, decide_eq_true_eq]
  exact ⟨C15_short_iff h hk, (C15_never_exceeds h hk).2.2⟩

/-! ### 6. the caller reports the error -/

/-- **`updateInstance` runs the selection on the status' node list and takes over its verdict**: with an
active canary whose request resolves (against the ExtendedDaemonSet's `status.desired`: the trigger) to a
number different from the length of the current list, `selectErr` is the `short` flag of `selectNodes`
— run with the request resolved against the nodes the ExtendedDaemonSet targets (`targetedCount`, F14
repair) — and the node list of the new status is its result. -/
theorem C15_update_uses_select (d : EDS) (current u : ERS) (cu rdy avail : Int) (now : Time)
    (pods : List Pod) (nodes : List Node) (c : Canary) (nb : Int) (sel : List String) (short : Bool)
    (hc : d.strategy.canary = some c)
    (hact : isCanaryActive (some c) current.name u.name (isCanaryFailed (some u)) = true)
    (hr : requested c d.status.desired = some nb)
    (hne : nb ≠ ((match (managedStatus d current u cu rdy avail now).canary with
                  | some cs => cs.nodes | none => [] : List String).length : Int))
    (hsel : selectNodes u.template c (targetedCount u.template nodes)
        (match (managedStatus d current u cu rdy avail now).canary with
         | some cs => cs.nodes | none => []) pods nodes = .ok (sel, short)) :
    (updateInstance d current u cu rdy avail now pods nodes).selectErr = short ∧
    (updateInstance d current u cu rdy avail now pods nodes).status.canary =
      (managedStatus d current u cu rdy avail now).canary.map (fun cs => { cs with nodes := sel }) := by
  unfold requested at hr
  unfold managedStatus at hne hsel ⊢
  unfold updateInstance
  simp only [hc, hact, hr, baseStatus] at hne hsel ⊢
  generalize manageStatus _ _ _ _ _ _ _ = st at hne hsel ⊢
  cases hcan : st.canary with
  | none =>
    simp only [hcan] at hne hsel ⊢
    rw [if_pos trivial, if_pos (by simpa using hne), hsel]
    exact ⟨rfl, rfl⟩
  | some cs =>
    simp only [hcan] at hne hsel ⊢
    rw [if_pos trivial, if_pos (by simpa using hne), hsel]
    exact ⟨rfl, rfl⟩

/-- **`selectErr` with a resolvable request means the selection ran and came short**: the only other
source of `selectErr` is a request that does not resolve (`selectNodes` itself never fails once the
request resolves). -/
theorem C15_selectErr_only_if_short (d : EDS) (current u : ERS) (cu rdy avail : Int) (now : Time)
    (pods : List Pod) (nodes : List Node) (c : Canary) (nb nb' : Int)
    (hc : d.strategy.canary = some c) (hr : requested c d.status.desired = some nb)
    (hr' : requested c (targetedCount u.template nodes) = some nb')
    (h : (updateInstance d current u cu rdy avail now pods nodes).selectErr = true) :
    ∃ sel, selectNodes u.template c (targetedCount u.template nodes)
        (match (managedStatus d current u cu rdy avail now).canary with
         | some cs => cs.nodes | none => []) pods nodes = .ok (sel, true) ∧ (sel.length : Int) < nb' := by
  unfold requested at hr hr'
  unfold managedStatus
  unfold updateInstance at h
  simp only [hc, hr, baseStatus] at h ⊢
  generalize manageStatus _ _ _ _ _ _ _ = st at h ⊢
  cases hcan : st.canary <;>
  · simp only [hcan] at h ⊢
    split at h
    · split at h
      · rw [selectNodes_eq _ _ _ _ _ _ hr'] at h ⊢
        simp only [] at h
        exact ⟨_, by rw [h], by simpa using h⟩
      · cases h
    · cases h

/-- **The reconcile reports the error instead of silently running a smaller canary**: when the
selection came short (`selectErr`), `edsMain` returns an error and writes no status — in particular not
the shorter node list. -/
theorem C15_reconcile_error (d : EDS) (list : List ERS) (u : ERS) (pods : List Pod) (nodes : List Node)
    (now : Time)
    (h : (edsUpd d list (currentOf d list u now).1 u pods nodes now).selectErr = true) :
    (edsMain d list u pods nodes now).err = true ∧
    (edsMain d list u pods nodes now).statusUpdate = none ∧
    (edsMain d list u pods nodes now).specUpdate = none := by
  refine ⟨by rw [edsMain_err_iff]; exact h, ?_, ?_⟩
  · unfold edsMain
    unfold edsUpd at h
    simp only []
    generalize updateInstance _ _ _ _ _ _ _ _ _ = upd at h ⊢
    simp [h]
  · unfold edsMain
    unfold edsUpd at h
    simp only []
    generalize updateInstance _ _ _ _ _ _ _ _ _ = upd at h ⊢
    simp [h]

/-! ### 7. validity of the whole list when nothing stale is in it -/

/-- **All names valid when every previous name is listed** (the complement of finding F6a): if the
previous list is duplicate-free and every previous name is the name of a node passing the canary node
selector (node names need not even be distinct), then every name of the result is the name of an existing node
that matches the selector and is eligible for the pod.

`cur.Nodup` is needed because the first loop erases one occurrence per listed unfit node
(`C15_all_valid_needs_nodup`); it is the invariant `C15_distinct` maintains from the empty list. -/
theorem C15_all_valid_if_listed (h : selectNodes t c base cur pods nodes = .ok (res, short))
    (hnd : cur.Nodup) (hlisted : ∀ x ∈ cur, ∃ n ∈ listed c nodes, n.name = x) :
    allValid t c nodes res = true := by
  unfold allValid
  rw [List.all_eq_true]
  intro x hx
  rcases C15_mem_result h hx with ⟨hxc, hxk⟩ | hv
  · obtain ⟨n, hn, hname⟩ := hlisted x hxc
    cases hfit : fit t n with
    | true => exact validNode_iff.mpr ⟨n, hn, hname, hfit⟩
    | false =>
      have : n.name ∉ kept t c pods nodes cur := filt_unfit_gone hnd (mem_sortByRestarts.mpr hn) hfit
      rw [hname] at this
      exact absurd hxk this
  · exact hv

/-! ### 8. preference for the nodes whose pods restarted least -/

/-- **Least restarts first** (no anti-affinity keys): a node that is added has at most the restart count
of any listed, fit node that is left out of the result. -/
theorem C15_least_restarts (h : selectNodes t c base cur pods nodes = .ok (res, short))
    (hkeys : c.antiAffinityKeys = []) :
    ∀ y ∈ res, y ∉ cur → ∀ z ∈ listed c nodes, fit t z = true → z.name ∉ res →
      nodeRestarts pods y ≤ nodeRestarts pods z.name := by
  intro y hy hyc z hz hzfit hzout
  cases hr : resolveIntOrPercent c.replicas base with
  | none => rw [selectNodes_err_iff t c base cur pods nodes hr] at h; cases h
  | some nb =>
    rw [selectNodes_eq t c base cur pods nodes hr] at h
    simp only [Outcome.ok.injEq, Prod.mk.injEq] at h
    obtain ⟨hres, -⟩ := h
    rw [hkeys] at hres
    split at hres
    · rw [← hres] at hy hzout
      exact selFold_least_restarts t nb pods _ _ (sortByRestarts_sorted pods _) y hy
        (fun hk => hyc (filt_subset hk)) z (mem_sortByRestarts.mpr hz) hzfit hzout
    · rw [← hres] at hy
      exact absurd (filt_subset hy) hyc

/-- **An error only when the valid nodes are exhausted** (no anti-affinity keys): if the selection comes
short, every listed fit node is in the result — the controller does not report an error while a valid
node is still free.  (With anti-affinity keys this fails, `C15_short_despite_valid_with_keys`.) -/
theorem C15_short_only_if_exhausted (h : selectNodes t c base cur pods nodes = .ok (res, short))
    (hkeys : c.antiAffinityKeys = []) (hs : short = true) :
    ∀ z ∈ listed c nodes, fit t z = true → z.name ∈ res := by
  intro z hz hzfit
  cases hr : resolveIntOrPercent c.replicas base with
  | none => rw [selectNodes_err_iff t c base cur pods nodes hr] at h; cases h
  | some nb =>
    rw [selectNodes_eq t c base cur pods nodes hr] at h
    simp only [Outcome.ok.injEq, Prod.mk.injEq] at h
    obtain ⟨hres, hshort⟩ := h
    rw [hs, hkeys] at hshort
    rw [hkeys] at hres
    have hlen : (res.length : Int) < nb := by rw [← hres]; simpa using hshort
    split at hres
    · rw [← hres] at hlen ⊢
      apply selFold_complete t nb _ _ _ z (mem_sortByRestarts.mpr hz) hzfit
      cases hd : (selFold t [] nb (sortByRestarts pods (listed c nodes))
          { current := filt t (sortByRestarts pods (listed c nodes)) cur,
            counts := counts0 [] (sortByRestarts pods (listed c nodes))
              (filt t (sortByRestarts pods (listed c nodes)) cur) }).done with
      | false => rfl
      | true =>
        have := selFold_doneInv (t := t) (keys := []) (nb := nb) (sortByRestarts pods (listed c nodes))
          (s := { current := filt t (sortByRestarts pods (listed c nodes)) cur,
                  counts := counts0 [] (sortByRestarts pods (listed c nodes))
                    (filt t (sortByRestarts pods (listed c nodes)) cur) })
          (fun hd0 => by cases hd0) hd
        omega
    · rename_i hge
      rw [← hres] at hlen
      exact absurd hlen hge

/-! ### 9. spreading over the values of `nodeAntiAffinityKeys` -/

/-- the cap of the spreading, `Int.tdiv (k + m - 1) m`, is `⌈k / m⌉` for a non-negative request `k`
and `m ≥ 1` classes. -/
theorem C15_spread_cap_is_ceiling (k m : Int) (hk : 0 ≤ k) (hm : 0 < m) :
    k ≤ m * Int.tdiv (k + m - 1) m ∧ m * (Int.tdiv (k + m - 1) m - 1) < k := by
  rw [Int.tdiv_eq_ediv_of_nonneg (by omega)]
  have h1 := Int.mul_ediv_add_emod (k + m - 1) m
  have h2 := Int.emod_nonneg (k + m - 1) (Int.ne_of_gt hm)
  have h3 := Int.emod_lt_of_pos (k + m - 1) hm
  rw [Int.mul_sub, Int.mul_one]
  omega

/-- **Spread.** With anti-affinity keys, let `classes` be the distinct values
`antiAffinityValue keys n` of the listed nodes (the theorem exhibits a duplicate-free enumeration).  The
result is the kept names followed by the names of a sublist `addN` of the sorted listed nodes, all fit,
and for every value `v` the number of listed nodes of class `v` that were already selected plus the number
of added nodes of class `v` is at most `⌈k / #classes⌉` (`Int.tdiv (k + #classes - 1) #classes`) — unless
the already selected ones exceed that on their own, in which case none is added to that class. -/
theorem C15_spread (h : selectNodes t c base cur pods nodes = .ok (res, short))
    (hkeys : c.antiAffinityKeys ≠ []) {k : Int} (hk : requested c base = some k) :
    ∃ (classes : List String) (addN : List Node),
      classes.Nodup ∧
      (∀ v, v ∈ classes ↔ ∃ n ∈ listed c nodes, antiAffinityValue c.antiAffinityKeys n = v) ∧
      addN.Sublist (sortByRestarts pods (listed c nodes)) ∧ (∀ n ∈ addN, fit t n = true) ∧
      res = kept t c pods nodes cur ++ addN.map (·.name) ∧
      ∀ v,
        (((sortByRestarts pods (listed c nodes)).filter (fun n =>
            antiAffinityValue c.antiAffinityKeys n == v && (kept t c pods nodes cur).contains n.name)).length : Int)
          + ((addN.filter (fun n => antiAffinityValue c.antiAffinityKeys n == v)).length : Int)
        ≤ max (((sortByRestarts pods (listed c nodes)).filter (fun n =>
            antiAffinityValue c.antiAffinityKeys n == v && (kept t c pods nodes cur).contains n.name)).length : Int)
            (Int.tdiv (k + (classes.length : Int) - 1) (classes.length : Int)) := by
  have hke : c.antiAffinityKeys.isEmpty = false := by
    cases hkk : c.antiAffinityKeys with
    | nil => exact absurd hkk hkeys
    | cons a l => rfl
  unfold requested at hk
  rw [selectNodes_eq t c base cur pods nodes hk] at h
  simp only [Outcome.ok.injEq, Prod.mk.injEq] at h
  obtain ⟨hres, -⟩ := h
  obtain ⟨hc1, hc2, hc3⟩ := c0Fold_spec c.antiAffinityKeys (kept t c pods nodes cur)
    (sortByRestarts pods (listed c nodes)) []
  rw [← counts0_eq _ _ _ hke] at hc1 hc2 hc3
  refine ⟨(counts0 c.antiAffinityKeys (sortByRestarts pods (listed c nodes)) (kept t c pods nodes cur)).map (·.1),
    ?_⟩
  have hclasses : ∀ v, v ∈ (counts0 c.antiAffinityKeys (sortByRestarts pods (listed c nodes))
      (kept t c pods nodes cur)).map (·.1) ↔ ∃ n ∈ listed c nodes, antiAffinityValue c.antiAffinityKeys n = v := by
    intro v
    rw [hc1 v]
    constructor
    · rintro (h | ⟨n, hn, h⟩)
      · simp at h
      · exact ⟨n, mem_sortByRestarts.mp hn, h⟩
    · rintro ⟨n, hn, h⟩
      exact Or.inr ⟨n, mem_sortByRestarts.mpr hn, h⟩
  split at hres
  · obtain ⟨addN, hsub, hcur, hfit, -, hv⟩ := selFold_spread t c.antiAffinityKeys k hke
      (sortByRestarts pods (listed c nodes))
      { current := kept t c pods nodes cur,
        counts := counts0 c.antiAffinityKeys (sortByRestarts pods (listed c nodes)) (kept t c pods nodes cur) }
      (fun n hn => (hc1 _).mpr (Or.inr ⟨n, hn, rfl⟩))
    refine ⟨addN, hc2 (by simp), hclasses, hsub, hfit, by rw [← hres]; exact hcur, ?_⟩
    intro v
    obtain ⟨h1, h2⟩ := hv v
    simp only [] at h1 h2
    rw [hc3 v] at h1 h2
    simp only [List.length_map]
    simp only [lookupCount, List.find?_nil] at h1 h2
    omega
  · refine ⟨[], hc2 (by simp), hclasses, List.nil_sublist _, by simp, by rw [← hres]; simp [kept], ?_⟩
    intro v
    simp only [List.filter_nil, List.length_nil]
    omega

/-! ### examples and counterexamples -/

def exT15 : Template :=
  { labels := [], annotations := [], nodeSelector := [], affOther := "", affRequired := none,
    tolerations := [], containers := [] }

def exNode15 (n : String) (labels : SMap := []) (taints : List Taint := []) : Node :=
  { name := n, labels := labels, annotations := [], taints := taints }

/-- a pod on node `n` whose one regular container restarted `restarts` times. -/
def exPod15 (name n : String) (restarts : Int) : Pod :=
  { name := name, ns := "d", labels := [], annotations := [], owners := [],
    creation := 0, deletion := none, gracePeriod := none, nodeName := n, affOther := "",
    affRequired := none, tolerations := [], containers := [], phase := "Running", startTime := none,
    conds := [], cstats := [{ name := "c", restarts := restarts, waiting := none, lastTerm := none }],
    mainCstats := 1 }

def exCanary15 (replicas : IntOrStr) (sel : Option LabelSelector := none) (keys : List String := []) : Canary :=
  { replicas := some replicas, duration := none, nodeSelector := sel, antiAffinityKeys := keys,
    autoPause := none, autoFail := none, noRestartsDuration := none, validationMode := "" }

def exTaint15 : Taint := ⟨"dedicated", "db", "NoSchedule"⟩

/-- four nodes: `n3` is tainted (unfit); restarts: `n1` ↦ 5, `n2` ↦ 0, `n4` ↦ 2. -/
def exNodes15 : List Node :=
  [exNode15 "n1", exNode15 "n2", exNode15 "n3" [] [exTaint15], exNode15 "n4"]

def exPods15 : List Pod := [exPod15 "p1" "n1" 5, exPod15 "p2" "n2" 0, exPod15 "p4" "n4" 2]

/-- replicas 2, previous selection `n3` (now unfit) and `n1`: `n3` is dropped, `n1` is kept (although it
restarted most), the least restarted free node `n2` is added. -/
example : selectNodes exT15 (exCanary15 ⟨"int", 2⟩) 4 ["n3", "n1"] exPods15 exNodes15
    = .ok (["n1", "n2"], false) := by decide
/-- "50%" of 3 targeted nodes is 2 (rounded up). -/
example : selectNodes exT15 (exCanary15 ⟨"pct", 50⟩) 3 ["n3", "n1"] exPods15 exNodes15
    = .ok (["n1", "n2"], false) := by decide
/-- "50%" of 4 from scratch: the two least restarted fit nodes, in that order. -/
example : selectNodes exT15 (exCanary15 ⟨"pct", 50⟩) 4 [] exPods15 exNodes15
    = .ok (["n2", "n4"], false) := by decide
/-- four requested, three fit nodes: all three are taken and the error flag is set. -/
example : selectNodes exT15 (exCanary15 ⟨"int", 4⟩) 4 [] exPods15 exNodes15
    = .ok (["n2", "n4", "n1"], true) := by decide
/-- the canary node selector restricts the candidates. -/
example : selectNodes exT15 (exCanary15 ⟨"int", 2⟩ (some { matchLabels := [⟨"pool", "c"⟩], exprs := [] })) 4 []
    exPods15 [exNode15 "n1" [⟨"pool", "c"⟩], exNode15 "n2", exNode15 "n4" [⟨"pool", "c"⟩]]
    = .ok (["n4", "n1"], false) := by decide
/-- anti-affinity key `zone`, two classes, two requested: one node per zone (`n2` of zone `a` is passed
over although it stands before `n4`). -/
example : selectNodes exT15 (exCanary15 ⟨"int", 2⟩ none ["zone"]) 4 [] []
    [exNode15 "n1" [⟨"zone", "a"⟩], exNode15 "n2" [⟨"zone", "a"⟩], exNode15 "n4" [⟨"zone", "b"⟩]]
    = .ok (["n1", "n4"], false) := by decide
/-- a request that is neither an integer nor a percentage is an error. -/
example : selectNodes exT15 (exCanary15 ⟨"str", 2⟩) 4 [] exPods15 exNodes15 = .err "replicas" := by decide

/-- the specification predicates on the first example. -/
example : distinct ["n3", "n1"] ["n1", "n2"] = true ∧
    newValid exT15 (exCanary15 ⟨"int", 2⟩) exNodes15 ["n3", "n1"] ["n1", "n2"] = true ∧
    keep exT15 (exCanary15 ⟨"int", 2⟩) exNodes15 ["n3", "n1"] ["n1", "n2"] = true ∧
    count (exCanary15 ⟨"int", 2⟩) 4 ["n3", "n1"] ["n1", "n2"] false = true ∧
    allValid exT15 (exCanary15 ⟨"int", 2⟩) exNodes15 ["n1", "n2"] = true := by decide

/-- **Finding F6a** (known, accepted): a previously selected name that is not listed — here a deleted
node — is never re-examined and stays, so `allValid` fails. -/
theorem C15_allValid_counterexample :
    selectNodes exT15 (exCanary15 ⟨"int", 4⟩) 4 ["gone"] exPods15 exNodes15
      = .ok (["gone", "n2", "n4", "n1"], false) ∧
    allValid exT15 (exCanary15 ⟨"int", 4⟩) exNodes15 ["gone", "n2", "n4", "n1"] = false := by decide

/-- `C15_all_valid_if_listed` needs `cur.Nodup`: of a name listed twice only one occurrence is erased. -/
theorem C15_all_valid_needs_nodup :
    selectNodes exT15 (exCanary15 ⟨"int", 1⟩) 4 ["a", "a"] [] [exNode15 "a" [] [exTaint15]]
      = .ok (["a"], false) ∧
    allValid exT15 (exCanary15 ⟨"int", 1⟩) [exNode15 "a" [] [exTaint15]] ["a"] = false := by decide

/-- `C15_keep` needs distinct node names: with a fit and an unfit node both named `a`, the name `a` is
"still valid" for the specification, yet the first loop drops it (and nothing is added, the request
being met by `b`). -/
theorem C15_keep_counterexample :
    selectNodes exT15 (exCanary15 ⟨"int", 1⟩) 4 ["a", "b"] []
        [exNode15 "a", exNode15 "a" [] [exTaint15], exNode15 "b"] = .ok (["b"], false) ∧
    keep exT15 (exCanary15 ⟨"int", 1⟩) [exNode15 "a", exNode15 "a" [] [exTaint15], exNode15 "b"]
      ["a", "b"] ["b"] = false := by decide

/-- with anti-affinity keys the selection can come short, and the reconcile report an error, although a
valid node is still free: the class of `n2` is full (`⌈2/2⌉ = 1`), and the only node of the other class is
unfit (its class counter is incremented all the same). -/
theorem C15_short_despite_valid_with_keys :
    selectNodes exT15 (exCanary15 ⟨"int", 2⟩ none ["zone"]) 4 [] []
      [exNode15 "n1" [⟨"zone", "a"⟩], exNode15 "n2" [⟨"zone", "a"⟩], exNode15 "n3" [⟨"zone", "b"⟩] [exTaint15]]
      = .ok (["n1"], true) ∧
    validNode exT15 (exCanary15 ⟨"int", 2⟩ none ["zone"])
      [exNode15 "n1" [⟨"zone", "a"⟩], exNode15 "n2" [⟨"zone", "a"⟩], exNode15 "n3" [⟨"zone", "b"⟩] [exTaint15]]
      "n2" = true := by decide

end Eds
