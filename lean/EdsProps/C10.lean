import EdsModel
import EdsSpec.C10
import EdsProofs.PodBuild
/-
  C10 — Created pods are pinned, labelled and stable under the controller's comparison.

  Subject: `CreatePodFromDaemonSetReplicaSet` / `ReplaceNodeNameNodeAffinity` (EdsModel/PodBuild.lean)
  and `compareCurrentPodWithNewPod` (EdsModel/PodUtil.lean); specification predicates EdsSpec/C10.lean;
  helper lemmas EdsProofs/PodBuild.lean.

  Quantification: every replica set (any template: labels, annotations, affinity terms, tolerations,
  containers), every node (any name, override list, hash), every optional setting, both affinity modes.

  Summary (all at full strength, no `_partial`):
  * `C10_roundtrip` — needs four hypotheses (`hT` distinct template container names, `hS` distinct
    setting container names, `hK` distinct resource keys, `hA` no stale `…/nodehash` template
    annotation when the node hash is empty); each is shown necessary by a `decide`d counterexample
    that satisfies the other three.  `hS` and `hA` are genuine findings about the controller (create
    applies the LAST duplicate, compare reads the FIRST; a template annotation under the node-hash
    key is copied but only overwritten when the node hash is non-empty), `hT` is excluded by
    Kubernetes validation, `hK` is an artefact of association lists.
  * `C10_pinned_affinity`, `C10_pinned_affinity_readback`, `C10_nodeOf_affinity`, `C10_pinned_unique`,
    `C10_affinity_keeps_terms`, `C10_affinity_none`, `C10_pinned_spec_nodeName` — affinity mode needs
    `affRequired ≠ some []` (counterexample given).
  * `C10_meta`, `C10_meta_exact`, `createPod_label_setting`.
  * `C10_resources` (distinct template names needed only with a setting; counterexample),
    `C10_container_names` (unconditional).
  * `C10_setting_compare_iff`, `C10_detects_setting_value`, `C10_override_exempts_setting`,
    `C10_detects_template`, `C10_detects_annotation`.
  * `C10_override_foreign_ignored` (frame), `C10_override_unknown_container`.
-/
namespace Eds
open Spec.C10

/-- **Pinned by node name** (node-name mode). -/
theorem C10_pinned_nodeName (rs : ERS) (n : Node) (s : Option Setting) :
    (createPod rs (some n) s false).pod.nodeName = n.name := by
  simp [createPod]

/-- **Template change is detected**: a pod stamped with another template hash is outdated. -/
theorem C10_detects_template (tg : String) (p : Pod) (ni : NodeItem)
    (h : SMap.get? p.annotations K.templateHashAnnot ≠ some tg) : comparePod tg p ni = false := by
  simp [comparePod, compareSpecTemplateHash, h]

/-- the node-hash comparison is equality of the stamped hash (absent = "") with the node's hash. -/
theorem C10_node_hash_compare (p : Pod) (ni : NodeItem) :
    compareNodeHash p ni = ((SMap.get? p.annotations K.nodeHashAnnot).getD "" == ni.node.resHash) := by
  unfold compareNodeHash
  cases hg : SMap.get? p.annotations K.nodeHashAnnot with
  | none => simp only [Option.getD_none]; exact Bool.beq_comm
  | some v => simp

/-- **Override annotation change is detected**: a pod whose stamped node hash differs from the hash
of the node's current override annotations is outdated. -/
theorem C10_detects_annotation (tg : String) (p : Pod) (ni : NodeItem)
    (h : (SMap.get? p.annotations K.nodeHashAnnot).getD "" ≠ ni.node.resHash) :
    comparePod tg p ni = false := by
  unfold comparePod
  rw [C10_node_hash_compare]
  simp [h]

/-! ### Projections of the created pod -/

theorem createPod_annotations (rs : ERS) (n : Node) (s : Option Setting) (aff : Bool) :
    (createPod rs (some n) s aff).pod.annotations =
      if n.resHash != "" then
        SMap.set (SMap.set (SMap.set rs.template.annotations K.templateHashAnnot rs.templateGeneration)
          K.autoscalerAnnot "true") K.nodeHashAnnot n.resHash
      else SMap.set (SMap.set rs.template.annotations K.templateHashAnnot rs.templateGeneration)
          K.autoscalerAnnot "true" := rfl

theorem createPod_containers (rs : ERS) (n : Node) (s : Option Setting) (aff : Bool) :
    (createPod rs (some n) s aff).pod.containers =
      applyOverrides (match s with
                      | some s => applySettingContainers rs.template.containers s.containers
                      | none => rs.template.containers) n.overrides := rfl

theorem createPod_affRequired_true (rs : ERS) (n : Node) (s : Option Setting) :
    (createPod rs (some n) s true).pod.affRequired = some (pinAffinity rs.template.affRequired n.name) := rfl

theorem createPod_template_hash (rs : ERS) (n : Node) (s : Option Setting) (aff : Bool) :
    SMap.get? (createPod rs (some n) s aff).pod.annotations K.templateHashAnnot =
      some rs.templateGeneration := by
  rw [createPod_annotations]
  split
  · rw [SMap.get?_set_other _ _ _ _ K.hash_ne_nodeHash, SMap.get?_set_other _ _ _ _ K.hash_ne_autoscaler,
      SMap.get?_set_self]
  · rw [SMap.get?_set_other _ _ _ _ K.hash_ne_autoscaler, SMap.get?_set_self]

/-- the stamped node hash: the node's hash when it has override annotations, otherwise whatever the
template's own annotations say under that key (normally nothing). -/
theorem createPod_node_hash (rs : ERS) (n : Node) (s : Option Setting) (aff : Bool) :
    SMap.get? (createPod rs (some n) s aff).pod.annotations K.nodeHashAnnot =
      if n.resHash = "" then SMap.get? rs.template.annotations K.nodeHashAnnot else some n.resHash := by
  rw [createPod_annotations]
  by_cases h : n.resHash = ""
  · simp only [h, bne_self_eq_false, Bool.false_eq_true, if_false, if_true]
    rw [SMap.get?_set_other _ _ _ _ K.nodeHash_ne_autoscaler, SMap.get?_set_other _ _ _ _ K.nodeHash_ne_hash]
  · have hb : (n.resHash != "") = true := by simp [h]
    simp only [hb, if_true, h, if_false]
    rw [SMap.get?_set_self]

/-! ### 1. Round trip -/

/-- **Round trip: a pod just created is recognised as up to date for the same inputs**, so it is
never replaced spuriously.  Holds for every replica set, node, setting and affinity mode under four
well-formedness hypotheses, each of which is necessary (counterexamples below):

* `hT` the template's container names are distinct (Kubernetes validation guarantees it);
* `hS` the setting's container names are distinct — creation applies the LAST setting container of a
  name (`overwriteResourcesFromEdsNode` loops over all of them) while the comparison reads the FIRST
  (`compareWithExtendedDaemonsetSettingOverwrite` breaks at the first match); nothing in the
  ExtendedDaemonsetSetting CRD or its validation forbids a repeated name;
* `hK` the keys of every resource list of the setting are distinct (true of a Go map; a modelling
  side condition on the association lists);
* `hA` when the node has no override annotation (`resHash = ""`) the template's own annotations do
  not carry a non-empty `…/nodehash` value — creation only overwrites that key when the node hash is
  non-empty, the comparison reads whatever is there.

`hT`, `hS`, `hK` are only used when a setting is given. -/
theorem C10_roundtrip (rs : ERS) (n : Node) (setting : Option Setting) (aff : Bool)
    (hT : ∀ s, setting = some s → (rs.template.containers.map (·.name)).Nodup)
    (hS : ∀ s, setting = some s → (s.containers.map (·.name)).Nodup)
    (hK : ∀ s, setting = some s → ∀ x ∈ s.containers,
            (x.res.limits.map (·.k)).Nodup ∧ (x.res.requests.map (·.k)).Nodup)
    (hA : n.resHash = "" → (SMap.get? rs.template.annotations K.nodeHashAnnot).getD "" = "") :
    comparePod rs.templateGeneration (createPod rs (some n) setting aff).pod
      { node := n, setting := setting } = true := by
  unfold comparePod
  rw [Bool.and_eq_true, Bool.and_eq_true]
  refine ⟨⟨?_, ?_⟩, ?_⟩
  · unfold compareSpecTemplateHash
    rw [createPod_template_hash]; simp
  · unfold compareSettingOverwrite
    cases setting with
    | none => rfl
    | some s =>
      simp only [createPod_containers]
      exact settingCheck_created _ s n.overrides (hT s rfl) (hS s rfl) (hK s rfl)
  · rw [C10_node_hash_compare, createPod_node_hash]
    by_cases h : n.resHash = ""
    · simp only [h, if_true, hA h]; rfl
    · simp [h]

/-! Concrete inputs for the counterexamples. -/
namespace C10ex

def mkC (nm : String) (lim : SMap) : Container := { name := nm, res := { limits := lim, requests := [] } }

def mkRS (ann : SMap) (aff : Option (List Term)) (cs : List Container) : ERS :=
  { name := "rs", ns := "ns", uid := "u", labels := [{ k := K.edsNameLabel, v := "eds" }], annotations := [],
    creation := 0, deleted := false, ownerEds := some "eds", selector := none, templateGeneration := "h1",
    template := { labels := [{ k := "app", v := "agent" }], annotations := ann, nodeSelector := [], affOther := "",
                  affRequired := aff, tolerations := [], containers := cs },
    status := { status := "", desired := 0, current := 0, ready := 0, available := 0, ignored := 0, conds := [] } }

def mkNode (hash : String) (ovs : List Override) : Node :=
  { name := "node-a", labels := [], annotations := [], taints := [], resHash := hash, overrides := ovs }

def mkSetting (cs : List Container) : Setting :=
  { name := "st", ns := "ns", creation := 0, reference := some "eds",
    nodeSelector := { matchLabels := [], exprs := [] }, containers := cs, status := "active", error := "" }

end C10ex
open C10ex

/-- the three list-shape hypotheses of `C10_roundtrip`, as a decidable check on concrete inputs
(used to show that each counterexample violates exactly one hypothesis). -/
def C10ex.shapeOk (rs : ERS) (s : Setting) : Bool × Bool × Bool :=
  (decide (rs.template.containers.map (·.name)).Nodup,
   decide (s.containers.map (·.name)).Nodup,
   s.containers.all (fun x => decide (x.res.limits.map (·.k)).Nodup && decide (x.res.requests.map (·.k)).Nodup))

/-- `hS` is needed: a setting naming container `agent` twice with different limits.  Creation leaves
the second value (cpu = 200) on the pod, the comparison re-applies the first (cpu = 100) and declares
the fresh pod outdated — it would be deleted and recreated on every reconcile.  (`hT`, `hK`, `hA`
hold.) -/
example :
    let rs := mkRS [] none [mkC "agent" []]
    let st := mkSetting [mkC "agent" [⟨"cpu", "100"⟩], mkC "agent" [⟨"cpu", "200"⟩]]
    comparePod "h1" (createPod rs (some (mkNode "" [])) (some st) false).pod
      { node := mkNode "" [], setting := some st } = false ∧
    shapeOk rs st = (true, false, true) ∧
    SMap.get? rs.template.annotations K.nodeHashAnnot = none := by
  decide

/-- `hT` is needed: two template containers called `agent`; only the first receives the setting's
resources, the comparison expects them on both.  (`hS`, `hK`, `hA` hold.) -/
example :
    let rs := mkRS [] none [mkC "agent" [], mkC "agent" []]
    let st := mkSetting [mkC "agent" [⟨"cpu", "100"⟩]]
    comparePod "h1" (createPod rs (some (mkNode "" [])) (some st) false).pod
      { node := mkNode "" [], setting := some st } = false ∧
    shapeOk rs st = (false, true, true) ∧
    SMap.get? rs.template.annotations K.nodeHashAnnot = none := by
  decide

/-- `hK` is needed (association-list artefact, impossible for a Go map): a resource list holding
the key `cpu` twice.  (`hT`, `hS`, `hA` hold.) -/
example :
    let rs := mkRS [] none [mkC "agent" []]
    let st := mkSetting [mkC "agent" [⟨"cpu", "100"⟩, ⟨"cpu", "200"⟩]]
    comparePod "h1" (createPod rs (some (mkNode "" [])) (some st) false).pod
      { node := mkNode "" [], setting := some st } = false ∧
    shapeOk rs st = (true, true, false) ∧
    SMap.get? rs.template.annotations K.nodeHashAnnot = none := by
  decide

/-- `hA` is needed: the template itself carries a `…/nodehash` annotation and the node has no
override annotation; the stale value is copied onto the pod and never matches the node's (empty)
hash, with or without a setting (`hT`, `hS`, `hK` are vacuous here).  With a non-empty node hash the
stale value is overwritten and the round trip holds again. -/
example :
    let rs := mkRS [⟨K.nodeHashAnnot, "stale"⟩] none [mkC "agent" []]
    comparePod "h1" (createPod rs (some (mkNode "" [])) none false).pod
      { node := mkNode "" [], setting := none } = false ∧
    comparePod "h1" (createPod rs (some (mkNode "x" [])) none false).pod
      { node := mkNode "x" [], setting := none } = true := by
  decide

/-! ### 2. Node binding -/

/-- **Pinned by node name** (node-name mode), in the specification's terms. -/
theorem C10_pinned_spec_nodeName (rs : ERS) (n : Node) (s : Option Setting) :
    pinned (createPod rs (some n) s false).pod n.name false = true := by
  simp [pinned, createPod]

/-- node-name mode leaves the template's affinity alone. -/
theorem C10_nodeName_keeps_affinity (rs : ERS) (n : Node) (s : Option Setting) :
    (createPod rs (some n) s false).pod.affRequired = rs.template.affRequired ∧
    (createPod rs (some n) s false).pod.affOther = rs.template.affOther := ⟨rfl, rfl⟩

/-- **Pinned by affinity** (affinity mode): no node name, at least one required term, every term
carries the node-name requirement and no other `metadata.name` match field.  The hypothesis excludes
the degenerate template whose required node affinity has an empty term list (see below). -/
theorem C10_pinned_affinity (rs : ERS) (n : Node) (s : Option Setting)
    (h : rs.template.affRequired ≠ some []) :
    pinned (createPod rs (some n) s true).pod n.name true = true := by
  unfold pinned
  simp only [if_true, createPod_affRequired_true, Bool.and_eq_true]
  refine ⟨by simp [createPod], ?_, pinAffinity_all_pinned _ _⟩
  have := pinAffinity_ne_nil rs.template.affRequired n.name h
  cases hp : pinAffinity rs.template.affRequired n.name with
  | nil => exact absurd hp this
  | cons _ _ => rfl

/-- with `requiredDuringScheduling… = {nodeSelectorTerms: []}` there is no term to rewrite: the
created pod carries neither a node name nor a node-name requirement (such a pod matches no node, so
nothing is scheduled, but the controller believes it created the pod for `node-a`). -/
example : pinned (createPod (mkRS [] (some []) [mkC "agent" []]) (some (mkNode "" [])) none true).pod "node-a" true
    = false := by decide

/-- **Read-back**: the controller's own `GetNodeNameFromAffinity` recovers the node the pod was
created for. -/
theorem C10_pinned_affinity_readback (rs : ERS) (n : Node) (s : Option Setting)
    (h : rs.template.affRequired ≠ some []) :
    nodeNameFromAffinity (createPod rs (some n) s true).pod.affRequired = n.name :=
  nodeNameFromAffinity_of_pinned (C10_pinned_affinity rs n s h)

/-- … hence `GetNodeNameFromPod` returns that node (for a node with a non-empty name). -/
theorem C10_nodeOf_affinity (rs : ERS) (n : Node) (s : Option Setting)
    (h : rs.template.affRequired ≠ some []) (hn : n.name ≠ "") :
    (createPod rs (some n) s true).pod.nodeOf = some n.name := by
  have hr := C10_pinned_affinity_readback rs n s h
  unfold Pod.nodeOf
  have h0 : (createPod rs (some n) s true).pod.nodeName = "" := rfl
  simp [h0, hr, hn]

theorem C10_nodeOf_nodeName (rs : ERS) (n : Node) (s : Option Setting) (hn : n.name ≠ "") :
    (createPod rs (some n) s false).pod.nodeOf = some n.name := by
  unfold Pod.nodeOf
  rw [C10_pinned_nodeName]
  simp [hn]

/-- **Exactly one node**: a pod cannot be pinned (in affinity mode) to two different nodes. -/
theorem C10_pinned_unique (p : Pod) (a b : String)
    (ha : pinned p a true = true) (hb : pinned p b true = true) : a = b := by
  rw [← nodeNameFromAffinity_of_pinned ha, ← nodeNameFromAffinity_of_pinned hb]

/-- **The rest of the affinity is kept**: same number of terms, in the same order, each with its
match expressions and its match fields other than `metadata.name` unchanged; everything outside the
required node affinity (`affOther`) is untouched. -/
theorem C10_affinity_keeps_terms (rs : ERS) (n : Node) (s : Option Setting) (terms : List Term)
    (h : rs.template.affRequired = some terms) :
    ∃ terms', (createPod rs (some n) s true).pod.affRequired = some terms' ∧
      terms'.map (·.exprs) = terms.map (·.exprs) ∧
      terms'.map (fun t => t.fields.filter (fun f => f.key != "metadata.name")) =
        terms.map (fun t => t.fields.filter (fun f => f.key != "metadata.name")) ∧
      (createPod rs (some n) s true).pod.affOther = rs.template.affOther := by
  refine ⟨terms.map (pinTerm n.name), ?_, ?_, ?_, rfl⟩
  · rw [createPod_affRequired_true, h]; rfl
  · rw [List.map_map]; exact List.map_congr_left (fun t _ => pinTerm_exprs n.name t)
  · rw [List.map_map]; exact List.map_congr_left (fun t _ => pinTerm_other_fields n.name t)

/-- without a required node affinity in the template the pod gets a single term holding only the
node-name requirement. -/
theorem C10_affinity_none (rs : ERS) (n : Node) (s : Option Setting)
    (h : rs.template.affRequired = none) :
    (createPod rs (some n) s true).pod.affRequired = some [{ exprs := [], fields := [nameReq n.name] }] := by
  rw [createPod_affRequired_true, h]; rfl

/-! ### 3. Metadata -/

theorem createPod_label_ers (rs : ERS) (n : Option Node) (s : Option Setting) (aff : Bool) :
    SMap.get? (createPod rs n s aff).pod.labels K.ersNameLabel = some rs.name := by
  cases s with
  | none =>
    show SMap.get? (SMap.set (SMap.set _ _ _) _ _) _ = _
    rw [SMap.get?_set_other _ _ _ _ K.ers_ne_eds, SMap.get?_set_self]
  | some s =>
    show SMap.get? (SMap.set (SMap.set (SMap.set (SMap.set _ _ _) _ _) _ _) _ _) _ = _
    rw [SMap.get?_set_other _ _ _ _ K.ers_ne_settingNs, SMap.get?_set_other _ _ _ _ K.ers_ne_settingName,
      SMap.get?_set_other _ _ _ _ K.ers_ne_eds, SMap.get?_set_self]

theorem createPod_label_eds (rs : ERS) (n : Option Node) (s : Option Setting) (aff : Bool) :
    SMap.get? (createPod rs n s aff).pod.labels K.edsNameLabel = some (SMap.getD rs.labels K.edsNameLabel) := by
  cases s with
  | none =>
    show SMap.get? (SMap.set (SMap.set _ _ _) _ _) _ = _
    rw [SMap.get?_set_self]
  | some s =>
    show SMap.get? (SMap.set (SMap.set (SMap.set (SMap.set _ _ _) _ _) _ _) _ _) _ = _
    rw [SMap.get?_set_other _ _ _ _ K.eds_ne_settingNs, SMap.get?_set_other _ _ _ _ K.eds_ne_settingName,
      SMap.get?_set_self]

/-- when a setting is applied the pod also names it (label pair read by the setting controller). -/
theorem createPod_label_setting (rs : ERS) (n : Option Node) (s : Setting) (aff : Bool) :
    SMap.get? (createPod rs n (some s) aff).pod.labels K.settingNameLabel = some s.name ∧
    SMap.get? (createPod rs n (some s) aff).pod.labels K.settingNsLabel = some s.ns := by
  constructor
  · show SMap.get? (SMap.set (SMap.set _ _ _) _ _) _ = _
    rw [SMap.get?_set_other _ _ _ _ (by decide), SMap.get?_set_self]
  · show SMap.get? (SMap.set (SMap.set _ _ _) _ _) _ = _
    rw [SMap.get?_set_self]

/-- **Metadata**: owned by the replica set, both name labels, that replica set's template hash,
the default DaemonSet tolerations, the replica set's namespace. -/
theorem C10_meta (rs : ERS) (n : Node) (s : Option Setting) (aff : Bool) :
    metaOk (createPod rs (some n) s aff).pod rs = true := by
  unfold metaOk
  rw [createPod_label_ers, createPod_label_eds, createPod_template_hash]
  simp only [beq_self_eq_true, Bool.and_true, Bool.and_eq_true]
  refine ⟨⟨?_, ?_⟩, ?_⟩
  · simp [createPod]
  · rw [List.all_eq_true]
    intro t ht
    rw [List.contains_iff_mem]
    exact List.mem_append_right _ ht
  · simp [createPod]

/-- the pod's tolerations are exactly the template's followed by the default ones (so the
template's are a prefix), and the only owner is the replica set. -/
theorem C10_meta_exact (rs : ERS) (n : Node) (s : Option Setting) (aff : Bool) :
    (createPod rs (some n) s aff).pod.tolerations = rs.template.tolerations ++ standardTolerations ∧
    rs.template.tolerations <+: (createPod rs (some n) s aff).pod.tolerations ∧
    (createPod rs (some n) s aff).pod.owners = [{ kind := "ExtendedDaemonSetReplicaSet", name := rs.name }] ∧
    (createPod rs (some n) s aff).pod.name = rs.name ++ "-" :=
  ⟨rfl, List.prefix_append _ _, rfl, rfl⟩

/-! ### 4. Resources -/

/-- **Resources**: container names are the template's, and each container's resources are the
well-formed node-annotation override, else those of the (last) setting container of that name, else
the template's; a malformed annotation falls through.  Needs distinct template container names only
when a setting is given. -/
theorem C10_resources (rs : ERS) (n : Node) (s : Option Setting) (aff : Bool)
    (hT : s.isSome → (rs.template.containers.map (·.name)).Nodup) :
    resources (createPod rs (some n) s aff).pod rs.template n s = true := by
  have hcs : (createPod rs (some n) s aff).pod.containers =
      rs.template.containers.map (fun c => resolveOverride n.overrides
        (match s with
         | some s => resolveSetting s.containers c
         | none => c)) := by
    rw [createPod_containers, applyOverrides_eq_map]
    cases s with
    | none => simp
    | some s => simp only [applySettingContainers_eq_map _ _ (hT rfl), List.map_map]; rfl
  unfold resources
  rw [hcs, Bool.and_eq_true]
  constructor
  · rw [List.map_map, beq_iff_eq]
    exact List.map_congr_left (fun c _ => by
      simp only [Function.comp, resolveOverride_name]
      cases s <;> simp [resolveSetting_name])
  · rw [all_zip_map_self, List.all_eq_true]
    intro c _
    exact beq_iff_eq.2 (resolved_res_eq_expected c n s)

/-- names never change, whatever the inputs. -/
theorem C10_container_names (rs : ERS) (n : Node) (s : Option Setting) (aff : Bool) :
    (createPod rs (some n) s aff).pod.containers.map (·.name) = rs.template.containers.map (·.name) := by
  rw [createPod_containers, applyOverrides_eq_map, List.map_map]
  have : ((fun c : Container => c.name) ∘ resolveOverride n.overrides) = (fun c => c.name) := by
    funext c; exact resolveOverride_name _ _
  rw [this]
  cases s with
  | none => rfl
  | some s => exact applySettingContainers_names _ _

/-- `hT` is needed for `C10_resources`: with two template containers of the same name only the first
receives the setting's resources. -/
example :
    resources (createPod (mkRS [] none [mkC "agent" [], mkC "agent" []]) (some (mkNode "" []))
        (some (mkSetting [mkC "agent" [⟨"cpu", "100"⟩]])) false).pod
      (mkRS [] none [mkC "agent" [], mkC "agent" []]).template (mkNode "" [])
      (some (mkSetting [mkC "agent" [⟨"cpu", "100"⟩]])) = false := by decide

/-! ### 5. Detection of a setting value that differs -/

/-- the setting part of the comparison, spelled out. -/
theorem C10_setting_compare_iff (p : Pod) (n : Node) (s : Setting) :
    compareSettingOverwrite p { node := n, setting := some s } = true ↔
      ∀ c ∈ p.containers,
        (∃ o ∈ n.overrides, o.container = c.name ∧ o.ok = true) ∨
        ∀ x, s.containers.find? (fun c2 => c2.name == c.name) = some x →
          (∀ e ∈ x.res.limits, SMap.get? c.res.limits e.k = some e.v) ∧
          (∀ e ∈ x.res.requests, SMap.get? c.res.requests e.k = some e.v) := by
  unfold compareSettingOverwrite
  simp only [List.all_eq_true]
  constructor
  · intro h c hc
    have hc' := h c hc
    by_cases hany : (n.overrides.any fun o => o.container == c.name && o.ok) = true
    · left
      obtain ⟨o, ho, hp⟩ := List.any_eq_true.1 hany
      exact ⟨o, ho, by simpa using hp⟩
    · right
      intro x hx
      have hany' := Bool.eq_false_iff.2 hany
      simp only [hany', hx, overlayIsNoop, Bool.false_eq_true, if_false, Bool.and_eq_true,
        List.all_eq_true, beq_iff_eq] at hc'
      exact hc'
  · intro h c hc
    rcases h c hc with ⟨o, ho, hoc, hok⟩ | hr
    · have : (n.overrides.any fun o => o.container == c.name && o.ok) = true :=
        List.any_eq_true.2 ⟨o, ho, by simp [hoc, hok]⟩
      simp only [this, if_true]
    · split
      · rfl
      · cases hf : s.containers.find? (fun c2 => c2.name == c.name) with
        | none => rfl
        | some x =>
          simp only [overlayIsNoop, Bool.and_eq_true, List.all_eq_true, beq_iff_eq]
          exact hr x hf

/-- **A differing setting value is detected**: if the node's setting demands (in its first container
named like pod container `c`) a limit or request that `c` does not carry with that value, and `c` is
not governed by a well-formed override annotation, the pod is outdated. -/
theorem C10_detects_setting_value (tg : String) (p : Pod) (n : Node) (s2 : Setting)
    (c x : Container) (e : KV) (hc : c ∈ p.containers)
    (hov : ¬ ∃ o ∈ n.overrides, o.container = c.name ∧ o.ok = true)
    (hx : s2.containers.find? (fun c2 => c2.name == c.name) = some x)
    (he : (e ∈ x.res.limits ∧ SMap.get? c.res.limits e.k ≠ some e.v) ∨
          (e ∈ x.res.requests ∧ SMap.get? c.res.requests e.k ≠ some e.v)) :
    comparePod tg p { node := n, setting := some s2 } = false := by
  have : compareSettingOverwrite p { node := n, setting := some s2 } ≠ true := by
    intro h
    rw [C10_setting_compare_iff] at h
    rcases h c hc with ho | hr
    · exact hov ho
    · obtain ⟨hl, hq⟩ := hr x hx
      rcases he with ⟨hm, hne⟩ | ⟨hm, hne⟩
      · exact hne (hl e hm)
      · exact hne (hq e hm)
  unfold comparePod
  simp [this]

/-- conversely a container governed by a well-formed override is exempt (F4 repair): the setting's
values are not expected on it. -/
theorem C10_override_exempts_setting (p : Pod) (n : Node) (s : Setting)
    (h : ∀ c ∈ p.containers, ∃ o ∈ n.overrides, o.container = c.name ∧ o.ok = true) :
    compareSettingOverwrite p { node := n, setting := some s } = true := by
  rw [C10_setting_compare_iff]
  exact fun c hc => Or.inl (h c hc)

/-! ### 6. What creation reads of the node -/

/-- **Frame**: of the node, creation reads only the name, the override hash and the (already
EDS-restricted) override list — labels, taints and every other annotation (overrides addressed to
another ExtendedDaemonSet included) are ignored. -/
theorem C10_override_foreign_ignored (rs : ERS) (n n' : Node) (s : Option Setting) (aff : Bool)
    (h1 : n'.name = n.name) (h2 : n'.resHash = n.resHash) (h3 : n'.overrides = n.overrides) :
    createPod rs (some n') s aff = createPod rs (some n) s aff := by
  simp only [createPod, h1, h2, h3]

/-- an override for a container name the template does not have changes nothing. -/
theorem C10_override_unknown_container (cs : List Container) (ovs : List Override) (o : Override)
    (h : ∀ c ∈ cs, c.name ≠ o.container) :
    applyOverrides cs (ovs ++ [o]) = applyOverrides cs ovs := by
  unfold applyOverrides
  apply List.map_congr_left
  intro c hc
  have : (o.container == c.name) = false := by simpa using Ne.symm (h c hc)
  rw [List.find?_append]
  cases ovs.find? (fun o => o.container == c.name) with
  | some _ => rfl
  | none => simp [this]

/-! ### Worked example -/

namespace C10ex
/-- template: `agent` (cpu 100) and `trace` (cpu 50); node `node-a` carries a well-formed override for
`agent` (cpu 900) and a malformed one for `trace`; the setting gives `agent` cpu 300 and `trace`
cpu 70 / memory 64. -/
def exRS : ERS := mkRS [⟨"team", "obs"⟩] none [mkC "agent" [⟨"cpu", "100"⟩], mkC "trace" [⟨"cpu", "50"⟩]]
def exNode : Node :=
  mkNode "hash-1" [{ container := "agent", ok := true, res := { limits := [⟨"cpu", "900"⟩], requests := [] } },
                   { container := "trace", ok := false, res := { limits := [], requests := [] } }]
def exSetting : Setting := mkSetting [mkC "agent" [⟨"cpu", "300"⟩], mkC "trace" [⟨"cpu", "70"⟩, ⟨"memory", "64"⟩]]
/-- same setting with another cpu value for `trace` -/
def exSettingTrace80 : Setting := mkSetting [mkC "agent" [⟨"cpu", "300"⟩], mkC "trace" [⟨"cpu", "80"⟩]]
/-- same setting with another cpu value for `agent` only -/
def exSettingAgent301 : Setting := mkSetting [mkC "agent" [⟨"cpu", "301"⟩], mkC "trace" [⟨"cpu", "70"⟩]]
def exNodeHash2 : Node := { exNode with resHash := "hash-2" }
end C10ex

/-- resolved resources: override for `agent`, setting for `trace` (malformed override skipped). -/
example : (createPod exRS (some exNode) (some exSetting) true).pod.containers =
    [mkC "agent" [⟨"cpu", "900"⟩], mkC "trace" [⟨"cpu", "70"⟩, ⟨"memory", "64"⟩]] := by decide

/-- round trip, specification predicates and read-back on the concrete pod; changing the setting's
`trace` cpu value, the node hash or the template hash makes it outdated. -/
example :
    let p := (createPod exRS (some exNode) (some exSetting) true).pod
    comparePod "h1" p { node := exNode, setting := some exSetting } = true ∧
    resources p exRS.template exNode (some exSetting) = true ∧
    metaOk p exRS = true ∧ pinned p "node-a" true = true ∧ p.nodeOf = some "node-a" ∧
    comparePod "h1" p { node := exNode, setting := some exSettingTrace80 } = false ∧
    comparePod "h1" p { node := exNodeHash2, setting := some exSetting } = false ∧
    comparePod "h2" p { node := exNode, setting := some exSetting } = false ∧
    -- the setting's `agent` value is not expected on the pod: the override governs that container
    comparePod "h1" p { node := exNode, setting := some exSettingAgent301 } = true := by
  decide

end Eds
