import EdsModel
import EdsSpec.C10
/-
  C10 — Created pods are pinned, labelled and stable under the controller's comparison.
-/
namespace Eds
open Spec.C10

/-- **Pinned by node name** (node-name mode). -/
theorem C10_pinned_nodeName (rs : ERS) (n : Node) (s : Option Setting) :
    (createPod rs (some n) s false).pod.nodeName = n.name := by
  simp [createPod]

/-- **Template change is detected**: a pod stamped with another template hash is outdated. -/
theorem C10_detects_template (tg : String) (p : Pod) (ni : NodeItem)
    (h : SMap.get? p.annotations K.templateHashAnnot ≠ some tg) : comparePod tg p ni = false := by
  simp [comparePod, compareSpecTemplateHash, h]

/-- the node-hash comparison is equality of the stamped hash (absent = "") with the node's hash. -/
theorem C10_node_hash_compare (p : Pod) (ni : NodeItem) :
    compareNodeHash p ni = ((SMap.get? p.annotations K.nodeHashAnnot).getD "" == ni.node.resHash) := by
  unfold compareNodeHash
  cases hg : SMap.get? p.annotations K.nodeHashAnnot with
  | none => simp only [Option.getD_none]; exact Bool.beq_comm
  | some v => simp

/-- **Override annotation change is detected**: a pod whose stamped node hash differs from the hash
of the node's current override annotations is outdated. -/
theorem C10_detects_annotation (tg : String) (p : Pod) (ni : NodeItem)
    (h : (SMap.get? p.annotations K.nodeHashAnnot).getD "" ≠ ni.node.resHash) :
    comparePod tg p ni = false := by
  unfold comparePod
  rw [C10_node_hash_compare]
  simp [h]

end Eds
