import EdsModel
import EdsProofs.ReconcileEds
import EdsProofs.FactsBridge
/-
  C07 — A failed canary is rolled back to the active version.

  Setting: `u` is the up-to-date replica set (its hash annotation equals the hash of spec.template)
  and carries a true `Canary-Failed` condition; `a` is the replica set `status.activeReplicaSet`
  names; a canary strategy is set; the canary-valid annotation does not name `u`.

  * `C07_active_unchanged`          the failed canary is not promoted (neither by time nor otherwise);
  * `C07_rollback_status`           the status: no canary block, state `Canary Failed`, active = `a`,
                                    spec.template to be restored from `a`, no node selection error;
  * `C07_rollback_writes`           the writes `edsMain` plans: status update, then the spec update
                                    restoring `a`'s template;
  * `C07_recoverable`               the spec restore is planned again from ANY status that still names
                                    `a` as active — in particular from the status the first write
                                    leaves behind (`C07_recoverable_after_status_write`);
  * `C07_after_rollback_converged`  once spec.template is `a`'s again the canary is over;
  * `C07_retention`                 what `cleanupReplicaSet` may delete — a failed replica set is kept
                                    for two minutes after it failed (`C07_retention_is_two_minutes`
                                    ties the constant to the Go source).
-/
namespace Eds
open Generated

/-- the recorded active replica set is found by name when names are distinct (they are: the list comes
from one namespace of the API server). -/
theorem C07_active_lookup (d : EDS) (list : List ERS) (a : ERS)
    (hnd : (list.map (·.name)).Nodup) (ha : a ∈ list) (hname : a.name = d.status.activeReplicaSet) :
    lastWhere (fun e => e.name == d.status.activeReplicaSet) list = some a :=
  lastWhere_name_of_nodup hnd ha _ hname

/-- **1. A failed canary is never promoted.** The selected ("current") replica set stays the recorded
active one: the time-based promotion is disabled by the failure, and no valid annotation names `u`. -/
theorem C07_active_unchanged (d : EDS) (list : List ERS) (u a : ERS) (c : Canary) (now : Time)
    (hc : d.strategy.canary = some c)
    (hact : lastWhere (fun e => e.name == d.status.activeReplicaSet) list = some a)
    (hf : isCanaryFailed (some u) = true)
    (hv : isCanaryValid d.annotations u.name = false) :
    (currentOf d list u now).1 = a := by
  unfold currentOf
  simp [hact, hc, selectCurrent, hf, hv]

/-- the same from distinct names. -/
theorem C07_active_unchanged_nodup (d : EDS) (list : List ERS) (u a : ERS) (c : Canary) (now : Time)
    (hc : d.strategy.canary = some c)
    (hnd : (list.map (·.name)).Nodup) (ha : a ∈ list) (hname : a.name = d.status.activeReplicaSet)
    (hf : isCanaryFailed (some u) = true)
    (hv : isCanaryValid d.annotations u.name = false) :
    (currentOf d list u now).1 = a :=
  C07_active_unchanged d list u a c now hc (C07_active_lookup d list a hnd ha hname) hf hv

/-- **2. The rollback status.** With `a` selected and `u` failed: the canary block is cleared, the
state is `Canary Failed`, `a` is (still) the active replica set, spec.template is to be restored from
`a`, the `Canary-Failed` condition of the daemonset is true, and no node selection is attempted
(so no selection error can block the rollback).  Holds whether or not `a.name = u.name`. -/
theorem C07_rollback_status (d : EDS) (a u : ERS) (c : Canary) (cur rdy avail : Int) (now : Time)
    (pods : List Pod) (nodes : List Node)
    (hc : d.strategy.canary = some c) (hf : isCanaryFailed (some u) = true) :
    let upd := updateInstance d a u cur rdy avail now pods nodes
    upd.status.canary = none ∧ upd.status.state = "Canary Failed" ∧ upd.status.reason = "" ∧
    upd.status.activeReplicaSet = a.name ∧
    upd.restoreFrom = some a ∧ upd.selectErr = false ∧
    upd.annotations = (clearCanaryAnnotations d.annotations).1 ∧
    isCondTrue upd.status.conds "Canary-Failed" = true ∧
    isCondTrue upd.status.conds "Canary-Paused" = false := by
  intro upd
  have h : upd = _ := updateInstance_failed d a u cur rdy avail now pods nodes c hc hf
  rw [h]
  refine ⟨rfl, rfl, rfl, rfl, rfl, rfl, rfl, ?_, ?_⟩
  · exact mcsc_failed _ _ true _ _ _
  · have := mcsc_paused d.status.conds now true (isCanaryPaused d.annotations (some u)).1
      (isCanaryPaused d.annotations (some u)).2 u.name
    simpa using this

/-- the counters of the rollback status are those of the active replica set alone (the failed
canary's pods are no longer counted as desired). -/
theorem C07_rollback_counters (d : EDS) (a u : ERS) (c : Canary) (cur rdy avail : Int) (now : Time)
    (pods : List Pod) (nodes : List Node)
    (hc : d.strategy.canary = some c) (hf : isCanaryFailed (some u) = true) :
    let upd := updateInstance d a u cur rdy avail now pods nodes
    upd.status.desired = a.status.desired ∧ upd.status.upToDate = a.status.current ∧
    upd.status.current = cur ∧ upd.status.ready = rdy ∧ upd.status.available = avail := by
  intro upd
  have h : upd = _ := updateInstance_failed d a u cur rdy avail now pods nodes c hc hf
  rw [h]
  exact ⟨rfl, rfl, rfl, rfl, rfl⟩

/-- **3. The rollback writes.** While spec.template is still the failed one
(`a.templateGeneration ≠ d.templateHash`), the reconcile writes the rollback status and then updates
the spec with `a`'s template (and the pause annotations cleared); it does not report an error. -/
theorem C07_rollback_writes (d : EDS) (list : List ERS) (u a : ERS) (c : Canary) (pods : List Pod)
    (nodes : List Node) (now : Time)
    (hc : d.strategy.canary = some c)
    (hact : lastWhere (fun e => e.name == d.status.activeReplicaSet) list = some a)
    (hf : isCanaryFailed (some u) = true)
    (hv : isCanaryValid d.annotations u.name = false)
    (htpl : a.templateGeneration ≠ d.templateHash) :
    let upd := edsUpd d list a u pods nodes now
    let w := edsMain d list u pods nodes now
    w.statusUpdate = some upd.status ∧
    w.specUpdate = some (a.templateGeneration, upd.annotations) ∧
    upd.annotations = (clearCanaryAnnotations d.annotations).1 ∧
    w.err = false ∧ w.created = none := by
  intro upd w
  have hcur : (currentOf d list u now).1 = a := C07_active_unchanged d list u a c now hc hact hf hv
  have hupd : upd = _ := updateInstance_failed d a u _ _ _ now (ownPods d pods) nodes c hc hf
  have hse : upd.selectErr = false := by rw [hupd]
  have hr : upd.restoreFrom = some a := by rw [hupd]
  have hann : upd.annotations = (clearCanaryAnnotations d.annotations).1 := by rw [hupd]
  have hres := edsMain_restore d list u pods nodes now a (by rw [hcur]; exact hse) (by rw [hcur]; exact hr) htpl
  rw [hcur] at hres
  refine ⟨hres.1, hres.2, hann, ?_, edsMain_created d list u pods nodes now⟩
  show (edsMain d list u pods nodes now).err = false
  rw [edsMain_err_iff, hcur]
  exact hse

/-- **4. The rollback is recoverable.** The planned spec restore does not depend on `d.status` beyond
`activeReplicaSet`: for ANY status `st'` that names `a` as active, the reconcile of
`{ d with status := st' }` plans the same spec write (restore `a`'s template, clear the pause
annotations).  So if the status write succeeded and the spec write failed — or the process stopped
between the two — the next reconcile issues the spec write again. -/
theorem C07_recoverable (d : EDS) (list : List ERS) (u a : ERS) (c : Canary) (pods : List Pod)
    (nodes : List Node) (now : Time) (st' : EDSStatus)
    (hc : d.strategy.canary = some c)
    (hact : lastWhere (fun e => e.name == st'.activeReplicaSet) list = some a)
    (hf : isCanaryFailed (some u) = true)
    (hv : isCanaryValid d.annotations u.name = false)
    (htpl : a.templateGeneration ≠ d.templateHash) :
    (edsMain { d with status := st' } list u pods nodes now).specUpdate =
      some (a.templateGeneration, (clearCanaryAnnotations d.annotations).1) ∧
    (edsMain { d with status := st' } list u pods nodes now).err = false := by
  have h := C07_rollback_writes { d with status := st' } list u a c pods nodes now hc hact hf hv htpl
  simp only [] at h
  obtain ⟨_, h2, h3, h4, _⟩ := h
  rw [h3] at h2
  exact ⟨h2, h4⟩

/-- the same with distinct names instead of the lookup hypothesis. -/
theorem C07_recoverable_nodup (d : EDS) (list : List ERS) (u a : ERS) (c : Canary) (pods : List Pod)
    (nodes : List Node) (now : Time) (st' : EDSStatus)
    (hc : d.strategy.canary = some c)
    (hnd : (list.map (·.name)).Nodup) (ha : a ∈ list) (hname : st'.activeReplicaSet = a.name)
    (hf : isCanaryFailed (some u) = true)
    (hv : isCanaryValid d.annotations u.name = false)
    (htpl : a.templateGeneration ≠ d.templateHash) :
    (edsMain { d with status := st' } list u pods nodes now).specUpdate =
      some (a.templateGeneration, (clearCanaryAnnotations d.annotations).1) ∧
    (edsMain { d with status := st' } list u pods nodes now).err = false :=
  C07_recoverable d list u a c pods nodes now st' hc
    (lastWhere_name_of_nodup hnd ha _ hname.symm) hf hv htpl

/-- … in particular from the state the first (status) write leaves behind, at any later time and
whatever the pods and nodes are then: the second reconcile plans the spec write again. -/
theorem C07_recoverable_after_status_write (d : EDS) (list : List ERS) (u a : ERS) (c : Canary)
    (pods pods' : List Pod) (nodes nodes' : List Node) (now now' : Time)
    (hc : d.strategy.canary = some c)
    (hnd : (list.map (·.name)).Nodup) (ha : a ∈ list) (hname : a.name = d.status.activeReplicaSet)
    (hf : isCanaryFailed (some u) = true)
    (hv : isCanaryValid d.annotations u.name = false)
    (htpl : a.templateGeneration ≠ d.templateHash)
    (st : EDSStatus) (hst : (edsMain d list u pods nodes now).statusUpdate = some st) :
    (edsMain { d with status := st } list u pods' nodes' now').specUpdate =
      some (a.templateGeneration, (clearCanaryAnnotations d.annotations).1) ∧
    (edsMain { d with status := st } list u pods' nodes' now').err = false := by
  have hact := C07_active_lookup d list a hnd ha hname
  have hcur : (currentOf d list u now).1 = a := C07_active_unchanged d list u a c now hc hact hf hv
  have h1 := edsMain_statusUpdate d list u pods nodes now st hst
  have h2 : st.activeReplicaSet = a.name := by
    rw [h1]; unfold edsUpd; rw [updateInstance_activeReplicaSet, hcur]
  exact C07_recoverable_nodup d list u a c pods' nodes' now' st hc hnd ha h2 hf hv htpl

/-- the spec write is needed: without the restore the write would not be planned when nothing else
changed — the restore is what forces it (the `changed` flag includes "template differs"). Stated
positively: even if the status and the annotations are already up to date, the spec write happens. -/
theorem C07_spec_write_even_if_status_current (d : EDS) (list : List ERS) (u a : ERS) (c : Canary)
    (pods : List Pod) (nodes : List Node) (now : Time)
    (hc : d.strategy.canary = some c)
    (hact : lastWhere (fun e => e.name == d.status.activeReplicaSet) list = some a)
    (hf : isCanaryFailed (some u) = true)
    (hv : isCanaryValid d.annotations u.name = false)
    (htpl : a.templateGeneration ≠ d.templateHash)
    (_hsame : (edsUpd d list a u pods nodes now).status = d.status) :
    ((edsMain d list u pods nodes now).specUpdate.map (·.1)) = some a.templateGeneration := by
  have h := C07_rollback_writes d list u a c pods nodes now hc hact hf hv htpl
  simp only [] at h
  rw [h.2.1]; rfl

/-- **5. After the rollback.** Once spec.template is the active replica set's again the up-to-date
replica set IS the active one (`u := a`): it is selected, no canary is active, and — `a` itself not
being failed — the canary block is cleared and the state is the ordinary (non-canary) one. -/
theorem C07_after_rollback_converged (d : EDS) (list : List ERS) (a : ERS) (c : Canary)
    (cur rdy avail : Int) (now : Time) (pods : List Pod) (nodes : List Node)
    (hc : d.strategy.canary = some c)
    (hact : lastWhere (fun e => e.name == d.status.activeReplicaSet) list = some a)
    (hnf : isCanaryFailed (some a) = false) :
    (currentOf d list a now).1 = a ∧
    isCanaryActive d.strategy.canary a.name a.name (isCanaryFailed (some a)) = false ∧
    (let upd := updateInstance d a a cur rdy avail now pods nodes
     upd.status.canary = none ∧ upd.status.state = nonCanaryState d.annotations ∧
     upd.status.activeReplicaSet = a.name ∧ upd.restoreFrom = none ∧ upd.selectErr = false ∧
     isCondTrue upd.status.conds "Canary-Failed" = false) := by
  refine ⟨?_, ?_, ?_⟩
  · unfold currentOf
    simp only [hact]
    split
    · next heq => exact (Option.some.inj heq).symm
    · rfl
  · simp [isCanaryActive]
  · intro upd
    have h : upd = _ := updateInstance_idle d a a cur rdy avail now pods nodes c hc hnf rfl
    rw [h]
    refine ⟨rfl, rfl, rfl, rfl, rfl, ?_⟩
    exact mcsc_failed _ _ false _ _ _

/-- `upToDateOf` finds `a` once the spec holds its template again, provided `a` is the only listed
replica set with that hash annotation (C13: at most one replica set per template). -/
theorem C07_after_rollback_uptodate (d : EDS) (list : List ERS) (a : ERS) (ha : a ∈ list)
    (hhash : SMap.get? a.annotations K.templateHashAnnot = some d.templateHash)
    (huniq : ∀ e ∈ list, SMap.get? e.annotations K.templateHashAnnot = some d.templateHash → e = a) :
    upToDateOf d list = some a := by
  unfold upToDateOf
  apply lastWhere_eq_of_unique ha
  · simp [hhash]
  · intro x hx hp
    exact huniq x hx (by simpa using hp)

/-- **6. Retention.** A replica set `cleanupReplicaSet` deletes is a listed one that is neither the
current nor the up-to-date one, is not already being deleted, reports no pods at all, and — if it
carries a true `Canary-Failed` condition — failed at least two minutes ago. -/
theorem C07_retention (now : Time) (list : List ERS) (cur upName nm : String)
    (h : nm ∈ cleanupTargetsERS now list cur upName) :
    ∃ e ∈ list, e.name = nm ∧ nm ≠ cur ∧ nm ≠ upName ∧ e.deleted = false ∧
      e.status.available + e.status.current + e.status.desired + e.status.ready = 0 ∧
      (∀ c, findCond e.status.conds "Canary-Failed" = some c → c.status = "True" →
        now ≥ c.lastTransition + 2 * minute) := by
  unfold cleanupTargetsERS at h
  simp only [List.mem_map, List.mem_filter, Bool.and_eq_true, bne_iff_ne, ne_eq,
    Bool.not_eq_true'] at h
  obtain ⟨e, ⟨he, ⟨⟨⟨h1, h2⟩, h3⟩, h4⟩⟩, rfl⟩ := h
  refine ⟨e, he, rfl, h1, h2, h3, ?_, ?_⟩
  · unfold shouldDeleteERS at h4
    simp only [Bool.and_eq_true, beq_iff_eq] at h4
    exact h4.2
  · intro c hfc hs
    unfold shouldDeleteERS at h4
    simp only [hfc, hs, Bool.and_eq_true, beq_iff_eq] at h4
    have := h4.1
    simp at this
    omega

/-- hence the failed canary's replica set survives the two minutes after the failure (so that its
status, and the reason of the failure, remain readable). -/
theorem C07_failed_kept (now : Time) (list : List ERS) (cur upName : String) (e : ERS) (c : Cond)
    (hfc : findCond e.status.conds "Canary-Failed" = some c) (hs : c.status = "True")
    (hrecent : now < c.lastTransition + 2 * minute) (hnd : (list.map (·.name)).Nodup) (he : e ∈ list) :
    e.name ∉ cleanupTargetsERS now list cur upName := by
  intro h
  obtain ⟨e', he', hn, _, _, _, _, hret⟩ := C07_retention now list cur upName e.name h
  have : e' = e := eq_of_nodup_map (·.name) hnd he' he hn
  subst this
  have := hret c hfc hs
  omega

/-- the retention constant of the model is the one in the Go source of this run. -/
theorem C07_retention_is_two_minutes : Facts.failedErsRetention = 2 * minute := facts_times.1

/-- **7. Scope returns.** After the rollback the status names no canary (`status.canary = none`):
this is what the replica-set controller reads to decide that the former canary nodes belong to the
active replica set again. -/
theorem C07_canary_cleared (d : EDS) (a u : ERS) (c : Canary) (cur rdy avail : Int) (now : Time)
    (pods : List Pod) (nodes : List Node)
    (hc : d.strategy.canary = some c) (hf : isCanaryFailed (some u) = true) :
    (updateInstance d a u cur rdy avail now pods nodes).status.canary = none :=
  (C07_rollback_status d a u c cur rdy avail now pods nodes hc hf).1

end Eds

/-! ### Examples (non-vacuity; fixtures in `EdsProofs/ReconcileEds.lean`) -/
namespace Eds.ExReconcile

example : isDefaulted strategy "" = true ∧ validateSpec strategy = .ok := by decide

/- the hypotheses of `C07_rollback_writes` / `C07_recoverable_nodup` are satisfiable (here: `dCanary`, `store 1`) -/
example : dCanary.strategy.canary.isSome = true ∧
    upToDateOf dCanary (store 1) = some (rs "ds-b" "h2" 1 [failedCond]) ∧
    lastWhere (fun e => e.name == dCanary.status.activeReplicaSet) (store 1) = some (rs "ds-a" "h1" 3 []) ∧
    ((store 1).map (·.name)).Nodup ∧
    isCanaryFailed (some (rs "ds-b" "h2" 1 [failedCond])) = true ∧
    isCanaryValid dCanary.annotations "ds-b" = false ∧
    (rs "ds-a" "h1" 3 []).templateGeneration ≠ dCanary.templateHash := by decide

/- a failed canary is rolled back: status, then spec (template of `ds-a`), nothing deleted, no error -/
example : (reconcileEds dCanary (store 1) [] [] minute "auto").statusUpdate = some rolledBack := by decide
example : (reconcileEds dCanary (store 1) [] [] minute "auto").specUpdate = some ("h1", []) := by decide
example : (reconcileEds dCanary (store 1) [] [] minute "auto").deletedErs = [] ∧
          (reconcileEds dCanary (store 1) [] [] minute "auto").err = false := by decide
/- the status write landed, the spec write did not: the next reconcile plans the spec write again -/
example : (reconcileEds { dCanary with status := rolledBack } (store 1) [] [] (minute + sec) "auto").specUpdate
    = some ("h1", []) := by decide
/- the spec write landed (spec.template is `h1` again): `ds-a` is up to date and active, no canary -/
example : ((reconcileEds (eds "h1" [] rolledBack) (store 0) [] [] (minute + sec) "auto").statusUpdate.map
    (fun s => (s.state, s.canary, s.activeReplicaSet, isCondTrue s.conds "Canary-Failed")))
    = some ("Running", none, "ds-a", false) := by decide
example : (reconcileEds (eds "h1" [] rolledBack) (store 0) [] [] (minute + sec) "auto").specUpdate = none := by decide
/- retention: the drained failed replica set is kept for two minutes after the failure, then deleted -/
example : (reconcileEds (eds "h1" [] rolledBack) (store 0) [] [] (2 * minute - 1) "auto").deletedErs = [] := by decide
example : (reconcileEds (eds "h1" [] rolledBack) (store 0) [] [] (2 * minute) "auto").deletedErs = ["ds-b"] := by decide
/- … and not while it still reports a pod -/
example : (reconcileEds (eds "h1" [] rolledBack) (store 1) [] [] (3 * minute) "auto").deletedErs = [] := by decide

/- why `isCanaryValid … = false` is a hypothesis: an explicit validation promotes even a failed canary -/
example : (currentOf (eds "h2" [⟨K.canaryValidAnnot, "ds-b"⟩] (status "ds-a" none)) (store 1)
    (rs "ds-b" "h2" 1 [failedCond]) minute).1.name = "ds-b" := by decide

/- why `d.strategy.canary = some c` is a hypothesis of `C07_after_rollback_converged`: without a canary
strategy `updateInstance` does not touch the canary block of the status -/
example : (updateInstance { dCanary with strategy := { strategy with canary := none } }
    (rs "ds-a" "h1" 3 []) (rs "ds-a" "h1" 3 []) 3 3 3 minute [] []).status.canary = some ⟨"ds-b", ["n1"]⟩ := by decide

end Eds.ExReconcile
