import EdsProofs.L3Live
/-
  L3Live — liveness THROUGH the canary phases at cluster level (property C02: "reconciliation converges to
  one Ready live-template pod per eligible node … the live template is spec.template when no canary strategy
  is set or once the canary is promoted, and the previously active template after a canary failure").

  EdsProps/C02c.lean proves convergence on a cooperative store when NO canary is in progress.  This file composes
  it, in the cluster machine of EdsModel/Cluster.lean (`World`, `step`, `stepF`, `run`), with the daemonset
  reconcile that ENDS a canary — by promotion (C05) or by rollback (C07) — so that the statement starts in a world
  in the middle of a canary and ends in the converged cluster for the live template.  Helpers: EdsProofs/L3Live.lean.

  Definitions
    `CanaryWorld w a u c`     a canary is in progress: defaulted, valid, canary strategy `c`, `a` = the own replica
                              set `status.activeReplicaSet` names, `u` = the up-to-date one, `a.name ≠ u.name`; plus
                              the L3 invariants NamesNodup / HashesNodup / AnnotGen (EdsProps/L3.lean)
    `PromotionDue c ann u now`  (EdsProofs/L3Live.lean) valid annotation naming `u`, or auto ∧ ended ∧ ¬paused ∧ ¬failed;
                              `PromotionDue.allowed`: it implies `Spec.C05.promotionAllowed`
    `EdsFrame w w'`           what a daemonset reconcile never touches (pods, nodes, settings, clock, identity, strategy)
    `BothWrites`, `SpecDropped`   which of the planned daemonset writes are applied (`stepF`)
    `LiveOn w rs`             no canary in progress, `rs` active AND up to date (generation = hash of spec.template)
    `LiveEnv w rs aff`        the `CoopSetup` hypotheses no reconcile can establish (named, not paused / frozen, …)
    `LiveConverged`, `SyncQuiet`, `liveBound`, `ClusterConverged`   the target
    `coopOps`, `coopRunOps`, `coopRunW`   `k` cooperative rounds as a `run` of the cluster machine:
                              per round  tick ; reconcileErs name ; kubelet (cooperative, instantaneous)
  Theorems
    1  `L3Live_promotion_step` (`_stepF`, `_writes`)     canary in progress ∧ rule of C05 ⟹ ONE reconcile gives
                                                        `LiveOn … u`, spec.template / hash / strategy unchanged
       `L3Live_promotion_premises`                      … i.e. the premises of `C02_converges_store` for `u`
    2  `L3Live_rollback_steps` (`_writes`)               failed canary ⟹ one reconcile (both writes) gives `LiveOn … a`,
                                                        spec.template = `a.template`, hash = `a.templateGeneration`;
                                                        with the spec write dropped the NEXT reconcile gives the same
       `L3Live_rollback_pending`                        the dropped spec write leaves a `CanaryWorld` with the same
                                                        failed canary (whatever else was dropped): recoverability at L3
       `L3Live_rollback_premises`                       the premises of `C02_converges_store` for `a`
    3  `converges_of_live`                              (store level) `LiveOn` + C02c hypotheses ⟹ `coopRun` converges
       `coopRound_sim`, `coopRunW_sim`                  rounds of the cluster machine = rounds of C02c
       `cluster_converges_of_live`                      the same for `coopRunW`, a `run` of the cluster machine
       `L3Live_converges_after_promotion`               reconcileEds :: k rounds of `u`   ⟹ `ClusterConverged … u`,
                                                        spec.template unchanged, `a` is a leftover ("unknown")
       `L3Live_converges_after_rollback`                reconcileEds [:: reconcileEds] :: k rounds of `a`
                                                        ⟹ `ClusterConverged … a`, spec.template = `a.template`, `u` leftover
       `leftover_inert`, `L3Live_leftover_stutter`      the other replica sets: role "unknown", sync inert
                                                        (`C04_unknown_inert`), their reconciles are stutter steps
    4  `Eds.ExLive` (end of file)                       a two-node cluster in the middle of a canary satisfying the
                                                        hypotheses of every theorem; the runs evaluated by `decide`
  Bound: `k ≥ liveBound w rs items = 2·outdated + empty`, counted in the world BEFORE the daemonset reconcile, with
  respect to the replica set that becomes live (after a promotion the non-canary nodes are the outdated ones, after a
  rollback the canary nodes are).  No `_partial` theorem in this file.

  Simplifications (all explicit hypotheses):
    * everything C02c assumes (cooperative store w.r.t. the replica set that becomes live, no settings, cooperative
      instantaneous kubelet, strategy parameters ≥ 1, rounds ≥ `max 0 reconcileFrequency` apart, no gate firing at
      the first round, injective name generator) — stated in the world BEFORE the daemonset reconcile, and carried
      across it by `EdsFrame`;
    * `hfind`: a reconcile request for the name of the replica set that becomes live finds it (names are unique in
      a namespace; `findErs` looks the name up among ALL replica sets of the namespace, not only the own ones);
    * the rollback theorems assume the canary-valid annotation does not name the failed `u` (otherwise the code
      promotes it — C07's counterexample), the promotion theorems do not (`PromotionDue` covers it);
    * the model identifies a template with its hash: "`rs` runs the live template" is `rs.templateGeneration =
      spec.templateHash`, pods are "of the live template" when stamped with that hash and passing `comparePod`;
      in addition the rollback theorems state `spec.template = a.template`;
    * the annotations lose the three canary pause keys at both transitions (`clearCanaryAnnotations`); the keys
      `LiveEnv` reads are other keys (`clearCanary_get?`).
  Not covered: promotion / rollback interleaved with a rolling update already under way on the non-canary nodes is
  covered only in so far as the store is cooperative at the moment of the daemonset reconcile (every pod Ready); API
  faults DURING the rounds (all writes of the replica-set syncs succeed; daemonset faults: dropped deletions, and the
  dropped spec write of the rollback); a dropped STATUS write with the spec write applied (the rollback then finishes
  through `C07_after_rollback_converged`, not composed here); later daemonset reconciles (they rewrite counters and
  collect the drained leftover replica set) are not part of the run — `L3Live_leftover_stutter` shows the leftover
  replica sets' own syncs can be interleaved freely.
-/
namespace Eds
open Cluster

/-! ## 0. The setting: a canary in progress -/

/-- **A canary is in progress in world `w`**: the daemonset is defaulted and valid, a canary strategy `c` is
set, `a` is the own replica set `status.activeReplicaSet` names, `u` is the up-to-date replica set (the one
`Reconcile` selects for spec.template) and `a ≠ u`.  `names`, `hashes`, `annotGen` are the L3 invariants of
EdsProps/L3.lean (`L3_names_nodup`, `L3_one_per_template`, `L3_annot_gen`: they hold along every run). -/
structure CanaryWorld (w : World) (a u : ERS) (c : Canary) : Prop where
  defaulted : isDefaulted w.eds.strategy w.eds.templateName = true
  valid : validateSpec w.eds.strategy = .ok
  canary : w.eds.strategy.canary = some c
  names : NamesNodup w
  hashes : HashesNodup w
  annotGen : AnnotGen w
  aOwn : a ∈ w.own
  upToDate : upToDateOf w.eds w.own = some u
  active : w.eds.status.activeReplicaSet = a.name
  ne : a.name ≠ u.name

namespace CanaryWorld
variable {w : World} {a u : ERS} {c : Canary} (H : CanaryWorld w a u c)
include H

theorem uOwn : u ∈ w.own := (C13_reuse_selects w.eds w.erss u H.upToDate).1

theorem uHash : SMap.get? u.annotations K.templateHashAnnot = some w.eds.templateHash :=
  (C13_reuse_selects w.eds w.erss u H.upToDate).2

/-- the up-to-date replica set carries the hash of spec.template as its template generation. -/
theorem uGen : u.templateGeneration = w.eds.templateHash := by
  have := H.annotGen u H.uOwn
  rw [H.uHash] at this
  exact (Option.some.inj this).symm

/-- the active replica set is of another template. -/
theorem aGen_ne : a.templateGeneration ≠ w.eds.templateHash := by
  intro h
  have h1 := H.annotGen a H.aOwn
  have : a = u := eq_of_nodup_map (fun e : ERS => SMap.get? e.annotations K.templateHashAnnot)
    ((HashesNodup_iff w).mp H.hashes) H.aOwn H.uOwn (by rw [h1, h, H.uHash])
  exact H.ne (by rw [this])

theorem activeLookup : lastWhere (fun e => e.name == w.eds.status.activeReplicaSet) w.own = some a :=
  lastWhere_name_of_nodup H.names H.aOwn _ H.active.symm

/-- the daemonset reconcile runs `edsMain` on the own replica sets with `u` up to date. -/
theorem writes (m : String) : edsWrites w m = edsMain w.eds w.own u w.pods w.nodes w.now :=
  reconcileEds_eq_main w.eds w.erss w.pods w.nodes w.now m u H.defaulted H.valid H.upToDate

end CanaryWorld

/-- what a daemonset reconcile never touches: pods, nodes, settings, DaemonSets, the clock, and the
daemonset's identity, strategy and template name. -/
structure EdsFrame (w w' : World) : Prop where
  pods : w'.pods = w.pods
  nodes : w'.nodes = w.nodes
  settings : w'.settings = w.settings
  daemonsets : w'.daemonsets = w.daemonsets
  now : w'.now = w.now
  name : w'.eds.name = w.eds.name
  ns : w'.eds.ns = w.eds.ns
  labels : w'.eds.labels = w.eds.labels
  strategy : w'.eds.strategy = w.eds.strategy
  templateName : w'.eds.templateName = w.eds.templateName

theorem EdsFrame.refl (w : World) : EdsFrame w w := ⟨rfl, rfl, rfl, rfl, rfl, rfl, rfl, rfl, rfl, rfl⟩

theorem EdsFrame.trans {w w' w'' : World} (h : EdsFrame w w') (h' : EdsFrame w' w'') : EdsFrame w w'' :=
  ⟨h'.pods.trans h.pods, h'.nodes.trans h.nodes, h'.settings.trans h.settings, h'.daemonsets.trans h.daemonsets,
   h'.now.trans h.now, h'.name.trans h.name, h'.ns.trans h.ns, h'.labels.trans h.labels,
   h'.strategy.trans h.strategy, h'.templateName.trans h.templateName⟩

theorem EdsFrame.own {w w' : World} (h : EdsFrame w w') (l : List ERS) : ownErs w'.eds l = ownErs w.eds l :=
  ownErs_congr _ _ _ h.name h.ns

/-- sub-writes of `edsMain` default nothing and create nothing. -/
theorem EdsSub.main_none {d : EDS} {list : List ERS} {u : ERS} {pods : List Pod} {nodes : List Node} {now : Time}
    {wr : EdsWrites} (hs : EdsSub wr (edsMain d list u pods nodes now)) :
    wr.defaulted = none ∧ wr.created = none := by
  constructor
  · rcases hs.defaulted with h | h
    · exact h
    · rw [h, edsMain_defaulted]
  · rcases hs.created with h | h
    · exact h
    · rw [h, edsMain_created]

theorem applyEds_edsFrame (w : World) (wr : EdsWrites) (nn : String) (hd : wr.defaulted = none) :
    EdsFrame w (applyEds w wr nn) := by
  obtain ⟨h1, h2, h3⟩ := applyEdsObj_ident w.eds wr
    (match wr.specUpdate with
     | some (h, _) => restoreTemplate w.eds w.erss w.now h
     | none => w.eds.template)
  refine ⟨rfl, rfl, rfl, rfl, rfl, h1, h2, h3, ?_, ?_⟩
  · show (applyEdsObj _ _ _).strategy = _
    rw [applyEdsObj_strategy, hd]
  · show (applyEdsObj _ _ _).templateName = _
    rw [applyEdsObj_templateName, hd]

/-- the own replica sets after sub-writes of `edsMain`: the surviving ones. -/
theorem applyEds_own (w : World) (wr : EdsWrites) (nn : String) (hd : wr.defaulted = none) (hc : wr.created = none) :
    (applyEds w wr nn).own = w.own.filter (fun e => !(e.ns == w.eds.ns && wr.deletedErs.contains e.name)) := by
  unfold World.own
  rw [(applyEds_edsFrame w wr nn hd).own, applyEds_erss,
    ownErs_applyErsList w.eds w.erss wr nn w.now (fun n hn => by rw [hc] at hn; cases hn), hc]
  simp

/-- the status write and the spec write the reconcile plans in `w` are both applied (together with any
subset of its replica-set deletions). -/
structure BothWrites (w : World) (m : String) (wr : EdsWrites) : Prop where
  sub : EdsSub wr (edsWrites w m)
  status : wr.statusUpdate = (edsWrites w m).statusUpdate
  spec : wr.specUpdate = (edsWrites w m).specUpdate

theorem BothWrites.full (w : World) (m : String) : BothWrites w m (edsWrites w m) := ⟨EdsSub.refl _, rfl, rfl⟩

theorem BothWrites.mask (f : Faults) (w : World) (m : String) (hs : f.edsStatus = true) (hp : f.edsSpec = true) :
    BothWrites w m (maskEds f (edsWrites w m)) :=
  ⟨EdsSub.mask f _, by simp [maskEds, hs], by simp [maskEds, hp]⟩

/-- **No canary in progress, `rs` live** (the phase `C02_converges_store` is about): `rs` is an own replica set,
`status.activeReplicaSet` names it, the status has no canary block, and `rs` is the up-to-date replica set — its
template generation is the hash of spec.template (the model identifies a template with its hash). -/
structure LiveOn (w : World) (rs : ERS) : Prop where
  own : rs ∈ w.own
  active : w.eds.status.activeReplicaSet = rs.name
  noCanary : w.eds.status.canary = none
  upToDate : upToDateOf w.eds w.own = some rs
  gen : rs.templateGeneration = w.eds.templateHash

/-! ## 1. Promotion -/

section Promotion
variable {w : World} {a u : ERS} {c : Canary}

/-- the promotion step for any write set that applies the status and the spec write. -/
theorem L3Live_promotion_writes (H : CanaryWorld w a u c) (hdue : PromotionDue c w.eds.annotations u w.now)
    (nn m : String) (wr : EdsWrites) (B : BothWrites w m wr) :
    LiveOn (applyEds w wr nn) u ∧ EdsFrame w (applyEds w wr nn) ∧
    (applyEds w wr nn).eds.templateHash = w.eds.templateHash ∧
    (applyEds w wr nn).eds.template = w.eds.template ∧
    (applyEds w wr nn).eds.annotations = (clearCanaryAnnotations w.eds.annotations).1 := by
  have hsub := B.sub
  have hst := B.status
  have hsp := B.spec
  rw [H.writes m] at hsub hst hsp
  obtain ⟨hdef, hcre⟩ := hsub.main_none
  have hcur : (currentOf w.eds w.own u w.now).1 = u := currentOf_of_due w.eds w.own u w.now c H.canary hdue
  obtain ⟨u1, u2, u3, u4, u5⟩ := updateInstance_self w.eds u
    (w.own.foldl (fun a e => a + e.status.current) 0) (w.own.foldl (fun a e => a + e.status.ready) 0)
    (w.own.foldl (fun a e => a + e.status.available) 0) w.now (ownPods w.eds w.pods) w.nodes c H.canary
  have hse : (edsUpd w.eds w.own (currentOf w.eds w.own u w.now).1 u w.pods w.nodes w.now).selectErr = false := by
    rw [hcur]; exact u3
  have hstatus : (applyEds w wr nn).eds.status = (edsUpd w.eds w.own u u w.pods w.nodes w.now).status := by
    rw [applyEds_status, hst]
    exact (edsMain_after_status _ _ _ _ _ _ hse).trans (by rw [hcur])
  have hhash0 : (match wr.specUpdate with | some x => x.1 | none => w.eds.templateHash) = w.eds.templateHash := by
    rw [hsp]
    refine (edsMain_after_hash _ _ _ _ _ _ hse).trans ?_
    rw [hcur]
    rcases u5 with h | h
    · unfold edsUpd; rw [h]
    · unfold edsUpd; rw [h]; exact H.uGen
  have hhash : (applyEds w wr nn).eds.templateHash = w.eds.templateHash := by
    show (applyEdsObj _ _ _).templateHash = _
    rw [applyEdsObj_templateHash]; exact hhash0
  have hann : (applyEds w wr nn).eds.annotations = (clearCanaryAnnotations w.eds.annotations).1 := by
    show (applyEdsObj _ _ _).annotations = _
    rw [applyEdsObj_annotations, hsp]
    refine (edsMain_after_annotations _ _ _ _ _ _ hse).trans ?_
    rw [hcur]
    exact u4
  have htpl : (applyEds w wr nn).eds.template = w.eds.template := by
    show (applyEdsObj _ _ _).template = _
    rw [applyEdsObj_template]
    cases hx : wr.specUpdate with
    | none => rfl
    | some x =>
      obtain ⟨h, ann⟩ := x
      rw [hx] at hhash0
      simp only [] at hhash0 ⊢
      rw [hhash0]
      exact restoreTemplate_same _ _ _
  have hfr := applyEds_edsFrame w wr nn hdef
  have hown := applyEds_own w wr nn hdef hcre
  have hmemu : u ∈ (applyEds w wr nn).own := by
    rw [hown, List.mem_filter]
    refine ⟨H.uOwn, ?_⟩
    have hk := kept_of_edsMain w.eds w.erss u w.pods w.nodes w.now wr nn hsub.deleted u (mem_own H.uOwn) (Or.inr rfl)
    rcases mem_applyErsList _ _ _ _ _ _ hk with ⟨_, h⟩ | ⟨n, h, _⟩
    · rcases h with h | h
      · exact absurd (own_ns H.uOwn) h
      · simp [h]
    · rw [hcre] at h; cases h
  refine ⟨⟨hmemu, ?_, ?_, ?_, ?_⟩, hfr, hhash, htpl, hann⟩
  · rw [hstatus]; exact u2
  · rw [hstatus]; exact u1
  · apply C07_after_rollback_uptodate _ _ u hmemu
    · rw [hhash]; exact H.uHash
    · intro e he hh
      rw [hown] at he
      have he' := (List.mem_filter.mp he).1
      rw [hhash] at hh
      exact eq_of_nodup_map (fun e : ERS => SMap.get? e.annotations K.templateHashAnnot)
        ((HashesNodup_iff w).mp H.hashes) he' H.uOwn (by rw [hh, H.uHash])
  · rw [hhash]; exact H.uGen

/-- **1. `L3Live_promotion_step`.**  In a world with a canary in progress (active replica set `a` ≠ up-to-date
replica set `u`) in which the promotion rule of C05 holds at the world's clock, ONE daemonset reconcile (all
writes applied) yields a world with no canary in progress and `u` live: `status.activeReplicaSet = u.name`,
`status.canary = none`, `u` still the up-to-date replica set; spec.template (and its hash), the strategy and
everything outside the daemonset object and the replica-set list are unchanged; the annotations lose the three
canary pause keys. -/
theorem L3Live_promotion_step (H : CanaryWorld w a u c) (hdue : PromotionDue c w.eds.annotations u w.now)
    (nn m : String) :
    LiveOn (step w (.reconcileEds nn m)) u ∧ EdsFrame w (step w (.reconcileEds nn m)) ∧
    (step w (.reconcileEds nn m)).eds.templateHash = w.eds.templateHash ∧
    (step w (.reconcileEds nn m)).eds.template = w.eds.template ∧
    (step w (.reconcileEds nn m)).eds.annotations = (clearCanaryAnnotations w.eds.annotations).1 :=
  L3Live_promotion_writes H hdue nn m _ (BothWrites.full w m)

/-- the same when replica-set deletions fail (any fault pattern that lets the status and spec writes through). -/
theorem L3Live_promotion_stepF (H : CanaryWorld w a u c) (hdue : PromotionDue c w.eds.annotations u w.now)
    (nn m : String) (f : Faults) (hs : f.edsStatus = true) (hp : f.edsSpec = true) :
    LiveOn (stepF f w (.reconcileEds nn m)) u ∧ EdsFrame w (stepF f w (.reconcileEds nn m)) ∧
    (stepF f w (.reconcileEds nn m)).eds.templateHash = w.eds.templateHash ∧
    (stepF f w (.reconcileEds nn m)).eds.template = w.eds.template ∧
    (stepF f w (.reconcileEds nn m)).eds.annotations = (clearCanaryAnnotations w.eds.annotations).1 :=
  L3Live_promotion_writes H hdue nn m _ (BothWrites.mask f w m hs hp)

end Promotion

/-! ## 2. Rollback -/

section Rollback
variable {w : World} {a u : ERS} {c : Canary}

/-- the spec write of the reconcile planned in `w` is dropped (the status write and the deletions may or may
not be applied). -/
structure SpecDropped (w : World) (m : String) (wr : EdsWrites) : Prop where
  sub : EdsSub wr (edsWrites w m)
  spec : wr.specUpdate = none

theorem SpecDropped.mask (f : Faults) (w : World) (m : String) (hp : f.edsSpec = false) :
    SpecDropped w m (maskEds f (edsWrites w m)) :=
  ⟨EdsSub.mask f _, by simp [maskEds, hp]⟩

/-- the rollback for any write set that applies the status and the spec write. -/
theorem L3Live_rollback_writes (H : CanaryWorld w a u c) (hf : isCanaryFailed (some u) = true)
    (hv : isCanaryValid w.eds.annotations u.name = false) (nn m : String) (wr : EdsWrites) (B : BothWrites w m wr) :
    LiveOn (applyEds w wr nn) a ∧ EdsFrame w (applyEds w wr nn) ∧
    (applyEds w wr nn).eds.templateHash = a.templateGeneration ∧
    (applyEds w wr nn).eds.template = a.template ∧
    (applyEds w wr nn).eds.annotations = (clearCanaryAnnotations w.eds.annotations).1 ∧
    u ∈ (applyEds w wr nn).own := by
  have hsub := B.sub
  have hst := B.status
  have hsp := B.spec
  rw [H.writes m] at hsub hst hsp
  obtain ⟨hdef, hcre⟩ := hsub.main_none
  have hcur : (currentOf w.eds w.own u w.now).1 = a :=
    C07_active_unchanged w.eds w.own u a c w.now H.canary H.activeLookup hf hv
  have hupd : edsUpd w.eds w.own a u w.pods w.nodes w.now = _ :=
    updateInstance_failed w.eds a u _ _ _ w.now (ownPods w.eds w.pods) w.nodes c H.canary hf
  have hse : (edsUpd w.eds w.own (currentOf w.eds w.own u w.now).1 u w.pods w.nodes w.now).selectErr = false := by
    rw [hcur, hupd]
  have hstatus : (applyEds w wr nn).eds.status = (edsUpd w.eds w.own a u w.pods w.nodes w.now).status := by
    rw [applyEds_status, hst]
    exact (edsMain_after_status _ _ _ _ _ _ hse).trans (by rw [hcur])
  have hhash0 : (match wr.specUpdate with | some x => x.1 | none => w.eds.templateHash) = a.templateGeneration := by
    rw [hsp]
    refine (edsMain_after_hash _ _ _ _ _ _ hse).trans ?_
    rw [hcur, hupd]
  have hhash : (applyEds w wr nn).eds.templateHash = a.templateGeneration := by
    show (applyEdsObj _ _ _).templateHash = _
    rw [applyEdsObj_templateHash]; exact hhash0
  have hann : (applyEds w wr nn).eds.annotations = (clearCanaryAnnotations w.eds.annotations).1 := by
    show (applyEdsObj _ _ _).annotations = _
    rw [applyEdsObj_annotations, hsp]
    refine (edsMain_after_annotations _ _ _ _ _ _ hse).trans ?_
    rw [hcur, hupd]
  have htpl : (applyEds w wr nn).eds.template = a.template := by
    show (applyEdsObj _ _ _).template = _
    rw [applyEdsObj_template]
    cases hx : wr.specUpdate with
    | none =>
      rw [hx] at hhash0
      exact absurd hhash0.symm H.aGen_ne
    | some x =>
      obtain ⟨h, ann⟩ := x
      rw [hx] at hhash0
      simp only [] at hhash0 ⊢
      rw [hhash0]
      exact restoreTemplate_current w.eds w.erss w.now u a H.upToDate hcur H.aGen_ne
  have hfr := applyEds_edsFrame w wr nn hdef
  have hown := applyEds_own w wr nn hdef hcre
  have hkept : ∀ e ∈ w.own, e.name = a.name ∨ e.name = u.name → e ∈ (applyEds w wr nn).own := by
    intro e he hn
    rw [hown, List.mem_filter]
    refine ⟨he, ?_⟩
    have hk := kept_of_edsMain w.eds w.erss u w.pods w.nodes w.now wr nn hsub.deleted e (mem_own he)
      (by show _ = (currentOf w.eds w.own u w.now).1.name ∨ _; rw [hcur]; exact hn)
    rcases mem_applyErsList _ _ _ _ _ _ hk with ⟨_, h⟩ | ⟨n, h, _⟩
    · rcases h with h | h
      · exact absurd (own_ns he) h
      · simp [h]
    · rw [hcre] at h; cases h
  have hmema := hkept a H.aOwn (Or.inl rfl)
  have haHash : SMap.get? a.annotations K.templateHashAnnot = some a.templateGeneration := H.annotGen a H.aOwn
  refine ⟨⟨hmema, ?_, ?_, ?_, hhash.symm⟩, hfr, hhash, htpl, hann, hkept u H.uOwn (Or.inr rfl)⟩
  · rw [hstatus, hupd]; rfl
  · rw [hstatus, hupd]
  · apply C07_after_rollback_uptodate _ _ a hmema
    · rw [hhash]; exact haHash
    · intro e he hh
      rw [hown] at he
      have he' := (List.mem_filter.mp he).1
      rw [hhash] at hh
      exact eq_of_nodup_map (fun e : ERS => SMap.get? e.annotations K.templateHashAnnot)
        ((HashesNodup_iff w).mp H.hashes) he' H.aOwn (by rw [hh, haHash])

/-- **the rollback is recoverable at L3**: when the spec write is dropped — whatever happens to the status write
and to the deletions — the world is still one with the same failed canary in progress (same `a`, `u`, spec,
annotations), so that the next reconcile plans the rollback again. -/
theorem L3Live_rollback_pending (H : CanaryWorld w a u c) (hf : isCanaryFailed (some u) = true)
    (hv : isCanaryValid w.eds.annotations u.name = false) (nn m : String) (wr : EdsWrites) (D : SpecDropped w m wr) :
    CanaryWorld (applyEds w wr nn) a u c ∧
    isCanaryValid (applyEds w wr nn).eds.annotations u.name = false ∧
    EdsFrame w (applyEds w wr nn) ∧
    (applyEds w wr nn).eds.templateHash = w.eds.templateHash ∧
    (applyEds w wr nn).eds.template = w.eds.template ∧
    (applyEds w wr nn).eds.annotations = w.eds.annotations := by
  have hsub := D.sub
  rw [H.writes m] at hsub
  obtain ⟨hdef, hcre⟩ := hsub.main_none
  have hcur : (currentOf w.eds w.own u w.now).1 = a :=
    C07_active_unchanged w.eds w.own u a c w.now H.canary H.activeLookup hf hv
  have hfr := applyEds_edsFrame w wr nn hdef
  have hown := applyEds_own w wr nn hdef hcre
  have hhash : (applyEds w wr nn).eds.templateHash = w.eds.templateHash := by
    show (applyEdsObj _ _ _).templateHash = _
    rw [applyEdsObj_templateHash, D.spec]
  have hann : (applyEds w wr nn).eds.annotations = w.eds.annotations := by
    show (applyEdsObj _ _ _).annotations = _
    rw [applyEdsObj_annotations, D.spec]
  have htpl : (applyEds w wr nn).eds.template = w.eds.template := by
    show (applyEdsObj _ _ _).template = _
    rw [applyEdsObj_template, D.spec]
  have hsublist : (applyEds w wr nn).own.Sublist w.own := by rw [hown]; exact List.filter_sublist
  have hkept : ∀ e ∈ w.own, e.name = a.name ∨ e.name = u.name → e ∈ (applyEds w wr nn).own := by
    intro e he hn
    rw [hown, List.mem_filter]
    refine ⟨he, ?_⟩
    have hk := kept_of_edsMain w.eds w.erss u w.pods w.nodes w.now wr nn hsub.deleted e (mem_own he)
      (by show _ = (currentOf w.eds w.own u w.now).1.name ∨ _; rw [hcur]; exact hn)
    rcases mem_applyErsList _ _ _ _ _ _ hk with ⟨_, h⟩ | ⟨n, h, _⟩
    · rcases h with h | h
      · exact absurd (own_ns he) h
      · simp [h]
    · rw [hcre] at h; cases h
  have hmemu := hkept u H.uOwn (Or.inr rfl)
  have hactive : (applyEds w wr nn).eds.status.activeReplicaSet = a.name := by
    rw [applyEds_status]
    rcases hsub.status with h | h
    · rw [h]; exact H.active
    · rw [h]
      cases hs : (edsMain w.eds w.own u w.pods w.nodes w.now).statusUpdate with
      | none => exact H.active
      | some st =>
        simp only []
        rw [edsMain_statusUpdate _ _ _ _ _ _ st hs]
        unfold edsUpd
        rw [updateInstance_activeReplicaSet, hcur]
  refine ⟨?_, by rw [hann]; exact hv, hfr, hhash, htpl, hann⟩
  exact
    { defaulted := by rw [hfr.strategy, hfr.templateName]; exact H.defaulted
      valid := by rw [hfr.strategy]; exact H.valid
      canary := by rw [hfr.strategy]; exact H.canary
      names := List.Nodup.sublist (hsublist.map _) H.names
      hashes := (HashesNodup_iff _).mpr (List.Nodup.sublist (hsublist.map _) ((HashesNodup_iff w).mp H.hashes))
      annotGen := fun e he => H.annotGen e (hsublist.subset he)
      aOwn := hkept a H.aOwn (Or.inl rfl)
      upToDate := by
        apply C07_after_rollback_uptodate _ _ u hmemu
        · rw [hhash]; exact H.uHash
        · intro e he hh
          rw [hhash] at hh
          exact eq_of_nodup_map (fun e : ERS => SMap.get? e.annotations K.templateHashAnnot)
            ((HashesNodup_iff w).mp H.hashes) (hsublist.subset he) H.uOwn (by rw [hh, H.uHash])
      active := hactive
      ne := H.ne }

/-- **2. `L3Live_rollback_steps`.**  In a world with a FAILED canary in progress (`u` carries a true Canary-Failed
condition, the canary-valid annotation does not name it, `a ≠ u` is active):

  (one step)  one daemonset reconcile with all writes applied yields a world with no canary in progress and `a`
              live: `status.canary = none`, `status.activeReplicaSet = a.name` unchanged, spec.template is `a`'s
              template again (hash `a.templateGeneration`), so that `a` is the up-to-date replica set;
  (two steps) when the spec write of the first reconcile is dropped (fault pattern `f` with `edsSpec = false`;
              status write and deletions applied or not), the next reconcile completes the rollback: the world
              after it satisfies the same conclusion.
In both cases the strategy and everything outside the daemonset object and the replica-set list are unchanged,
the annotations lose the three canary pause keys, and the failed `u` is still an own replica set. -/
theorem L3Live_rollback_steps (H : CanaryWorld w a u c) (hf : isCanaryFailed (some u) = true)
    (hv : isCanaryValid w.eds.annotations u.name = false) (nn m : String) :
    (LiveOn (step w (.reconcileEds nn m)) a ∧ EdsFrame w (step w (.reconcileEds nn m)) ∧
      (step w (.reconcileEds nn m)).eds.templateHash = a.templateGeneration ∧
      (step w (.reconcileEds nn m)).eds.template = a.template ∧
      (step w (.reconcileEds nn m)).eds.annotations = (clearCanaryAnnotations w.eds.annotations).1 ∧
      u ∈ (step w (.reconcileEds nn m)).own) ∧
    (∀ (f : Faults) (nn' m' : String), f.edsSpec = false →
      LiveOn (step (stepF f w (.reconcileEds nn m)) (.reconcileEds nn' m')) a ∧
      EdsFrame w (step (stepF f w (.reconcileEds nn m)) (.reconcileEds nn' m')) ∧
      (step (stepF f w (.reconcileEds nn m)) (.reconcileEds nn' m')).eds.templateHash = a.templateGeneration ∧
      (step (stepF f w (.reconcileEds nn m)) (.reconcileEds nn' m')).eds.template = a.template ∧
      (step (stepF f w (.reconcileEds nn m)) (.reconcileEds nn' m')).eds.annotations =
        (clearCanaryAnnotations w.eds.annotations).1 ∧
      u ∈ (step (stepF f w (.reconcileEds nn m)) (.reconcileEds nn' m')).own) := by
  refine ⟨L3Live_rollback_writes H hf hv nn m _ (BothWrites.full w m), ?_⟩
  intro f nn' m' hp
  obtain ⟨H1, hv1, hfr1, _, _, hann1⟩ := L3Live_rollback_pending H hf hv nn m _ (SpecDropped.mask f w m hp)
  obtain ⟨L, hfr2, h1, h2, h3, h4⟩ := L3Live_rollback_writes H1 hf hv1 nn' m' _ (BothWrites.full _ m')
  refine ⟨L, hfr1.trans hfr2, h1, h2, ?_, h4⟩
  rw [← hann1]
  exact h3

end Rollback

/-! ## 3. From "no canary in progress" to convergence (store level) -/

/-- the hypotheses of `CoopSetup` (C02c) a daemonset reconcile cannot establish: the replica set that is to
become live has a name; the rolling update is neither paused nor frozen; no DaemonSet is being migrated; in
affinity mode its template's required node affinity is not the empty term list (C10). -/
structure LiveEnv (w : World) (rs : ERS) (aff : Bool) : Prop where
  named : rs.name ≠ ""
  notPaused : isRollingUpdatePaused w.eds.annotations = false
  notFrozen : isRolloutFrozen w.eds.annotations = false
  noOldDs : SMap.get? w.eds.annotations K.oldDaemonsetAnnot = none
  affOk : aff = true → rs.template.affRequired ≠ some []

/-- a replica set whose name is not the active one's is a leftover ("unknown" role) once the canary block is
gone … -/
theorem ersRole_unknown_of_live {w : World} {rs : ERS} (L : LiveOn w rs) {n : String} (hne : n ≠ rs.name) :
    ersRole w.eds n = "unknown" := by
  unfold ersRole
  rw [L.active, L.noCanary]
  split
  · rfl
  · have : (rs.name == n) = false := by simpa using fun h => hne h.symm
    simp [this]

/-- … and its sync writes no pod at all (`C04_unknown_inert`), in whatever store the daemonset object is the
one of `w`, whatever its status, at any instant. -/
theorem leftover_inert {w : World} {rs : ERS} (L : LiveOn w rs) (e : ERS) (hne : e.name ≠ rs.name)
    (st : ErsStore) (released : String → Bool) (aff : Bool) (now : Time) (ho : ersOwner e st = some w.eds) :
    (reconcileErs e st released aff now).creates = [] ∧
    (reconcileErs e st released aff now).deletes = [] ∧
    (reconcileErs e st released aff now).cleanupDeletes = [] ∧
    (reconcileErs e st released aff now).labelAdds = [] ∧
    (reconcileErs e st released aff now).labelRemoves = [] :=
  C04_unknown_inert e st released aff now w.eds ho (ersRole_unknown_of_live L hne)

/-- `CoopSetup` of C02c in the world after the daemonset reconcile. -/
theorem coopSetup_of_live {w w' : World} {rs : ERS} {aff : Bool} (L : LiveOn w' rs) (F : EdsFrame w w')
    (hdef : isDefaulted w.eds.strategy w.eds.templateName = true) (E : LiveEnv w rs aff)
    (hann : w'.eds.annotations = (clearCanaryAnnotations w.eds.annotations).1 ∨ w'.eds.annotations = w.eds.annotations) :
    CoopSetup w'.eds rs aff := by
  have hlabel : SMap.get? rs.labels K.edsNameLabel = some w'.eds.name := by
    have := (List.mem_filter.mp L.own).2
    simp only [Bool.and_eq_true, beq_iff_eq] at this
    exact this.2
  rcases hann with hann | hann
  · exact
      { defaulted := by rw [F.strategy, F.templateName]; exact hdef
        active := L.active
        named := E.named
        noCanary := L.noCanary
        notPaused := by rw [hann, clearCanary_paused]; exact E.notPaused
        notFrozen := by rw [hann, clearCanary_frozen]; exact E.notFrozen
        noOldDs := by rw [hann, clearCanary_oldDs]; exact E.noOldDs
        label := hlabel
        affOk := E.affOk }
  · exact
      { defaulted := by rw [F.strategy, F.templateName]; exact hdef
        active := L.active
        named := E.named
        noCanary := L.noCanary
        notPaused := by rw [hann]; exact E.notPaused
        notFrozen := by rw [hann]; exact E.notFrozen
        noOldDs := by rw [hann]; exact E.noOldDs
        label := hlabel
        affOk := E.affOk }

theorem coopStore_of_frame {w w' : World} {rs : ERS} {gen : String → String} {items : List NodeItem}
    (F : EdsFrame w w') (S : CoopStore w.eds rs gen items w.store) : CoopStore w'.eds rs gen items w'.store :=
  S.transfer F.name F.ns rfl rfl F.nodes F.pods F.settings

theorem edsPods_of_frame {w w' : World} (F : EdsFrame w w') : edsPodsOf w'.eds w'.store = edsPodsOf w.eds w.store :=
  edsPodsOf_congr F.name F.ns F.pods

/-- **The converged cluster state for live replica set `rs`** (pods `E` of the daemonset `d`, eligible nodes
`fitItems rs items`): every eligible node runs exactly one pod of the daemonset — not terminating, Running, Ready,
stamped with the hash of spec.template (the LIVE template) and passing the controller's pod comparison for `rs` —
and the daemonset has no pod anywhere else. -/
def LiveConverged (d : EDS) (rs : ERS) (items : List NodeItem) (E : List Pod) : Prop :=
  (∀ ni ∈ fitItems rs items, ∃ p,
    E.filter (fun q => q.nodeName == ni.node.name) = [p] ∧
    p.deletion = none ∧ p.phase = "Running" ∧ p.ready = true ∧
    SMap.get? p.annotations K.templateHashAnnot = some d.templateHash ∧
    comparePod rs.templateGeneration p ni = true) ∧
  (∀ p ∈ E, ∃ ni ∈ fitItems rs items, p.nodeName = ni.node.name)

/-- a sync of `rs` in store `st` writes no pod: at any instant, with any back-off oracle. -/
def SyncQuiet (rs : ERS) (st : ErsStore) (aff : Bool) : Prop :=
  ∀ (now : Time) (released : String → Bool),
    (reconcileErs rs st released aff now).creates = [] ∧
    (reconcileErs rs st released aff now).deletes = [] ∧
    (reconcileErs rs st released aff now).cleanupDeletes = []

/-- the number of cooperative rounds that suffice: `2·outdated + empty` (C02), counted in the world BEFORE the
daemonset reconcile with respect to the replica set that is about to become live. -/
def liveBound (w : World) (rs : ERS) (items : List NodeItem) : Nat :=
  2 * outdatedNodes rs items (edsPodsOf w.eds w.store) + emptyNodes rs items (edsPodsOf w.eds w.store)

section Converge
variable {w w' : World} {rs : ERS} {aff : Bool} {gen : String → String} {items : List NodeItem}

/-- **from "no canary in progress" to the converged store**: whatever daemonset reconcile led from `w` to `w'`
(promotion or rollback), if `rs` is live in `w'` and the C02c hypotheses hold in `w` for `rs`, then `k ≥ liveBound`
cooperative rounds of `rs` from `w'.store` reach the converged state, and stay there. -/
theorem converges_of_live (L : LiveOn w' rs) (F : EdsFrame w w')
    (hdef : isDefaulted w.eds.strategy w.eds.templateName = true) (E : LiveEnv w rs aff)
    (hann : w'.eds.annotations = (clearCanaryAnnotations w.eds.annotations).1 ∨ w'.eds.annotations = w.eds.annotations)
    (S : CoopStore w.eds rs gen items w.store) (hK : StratOk w.eds (fitItems rs items).length)
    (hinj : ∀ x y, gen x = gen y → x = y) (clock : Nat → Time)
    (hclock : ∀ k, clock k + max 0 (ersFreq w.eds) ≤ clock (k + 1)) (G : GateFree w.eds rs (clock 0))
    (k : Nat) (hk : liveBound w rs items ≤ k) :
    CoopStore w'.eds rs gen items (coopRun aff gen clock k (rs, w'.store)).2 ∧
    LiveConverged w'.eds rs items (edsPodsOf w'.eds (coopRun aff gen clock k (rs, w'.store)).2) ∧
    SyncQuiet (coopRun aff gen clock k (rs, w'.store)).1 (coopRun aff gen clock k (rs, w'.store)).2 aff := by
  have C := coopSetup_of_live L F hdef E hann
  have S' := coopStore_of_frame F S
  have hK' : StratOk w'.eds (fitItems rs items).length := hK.transfer F.strategy
  have hclock' : ∀ k, clock k + max 0 (ersFreq w'.eds) ≤ clock (k + 1) := by
    rw [ersFreq_congr F.strategy]; exact hclock
  have G' : GateFree w'.eds rs (clock 0) := G.transfer F.strategy
  have hk' : 2 * outdatedNodes rs items (edsPodsOf w'.eds w'.store) + emptyNodes rs items (edsPodsOf w'.eds w'.store) ≤ k := by
    rw [edsPods_of_frame F]; exact hk
  obtain ⟨h1, _, _, h4, h5, h6⟩ := C02_converges_store C S' hK' hinj clock hclock' G' k hk'
  refine ⟨h1, ⟨?_, h5⟩, h6⟩
  intro ni hni
  obtain ⟨p, hp1, hp2, hp3, hp4, hp5, hp6⟩ := h4 ni hni
  exact ⟨p, hp1, hp2, hp3, hp4, by rw [← L.gen]; exact hp5, hp6⟩

end Converge

/-- item 1, made explicit: after the promotion step the premises of `C02_converges_store` hold for `u` in the new
world (`CoopSetup`: `u` active, no canary in progress, …; the store, strategy and gate hypotheses carry over). -/
theorem L3Live_promotion_premises {w : World} {a u : ERS} {c : Canary} {aff : Bool} {gen : String → String}
    {items : List NodeItem} (H : CanaryWorld w a u c) (hdue : PromotionDue c w.eds.annotations u w.now)
    (E : LiveEnv w u aff) (S : CoopStore w.eds u gen items w.store) (hK : StratOk w.eds (fitItems u items).length)
    (t : Time) (G : GateFree w.eds u t) (nn m : String) :
    CoopSetup (step w (.reconcileEds nn m)).eds u aff ∧
    CoopStore (step w (.reconcileEds nn m)).eds u gen items (step w (.reconcileEds nn m)).store ∧
    StratOk (step w (.reconcileEds nn m)).eds (fitItems u items).length ∧
    GateFree (step w (.reconcileEds nn m)).eds u t := by
  obtain ⟨L, F, _, _, h3⟩ := L3Live_promotion_step H hdue nn m
  exact ⟨coopSetup_of_live L F H.defaulted E (Or.inl h3), coopStore_of_frame F S, hK.transfer F.strategy,
    G.transfer F.strategy⟩

/-- item 2, made explicit: after the rollback step the premises of `C02_converges_store` hold for `a`. -/
theorem L3Live_rollback_premises {w : World} {a u : ERS} {c : Canary} {aff : Bool} {gen : String → String}
    {items : List NodeItem} (H : CanaryWorld w a u c) (hf : isCanaryFailed (some u) = true)
    (hv : isCanaryValid w.eds.annotations u.name = false)
    (E : LiveEnv w a aff) (S : CoopStore w.eds a gen items w.store) (hK : StratOk w.eds (fitItems a items).length)
    (t : Time) (G : GateFree w.eds a t) (nn m : String) :
    CoopSetup (step w (.reconcileEds nn m)).eds a aff ∧
    CoopStore (step w (.reconcileEds nn m)).eds a gen items (step w (.reconcileEds nn m)).store ∧
    StratOk (step w (.reconcileEds nn m)).eds (fitItems a items).length ∧
    GateFree (step w (.reconcileEds nn m)).eds a t := by
  obtain ⟨L, F, _, _, h3, _⟩ := (L3Live_rollback_steps H hf hv nn m).1
  exact ⟨coopSetup_of_live L F H.defaulted E (Or.inl h3), coopStore_of_frame F S, hK.transfer F.strategy,
    G.transfer F.strategy⟩

/-! ## 4. Cooperative rounds as runs of the cluster machine -/

/-- **the operations of one cooperative round** of the replica set named `name`, at instant `t`, in world `w`:
the clock ticks to `t`; the replica set is reconciled (`Op.reconcileErs`, back-off oracle "nothing released": its
status write and its pod writes are applied by the cluster machine); then the cooperative, instantaneous kubelet
of C02c acts (`Op.kubelet`: gracefully deleted pods are gone, the created pods carry the names `gen` gives them
and are bound, Running and Ready). -/
def coopOps (name : String) (aff : Bool) (gen : String → String) (t : Time) (w : World) : List Op :=
  [ .tick (t - w.now).toNat,
    .reconcileErs name (fun _ => false) aff,
    .kubelet (match findErs w name with
              | some rs => (coopRoundStore rs aff gen t w.store).pods
              | none => w.pods) ]

/-- the operations of `k` cooperative rounds from `w`, round `i` at instant `clock i`. -/
def coopRunOps (name : String) (aff : Bool) (gen : String → String) (clock : Nat → Time) : Nat → World → List Op
  | 0, _ => []
  | k + 1, w =>
    coopRunOps name aff gen clock k w ++
      coopOps name aff gen (clock k) (run w (coopRunOps name aff gen clock k w))

/-- the world after `k` cooperative rounds: a `run` of the cluster machine. -/
def coopRunW (name : String) (aff : Bool) (gen : String → String) (clock : Nat → Time) (k : Nat) (w : World) : World :=
  run w (coopRunOps name aff gen clock k w)

theorem run_append' (w : World) (l1 l2 : List Op) : run w (l1 ++ l2) = run (run w l1) l2 := by
  unfold run; rw [List.foldl_append]

theorem coopRunW_succ (name : String) (aff : Bool) (gen : String → String) (clock : Nat → Time) (k : Nat) (w : World) :
    coopRunW name aff gen clock (k + 1) w =
      run (coopRunW name aff gen clock k w) (coopOps name aff gen (clock k) (coopRunW name aff gen clock k w)) := by
  unfold coopRunW
  rw [coopRunOps, run_append']

/-- a daemonset reconcile followed by `k` cooperative rounds is ONE run of the cluster machine. -/
theorem coopRunW_after_step (name : String) (aff : Bool) (gen : String → String) (clock : Nat → Time) (k : Nat)
    (w : World) (op : Op) :
    coopRunW name aff gen clock k (step w op) = run w (op :: coopRunOps name aff gen clock k (step w op)) := rfl

theorem step_reconcileErs_some (w : World) (name : String) (rel : String → Bool) (aff : Bool) (rs : ERS)
    (h : findErs w name = some rs) :
    step w (.reconcileErs name rel aff) = applyErs w rs (ersWrites w rs rel aff) := by
  simp only [step, h]

theorem setStatusOf_self (rs : ERS) (wr : ErsWrites) :
    setStatusOf rs wr rs = { rs with status := wr.statusUpdate.getD rs.status } := by
  unfold setStatusOf
  simp only [beq_self_eq_true, Bool.and_self, if_true]
  cases wr.statusUpdate <;> rfl

theorem findErs_map_setStatus (w : World) (rs0 : ERS) (wr : ErsWrites) (name : String) (w' : World)
    (he : w'.eds = w.eds) (hl : w'.erss = w.erss.map (setStatusOf rs0 wr)) :
    findErs w' name = (findErs w name).map (setStatusOf rs0 wr) := by
  unfold findErs
  rw [he, hl, List.find?_map]
  congr 2
  funext e
  simp only [Function.comp]
  rw [(setStatusOf_frame rs0 wr e).1, setStatusOf_name]

/-- **one cooperative round of the cluster machine is one cooperative round of C02c** on the store and on the
replica set. -/
theorem coopRound_sim (w : World) (rs : ERS) (aff : Bool) (gen : String → String) (t : Time)
    (hf : findErs w rs.name = some rs) (ht : w.now ≤ t) :
    (run w (coopOps rs.name aff gen t w)).store = coopRoundStore rs aff gen t w.store ∧
    findErs (run w (coopOps rs.name aff gen t w)) rs.name = some (nextErs rs aff t w.store) ∧
    (run w (coopOps rs.name aff gen t w)).eds = w.eds ∧
    (run w (coopOps rs.name aff gen t w)).now = t := by
  have hnow : w.now + ((t - w.now).toNat : Int) = t := by
    rw [Int.toNat_of_nonneg (by omega)]; omega
  have hf1 : findErs (step w (.tick (t - w.now).toNat)) rs.name = some rs := hf
  have hrun : run w (coopOps rs.name aff gen t w) =
      step (applyErs (step w (.tick (t - w.now).toNat)) rs
        (ersWrites (step w (.tick (t - w.now).toNat)) rs (fun _ => false) aff))
        (.kubelet (coopRoundStore rs aff gen t w.store).pods) := by
    unfold coopOps run
    simp only [List.foldl_cons, List.foldl_nil, hf]
    rw [step_reconcileErs_some _ _ _ _ rs hf1]
  rw [hrun]
  refine ⟨rfl, ?_, rfl, hnow⟩
  have := findErs_map_setStatus w rs (ersWrites (step w (.tick (t - w.now).toNat)) rs (fun _ => false) aff) rs.name
    (step (applyErs (step w (.tick (t - w.now).toNat)) rs
        (ersWrites (step w (.tick (t - w.now).toNat)) rs (fun _ => false) aff))
        (.kubelet (coopRoundStore rs aff gen t w.store).pods)) rfl rfl
  rw [this, hf, Option.map_some, setStatusOf_self]
  congr 2
  show (reconcileErs rs w.store (fun _ => false) aff (w.now + ((t - w.now).toNat : Int))).statusUpdate.getD _ = _
  rw [hnow]

/-- **`k` cooperative rounds of the cluster machine are `k` cooperative rounds of C02c.** -/
theorem coopRunW_sim (w : World) (rs : ERS) (aff : Bool) (gen : String → String) (clock : Nat → Time)
    (hf : findErs w rs.name = some rs) (h0 : w.now ≤ clock 0) (hmono : ∀ k, clock k ≤ clock (k + 1)) (k : Nat) :
    (coopRunW rs.name aff gen clock k w).store = (coopRun aff gen clock k (rs, w.store)).2 ∧
    findErs (coopRunW rs.name aff gen clock k w) rs.name = some (coopRun aff gen clock k (rs, w.store)).1 ∧
    (coopRun aff gen clock k (rs, w.store)).1.name = rs.name ∧
    (coopRunW rs.name aff gen clock k w).eds = w.eds ∧
    (coopRunW rs.name aff gen clock k w).now ≤ clock k := by
  induction k with
  | zero => exact ⟨rfl, hf, rfl, rfl, h0⟩
  | succ k ih =>
    obtain ⟨h1, h2, h3, h4, h5⟩ := ih
    rw [coopRunW_succ]
    have hrun : coopRun aff gen clock (k + 1) (rs, w.store) =
        coopRound aff gen (clock k) (coopRun aff gen clock k (rs, w.store)) := rfl
    rw [hrun]
    generalize coopRunW rs.name aff gen clock k w = W at h1 h2 h4 h5 ⊢
    generalize coopRun aff gen clock k (rs, w.store) = cur at h1 h2 h3 ⊢
    obtain ⟨rsk, stk⟩ := cur
    simp only [] at h1 h2 h3
    rw [← h3] at h2 ⊢
    obtain ⟨g1, g2, g3, g4⟩ := coopRound_sim W rsk aff gen (clock k) h2 h5
    unfold coopRound
    simp only []
    rw [← h1]
    refine ⟨g1, g2, rfl, g3.trans h4, ?_⟩
    rw [g4]; exact hmono k

/-! ## 5. The composed liveness theorems at cluster level -/

theorem find?_filter_of_kept {α} (p q : α → Bool) (l : List α) (x : α) (h : l.find? p = some x) (hq : q x = true) :
    (l.filter q).find? p = some x := by
  induction l with
  | nil => cases h
  | cons y l ih =>
    rw [List.find?_cons] at h
    rw [List.filter_cons]
    cases hp : p y with
    | true =>
      rw [hp] at h
      simp only [Option.some.injEq] at h
      subst h
      rw [hq]
      simp [hp]
    | false =>
      rw [hp] at h
      cases hqy : q y
      · simp only [Bool.false_eq_true, if_false]; exact ih h
      · simp only [if_true, List.find?_cons, hp]; exact ih h

/-- a reconcile request that found replica set `e` before a daemonset reconcile (sub-writes of `edsMain`) still
finds it afterwards when `e` was kept. -/
theorem findErs_applyEds (w : World) (wr : EdsWrites) (nn : String) (hd : wr.defaulted = none)
    (hc : wr.created = none) (e : ERS) (hf : findErs w e.name = some e) (hk : e ∈ (applyEds w wr nn).own) :
    findErs (applyEds w wr nn) e.name = some e := by
  have hfr := applyEds_edsFrame w wr nn hd
  unfold findErs at hf ⊢
  rw [hfr.ns, applyEds_erss]
  unfold applyErsList
  rw [hc]
  simp only [List.append_nil]
  apply find?_filter_of_kept _ _ _ _ hf
  rw [applyEds_own w wr nn hd hc] at hk
  exact (List.mem_filter.mp hk).2

/-- **The converged cluster** for live replica set `rs` (eligible nodes `fitItems rs items`):
  * `live`     — no canary in progress, `rs` active, its template generation is the hash of spec.template;
  * `pods`     — every eligible node runs exactly one pod of the daemonset, Ready, of the LIVE template, and the
                 daemonset has no other pod (`LiveConverged`);
  * `quiet`    — the replica set a reconcile request for `rs.name` finds is `rs` with a newer status, and its sync
                 writes no pod, at any instant, with any back-off oracle;
  * `leftover` — every other replica set of the daemonset (the former active one after a promotion, the failed one
                 after a rollback) has the "unknown" role and its sync is inert (`C04_unknown_inert`): no pod
                 created, deleted, cleaned up or relabelled, in whatever store holds this daemonset object. -/
structure ClusterConverged (W : World) (rs : ERS) (aff : Bool) (items : List NodeItem) : Prop where
  live : W.eds.status.activeReplicaSet = rs.name ∧ W.eds.status.canary = none ∧
    rs.templateGeneration = W.eds.templateHash
  pods : LiveConverged W.eds rs items (edsPodsOf W.eds W.store)
  quiet : ∃ rs', findErs W rs.name = some rs' ∧ rs' = { rs with status := rs'.status } ∧ SyncQuiet rs' W.store aff
  leftover : ∀ e : ERS, e.name ≠ rs.name → ersRole W.eds e.name = "unknown" ∧
    ∀ (st : ErsStore) (released : String → Bool) (aff' : Bool) (now : Time), ersOwner e st = some W.eds →
      (reconcileErs e st released aff' now).creates = [] ∧
      (reconcileErs e st released aff' now).deletes = [] ∧
      (reconcileErs e st released aff' now).cleanupDeletes = [] ∧
      (reconcileErs e st released aff' now).labelAdds = [] ∧
      (reconcileErs e st released aff' now).labelRemoves = []

section Cluster
variable {w w' : World} {rs : ERS} {aff : Bool} {gen : String → String} {items : List NodeItem}

/-- from "no canary in progress" in `w'` to the converged cluster, by `k` cooperative rounds of the cluster
machine (whatever daemonset reconcile(s) led from `w` to `w'`). -/
theorem cluster_converges_of_live (L : LiveOn w' rs) (F : EdsFrame w w')
    (hdef : isDefaulted w.eds.strategy w.eds.templateName = true) (E : LiveEnv w rs aff)
    (hann : w'.eds.annotations = (clearCanaryAnnotations w.eds.annotations).1 ∨ w'.eds.annotations = w.eds.annotations)
    (hfind : findErs w' rs.name = some rs)
    (S : CoopStore w.eds rs gen items w.store) (hK : StratOk w.eds (fitItems rs items).length)
    (hinj : ∀ x y, gen x = gen y → x = y) (clock : Nat → Time) (h0 : w.now ≤ clock 0)
    (hclock : ∀ k, clock k + max 0 (ersFreq w.eds) ≤ clock (k + 1)) (G : GateFree w.eds rs (clock 0))
    (k : Nat) (hk : liveBound w rs items ≤ k) :
    ClusterConverged (coopRunW rs.name aff gen clock k w') rs aff items ∧
    (coopRunW rs.name aff gen clock k w').eds = w'.eds := by
  obtain ⟨_, hconv, hquiet⟩ := converges_of_live L F hdef E hann S hK hinj clock hclock G k hk
  have hmono : ∀ k, clock k ≤ clock (k + 1) := fun k => by have := hclock k; omega
  obtain ⟨s1, s2, _, s4, _⟩ := coopRunW_sim w' rs aff gen clock hfind (by rw [F.now]; exact h0) hmono k
  have C := coopSetup_of_live L F hdef E hann
  have S' := coopStore_of_frame F S
  obtain ⟨⟨st, hst⟩, _, _, _⟩ := coopRun_inv C S' (hK.transfer F.strategy) hinj clock
    (by rw [ersFreq_congr F.strategy]; exact hclock) (G.transfer F.strategy) k
  refine ⟨⟨?_, ?_, ?_, ?_⟩, s4⟩
  · rw [s4]; exact ⟨L.active, L.noCanary, L.gen⟩
  · rw [s1, s4]; exact hconv
  · refine ⟨_, s2, ?_, ?_⟩
    · rw [hst]
    · rw [s1]; exact hquiet
  · intro e hne
    rw [s4]
    exact ⟨ersRole_unknown_of_live L hne,
      fun st released aff' now ho => leftover_inert L e hne st released aff' now ho⟩

end Cluster

/-- **the leftover replica sets stutter.**  Once no canary is in progress with `rs` live, a reconcile of ANY other
replica set `name' ≠ rs.name` — the former active one after a promotion, the failed canary after a rollback —
changes neither the daemonset object, nor a pod, nor a node, nor the clock, nor `rs`: the store the replica-set
controller reads is the same and a request for `rs.name` finds the same replica set (only the leftover's own
status may be rewritten).  Such steps can therefore be interleaved anywhere between the cooperative rounds below
without any effect on them. -/
theorem L3Live_leftover_stutter {W : World} {rs : ERS} (L : LiveOn W rs) (name' : String) (hne : name' ≠ rs.name)
    (rel : String → Bool) (aff' : Bool) :
    (step W (.reconcileErs name' rel aff')).store = W.store ∧
    findErs (step W (.reconcileErs name' rel aff')) rs.name = findErs W rs.name ∧
    (step W (.reconcileErs name' rel aff')).eds = W.eds ∧
    (step W (.reconcileErs name' rel aff')).now = W.now := by
  cases hfe : findErs W name' with
  | none =>
    have : step W (.reconcileErs name' rel aff') = W := by simp only [step, hfe]
    rw [this]; exact ⟨rfl, rfl, rfl, rfl⟩
  | some e =>
    rw [step_reconcileErs_some W name' rel aff' e hfe]
    obtain ⟨_, _, hen⟩ := findErs_ns hfe
    have hquiet : (ersWrites W e rel aff').noPodWrite := by
      unfold ersWrites
      cases ho : ersOwner e W.store with
      | none => exact reconcileErs_noPodWrite_of_no_owner e W.store rel aff' W.now ho
      | some d =>
        have hd : d = W.eds := by
          have := (ersOwner_some ho).1
          simpa [World.store] using this
        subst hd
        obtain ⟨h1, h2, h3, h4, h5⟩ := leftover_inert L e (by rw [hen]; exact hne) W.store rel aff' W.now ho
        exact ⟨h3, h4, h5, h2, h1⟩
    obtain ⟨q1, q2, q3, q4, q5⟩ := hquiet
    have hpods : (applyErs W e (ersWrites W e rel aff')).pods = W.pods := by
      rw [applyErs_pods, q5, List.map_nil, List.append_nil]
      conv => rhs; rw [← List.map_id W.pods]
      apply List.map_congr_left
      intro p _
      exact podPatch_id _ _ _ _ (fun _ => by rw [q1, q4, q2, q3]; simp)
    refine ⟨?_, ?_, rfl, rfl⟩
    · show ({ edss := [W.eds], nodes := W.nodes, pods := (applyErs W e (ersWrites W e rel aff')).pods,
              settings := W.settings, daemonsets := W.daemonsets } : ErsStore) = W.store
      rw [hpods]; rfl
    · rw [findErs_map_setStatus W e (ersWrites W e rel aff') rs.name (applyErs W e (ersWrites W e rel aff')) rfl rfl]
      cases hfr : findErs W rs.name with
      | none => rfl
      | some r =>
        obtain ⟨_, _, hrn⟩ := findErs_ns hfr
        simp only [Option.map_some]
        congr 1
        unfold setStatusOf
        have : (r.name == e.name) = false := by
          rw [hrn, hen]; simpa using fun h => hne h.symm
        simp [this]

section Final
variable {w : World} {a u : ERS} {c : Canary} {aff : Bool} {gen : String → String} {items : List NodeItem}

/-- **3a. `L3Live_converges_after_promotion`.**  A canary is in progress in `w` (`a` active, `u ≠ a` up to date) and the
promotion rule of C05 holds at `w.now`.  Under the hypotheses of `C02_converges_store` for the replica set `u`
that is about to become live — cooperative store, strategy parameters ≥ 1, not paused / frozen, no settings, rounds
at least `max 0 reconcileFrequency` apart starting at or after `w.now`, no gate firing at the first one — the run

    `reconcileEds nn m`  ::  `k` cooperative rounds of `u`      (k ≥ liveBound w u items = 2·outdated + empty)

of the cluster machine ends in the converged cluster for `u`: every eligible node runs exactly one Ready pod of
spec.template — which the promotion left unchanged — and nothing else, further syncs of `u` write nothing, and
the former active replica set `a` (like every other replica set) is a leftover whose sync is inert. -/
theorem L3Live_converges_after_promotion (H : CanaryWorld w a u c) (hdue : PromotionDue c w.eds.annotations u w.now)
    (E : LiveEnv w u aff) (hfind : findErs w u.name = some u)
    (S : CoopStore w.eds u gen items w.store) (hK : StratOk w.eds (fitItems u items).length)
    (hinj : ∀ x y, gen x = gen y → x = y) (clock : Nat → Time) (h0 : w.now ≤ clock 0)
    (hclock : ∀ k, clock k + max 0 (ersFreq w.eds) ≤ clock (k + 1)) (G : GateFree w.eds u (clock 0))
    (nn m : String) (k : Nat) (hk : liveBound w u items ≤ k) :
    ClusterConverged (coopRunW u.name aff gen clock k (step w (.reconcileEds nn m))) u aff items ∧
    (coopRunW u.name aff gen clock k (step w (.reconcileEds nn m))).eds.templateHash = w.eds.templateHash ∧
    (coopRunW u.name aff gen clock k (step w (.reconcileEds nn m))).eds.template = w.eds.template ∧
    ersRole (coopRunW u.name aff gen clock k (step w (.reconcileEds nn m))).eds a.name = "unknown" := by
  obtain ⟨L, F, h1, h2, h3⟩ := L3Live_promotion_step H hdue nn m
  have hsub : EdsSub (edsWrites w m) (edsMain w.eds w.own u w.pods w.nodes w.now) := by
    rw [H.writes m]; exact EdsSub.refl _
  obtain ⟨hd, hc⟩ := hsub.main_none
  have hfind' : findErs (step w (.reconcileEds nn m)) u.name = some u :=
    findErs_applyEds w _ nn hd hc u hfind L.own
  obtain ⟨CC, heds⟩ := cluster_converges_of_live L F H.defaulted E (Or.inl h3) hfind' S hK hinj clock h0 hclock G k hk
  refine ⟨CC, by rw [heds]; exact h1, by rw [heds]; exact h2, (CC.leftover a H.ne).1⟩

/-- **3b. `L3Live_converges_after_rollback`.**  A FAILED canary is in progress in `w` (`u` carries a true Canary-Failed
condition and is not validated; `a ≠ u` is active).  Under the hypotheses of `C02_converges_store` for the
previously (and still) active replica set `a`, both runs

    `reconcileEds nn m`  ::  `k` cooperative rounds of `a`
    `reconcileEds nn m` with the spec write dropped  ::  `reconcileEds nn' m'`  ::  `k` cooperative rounds of `a`

(k ≥ liveBound w a items) end in the converged cluster for `a`: spec.template is `a`'s template again (the live
template is the previously active one), every eligible node runs exactly one Ready pod of it and nothing else,
further syncs of `a` write nothing, and the failed `u` is a leftover whose sync is inert. -/
theorem L3Live_converges_after_rollback (H : CanaryWorld w a u c) (hf : isCanaryFailed (some u) = true)
    (hv : isCanaryValid w.eds.annotations u.name = false)
    (E : LiveEnv w a aff) (hfind : findErs w a.name = some a)
    (S : CoopStore w.eds a gen items w.store) (hK : StratOk w.eds (fitItems a items).length)
    (hinj : ∀ x y, gen x = gen y → x = y) (clock : Nat → Time) (h0 : w.now ≤ clock 0)
    (hclock : ∀ k, clock k + max 0 (ersFreq w.eds) ≤ clock (k + 1)) (G : GateFree w.eds a (clock 0))
    (nn m : String) (k : Nat) (hk : liveBound w a items ≤ k) :
    (ClusterConverged (coopRunW a.name aff gen clock k (step w (.reconcileEds nn m))) a aff items ∧
      (coopRunW a.name aff gen clock k (step w (.reconcileEds nn m))).eds.templateHash = a.templateGeneration ∧
      (coopRunW a.name aff gen clock k (step w (.reconcileEds nn m))).eds.template = a.template ∧
      ersRole (coopRunW a.name aff gen clock k (step w (.reconcileEds nn m))).eds u.name = "unknown") ∧
    (∀ (f : Faults) (nn' m' : String), f.edsSpec = false →
      ClusterConverged
        (coopRunW a.name aff gen clock k (step (stepF f w (.reconcileEds nn m)) (.reconcileEds nn' m'))) a aff items ∧
      (coopRunW a.name aff gen clock k (step (stepF f w (.reconcileEds nn m)) (.reconcileEds nn' m'))).eds.templateHash
        = a.templateGeneration ∧
      (coopRunW a.name aff gen clock k (step (stepF f w (.reconcileEds nn m)) (.reconcileEds nn' m'))).eds.template
        = a.template ∧
      ersRole (coopRunW a.name aff gen clock k (step (stepF f w (.reconcileEds nn m)) (.reconcileEds nn' m'))).eds u.name
        = "unknown") := by
  have hne : u.name ≠ a.name := fun h => H.ne h.symm
  constructor
  · obtain ⟨L, F, h1, h2, h3, _⟩ := L3Live_rollback_writes H hf hv nn m _ (BothWrites.full w m)
    have hsub : EdsSub (edsWrites w m) (edsMain w.eds w.own u w.pods w.nodes w.now) := by
      rw [H.writes m]; exact EdsSub.refl _
    obtain ⟨hd, hc⟩ := hsub.main_none
    have hfind' : findErs (step w (.reconcileEds nn m)) a.name = some a := findErs_applyEds w _ nn hd hc a hfind L.own
    obtain ⟨CC, heds⟩ := cluster_converges_of_live L F H.defaulted E (Or.inl h3) hfind' S hK hinj clock h0 hclock G k hk
    exact ⟨CC, (congrArg EDS.templateHash heds).trans h1, (congrArg EDS.template heds).trans h2, (CC.leftover u hne).1⟩
  · intro f nn' m' hp
    obtain ⟨H1, hv1, F1, _, _, hann1⟩ := L3Live_rollback_pending H hf hv nn m _ (SpecDropped.mask f w m hp)
    obtain ⟨L, F2, h1, h2, h3, _⟩ := L3Live_rollback_writes H1 hf hv1 nn' m' _ (BothWrites.full _ m')
    have hsub1 : EdsSub (maskEds f (edsWrites w m)) (edsMain w.eds w.own u w.pods w.nodes w.now) := by
      rw [← H.writes m]; exact EdsSub.mask f _
    obtain ⟨hd1, hc1⟩ := hsub1.main_none
    have hfind1 : findErs (stepF f w (.reconcileEds nn m)) a.name = some a :=
      findErs_applyEds w _ nn hd1 hc1 a hfind H1.aOwn
    have hsub2 : EdsSub (edsWrites (applyEds w (maskEds f (edsWrites w m)) nn) m')
        (edsMain (applyEds w (maskEds f (edsWrites w m)) nn).eds (applyEds w (maskEds f (edsWrites w m)) nn).own u
          (applyEds w (maskEds f (edsWrites w m)) nn).pods (applyEds w (maskEds f (edsWrites w m)) nn).nodes
          (applyEds w (maskEds f (edsWrites w m)) nn).now) := by
      rw [H1.writes m']; exact EdsSub.refl _
    obtain ⟨hd2, hc2⟩ := hsub2.main_none
    have hfind2 : findErs (step (stepF f w (.reconcileEds nn m)) (.reconcileEds nn' m')) a.name = some a :=
      findErs_applyEds _ _ nn' hd2 hc2 a hfind1 L.own
    have h3' : (step (stepF f w (.reconcileEds nn m)) (.reconcileEds nn' m')).eds.annotations =
        (clearCanaryAnnotations w.eds.annotations).1 := by rw [← hann1]; exact h3
    obtain ⟨CC, heds⟩ := cluster_converges_of_live L (F1.trans F2) H.defaulted E (Or.inl h3') hfind2 S hK hinj clock
      h0 hclock G k hk
    exact ⟨CC, (congrArg EDS.templateHash heds).trans h1, (congrArg EDS.template heds).trans h2, (CC.leftover u hne).1⟩

end Final

end Eds

/-! ## 6. Non-vacuity: a two-node cluster in the middle of a canary

Daemonset `ns/d` (defaulted, auto canary of 10 minutes on one node, maxUnavailable 1, reconcile frequency 10 s);
spec.template has hash `new`; replica set `d-old` (template `old`) is active and runs `old-2` on node `n2`, replica
set `d-new` (template `new`, created at 0) is the canary and runs `d-new-n1` on the canary node `n1`. -/
namespace Eds.ExLive
open Eds Eds.Cluster

def edsL (ann : SMap := []) : EDS := { exEds04 true with templateHash := "new", annotations := ann }

def ersL (name tg : String) (conds : List Cond := []) : ERS :=
  { exErs04 name tg conds with annotations := [⟨K.templateHashAnnot, tg⟩] }

def failedL : Cond := ⟨"Canary-Failed", "True", 30 * sec, 30 * sec, "", ""⟩

def podsL : List Pod := [exPod04 "d-new-n1" "n1" "d-new" "new" true, exPod04 "old-2" "n2" "d-old" "old"]

/-- the canary has run for 11 minutes: the promotion rule holds. -/
def wP : World :=
  { eds := edsL, erss := [ersL "d-old" "old", ersL "d-new" "new"], pods := podsL,
    nodes := [(exNode01 "n1").node, (exNode01 "n2").node], settings := [], daemonsets := [], now := 11 * minute }

/-- one minute into the canary the canary replica set has been marked failed. -/
def wR : World := { wP with erss := [ersL "d-old" "old", ersL "d-new" "new" [failedL]], now := minute }

def aL : ERS := ersL "d-old" "old"
def uL : ERS := ersL "d-new" "new"
def uF : ERS := ersL "d-new" "new" [failedL]
def cL : Canary := (exStrategy04).canary.getD default
def itemsL : List NodeItem := [exNode01 "n1", exNode01 "n2"]
def genNew (n : String) : String := "d-new-" ++ n
def genOld (n : String) : String := "d-old-" ++ n
def clockP (k : Nat) : Time := 11 * minute + (k : Int) * (10 * sec)
def clockR (k : Nat) : Time := minute + (k : Int) * (10 * sec)

theorem genNew_inj : ∀ x y, genNew x = genNew y → x = y := fun _ _ h => (String.append_right_inj "d-new-").mp h
theorem genOld_inj : ∀ x y, genOld x = genOld y → x = y := fun _ _ h => (String.append_right_inj "d-old-").mp h

/-! ### the hypotheses of `L3Live_promotion_step` / `L3Live_converges_after_promotion` -/

theorem canaryWorldP : CanaryWorld wP aL uL cL where
  defaulted := by decide
  valid := by decide
  canary := by decide
  names := by decide
  hashes := by decide
  annotGen := by decide
  aOwn := by decide
  upToDate := by decide
  active := by decide
  ne := by decide

theorem dueP : PromotionDue cL wP.eds.annotations uL wP.now := by decide

theorem envP : LiveEnv wP uL true where
  named := by decide
  notPaused := by decide
  notFrozen := by decide
  noOldDs := by decide
  affOk := by decide

theorem edsPodsL : edsPodsOf wP.eds wP.store = podsL := by decide

/-- a generated name `pre ++ m` is not the name `nm` when the two differ within the prefix. -/
theorem gen_ne (pre nm : String) (cs ds : List Char) (e1 : pre.toList = cs) (e2 : nm.toList = ds)
    (hdiff : ∀ rest, cs ++ rest ≠ ds) (m : String) : pre ++ m ≠ nm := by
  intro hm
  have h2 := congrArg String.toList hm
  rw [String.toList_append, e1, e2] at h2
  exact hdiff _ h2

/-- no generated name collides with a stored pod of another node. -/
theorem genNewFresh : ∀ q ∈ podsL, ∀ m, genNew m = q.name → m = q.nodeName := by
  intro q hq m hm
  simp only [podsL, List.mem_cons, List.mem_nil_iff, or_false] at hq
  rcases hq with rfl | rfl
  · exact (String.append_right_inj "d-new-").mp hm
  · exact absurd hm (gen_ne "d-new-" _ ['d', '-', 'n', 'e', 'w', '-'] ['o', 'l', 'd', '-', '2'] (by decide) (by decide)
      (by intro rest h; simp at h) m)

theorem genOldFresh : ∀ q ∈ podsL, ∀ m, genOld m = q.name → m = q.nodeName := by
  intro q hq m hm
  simp only [podsL, List.mem_cons, List.mem_nil_iff, or_false] at hq
  rcases hq with rfl | rfl
  · exact absurd hm (gen_ne "d-old-" _ ['d', '-', 'o', 'l', 'd', '-'] ['d', '-', 'n', 'e', 'w', '-', 'n', '1']
      (by decide) (by decide) (by intro rest h; simp at h) m)
  · exact absurd hm (gen_ne "d-old-" _ ['d', '-', 'o', 'l', 'd', '-'] ['o', 'l', 'd', '-', '2'] (by decide) (by decide)
      (by intro rest h; simp at h) m)

theorem storeP : CoopStore wP.eds uL genNew itemsL wP.store where
  owner := by decide
  hitems := by decide
  noSetting := by decide
  nodesNodup := by decide
  nodeNamed := by decide
  hashOk := by decide
  settled := by rw [edsPodsL]; decide
  onePer := by rw [edsPodsL]; exact onePerNode_of_nodup (by decide)
  nameNode := by rw [edsPodsL]; decide
  genFresh := by rw [edsPodsL]; exact genNewFresh

theorem stratP : StratOk wP.eds (fitItems uL itemsL).length :=
  StratOk.of_spec _ _ (by decide) (by decide) (by decide) (by decide) (by decide)

theorem clockP_ok : ∀ k, clockP k + max 0 (ersFreq wP.eds) ≤ clockP (k + 1) := by
  intro k
  have : ersFreq wP.eds = 10 * sec := by decide
  rw [this]
  unfold clockP sec
  push_cast
  omega

theorem gateP : GateFree wP.eds uL (clockP 0) := by
  intro c hc
  cases hc

/-- one outdated node (`n2` runs the old template), no empty node: two rounds suffice. -/
example : liveBound wP uL itemsL = 2 := by decide

/-- `L3Live_promotion_step` applied. -/
example : LiveOn (step wP (.reconcileEds "x" "auto")) uL ∧
    (step wP (.reconcileEds "x" "auto")).eds.templateHash = "new" :=
  let h := L3Live_promotion_step canaryWorldP dueP "x" "auto"
  ⟨h.1, h.2.2.1⟩

/-- `L3Live_converges_after_promotion` applied: promotion, then two cooperative rounds of `d-new`. -/
example : ClusterConverged (coopRunW "d-new" true genNew clockP 2 (step wP (.reconcileEds "x" "auto"))) uL true itemsL :=
  (L3Live_converges_after_promotion canaryWorldP dueP envP (by decide) storeP stratP genNew_inj clockP (by decide)
    clockP_ok gateP "x" "auto" 2 (by decide)).1

/-! ### the hypotheses of `L3Live_rollback_steps` / `L3Live_converges_after_rollback` -/

theorem canaryWorldR : CanaryWorld wR aL uF cL where
  defaulted := by decide
  valid := by decide
  canary := by decide
  names := by decide
  hashes := by decide
  annotGen := by decide
  aOwn := by decide
  upToDate := by decide
  active := by decide
  ne := by decide

theorem failedR : isCanaryFailed (some uF) = true := by decide
theorem notValidR : isCanaryValid wR.eds.annotations uF.name = false := by decide

theorem envR : LiveEnv wR aL true where
  named := by decide
  notPaused := by decide
  notFrozen := by decide
  noOldDs := by decide
  affOk := by decide

theorem edsPodsR : edsPodsOf wR.eds wR.store = podsL := by decide

theorem storeR : CoopStore wR.eds aL genOld itemsL wR.store where
  owner := by decide
  hitems := by decide
  noSetting := by decide
  nodesNodup := by decide
  nodeNamed := by decide
  hashOk := by decide
  settled := by rw [edsPodsR]; decide
  onePer := by rw [edsPodsR]; exact onePerNode_of_nodup (by decide)
  nameNode := by rw [edsPodsR]; decide
  genFresh := by rw [edsPodsR]; exact genOldFresh

theorem stratR : StratOk wR.eds (fitItems aL itemsL).length :=
  StratOk.of_spec _ _ (by decide) (by decide) (by decide) (by decide) (by decide)

theorem clockR_ok : ∀ k, clockR k + max 0 (ersFreq wR.eds) ≤ clockR (k + 1) := by
  intro k
  have : ersFreq wR.eds = 10 * sec := by decide
  rw [this]
  unfold clockR sec
  push_cast
  omega

theorem gateR : GateFree wR.eds aL (clockR 0) := by
  intro c hc
  cases hc

/-- one outdated node (the canary node `n1` runs the failed template), no empty node. -/
example : liveBound wR aL itemsL = 2 := by decide

/-- `L3Live_rollback_steps` applied: in one step, and in two when the spec write of the first is dropped. -/
example : LiveOn (step wR (.reconcileEds "x" "auto")) aL ∧
    LiveOn (step (stepF { edsSpec := false } wR (.reconcileEds "x" "auto")) (.reconcileEds "y" "auto")) aL :=
  let h := L3Live_rollback_steps canaryWorldR failedR notValidR "x" "auto"
  ⟨h.1.1, (h.2 { edsSpec := false } "y" "auto" rfl).1⟩

/-- `L3Live_converges_after_rollback` applied (both runs). -/
example :
    ClusterConverged (coopRunW "d-old" true genOld clockR 2 (step wR (.reconcileEds "x" "auto"))) aL true itemsL ∧
    ClusterConverged (coopRunW "d-old" true genOld clockR 2
      (step (stepF { edsSpec := false } wR (.reconcileEds "x" "auto")) (.reconcileEds "y" "auto"))) aL true itemsL :=
  let h := L3Live_converges_after_rollback canaryWorldR failedR notValidR envR (by decide) storeR stratR genOld_inj clockR
    (by decide) clockR_ok gateR "x" "auto" 2 (by decide)
  ⟨h.1.1, (h.2 { edsSpec := false } "y" "auto" rfl).1⟩

/-! ### the runs, evaluated -/

/-- (active, canary block, hash of spec.template). -/
def viewE (w : World) : String × Option CanaryStatus × String :=
  (w.eds.status.activeReplicaSet, w.eds.status.canary, w.eds.templateHash)
/-- pods as (name, node, template hash, Ready). -/
def viewP (w : World) : List (String × String × Option String × Bool) :=
  w.pods.map (fun p => (p.name, p.nodeName, SMap.get? p.annotations K.templateHashAnnot, p.ready))
/-- both. -/
def viewL (w : World) : (String × Option CanaryStatus × String) × List (String × String × Option String × Bool) :=
  (viewE w, viewP w)

/-- promotion: the canary block goes, `d-new` is active, spec.template stays `new`; round 1 deletes `old-2`, round 2
creates the `new` pod on `n2`. -/
example : viewL (step wP (.reconcileEds "x" "auto")) =
    (("d-new", none, "new"), [("d-new-n1", "n1", some "new", true), ("old-2", "n2", some "old", true)]) := by decide
example : viewL (coopRunW "d-new" true genNew clockP 1 (step wP (.reconcileEds "x" "auto"))) =
    (("d-new", none, "new"), [("d-new-n1", "n1", some "new", true)]) := by decide
example : viewL (coopRunW "d-new" true genNew clockP 2 (step wP (.reconcileEds "x" "auto"))) =
    (("d-new", none, "new"), [("d-new-n1", "n1", some "new", true), ("d-new-n2", "n2", some "new", true)]) := by decide
/-- the bound is attained: one round is not enough. -/
example : ¬ ClusterConverged (coopRunW "d-new" true genNew clockP 1 (step wP (.reconcileEds "x" "auto"))) uL true itemsL := by
  intro h
  obtain ⟨p, hp, _⟩ := h.pods.1 (exNode01 "n2") (by decide)
  have hnil : (edsPodsOf (coopRunW "d-new" true genNew clockP 1 (step wP (.reconcileEds "x" "auto"))).eds
      (coopRunW "d-new" true genNew clockP 1 (step wP (.reconcileEds "x" "auto"))).store).filter
      (fun q => q.nodeName == (exNode01 "n2").node.name) = [] := by decide
  rw [hnil] at hp
  cases hp
/-- one minute earlier the rule does not hold and the reconcile does not promote. -/
example : ¬ PromotionDue cL wP.eds.annotations uL (10 * minute) ∧
    (step { wP with now := 10 * minute } (.reconcileEds "x" "auto")).eds.status.activeReplicaSet = "d-old" := by decide

/-- rollback: the canary block goes, `d-old` stays active, spec.template is `old` again; round 1 deletes the failed
canary pod, round 2 creates the `old` pod on `n1`. -/
example : viewL (step wR (.reconcileEds "x" "auto")) =
    (("d-old", none, "old"), [("d-new-n1", "n1", some "new", true), ("old-2", "n2", some "old", true)]) := by decide
example : viewL (coopRunW "d-old" true genOld clockR 2 (step wR (.reconcileEds "x" "auto"))) =
    (("d-old", none, "old"), [("old-2", "n2", some "old", true), ("d-old-n1", "n1", some "old", true)]) := by decide
/-- the spec write dropped: the status is rolled back, spec.template still `new`; the second reconcile restores it. -/
example : viewL (stepF { edsSpec := false } wR (.reconcileEds "x" "auto")) =
    (("d-old", none, "new"), [("d-new-n1", "n1", some "new", true), ("old-2", "n2", some "old", true)]) := by decide
example : viewL (step (stepF { edsSpec := false } wR (.reconcileEds "x" "auto")) (.reconcileEds "y" "auto")) =
    (("d-old", none, "old"), [("d-new-n1", "n1", some "new", true), ("old-2", "n2", some "old", true)]) := by decide
/-- the leftover replica sets exist and are inert: a sync of `d-old` after the promotion, of `d-new` after the
rollback, writes no pod although its own pod is still there. -/
example : (ersWrites (step wP (.reconcileEds "x" "auto")) aL (fun _ => true) true).noPodWrite ∧
    (ersWrites (step wR (.reconcileEds "x" "auto")) uF (fun _ => true) true).noPodWrite := by decide

/-! ### the other theorems applied -/

/-- `L3Live_promotion_premises` / `L3Live_rollback_premises`: the premises of `C02_converges_store` after the step. -/
example : CoopSetup (step wP (.reconcileEds "x" "auto")).eds uL true :=
  (L3Live_promotion_premises canaryWorldP dueP envP storeP stratP (clockP 0) gateP "x" "auto").1
example : CoopSetup (step wR (.reconcileEds "x" "auto")).eds aL true :=
  (L3Live_rollback_premises canaryWorldR failedR notValidR envR storeR stratR (clockR 0) gateR "x" "auto").1

/-- `L3Live_promotion_stepF`: the clean-up deletions fail, the promotion still goes through. -/
example : LiveOn (stepF { ersDelete := fun _ => false } wP (.reconcileEds "x" "auto")) uL :=
  (L3Live_promotion_stepF canaryWorldP dueP "x" "auto" _ rfl rfl).1

/-- `L3Live_rollback_pending`: status AND spec write dropped — the failed canary is still in progress. -/
example : CanaryWorld (stepF { edsStatus := false, edsSpec := false } wR (.reconcileEds "x" "auto")) aL uF cL :=
  (L3Live_rollback_pending canaryWorldR failedR notValidR "x" "auto" _ (SpecDropped.mask _ wR "auto" rfl)).1

/-- `L3Live_leftover_stutter`: after the promotion a sync of the former active `d-old` changes nothing the rounds
of `d-new` read; after the rollback the same for the failed `d-new`. -/
example : (step (step wP (.reconcileEds "x" "auto")) (.reconcileErs "d-old" (fun _ => true) true)).store =
    (step wP (.reconcileEds "x" "auto")).store :=
  (L3Live_leftover_stutter (L3Live_promotion_step canaryWorldP dueP "x" "auto").1 "d-old" (by decide) _ _).1
example : (step (step wR (.reconcileEds "x" "auto")) (.reconcileErs "d-new" (fun _ => true) true)).store =
    (step wR (.reconcileEds "x" "auto")).store :=
  (L3Live_leftover_stutter (L3Live_rollback_steps canaryWorldR failedR notValidR "x" "auto").1.1 "d-new" (by decide) _ _).1

/-- the other disjunct of the promotion rule: the canary-valid annotation names `d-new` — one minute into the canary,
and although it carries a failure mark, the reconcile promotes it (which is why the rollback theorems assume
`isCanaryValid … = false`). -/
def wV : World := { wR with eds := edsL [⟨K.canaryValidAnnot, "d-new"⟩] }

theorem canaryWorldV : CanaryWorld wV aL uF cL where
  defaulted := by decide
  valid := by decide
  canary := by decide
  names := by decide
  hashes := by decide
  annotGen := by decide
  aOwn := by decide
  upToDate := by decide
  active := by decide
  ne := by decide

example : PromotionDue cL wV.eds.annotations uF wV.now ∧ isCanaryFailed (some uF) = true := by decide
example : LiveOn (step wV (.reconcileEds "x" "auto")) uF :=
  (L3Live_promotion_step canaryWorldV (by decide) "x" "auto").1
example : viewE (step wV (.reconcileEds "x" "auto")) = ("d-new", none, "new") := by decide

end Eds.ExLive
