import EdsProofs.BridgeCanary
import EdsProps.C05
/-
  EdsProps.C05s — property theorems stated directly about the Lean definitions that the translator
  regenerates from the Go source on every run (EdsModel/Generated/Dec*.lean), obtained by
  transporting the model-level theorems along the `src_*` bridges.  These are statements about what
  the code says *now*: `none` is a Go panic, so each also says the function does not crash.
-/
namespace Eds
open Spec.C05
namespace Src
export Eds.Generated.Decisions (selectCurrentReplicaSet)
end Src

/-! ### C05 — promotion rule, on the translated `selectCurrentReplicaSet` -/

/-- the translated function never panics when the ExtendedDaemonSet and the up-to-date replica set
are non-nil (the active one may be nil). -/
theorem C05_src_total (d : GEds) (active : Option ERS) (u : ERS) (now : Time) (same : Bool) :
    ∃ r, Src.selectCurrentReplicaSet (some d) active (some u) now same = some r :=
  ⟨_, Bridge.src_selectCurrent d active u now same⟩

/-- **Only-if, on the code.** If the translated function returns the up-to-date replica set `u`
although a different active one `a` exists, the promotion rule of the statement holds. -/
theorem C05_src_only_if (d : GEds) (a u : ERS) (now : Time) (rq : Dur) (hne : a ≠ u)
    (hmodes : ∀ c, d.spec.strategy.canary = some c → c.validationMode = "auto" ∨ c.validationMode = "manual")
    (hmanual : ∀ c, d.spec.strategy.canary = some c → c.validationMode = "manual" → c.duration = none)
    (h : Src.selectCurrentReplicaSet (some d) (some a) (some u) now false = some (some u, rq)) :
    promotionAllowed d.spec.strategy.canary d.annotations u now = true := by
  rw [Bridge.src_selectCurrent] at h
  simp only [Option.some.injEq, Prod.mk.injEq] at h
  obtain ⟨h1, h2⟩ := h
  apply C05_only_if d.spec.strategy.canary d.annotations a u now rq hmodes hmanual
  cases hp : (selectCurrent d.spec.strategy.canary d.annotations (some a) u false now).1 with
  | active =>
    simp only [hp, Bridge.pickErs, Option.some.injEq] at h1
    exact absurd h1 hne
  | upToDate =>
    apply Prod.ext
    · exact hp
    · exact h2

/-- **A failed canary is never promoted by elapsed time, on the code.** -/
theorem C05_src_failed_never_by_time (d : GEds) (c : Canary) (a u : ERS) (now : Time)
    (hc : d.spec.strategy.canary = some c)
    (hf : isCanaryFailed (some u) = true) (hv : isCanaryValid d.annotations u.name = false) :
    ∃ rq, Src.selectCurrentReplicaSet (some d) (some a) (some u) now false = some (some a, rq) := by
  refine ⟨(selectCurrent (some c) d.annotations (some a) u false now).2, ?_⟩
  rw [Bridge.src_selectCurrent, hc, C05_failed_never_by_time c d.annotations a u now hf hv]
  rfl

/-- **Adoption, on the code**: a nil active replica set ⇒ the matching one is returned. -/
theorem C05_src_adopt_when_missing (d : GEds) (u : ERS) (now : Time) :
    ∃ rq, Src.selectCurrentReplicaSet (some d) none (some u) now false = some (some u, rq) := by
  refine ⟨(selectCurrent d.spec.strategy.canary d.annotations none u false now).2, ?_⟩
  rw [Bridge.src_selectCurrent, C05_adopt_when_missing]
  rfl


end Eds
