import EdsModel.Conc
import EdsModel.Generated.Facts
import EdsProofs.Conc
/-
  C17 — Concurrent reconciles and parallel pod operations are race free, lose no error.

  What a Lean model can carry: the synchronisation skeleton of the three parallel helpers under a
  sequentially consistent interleaving semantics (EdsModel/Conc.lean), with the discipline of each
  helper taken from the facts extracted from the source.  Data-race freedom of the compiled program
  under the Go memory model is a runtime fact: the race-detector run of the harness is supporting
  evidence (partial by nature, DESIGN.md §11).
-/
namespace Eds
open Conc Generated

/-- **No conflicting access** (obligation on the extracted facts): every write to a variable
shared between goroutines of the parallel helpers is a channel send or an append under a lock. -/
theorem C17_no_conflict :
    Facts.goroutineWrites.all (fun w => w.2.2.2 == "chan-send" || w.2.2.2 == "locked-append") = true := by
  decide

/-- the extractor still sees the helpers (a helper it silently stops seeing would weaken the
obligation above). -/
theorem C17_helpers_known :
    (Facts.goroutineWrites.map (fun w => w.2.1)).eraseDups = ["createPods", "deletePods", "deletePodSlice"] := by
  decide

/-! ### Fan-in completeness for the synchronised disciplines

All statements below are for EVERY number of goroutines `n`, EVERY failure predicate `fails` and
EVERY schedule `sched` (an arbitrary list of goroutine indices, repetitions / starvation / indices
of goroutines that do not exist included).  The invariants (`Conc.SafeInv`, `Conc.SyncInv`) and
their preservation by `step` are in EdsProofs/Conc.lean. -/

/-- **Channel fan-in is complete**: when every goroutine is done, the errors drained from the
channel are exactly the injected ones — none lost, none duplicated — for every interleaving. -/
theorem C17_channel_fanin_complete (n : Nat) (fails : Nat → Bool) (sched : List Nat) :
    finished (run .chan fails sched (init n)) = true →
    (run .chan fails sched (init n)).shared.Perm ((List.range n).filter fails) :=
  sync_complete (by decide) fails sched n

theorem C17_channel_count (n : Nat) (fails : Nat → Bool) (sched : List Nat) :
    finished (run .chan fails sched (init n)) = true →
    (run .chan fails sched (init n)).shared.length = nFails fails n :=
  fun h => (C17_channel_fanin_complete n fails sched h).length_eq

/-- **Append under the mutex is complete**: same statement for the `locked` discipline. -/
theorem C17_locked_append_complete (n : Nat) (fails : Nat → Bool) (sched : List Nat) :
    finished (run .locked fails sched (init n)) = true →
    (run .locked fails sched (init n)).shared.Perm ((List.range n).filter fails) :=
  sync_complete (by decide) fails sched n

theorem C17_locked_count (n : Nat) (fails : Nat → Bool) (sched : List Nat) :
    finished (run .locked fails sched (init n)) = true →
    (run .locked fails sched (init n)).shared.length = nFails fails n :=
  fun h => (C17_locked_append_complete n fails sched h).length_eq

/-- **Safety at every intermediate point** of a synchronised helper (the run need not be
finished): the collected list is duplicate free and only holds ids of failing goroutines. -/
theorem C17_sync_prefix_safe (d : Discipline) (_hd : d = .chan ∨ d = .locked) (n : Nat)
    (fails : Nat → Bool) (sched : List Nat) :
    (run d fails sched (init n)).shared.Nodup ∧
    ∀ i ∈ (run d fails sched (init n)).shared, i < n ∧ fails i = true :=
  safe_run d fails sched n

/-! ### The unsynchronised append -/

/-- the classic lost update: both goroutines fail, both read the empty slice, both write back
"what I read ++ my error" — two failures, ONE returned error. -/
def lostUpdateSchedule : List Nat := [0, 1, 0, 1, 0, 1]

/-- **An unsynchronised append loses errors**: there is an interleaving of two failing goroutines
after which the caller sees a single error. -/
theorem C17_unsynchronised_loses :
    ∃ sched, finished (run .racy (fun _ => true) sched (init 2)) = true ∧
      (run .racy (fun _ => true) sched (init 2)).shared.length = 1 :=
  ⟨lostUpdateSchedule, by decide⟩

/-- the surviving error is the one of the goroutine that wrote last. -/
example : (run .racy (fun _ => true) lostUpdateSchedule (init 2)).shared = [1] := by decide

/-- … but not when the goroutines happen to run one after the other. -/
theorem C17_unsynchronised_sequential_ok :
    finished (run .racy (fun _ => true) [0, 0, 0, 1, 1, 1] (init 2)) = true ∧
    (run .racy (fun _ => true) [0, 0, 0, 1, 1, 1] (init 2)).shared = [0, 1] := by decide

/-- **Errors can be lost, never invented**: even without synchronisation, at every point of every
interleaving the shared list is duplicate free, every id in it is a failing goroutine `< n`, and
(hence) it never holds more errors than were injected.  (Stronger than asked: no `finished`
hypothesis is needed for the length bound.) -/
theorem C17_racy_never_invents (n : Nat) (fails : Nat → Bool) (sched : List Nat) :
    (∀ i ∈ (run .racy fails sched (init n)).shared, i < n ∧ fails i = true) ∧
    (run .racy fails sched (init n)).shared.Nodup ∧
    (run .racy fails sched (init n)).shared.length ≤ nFails fails n :=
  ⟨(safe_run .racy fails sched n).2, (safe_run .racy fails sched n).1,
    shared_length_le .racy fails sched n⟩

/-! ### Progress -/

/-- **The `finished` hypothesis is satisfiable for every `n`**: the round-robin schedule that runs
each goroutine three times in turn finishes, whatever the discipline and the failures. -/
theorem C17_progress (d : Discipline) (n : Nat) (fails : Nat → Bool) :
    finished (run d fails ((List.range n).flatMap (fun i => [i, i, i])) (init n)) = true :=
  roundRobin_finished d fails n

/-- … so for the synchronised disciplines that schedule returns exactly the injected errors. -/
theorem C17_roundRobin_complete (d : Discipline) (hd : d = .chan ∨ d = .locked) (n : Nat)
    (fails : Nat → Bool) :
    (run d fails ((List.range n).flatMap (fun i => [i, i, i])) (init n)).shared.Perm
      ((List.range n).filter fails) :=
  sync_complete (by rcases hd with rfl | rfl <;> decide) fails _ n (C17_progress d n fails)

end Eds
