import EdsProps.C06
import EdsProps.C04
import EdsProofs.CanaryRestart
/-
  C06 (history level) — the restart timeline kept in the PodRestarting condition of a replica set, the
  stickiness of Canary-Failed and the monotonicity of the restart span, over ARBITRARY runs.

  Subject: `reconcileErs` (EdsModel/ReconcileErs.lean) iterated over a list of syncs of one replica set
  (`Sync`, `stepErs`, `runErs` of EdsProofs/ErsRun.lean): sync k reads the status sync k−1 left
  (`statusUpdate` applied, or the status unchanged when the sync wrote nothing); everything else a sync
  reads — the store with the owner EDS and its status (hence the ROLE of the replica set), nodes, pods
  with their container statuses, settings, the annotations of the EDS, the back-off oracle, the
  affinity mode and the clock — is arbitrary and unrelated from one sync to the next.  A replica set's
  status is written by the syncs of that replica set only, so syncs of other objects are covered by
  the arbitrary stores.  No hypothesis on the clock is needed in this file (in particular not that it
  is non-decreasing): the clock never enters the PodRestarting condition.

  WHAT A SYNC RECORDS (`recorded`, EdsProofs/CanaryRestart.lean; `C06_recorded_iff`).  The model — like
  the Go code — stamps the PodRestarting condition with `metav1.NewTime(newRestartTime)`, NOT with `now`:
    * `newRestartTime` = `observedRestart pods`: the latest `lastState.terminated.finishedAt` among the
      container statuses with a non-zero restart count (`MostRecentRestart`) of the evaluated pods whose
      highest restart count is non-zero; Go's zero time when there is none (`observedRestart_spec`,
      `mostRecentRestart_spec`);
    * the evaluated pods are the pods on canary nodes that are not terminating and match the replica
      set's template (`canaryCheckedOf`);
    * the sync RECORDS that time iff it is a full run in the canary role (owner found and defaulted, not
      gated by LastFullSync, node listing succeeded, no nil dereference), the time is not the zero time
      and it is STRICTLY AFTER the stored `PodRestarting.lastUpdate`.  A sync that sees again a restart it
      (or an earlier sync) has already recorded does not record: "the latest sync that observed a
      restart" of the informal text is, in the code, "the latest sync that observed a restart newer than
      every restart recorded before".  Consequently the recorded times of a run are strictly increasing
      (`C06_restart_log_increasing`) and `lastUpdate` is their maximum.

    1  `C06_restart_timeline`         — fresh replica set (no PodRestarting condition): after any run the
                                        condition is absent iff no sync recorded; otherwise it is True with
                                        `lastTransition` = the FIRST recorded time and `lastUpdate` = the LAST;
       `C06_restart_timeline_general` — any initial condition (True: `lastTransition` kept; not True: reset
                                        by the first recording);
       `C06_restart_first`, `C06_restart_first_fixed`, `C06_restart_latest` — the same, reading "first" and
                                        "latest" off the position of the syncs in the run;
       `C06_restart_span_value`       — the span the RestartsTimeoutExceeded trigger of the next sync reads.
    2  `C06_failed_sticky_history`    — once Canary-Failed is True after some sync, it is True after every
                                        later sync as long as no later sync runs the replica set in the
                                        ACTIVE role (hypothesis weaker than "stays the canary": the
                                        unknown role keeps it as well).  The hypothesis is necessary: the
                                        active role rewrites Canary-Failed to False (last `example`).
    3  `C06_restart_span_monotone`    — [hyp: a stored PodRestarting condition, if any, is True — holds for
                                        a fresh replica set and is preserved] `lastUpdate − lastTransition`
                                        never decreases along the run.  Without the hypothesis the statement
                                        is FALSE in the model: a stored condition with status ≠ "True" (which
                                        this controller never writes) is reset by the first recording and its
                                        span drops to 0 — `C06_restart_span_counterexample`, by `decide`.

  All at full strength; no `_partial` theorem in this file.
-/
namespace Eds

/-! ### The log of a run -/

/-- the times recorded by the syncs of a run, in order. -/
def restartLog (rs : ERS) : List Sync → List Time
  | [] => []
  | s :: ss => (recorded rs s).toList ++ restartLog (stepErs rs s) ss

/-- recording a list of times in order. -/
def applyLog (v : RView) (log : List Time) : RView := log.foldl (fun v t => recordView t v) v

theorem restartLog_append (rs : ERS) (ss ts : List Sync) :
    restartLog rs (ss ++ ts) = restartLog rs ss ++ restartLog (runErs rs ss) ts := by
  induction ss generalizing rs with
  | nil => rfl
  | cons s ss ih => simp only [List.cons_append, restartLog, runErs_cons, ih, List.append_assoc]

/-- no sync of the run records iff the log is empty. -/
theorem restartLog_eq_nil_iff (rs : ERS) (ss : List Sync) :
    restartLog rs ss = [] ↔ ∀ k (h : k < ss.length), recorded (runErs rs (ss.take k)) ss[k] = none := by
  induction ss generalizing rs with
  | nil => exact ⟨fun _ k h => absurd h (by simp), fun _ => rfl⟩
  | cons s ss ih =>
    simp only [restartLog, List.append_eq_nil_iff, ih]
    constructor
    · rintro ⟨h0, h1⟩ k hk
      cases k with
      | zero =>
        cases hr : recorded rs s with
        | none => simpa using hr
        | some t => rw [hr] at h0; cases h0
      | succ k =>
        have := h1 k (by simpa using hk)
        simpa only [List.take_succ_cons, runErs_cons, List.getElem_cons_succ] using this
    · intro h
      refine ⟨?_, fun k hk => ?_⟩
      · have := h 0 (by simp)
        simp only [List.take_zero, runErs_nil, List.getElem_cons_zero] at this
        rw [this]; rfl
      · have := h (k + 1) (by simpa using hk)
        simpa only [List.take_succ_cons, runErs_cons, List.getElem_cons_succ] using this

/-- **The stored condition after a run** is the initial one with the log applied. -/
theorem restartView_run (rs : ERS) (ss : List Sync) :
    restartView (runErs rs ss).status.conds = applyLog (restartView rs.status.conds) (restartLog rs ss) := by
  induction ss generalizing rs with
  | nil => rfl
  | cons s ss ih =>
    rw [runErs_cons, ih, restartView_step, restartLog]
    unfold applyLog
    rw [List.foldl_append]
    cases recorded rs s <;> rfl

/-! ### What a sync records -/

/-- **What a sync records.**  `recorded rs s = some t` iff the sync is a full canary-role run whose
`manageCanaryPodFailures` returns some loop state `fs` (`canaryFailOf`), `t` is the restart time the
loop observed, `t` is not Go's zero time and `t` is strictly after the stored `lastUpdate`. -/
theorem C06_recorded_iff (rs : ERS) (s : Sync) (t : Time) :
    recorded rs s = some t ↔
      ∃ fs, canaryFailOf rs s = some fs ∧ t = observedRestart (canaryCheckedOf rs s) ∧
        t ≠ zeroTime ∧ t > lastRestartTime rs := by
  unfold recorded
  constructor
  · intro h
    cases hc : canaryFailOf rs s with
    | none => rw [hc] at h; cases h
    | some fs =>
      rw [hc] at h
      simp only [] at h
      split at h
      · rename_i hcond
        simp only [Option.some.injEq] at h
        subst h
        exact ⟨fs, rfl, canaryFailOf_newRestartTime rs s fs hc, hcond.1, hcond.2⟩
      · cases h
  · rintro ⟨fs, hc, ht, hz, hgt⟩
    rw [hc]
    have he := canaryFailOf_newRestartTime rs s fs hc
    simp only []
    rw [he, ← ht, if_pos ⟨hz, hgt⟩]

/-- a sync that is not a full canary-role run records nothing. -/
theorem C06_recorded_only_canary (rs : ERS) (s : Sync) (t : Time) (h : recorded rs s = some t) :
    ∃ d, ersOwner rs s.st = some d ∧ ersRole d rs.name = "canary" ∧
      isDefaulted d.strategy d.templateName = true ∧ ersGated d rs s.now = false := by
  obtain ⟨fs, hc, _⟩ := (C06_recorded_iff rs s t).mp h
  unfold canaryFailOf at hc
  cases ho : ersOwner rs s.st with
  | none => rw [ho] at hc; cases hc
  | some d =>
    rw [ho] at hc
    simp only [] at hc
    refine ⟨d, rfl, ?_⟩
    split at hc
    · cases hc
    · rename_i hd
      split at hc
      · cases hc
      · rename_i hg
        split at hc
        · cases hc
        · split at hc
          · rename_i hr
            exact ⟨by simpa using hr, by simpa using hd, by simpa using hg⟩
          · cases hc

theorem lastRestartTime_step (rs : ERS) (s : Sync) :
    lastRestartTime (stepErs rs s) = match recorded rs s with | none => lastRestartTime rs | some t => t := by
  rw [lastRestartTime_eq, lastRestartTime_eq, restartView_step]
  cases recorded rs s with
  | none => rfl
  | some t =>
    simp only []
    cases hv : restartView rs.status.conds with
    | none => rfl
    | some v =>
      obtain ⟨st, tr, up⟩ := v
      unfold recordView
      simp only []
      split <;> rfl

theorem restartLog_gt (rs : ERS) (ss : List Sync) : ∀ t ∈ restartLog rs ss, lastRestartTime rs < t := by
  induction ss generalizing rs with
  | nil => intro t ht; cases ht
  | cons s ss ih =>
    intro t ht
    simp only [restartLog, List.mem_append] at ht
    have hstep := lastRestartTime_step rs s
    rcases ht with ht | ht
    · cases hr : recorded rs s with
      | none => rw [hr] at ht; cases ht
      | some t' =>
        rw [hr] at ht
        simp only [Option.toList_some, List.mem_singleton] at ht
        subst ht
        exact ((C06_recorded_iff rs s t).mp hr).choose_spec.2.2.2
    · have := ih (stepErs rs s) t ht
      cases hr : recorded rs s with
      | none => rw [hr] at hstep; simp only [] at hstep; omega
      | some t' =>
        rw [hr] at hstep
        simp only [] at hstep
        have h2 := ((C06_recorded_iff rs s t').mp hr).choose_spec.2.2.2
        omega

/-- **The recorded times of a run are strictly increasing**, and all after the initially stored
`lastUpdate`: the last recorded time is the maximum of everything recorded. -/
theorem C06_restart_log_increasing (rs : ERS) (ss : List Sync) :
    (restartLog rs ss).Pairwise (· < ·) ∧ ∀ t ∈ restartLog rs ss, lastRestartTime rs < t := by
  refine ⟨?_, restartLog_gt rs ss⟩
  induction ss generalizing rs with
  | nil => exact List.Pairwise.nil
  | cons s ss ih =>
    simp only [restartLog]
    cases hr : recorded rs s with
    | none => simpa using ih (stepErs rs s)
    | some t =>
      simp only [Option.toList_some, List.singleton_append, List.pairwise_cons]
      refine ⟨fun t' ht' => ?_, ih (stepErs rs s)⟩
      have := restartLog_gt (stepErs rs s) ss t' ht'
      rw [lastRestartTime_step, hr] at this
      exact this

/-! ### 1. The timeline -/

theorem applyLog_true (tr up : Time) (log : List Time) :
    applyLog (some ("True", tr, up)) log = some ("True", tr, (log.getLast?).getD up) := by
  induction log generalizing up with
  | nil => rfl
  | cons t ts ih =>
    unfold applyLog at ih ⊢
    rw [List.foldl_cons]
    have : recordView t (some ("True", tr, up)) = some ("True", tr, t) := by simp [recordView]
    rw [this, ih t]
    cases ts with
    | nil => rfl
    | cons t' ts' =>
      rw [List.getLast?_cons_cons]
      cases hg : (t' :: ts').getLast? with
      | none => simp at hg
      | some x => rfl

/-- applying a non-empty log: the result is True, `lastUpdate` is the last entry, `lastTransition` is
the stored one if the stored condition was True and the first entry otherwise. -/
theorem applyLog_cons (v : RView) (t : Time) (ts : List Time) :
    applyLog v (t :: ts) =
      some ("True",
        (match v with | some (st, tr, _) => if st = "True" then tr else t | none => t),
        ((t :: ts).getLast?).getD t) := by
  have h1 : applyLog v (t :: ts) = applyLog (recordView t v) ts := rfl
  rw [h1]
  have hl : ((t :: ts).getLast?).getD t = (ts.getLast?).getD t := by
    cases ts with
    | nil => rfl
    | cons t' ts' => simp [List.getLast?_cons_cons]
  rw [hl]
  cases v with
  | none => exact applyLog_true t t ts
  | some x =>
    obtain ⟨st, tr, up⟩ := x
    by_cases hs : st = "True"
    · subst hs
      have : recordView t (some ("True", tr, up)) = some ("True", tr, t) := by simp [recordView]
      rw [this, applyLog_true]
      simp
    · have : recordView t (some (st, tr, up)) = some ("True", t, t) := by simp [recordView, hs]
      rw [this, applyLog_true]
      simp [hs]

/-- **Restart timeline, any initial status.**  After an arbitrary run: if no sync recorded, the
PodRestarting condition is what it was; otherwise it is True, its `lastUpdate` is the time recorded
by the LAST recording sync, and its `lastTransition` is the stored one when the run started with a
True condition, and the time recorded by the FIRST recording sync otherwise. -/
theorem C06_restart_timeline_general (rs : ERS) (ss : List Sync) :
    restartView (runErs rs ss).status.conds =
      match (restartLog rs ss).head?, (restartLog rs ss).getLast? with
      | some first, some last =>
        some ("True",
          (match restartView rs.status.conds with
           | some (st, tr, _) => if st = "True" then tr else first
           | none => first),
          last)
      | _, _ => restartView rs.status.conds := by
  rw [restartView_run]
  cases hl : restartLog rs ss with
  | nil => rfl
  | cons t ts =>
    rw [applyLog_cons]
    cases hg : (t :: ts).getLast? with
    | none => simp at hg
    | some last => rfl

/-- **C06, restart timeline.**  For a replica set that starts without a PodRestarting condition (a
fresh canary), after an ARBITRARY run of syncs: the condition is absent iff no sync recorded a restart
time; otherwise it is True, its `lastTransition` is the time recorded by the FIRST sync that recorded
one — never changed by any later sync — and its `lastUpdate` is the time recorded by the LATEST sync
that recorded one.  "The time a sync records" is `C06_recorded_iff`: the most recent container
`finishedAt` the sync observes (not `now`), provided it is newer than what is stored. -/
theorem C06_restart_timeline (rs : ERS) (ss : List Sync)
    (hfresh : findCond rs.status.conds "PodRestarting" = none) :
    restartView (runErs rs ss).status.conds =
      match (restartLog rs ss).head?, (restartLog rs ss).getLast? with
      | some first, some last => some ("True", first, last)
      | _, _ => none := by
  have hv : restartView rs.status.conds = none := by unfold restartView; rw [hfresh]; rfl
  rw [C06_restart_timeline_general, hv]

/-- the same, spelled on the condition itself. -/
theorem C06_restart_timeline_cond (rs : ERS) (ss : List Sync)
    (hfresh : findCond rs.status.conds "PodRestarting" = none)
    (c : Cond) (hc : findCond (runErs rs ss).status.conds "PodRestarting" = some c) :
    c.status = "True" ∧ (restartLog rs ss).head? = some c.lastTransition ∧
    (restartLog rs ss).getLast? = some c.lastUpdate := by
  have h := C06_restart_timeline rs ss hfresh
  unfold restartView at h
  rw [hc] at h
  simp only [Option.map_some] at h
  cases hh : (restartLog rs ss).head? with
  | none => rw [hh] at h; cases h
  | some first =>
    cases hl : (restartLog rs ss).getLast? with
    | none => rw [hh, hl] at h; cases h
    | some last =>
      rw [hh, hl] at h
      simp only [Option.some.injEq, Prod.mk.injEq] at h
      exact ⟨h.1, by rw [h.2.1], by rw [h.2.2]⟩

/-- **"First", positionally.**  Fresh replica set; no sync of `pre` records; the next sync `s` records
`a`.  Then after ANY continuation `post` the condition is True with `lastTransition = a`. -/
theorem C06_restart_first (rs : ERS) (pre post : List Sync) (s : Sync) (a : Time)
    (hfresh : findCond rs.status.conds "PodRestarting" = none)
    (hpre : ∀ k (h : k < pre.length), recorded (runErs rs (pre.take k)) pre[k] = none)
    (hs : recorded (runErs rs pre) s = some a) :
    ∃ last, restartView (runErs rs (pre ++ s :: post)).status.conds = some ("True", a, last) := by
  have hlog : restartLog rs (pre ++ s :: post) = a :: restartLog (stepErs (runErs rs pre) s) post := by
    rw [restartLog_append, (restartLog_eq_nil_iff rs pre).mpr hpre]
    simp only [restartLog, hs, List.nil_append, Option.toList_some, List.singleton_append]
  rw [C06_restart_timeline rs _ hfresh, hlog]
  cases hg : (a :: restartLog (stepErs (runErs rs pre) s) post).getLast? with
  | none => simp at hg
  | some last => exact ⟨last, rfl⟩

/-- **The first restart time is never changed**: once the condition is True, no continuation of the
run changes its `lastTransition` (any initial status, any syncs). -/
theorem C06_restart_first_fixed (rs : ERS) (post : List Sync) (tr up : Time)
    (h : restartView rs.status.conds = some ("True", tr, up)) :
    ∃ up', restartView (runErs rs post).status.conds = some ("True", tr, up') ∧ up ≤ up' := by
  rw [restartView_run, h, applyLog_true]
  refine ⟨_, rfl, ?_⟩
  cases hg : (restartLog rs post).getLast? with
  | none => exact Int.le_refl _
  | some last =>
    have := restartLog_gt rs post last (List.mem_of_getLast? hg)
    rw [lastRestartTime_eq, h] at this
    simp only [viewLast, Option.getD_some] at this ⊢
    omega

/-- **"Latest", positionally.**  Any initial status; the sync `s` (after `pre`) records `b`; no sync of
`post` records.  Then after `pre ++ s :: post` the condition is True with `lastUpdate = b`. -/
theorem C06_restart_latest (rs : ERS) (pre post : List Sync) (s : Sync) (b : Time)
    (hs : recorded (runErs rs pre) s = some b)
    (hpost : ∀ k (h : k < post.length),
      recorded (runErs (stepErs (runErs rs pre) s) (post.take k)) post[k] = none) :
    ∃ first, restartView (runErs rs (pre ++ s :: post)).status.conds = some ("True", first, b) := by
  have e : runErs rs (pre ++ s :: post) = runErs (stepErs (runErs rs pre) s) post := by
    rw [runErs_append]; rfl
  rw [e, restartView_run, (restartLog_eq_nil_iff _ post).mpr hpost]
  simp only [applyLog, List.foldl_nil]
  rw [restartView_step, hs]
  simp only []
  cases hv : restartView (runErs rs pre).status.conds with
  | none => exact ⟨b, rfl⟩
  | some x =>
    obtain ⟨st, tr, up⟩ := x
    unfold recordView
    simp only []
    split
    · exact ⟨b, rfl⟩
    · rename_i hst
      have : st = "True" := by simpa using hst
      subst this
      exact ⟨tr, rfl⟩

/-- span of a view. -/
def viewSpan (v : RView) : Option Dur := v.map (fun x => x.2.2 - x.2.1)

/-- **The span the RestartsTimeoutExceeded trigger reads.**  After a run of a fresh replica set the
next sync's auto-fail trigger (`C06_failed_iff`) compares `maxRestartsDuration` with
`lastUpdate − lastTransition` of the stored condition, i.e. with (last recorded) − (first recorded). -/
theorem C06_restart_span_value (rs : ERS) (ss : List Sync)
    (hfresh : findCond rs.status.conds "PodRestarting" = none) :
    (findCond (runErs rs ss).status.conds "PodRestarting").map (fun rc => rc.lastUpdate - rc.lastTransition) =
      match (restartLog rs ss).head?, (restartLog rs ss).getLast? with
      | some first, some last => some (last - first)
      | _, _ => none := by
  have h := C06_restart_timeline rs ss hfresh
  have e : (findCond (runErs rs ss).status.conds "PodRestarting").map (fun rc => rc.lastUpdate - rc.lastTransition)
      = viewSpan (restartView (runErs rs ss).status.conds) := by
    unfold viewSpan restartView
    cases findCond (runErs rs ss).status.conds "PodRestarting" <;> rfl
  rw [e, h]
  cases (restartLog rs ss).head? <;> cases (restartLog rs ss).getLast? <;> rfl

/-! ### 2. Canary-Failed is sticky along a run -/

theorem isCondTrue_congr {cs cs' : List Cond} {t : String} (h : findCond cs' t = findCond cs t) :
    isCondTrue cs' t = isCondTrue cs t := by
  unfold isCondTrue; rw [h]

/-- the sync does not run the replica set in the active role (whatever owner it finds). -/
def Sync.notActive (s : Sync) (rs : ERS) : Prop := ∀ d, ersOwner rs s.st = some d → ersRole d rs.name ≠ "active"

theorem notActive_of_owner {s : Sync} {rs : ERS} {d : EDS} (h : ersOwner rs s.st = some d)
    (hr : ersRole d rs.name ≠ "active") : s.notActive rs := by
  intro d' hd'
  rw [h] at hd'
  cases hd'
  exact hr

/-- one step: a sync outside the active role keeps Canary-Failed = True. -/
theorem failed_step (rs : ERS) (s : Sync) (hf : isCondTrue rs.status.conds "Canary-Failed" = true)
    (hna : s.notActive rs) : isCondTrue (stepErs rs s).status.conds "Canary-Failed" = true := by
  rcases stepErs_cases rs s with h | ⟨d, _, _, h⟩ | ⟨d, items, r, adds, removes, se, st0, ho, F⟩
  · rw [h]; exact hf
  · rw [h, isCondTrue_congr (ersNotDefaulted_findCond rs s.now _ (by decide))]; exact hf
  · have hfin : isCondTrue (stepErs rs s).status.conds "Canary-Failed" = isCondTrue st0.conds "Canary-Failed" := by
      apply isCondTrue_congr
      show findCond ((s.run rs).statusUpdate.getD rs.status).conds "Canary-Failed" = _
      rw [F.eq]
      exact ersFinish_findCond _ _ _ _ _ _ _ _ _ _ _ _ (by decide) (by decide) (by decide) (by decide)
        (by decide) (by decide)
    rw [hfin]
    have hstr := F.strat
    have hns := F.status
    rcases ersRole_cases d rs.name with hr | hr | hr
    · exact absurd hr (hna d ho)
    · rw [hr] at hstr
      obtain ⟨r0, hm, hr0, _⟩ := ersStrategy_canary hstr
      obtain ⟨fs, st', hcf, _, st0', hst0, hconds⟩ := manageCanaryStatus_some _ _ _ hm
      have e0 : st0' = st0 := by
        rw [hr0] at hns
        have : r0.newStatus = some st0 := hns
        rw [hst0] at this
        exact Option.some.inj this
      subst e0
      rw [hconds]
      unfold canaryFail at hcf
      rw [C06_condition_failed_written _ _ _ _ _ _ _ _ _ _ _ hcf]
      cases hd : canaryDerefs (ersParams s.released d rs items (ersPods d s.st) s.now).strategy.canary with
      | none => unfold manageCanaryPodFailures at hcf; rw [hd] at hcf; exact absurd hcf (by simp)
      | some v =>
        obtain ⟨ape, apm, slow, afe, afm, mrd, cto⟩ := v
        exact C06_failed_sticky _ _ _ _ _ _ _ _ _ _ _ ape apm slow afe afm mrd cto hd hcf hf
    · rw [hr] at hstr
      obtain ⟨hre, _⟩ := ersStrategy_unknown (by decide) (by decide) hstr
      rw [hre] at hns
      rw [manageUnknown_conds _ _ _ hns]
      have : findCond (ersParams s.released d rs items (ersPods d s.st) s.now).newStatus.conds "Canary-Failed"
          = findCond rs.status.conds "Canary-Failed" := by
        show findCond (preConds (ersRole d rs.name) rs.status.conds s.now) "Canary-Failed" = _
        exact preConds_findCond_nonactive _ _ _ _ (by rw [hr]; decide) (by decide) (by decide)
      rw [isCondTrue_congr this]
      exact hf

/-- a whole continuation. -/
theorem failed_run (rs : ERS) (ss : List Sync) (hf : isCondTrue rs.status.conds "Canary-Failed" = true)
    (hna : ∀ k (h : k < ss.length), ss[k].notActive (runErs rs (ss.take k))) :
    isCondTrue (runErs rs ss).status.conds "Canary-Failed" = true := by
  induction ss generalizing rs with
  | nil => exact hf
  | cons s ss ih =>
    rw [runErs_cons]
    apply ih _ (failed_step rs s hf (by
      have := hna 0 (by simp)
      simpa only [List.take_zero, runErs_nil, List.getElem_cons_zero] using this))
    intro k hk
    have := hna (k + 1) (by simpa using hk)
    simpa only [List.take_succ_cons, runErs_cons, List.getElem_cons_succ] using this

/-- **C06, Canary-Failed is sticky (history form).**  Along an arbitrary run: if the status left by
the first `i` syncs has Canary-Failed = True and none of the syncs number `i … j−1` runs the replica
set in the active role (in particular: if it stays the canary), then the status left by the first
`j` syncs has Canary-Failed = True — for every `j ≥ i`, whatever pods, clock values, annotations
(including the unpause annotation) and EDS status those syncs read. -/
theorem C06_failed_sticky_history (rs : ERS) (ss : List Sync) (i j : Nat) (hij : i ≤ j) (hj : j ≤ ss.length)
    (hf : isCondTrue (runErs rs (ss.take i)).status.conds "Canary-Failed" = true)
    (hna : ∀ k (h : k < ss.length), i ≤ k → k < j → ss[k].notActive (runErs rs (ss.take k))) :
    isCondTrue (runErs rs (ss.take j)).status.conds "Canary-Failed" = true := by
  rw [runErs_take_le rs ss i j hij]
  apply failed_run _ _ hf
  intro k hk
  have hlen : k < j - i := by
    have := hk
    simp only [List.length_take, List.length_drop] at this
    omega
  have hk' : i + k < ss.length := by omega
  have e1 : ((ss.drop i).take (j - i))[k] = ss[i + k] := by
    simp [List.getElem_take, List.getElem_drop]
  have e2 : runErs (runErs rs (ss.take i)) (((ss.drop i).take (j - i)).take k) = runErs rs (ss.take (i + k)) := by
    rw [runErs_take_le rs ss i (i + k) (by omega)]
    congr 1
    rw [List.take_take]
    congr 1
    omega
  rw [e1, e2]
  exact hna (i + k) hk' (by omega) (by omega)

/-! ### 3. The restart span never decreases -/

/-- invariant: a stored PodRestarting condition, if any, is True. -/
def RestartTrueIfPresent (rs : ERS) : Prop :=
  ∀ st tr up, restartView rs.status.conds = some (st, tr, up) → st = "True"

theorem restartTrueIfPresent_step (rs : ERS) (s : Sync) (h : RestartTrueIfPresent rs) :
    RestartTrueIfPresent (stepErs rs s) := by
  intro st tr up hv
  rw [restartView_step] at hv
  cases hr : recorded rs s with
  | none => rw [hr] at hv; exact h st tr up hv
  | some t =>
    rw [hr] at hv
    simp only [] at hv
    cases hv0 : restartView rs.status.conds with
    | none => rw [hv0] at hv; simp [recordView] at hv; exact hv.1.symm
    | some x =>
      obtain ⟨st0, tr0, up0⟩ := x
      rw [hv0] at hv
      have := h st0 tr0 up0 hv0
      subst this
      simp [recordView] at hv
      exact hv.1.symm

theorem restartTrueIfPresent_run (rs : ERS) (ss : List Sync) (h : RestartTrueIfPresent rs) :
    RestartTrueIfPresent (runErs rs ss) := by
  induction ss generalizing rs with
  | nil => exact h
  | cons s ss ih => exact ih _ (restartTrueIfPresent_step rs s h)

/-- a fresh replica set satisfies the invariant. -/
theorem restartTrueIfPresent_fresh (rs : ERS) (hfresh : findCond rs.status.conds "PodRestarting" = none) :
    RestartTrueIfPresent rs := by
  intro st tr up hv
  unfold restartView at hv; rw [hfresh] at hv; cases hv

theorem span_run (rs : ERS) (ss : List Sync) (h : RestartTrueIfPresent rs) (d : Dur)
    (hd : viewSpan (restartView rs.status.conds) = some d) :
    ∃ d', viewSpan (restartView (runErs rs ss).status.conds) = some d' ∧ d ≤ d' := by
  cases hv : restartView rs.status.conds with
  | none => rw [hv] at hd; cases hd
  | some x =>
    obtain ⟨st, tr, up⟩ := x
    have := h st tr up hv
    subst this
    obtain ⟨up', hv', hle⟩ := C06_restart_first_fixed rs ss tr up hv
    rw [hv] at hd
    rw [hv']
    simp only [viewSpan, Option.map_some, Option.some.injEq] at hd ⊢
    exact ⟨_, rfl, by omega⟩

/-- **C06, the restart span is monotone.**  If the run starts from a status whose PodRestarting
condition, when present, is True (e.g. a fresh replica set: `restartTrueIfPresent_fresh`), then along
an arbitrary run the span `lastUpdate − lastTransition` of the stored condition never decreases: once
it is `d` after `i` syncs, the condition is still present after `j ≥ i` syncs with a span `≥ d`. -/
theorem C06_restart_span_monotone (rs : ERS) (ss : List Sync) (h : RestartTrueIfPresent rs)
    (i j : Nat) (hij : i ≤ j) (d : Dur)
    (hd : viewSpan (restartView (runErs rs (ss.take i)).status.conds) = some d) :
    ∃ d', viewSpan (restartView (runErs rs (ss.take j)).status.conds) = some d' ∧ d ≤ d' := by
  rw [runErs_take_le rs ss i j hij]
  exact span_run _ _ (restartTrueIfPresent_run rs _ h) d hd

/-! ### Non-vacuity.  Store of EdsProps/C04.lean: EDS `d` (defaulted, reconcile frequency 10 s), active
replica set `d-old`, canary `d-new` on node `n1`. -/

/-- an up-to-date canary pod on `n1` whose single container restarted `n` times, last termination
finished at `fin`. -/
def exPod06b (n : Int) (fin : Time) : Pod :=
  { exPod04 "new-1" "n1" "d-new" "new" true with
    cstats := [{ name := "c", restarts := n, waiting := none,
                 lastTerm := some { reason := "Error", finishedAt := fin, empty := false } }] }

/-- four syncs of the canary replica set: no restart seen at 100 s; one restart (finished at 130 s) seen
at 200 s; the same restart seen again at 300 s; a second restart (finished at 390 s) seen at 400 s. -/
def exRun06b : List Sync :=
  [ { st := exStore04 [exPod04 "new-1" "n1" "d-new" "new" true], now := 100 * sec },
    { st := exStore04 [exPod06b 1 (130 * sec)], now := 200 * sec },
    { st := exStore04 [exPod06b 1 (130 * sec)], now := 300 * sec },
    { st := exStore04 [exPod06b 2 (390 * sec)], now := 400 * sec } ]

/-- the log of that run: the second and the fourth sync record, the third (same restart again) does not. -/
example : restartLog (exErs04 "d-new" "new") exRun06b = [130 * sec, 390 * sec] := by decide

/-- the hypotheses of `C06_restart_timeline` / `C06_restart_first` / `C06_restart_latest` hold of it and the
stored condition is the one they predict: first = 130 s, latest = 390 s, span 260 s. -/
example : findCond (exErs04 "d-new" "new").status.conds "PodRestarting" = none ∧
    recorded (exErs04 "d-new" "new") exRun06b[0] = none ∧
    recorded (runErs (exErs04 "d-new" "new") (exRun06b.take 1)) exRun06b[1] = some (130 * sec) ∧
    recorded (runErs (exErs04 "d-new" "new") (exRun06b.take 2)) exRun06b[2] = none ∧
    recorded (runErs (exErs04 "d-new" "new") (exRun06b.take 3)) exRun06b[3] = some (390 * sec) ∧
    restartView (runErs (exErs04 "d-new" "new") exRun06b).status.conds = some ("True", 130 * sec, 390 * sec) ∧
    viewSpan (restartView (runErs (exErs04 "d-new" "new") exRun06b).status.conds) = some (260 * sec) := by
  decide

/-- `C06_recorded_iff` on the second sync: the time recorded is the container's `finishedAt` (130 s), not
the clock (200 s). -/
example : observedRestart (canaryCheckedOf (runErs (exErs04 "d-new" "new") (exRun06b.take 1)) exRun06b[1])
    = 130 * sec ∧ (exRun06b[1]).now = 200 * sec := by decide

/-- stickiness: a pod with 6 restarts (> maxRestarts 5) fails the canary at 200 s; at 300 s the pod is
healthy again and the EDS carries the unpause annotation — still failed; the hypothesis (not active)
holds of both syncs. -/
def exRunFail06b : List Sync :=
  [ { st := exStore04 [exPod06b 6 (130 * sec)], now := 200 * sec },
    { st := { exStore04 [exPod04 "new-1" "n1" "d-new" "new" true] with
              edss := [{ exEds04 with annotations := [⟨K.canaryUnpausedAnnot, "true"⟩] }] },
      now := 300 * sec } ]

example : isCondTrue (runErs (exErs04 "d-new" "new") (exRunFail06b.take 0)).status.conds "Canary-Failed" = false ∧
    isCondTrue (runErs (exErs04 "d-new" "new") (exRunFail06b.take 1)).status.conds "Canary-Failed" = true ∧
    isCondTrue (runErs (exErs04 "d-new" "new") (exRunFail06b.take 2)).status.conds "Canary-Failed" = true ∧
    ersRole exEds04 "d-new" ≠ "active" := by decide

example : (exRunFail06b[0]).notActive (exErs04 "d-new" "new") ∧
    (exRunFail06b[1]).notActive (runErs (exErs04 "d-new" "new") (exRunFail06b.take 1)) :=
  ⟨notActive_of_owner (d := exEds04) (by decide) (by decide),
   notActive_of_owner (d := { exEds04 with annotations := [⟨K.canaryUnpausedAnnot, "true"⟩] }) (by decide) (by decide)⟩

/-- the hypothesis of `C06_failed_sticky_history` is necessary: a later sync in the ACTIVE role (the
failed canary's replica set made active — e.g. by a manual `canary-valid`) rewrites Canary-Failed to
False. -/
example : isCondTrue (runErs (exErs04 "d-new" "new") (exRunFail06b.take 1)).status.conds "Canary-Failed" = true ∧
    isCondTrue (stepErs (runErs (exErs04 "d-new" "new") (exRunFail06b.take 1))
      { st := exStore04 [exPod04 "new-1" "n1" "d-new" "new" true] false, now := 300 * sec }).status.conds
      "Canary-Failed" = false := by decide

/-- **Counterexample to span monotonicity without the invariant.**  A stored PodRestarting condition
with status "False" (never written by this controller, but a legal API object) and span 100 s; one
canary sync records a restart: the condition transitions, both stamps are the recorded time, the
span drops to 0. -/
def exErsFalse06b : ERS :=
  exErs04 "d-new" "new" [{ type := "PodRestarting", status := "False", lastTransition := 0,
                           lastUpdate := 100 * sec, reason := "", message := "" }]

theorem C06_restart_span_counterexample :
    viewSpan (restartView exErsFalse06b.status.conds) = some (100 * sec) ∧
    viewSpan (restartView (runErs exErsFalse06b
      [{ st := exStore04 [exPod06b 1 (130 * sec)], now := 200 * sec }]).status.conds) = some 0 ∧
    ¬ RestartTrueIfPresent exErsFalse06b := by
  refine ⟨by decide, by decide, ?_⟩
  intro h
  have := h "False" 0 (100 * sec) (by decide)
  exact absurd this (by decide)

/-- the monotone case on the example run: spans after 2, 3, 4 syncs are 0, 0, 260 s. -/
example : RestartTrueIfPresent (exErs04 "d-new" "new") ∧
    viewSpan (restartView (runErs (exErs04 "d-new" "new") (exRun06b.take 1)).status.conds) = none ∧
    viewSpan (restartView (runErs (exErs04 "d-new" "new") (exRun06b.take 2)).status.conds) = some 0 ∧
    viewSpan (restartView (runErs (exErs04 "d-new" "new") (exRun06b.take 3)).status.conds) = some 0 ∧
    viewSpan (restartView (runErs (exErs04 "d-new" "new") (exRun06b.take 4)).status.conds) = some (260 * sec) :=
  ⟨restartTrueIfPresent_fresh _ (by decide), by decide, by decide, by decide, by decide⟩

end Eds
