import EdsModel
import EdsProofs.SelectNodes
import EdsProps.C15
/-
  C15b — metamorphic property of `selectNodes`: a previously selected name whose node is listed but no
  longer fit has no influence on the outcome.

      selectNodes t c base cur pods nodes
        = selectNodes t c base (cur.filter (fun nm => !listedUnfit t c nodes nm)) pods nodes

  The first loop of `selectNodes` (`Sel.filt`) walks over the listed nodes and, for every *unfit* one whose
  name occurs in the list, erases ONE (the first) occurrence of that name.  So a name `x` loses
  `min (cur.count x) (unfitMult x)` occurrences, `unfitMult x` being the number of listed unfit nodes named
  `x` (`C15_kept_count`).  The loop therefore coincides with `cur.filter (!listedUnfit ·)` exactly when no
  listed-unfit name occurs in `cur` more often than there are listed unfit nodes of that name
  (`C15_kept_eq_filter_iff`); this is the hypothesis of `C15_invalid_previous_irrelevant`.  It holds in
  particular

    * when every listed-unfit name occurs at most once in `cur`   (`…_of_count_le_one`),
    * when `cur` is duplicate free                                  (`…_of_nodup`);

  the right-hand side never needs it (`filt_filter_listedUnfit`: on the filtered list the loop is the
  identity).  Without the hypothesis the equality is false: `C15_invalid_previous_needs_hyp`
  (`cur = ["a", "a"]`, one unfit node `a`: only one `a` is erased, the other one is kept and fills the
  request).  Nothing is assumed about `nodes` (names may repeat, a fit and an unfit node may share a name)
  and nothing about names of `cur` that are not listed (finding F6a: they stay on both sides).
-/
namespace Eds
open Sel

/-- names of `cur` whose node is listed (matches the canary node selector, as `selectNodes` computes
`listed`, i.e. `Sel.listed`) but is not fit for the template: exactly the names the first loop of
`selectNodes` erases (one occurrence per such node). -/
def listedUnfit (t : Template) (canary : Canary) (allNodes : List Node) (nm : String) : Bool :=
  (listed canary allNodes).any (fun n => n.name == nm && !fit t n)

/-- how many listed nodes named `nm` are unfit (`1` at most when node names are unique). -/
def unfitMult (t : Template) (canary : Canary) (allNodes : List Node) (nm : String) : Nat :=
  (listed canary allNodes).countP (fun n => n.name == nm && !fit t n)

namespace Sel

/-! ### list helpers -/

/-- erasing an element the filter rejects anyway does not change the filtered list. -/
theorem filter_erase_of_false {p : String → Bool} {a : String} (ha : p a = false) (l : List String) :
    (l.erase a).filter p = l.filter p := by
  induction l with
  | nil => rfl
  | cons b rest ih =>
    by_cases hb : b = a
    · subst hb
      rw [List.erase_cons_head, List.filter_cons, ha]
      simp
    · rw [List.erase_cons_tail (by simpa using hb), List.filter_cons, List.filter_cons, ih]

/-! ### the first loop as a filter -/

/-- number of unfit nodes named `x` in `l`. -/
def umult (t : Template) (l : List Node) (x : String) : Nat :=
  l.countP (fun n => n.name == x && !fit t n)

theorem umult_cons (t : Template) (n : Node) (l : List Node) (x : String) :
    umult t (n :: l) x = umult t l x + if (n.name == x && !fit t n) = true then 1 else 0 := by
  unfold umult
  rw [List.countP_cons]

/-- **the first loop is a filter** as soon as no name occurs more often than there are unfit nodes of that
name (only names of unfit nodes are constrained). -/
theorem filt_eq_filter (t : Template) (l : List Node) (cur : List String)
    (h : ∀ x, 0 < umult t l x → cur.count x ≤ umult t l x) :
    filt t l cur = cur.filter (fun x => umult t l x == 0) := by
  induction l generalizing cur with
  | nil =>
    show cur = _
    simp only [umult, List.countP_nil, beq_self_eq_true]
    exact (List.filter_eq_self.mpr (fun _ _ => rfl)).symm
  | cons n rest ih =>
    show filt t rest (filtStep t cur n) = _
    by_cases hc : (cur.contains n.name && !fit t n) = true
    · -- `n` is unfit and its name occurs: one occurrence is erased
      have hstep : filtStep t cur n = cur.erase n.name := by unfold filtStep; rw [if_pos hc]
      simp only [Bool.and_eq_true, List.contains_eq_mem, decide_eq_true_eq] at hc
      obtain ⟨hmem, hunfit⟩ := hc
      have hcons : ∀ x, umult t (n :: rest) x = umult t rest x + if n.name = x then 1 else 0 := by
        intro x
        rw [umult_cons]
        by_cases hx : n.name = x <;> simp [hx, hunfit]
      rw [hstep]
      have h' : ∀ x, 0 < umult t rest x → (cur.erase n.name).count x ≤ umult t rest x := by
        intro x hx
        have hh := h x (by rw [hcons]; omega)
        rw [hcons] at hh
        by_cases hxa : n.name = x
        · subst hxa
          rw [List.count_erase_self]
          rw [if_pos rfl] at hh
          omega
        · rw [List.count_erase_of_ne (fun e => hxa e.symm)]
          simpa [hxa] using hh
      rw [ih _ h']
      have hpa : (fun x => umult t (n :: rest) x == 0) n.name = false := by
        simp only [hcons]
        simp
      rw [← filter_erase_of_false hpa cur]
      apply List.filter_congr
      intro x hx
      by_cases hxa : n.name = x
      · subst hxa
        -- a second occurrence of the name: there is a second unfit node of that name
        have h2 : 0 < (cur.erase n.name).count n.name := List.count_pos_iff.mpr hx
        rw [List.count_erase_self] at h2
        have hh := h n.name (by rw [hcons, if_pos rfl]; omega)
        rw [hcons, if_pos rfl] at hh
        have h3 : umult t rest n.name ≠ 0 := by omega
        simp [hcons, h3]
      · simp [hcons, hxa]
    · -- nothing happens
      have hstep : filtStep t cur n = cur := by unfold filtStep; rw [if_neg hc]
      rw [hstep]
      by_cases hunfit : fit t n = false
      · -- unfit, but its name does not occur
        have hnmem : n.name ∉ cur := by
          intro hm
          apply hc
          simp [hm, hunfit]
        have hcons : ∀ x, umult t (n :: rest) x = umult t rest x + if n.name = x then 1 else 0 := by
          intro x
          rw [umult_cons]
          by_cases hx : n.name = x <;> simp [hx, hunfit]
        have h' : ∀ x, 0 < umult t rest x → cur.count x ≤ umult t rest x := by
          intro x hx
          by_cases hxa : n.name = x
          · subst hxa
            rw [List.count_eq_zero_of_not_mem hnmem]
            omega
          · have hh := h x (by rw [hcons]; omega)
            rw [hcons] at hh
            simpa [hxa] using hh
        rw [ih _ h']
        apply List.filter_congr
        intro x hx
        have hxa : n.name ≠ x := fun e => hnmem (e ▸ hx)
        simp [hcons, hxa]
      · -- fit: the counts do not change
        have hfit : fit t n = true := by simpa using hunfit
        have hcons : ∀ x, umult t (n :: rest) x = umult t rest x := by
          intro x
          rw [umult_cons]
          simp [hfit]
        have h' : ∀ x, 0 < umult t rest x → cur.count x ≤ umult t rest x := by
          intro x hx
          have hh := h x (by rw [hcons]; exact hx)
          rw [hcons] at hh
          exact hh
        rw [ih _ h']
        simp only [hcons]

/-- **what the first loop does to the multiplicities**: a name loses as many occurrences as there are
unfit nodes of that name (as far as it has them). -/
theorem count_filt (t : Template) (l : List Node) (cur : List String) (x : String) :
    (filt t l cur).count x = cur.count x - umult t l x := by
  induction l generalizing cur with
  | nil =>
    show cur.count x = _
    simp [umult]
  | cons n rest ih =>
    show (filt t rest (filtStep t cur n)).count x = _
    rw [ih, umult_cons]
    unfold filtStep
    by_cases hunfit : fit t n = false
    · by_cases hmem : n.name ∈ cur
      · rw [if_pos (by simp [hmem, hunfit])]
        by_cases hxa : n.name = x
        · subst hxa
          rw [List.count_erase_self]
          simp only [hunfit, beq_self_eq_true, Bool.not_false, Bool.and_self, if_true]
          omega
        · rw [List.count_erase_of_ne (fun e => hxa e.symm)]
          simp [hxa]
      · rw [if_neg (by simp [hmem])]
        by_cases hxa : n.name = x
        · subst hxa
          rw [List.count_eq_zero_of_not_mem hmem]
          omega
        · simp [hxa]
    · have hfit : fit t n = true := by simpa using hunfit
      rw [if_neg (by simp [hfit])]
      simp [hfit]

/-- the multiplicity is the same in the sorted list. -/
theorem umult_sorted (t : Template) (c : Canary) (pods : List Pod) (nodes : List Node) (x : String) :
    umult t (sortByRestarts pods (listed c nodes)) x = unfitMult t c nodes x :=
  (sortByRestarts_perm pods (listed c nodes)).countP_eq _

theorem unfitMult_eq_zero_iff (t : Template) (c : Canary) (nodes : List Node) (x : String) :
    (unfitMult t c nodes x == 0) = !listedUnfit t c nodes x := by
  unfold unfitMult listedUnfit
  rw [Bool.eq_iff_iff]
  simp only [beq_iff_eq, List.countP_eq_zero, Bool.not_eq_true', List.any_eq_false]

theorem listedUnfit_iff_pos (t : Template) (c : Canary) (nodes : List Node) (x : String) :
    listedUnfit t c nodes x = true ↔ 0 < unfitMult t c nodes x := by
  have h := unfitMult_eq_zero_iff t c nodes x
  cases hl : listedUnfit t c nodes x with
  | true =>
    rw [hl] at h
    have : unfitMult t c nodes x ≠ 0 := by simpa using h
    simp only [true_iff]
    omega
  | false =>
    rw [hl] at h
    have : unfitMult t c nodes x = 0 := by simpa using h
    simp [this]

/-- **the first loop of `selectNodes` as a filter**, under the multiplicity hypothesis. -/
theorem filt_eq_filter_listedUnfit (t : Template) (c : Canary) (pods : List Pod) (nodes : List Node)
    (cur : List String)
    (h : ∀ x, listedUnfit t c nodes x = true → cur.count x ≤ unfitMult t c nodes x) :
    filt t (sortByRestarts pods (listed c nodes)) cur
      = cur.filter (fun x => !listedUnfit t c nodes x) := by
  rw [filt_eq_filter]
  · apply List.filter_congr
    intro x _
    rw [umult_sorted, unfitMult_eq_zero_iff]
  · intro x hx
    rw [umult_sorted] at hx ⊢
    exact h x ((listedUnfit_iff_pos t c nodes x).mpr hx)

/-- the multiplicity hypothesis is exactly what makes the first loop a filter. -/
theorem filt_eq_filter_listedUnfit_iff (t : Template) (c : Canary) (pods : List Pod) (nodes : List Node)
    (cur : List String) :
    filt t (sortByRestarts pods (listed c nodes)) cur = cur.filter (fun x => !listedUnfit t c nodes x)
      ↔ ∀ x, listedUnfit t c nodes x = true → cur.count x ≤ unfitMult t c nodes x := by
  constructor
  · intro heq x hx
    have hc := count_filt t (sortByRestarts pods (listed c nodes)) cur x
    rw [heq, umult_sorted] at hc
    have hnm : x ∉ cur.filter (fun x => !listedUnfit t c nodes x) := by
      intro hm
      have := (List.mem_filter.mp hm).2
      rw [hx] at this
      cases this
    rw [List.count_eq_zero_of_not_mem hnm] at hc
    omega
  · exact filt_eq_filter_listedUnfit t c pods nodes cur

/-- on the filtered list the first loop is the identity (no hypothesis needed). -/
theorem filt_filter_listedUnfit (t : Template) (c : Canary) (pods : List Pod) (nodes : List Node)
    (cur : List String) :
    filt t (sortByRestarts pods (listed c nodes)) (cur.filter (fun x => !listedUnfit t c nodes x))
      = cur.filter (fun x => !listedUnfit t c nodes x) := by
  rw [filt_eq_filter_listedUnfit, List.filter_filter]
  · apply List.filter_congr
    intro x _
    simp
  · intro x hx
    have : x ∉ cur.filter (fun x => !listedUnfit t c nodes x) := by
      intro hm
      have := (List.mem_filter.mp hm).2
      rw [hx] at this
      cases this
    rw [List.count_eq_zero_of_not_mem this]
    exact Nat.zero_le _

end Sel

/-! ### the metamorphic property -/

/-- **C15 — an invalid previous selection is irrelevant.**  Removing beforehand the previously selected
names whose node is listed but no longer fit does not change the outcome of `selectNodes` (same list, in
the same order, same "not enough nodes" flag, same error) — provided no such name occurs in `cur` more
often than there are listed unfit nodes of that name (`C15_invalid_previous_needs_hyp`: the proviso
cannot be dropped).  No assumption on `allNodes`. -/
theorem C15_invalid_previous_irrelevant (t : Template) (canary : Canary) (base : Int) (cur : List String)
    (pods : List Pod) (allNodes : List Node)
    (hmult : ∀ x, listedUnfit t canary allNodes x = true → cur.count x ≤ unfitMult t canary allNodes x) :
    selectNodes t canary base cur pods allNodes
      = selectNodes t canary base (cur.filter (fun nm => !listedUnfit t canary allNodes nm)) pods allNodes := by
  cases hr : resolveIntOrPercent canary.replicas base with
  | none =>
    rw [selectNodes_err_iff t canary base cur pods allNodes hr,
      selectNodes_err_iff t canary base _ pods allNodes hr]
  | some nb =>
    rw [selectNodes_eq t canary base cur pods allNodes hr,
      selectNodes_eq t canary base _ pods allNodes hr,
      filt_filter_listedUnfit, filt_eq_filter_listedUnfit t canary pods allNodes cur hmult]

/-- … in particular when every listed-unfit name occurs at most once in `cur`. -/
theorem C15_invalid_previous_irrelevant_of_count_le_one (t : Template) (canary : Canary) (base : Int)
    (cur : List String) (pods : List Pod) (allNodes : List Node)
    (h1 : ∀ x, listedUnfit t canary allNodes x = true → cur.count x ≤ 1) :
    selectNodes t canary base cur pods allNodes
      = selectNodes t canary base (cur.filter (fun nm => !listedUnfit t canary allNodes nm)) pods allNodes := by
  apply C15_invalid_previous_irrelevant
  intro x hx
  have := (listedUnfit_iff_pos t canary allNodes x).mp hx
  have := h1 x hx
  omega

/-- … in particular when `cur` is duplicate free (as `status.canary.nodes` is, `C15_distinct`). -/
theorem C15_invalid_previous_irrelevant_of_nodup (t : Template) (canary : Canary) (base : Int)
    (cur : List String) (pods : List Pod) (allNodes : List Node) (hnd : cur.Nodup) :
    selectNodes t canary base cur pods allNodes
      = selectNodes t canary base (cur.filter (fun nm => !listedUnfit t canary allNodes nm)) pods allNodes :=
  C15_invalid_previous_irrelevant_of_count_le_one t canary base cur pods allNodes
    (fun x _ => List.nodup_iff_count.mp hnd x)

/-- the same for the first phase alone: what survives the first loop (`Sel.kept` of C15) is the filtered
list. -/
theorem C15_kept_eq_filter (t : Template) (canary : Canary) (cur : List String) (pods : List Pod)
    (allNodes : List Node)
    (hmult : ∀ x, listedUnfit t canary allNodes x = true → cur.count x ≤ unfitMult t canary allNodes x) :
    kept t canary pods allNodes cur = cur.filter (fun nm => !listedUnfit t canary allNodes nm) :=
  filt_eq_filter_listedUnfit t canary pods allNodes cur hmult

/-- the proviso is exactly the condition under which the first phase is the filter. -/
theorem C15_kept_eq_filter_iff (t : Template) (canary : Canary) (cur : List String) (pods : List Pod)
    (allNodes : List Node) :
    kept t canary pods allNodes cur = cur.filter (fun nm => !listedUnfit t canary allNodes nm)
      ↔ ∀ x, listedUnfit t canary allNodes x = true → cur.count x ≤ unfitMult t canary allNodes x :=
  filt_eq_filter_listedUnfit_iff t canary pods allNodes cur

/-- multiplicities after the first phase, without any hypothesis: a name loses as many occurrences as
there are listed unfit nodes of that name. -/
theorem C15_kept_count (t : Template) (canary : Canary) (cur : List String) (pods : List Pod)
    (allNodes : List Node) (x : String) :
    (kept t canary pods allNodes cur).count x = cur.count x - unfitMult t canary allNodes x := by
  unfold kept
  rw [count_filt, umult_sorted]

/-! ### examples and the counterexample -/

/-- `listedUnfit` on the nodes of C15 (`n3` is tainted): only `n3`; a name that is not listed is not
"listed unfit" (F6a: it stays). -/
example : ["n1", "n2", "n3", "n4", "gone"].map (listedUnfit exT15 (exCanary15 ⟨"int", 2⟩) exNodes15)
    = [false, false, true, false, false] := by decide

/-- non-vacuity: `cur` contains the listed-unfit `n3` (and the unlisted `gone`, which stays); the filtered
list is `["gone", "n1"]`; both sides are `["gone", "n1", "n2"]`, one node being added. -/
example :
    ["n3", "gone", "n1"].filter (fun nm => !listedUnfit exT15 (exCanary15 ⟨"int", 3⟩) exNodes15 nm)
      = ["gone", "n1"] ∧
    selectNodes exT15 (exCanary15 ⟨"int", 3⟩) 4 ["n3", "gone", "n1"] exPods15 exNodes15
      = .ok (["gone", "n1", "n2"], false) ∧
    selectNodes exT15 (exCanary15 ⟨"int", 3⟩) 4
        (["n3", "gone", "n1"].filter (fun nm => !listedUnfit exT15 (exCanary15 ⟨"int", 3⟩) exNodes15 nm))
        exPods15 exNodes15
      = .ok (["gone", "n1", "n2"], false) := by decide

/-- the same through the theorem (the hypothesis is discharged by `Nodup`). -/
example :
    selectNodes exT15 (exCanary15 ⟨"int", 3⟩) 4 ["n3", "gone", "n1"] exPods15 exNodes15
      = selectNodes exT15 (exCanary15 ⟨"int", 3⟩) 4 ["gone", "n1"] exPods15 exNodes15 :=
  C15_invalid_previous_irrelevant_of_nodup exT15 (exCanary15 ⟨"int", 3⟩) 4 ["n3", "gone", "n1"] exPods15
    exNodes15 (by decide)

/-- with anti-affinity keys and a node selector: `n3` (zone `b`, unfit) was selected; with or without it
the outcome is `n1` plus `n2` and `n4` (the unfit `n3` still takes one of the two places of zone `b` in the
second loop, on both sides: that is a property of the listing, not of `cur`). -/
example :
    selectNodes exT15 (exCanary15 ⟨"int", 3⟩ (some { matchLabels := [⟨"pool", "c"⟩], exprs := [] }) ["zone"]) 4
        ["n3", "n1"] []
        [exNode15 "n1" [⟨"pool", "c"⟩, ⟨"zone", "a"⟩], exNode15 "n2" [⟨"pool", "c"⟩, ⟨"zone", "a"⟩],
         exNode15 "n3" [⟨"pool", "c"⟩, ⟨"zone", "b"⟩] [exTaint15], exNode15 "n4" [⟨"pool", "c"⟩, ⟨"zone", "b"⟩]]
      = .ok (["n1", "n2", "n4"], false) ∧
    selectNodes exT15 (exCanary15 ⟨"int", 3⟩ (some { matchLabels := [⟨"pool", "c"⟩], exprs := [] }) ["zone"]) 4
        ["n1"] []
        [exNode15 "n1" [⟨"pool", "c"⟩, ⟨"zone", "a"⟩], exNode15 "n2" [⟨"pool", "c"⟩, ⟨"zone", "a"⟩],
         exNode15 "n3" [⟨"pool", "c"⟩, ⟨"zone", "b"⟩] [exTaint15], exNode15 "n4" [⟨"pool", "c"⟩, ⟨"zone", "b"⟩]]
      = .ok (["n1", "n2", "n4"], false) := by decide

/-- an unfit node that is NOT listed (it does not match the canary node selector) is not dropped:
`listedUnfit` is false for it and it stays on both sides (F6a). -/
example :
    listedUnfit exT15 (exCanary15 ⟨"int", 2⟩ (some { matchLabels := [⟨"pool", "c"⟩], exprs := [] }))
      [exNode15 "n1" [⟨"pool", "c"⟩], exNode15 "n3" [] [exTaint15]] "n3" = false ∧
    selectNodes exT15 (exCanary15 ⟨"int", 2⟩ (some { matchLabels := [⟨"pool", "c"⟩], exprs := [] })) 4
        ["n3"] [] [exNode15 "n1" [⟨"pool", "c"⟩], exNode15 "n3" [] [exTaint15]]
      = .ok (["n3", "n1"], false) := by decide

/-- **the hypothesis cannot be dropped**: `cur = ["a", "a"]`, one listed unfit node `a`.  The first loop
erases ONE `a`; the other one stays and fills the request.  On the filtered list (`[]`) nothing can be
selected and the call comes short. -/
theorem C15_invalid_previous_needs_hyp :
    listedUnfit exT15 (exCanary15 ⟨"int", 1⟩) [exNode15 "a" [] [exTaint15]] "a" = true ∧
    unfitMult exT15 (exCanary15 ⟨"int", 1⟩) [exNode15 "a" [] [exTaint15]] "a" = 1 ∧
    ["a", "a"].filter (fun nm => !listedUnfit exT15 (exCanary15 ⟨"int", 1⟩) [exNode15 "a" [] [exTaint15]] nm)
      = [] ∧
    selectNodes exT15 (exCanary15 ⟨"int", 1⟩) 4 ["a", "a"] [] [exNode15 "a" [] [exTaint15]]
      = .ok (["a"], false) ∧
    selectNodes exT15 (exCanary15 ⟨"int", 1⟩) 4
        (["a", "a"].filter
          (fun nm => !listedUnfit exT15 (exCanary15 ⟨"int", 1⟩) [exNode15 "a" [] [exTaint15]] nm))
        [] [exNode15 "a" [] [exTaint15]]
      = .ok ([], true) := by decide

/-- … and the outcomes differ not only as lists but as sets and in the flag. -/
theorem C15_invalid_previous_needs_hyp_ne :
    selectNodes exT15 (exCanary15 ⟨"int", 1⟩) 4 ["a", "a"] [] [exNode15 "a" [] [exTaint15]]
      ≠ selectNodes exT15 (exCanary15 ⟨"int", 1⟩) 4
          (["a", "a"].filter
            (fun nm => !listedUnfit exT15 (exCanary15 ⟨"int", 1⟩) [exNode15 "a" [] [exTaint15]] nm))
          [] [exNode15 "a" [] [exTaint15]] := by decide

/-- the multiplicity hypothesis is the right one: with TWO listed unfit nodes named `a`, a doubled `a` is
erased twice and the equality holds although `cur` has a duplicate. -/
example :
    selectNodes exT15 (exCanary15 ⟨"int", 1⟩) 4 ["a", "a"] []
        [exNode15 "a" [] [exTaint15], exNode15 "a" [] [exTaint15], exNode15 "b"]
      = .ok (["b"], false) ∧
    selectNodes exT15 (exCanary15 ⟨"int", 1⟩) 4
        (["a", "a"].filter (fun nm => !listedUnfit exT15 (exCanary15 ⟨"int", 1⟩)
          [exNode15 "a" [] [exTaint15], exNode15 "a" [] [exTaint15], exNode15 "b"] nm))
        []
        [exNode15 "a" [] [exTaint15], exNode15 "a" [] [exTaint15], exNode15 "b"]
      = .ok (["b"], false) := by decide

end Eds
