import EdsProofs.ReconcileErs
import EdsProps.C04
import EdsProps.C10
/-
  C12 (replica-set side) — the replica-set controller only writes pods of its own daemon set.

  Subject: `reconcileErs` (EdsModel/ReconcileErs.lean); inversion lemmas EdsProofs/ReconcileErs.lean.

  Pods are identified by *name* in the write lists of the model; "the pod named `n` is owned" is stated
  as existence of a stored pod with that name having the property (with pod names distinct within
  the namespace this is the pod the API call hits).

    10 `C12_ers_writes_owned`       — every pod named in `cleanupDeletes ++ deletes ++ labelAdds ++
                                      labelRemoves` is a stored pod in the EDS's namespace carrying
                                      the EDS's name label or owned by the DaemonSet named by the
                                      old-daemonset annotation.        [full strength, no hypothesis
                                      beyond `ersOwner rs st = some d`]
       `C12_ers_deletes_owned`      — the first three lists: these pods are even listed pods
                                      (`ersPods d st`).
       `C12_ers_label_removes_owned` — `labelRemoves`: namespace, EDS name label, this replica set's
                                      name label and the canary label.
       `C12_ers_creates_owned`, `C12_ers_creates_eds_label` — created pods: namespace, both name
                                      labels, controller owner reference.            [full strength]
       History: against the previous model (`canaryLabelled` selecting by namespace + ERS-name label +
       canary label only) the statement was false for `labelRemoves` and a `…_partial` variant was
       proved here; the defect was repaired in the controller (the clean-up list now also requires
       the EDS name label), so the `_partial` theorem and its `hlab` hypothesis are gone.  The former
       counterexample (`stray`) is kept below as a regression example: it is no longer unlabelled.
    11 `C12_ers_counts_own`         — frame: two stores with the same EDSs, nodes, settings and the same
                                      `ersPods d ·` yield the same writes, status and requeue
                                      decision, `labelRemoves` excepted (it reads `canaryLabelled`).
-/
namespace Eds

section
variable (rs : ERS) (st : ErsStore) (released : String → Bool) (aff : Bool) (now : Time) (d : EDS)

/-- the ownership predicate of the statement. -/
def ownedByEds (d : EDS) (p : Pod) : Prop :=
  p.ns = d.ns ∧
  (SMap.get? p.labels K.edsNameLabel = some d.name ∨
   ∃ dsName, SMap.get? d.annotations K.oldDaemonsetAnnot = some dsName ∧
     p.owners.any (fun o => o.kind == "DaemonSet" && o.name == dsName) = true)

/-- every pod named in a deletion list or in `labelAdds` is a listed pod. -/
theorem ers_deletes_listed (h : ersOwner rs st = some d) :
    ∀ name ∈ (reconcileErs rs st released aff now).cleanupDeletes ++
             (reconcileErs rs st released aff now).deletes ++
             (reconcileErs rs st released aff now).labelAdds,
      ∃ p ∈ ersPods d st, p.name = name := by
  intro name hn
  have hadds : name ∈ (reconcileErs rs st released aff now).labelAdds → ∃ p ∈ ersPods d st, p.name = name := by
    intro hm
    obtain ⟨p, hp, hpn, _⟩ := (C04_label_scope rs st released aff now d h).1 name hm
    exact ⟨p, hp, hpn⟩
  rcases reconcileErs_cases rs st released aff now d h with hno | ⟨items, r, adds, removes, se, st0, F⟩
  · rw [hno.1, hno.2.1, hno.2.2.2.1] at hn; cases hn
  · rcases List.mem_append.mp hn with hn | hn
    · rcases List.mem_append.mp hn with hn | hn
      · -- clean-up
        rw [F.eq, ersFinish_cleanupDeletes] at hn
        have hs := F.strat
        rcases ersRole_cases d rs.name with hr | hr | hr
        · rw [hr] at hs
          rcases ersStrategy_active hs F.status with ⟨hm, -, -, -⟩ | ⟨-, hre, -, -, -⟩
          case inr =>
            -- early error of ManageDeployment: no clean-up
            rw [hre] at hn
            exact (mem_nil_elim (ersErrResult_empty _ now).2.2.1 hn).elim
          rw [manageDeployment_cleanup _ now now false r hm] at hn
          obtain ⟨p, hp, hpn, _⟩ := cleanup_pod_bound rs released now d items (ersPods d st) name hn
          exact ⟨p, hp, hpn⟩
        · rw [hr] at hs
          obtain ⟨r0, -, hr0, -, -, -⟩ := ersStrategy_canary hs
          rw [hr0] at hn
          obtain ⟨p, hp, hpn, _⟩ := cleanup_pod_bound rs released now d items (ersPods d st) name hn
          exact ⟨p, hp, hpn⟩
        · rw [hr] at hs
          obtain ⟨hr0, -, -, -⟩ := ersStrategy_unknown (by decide) (by decide) hs
          rw [hr0] at hn
          cases hn
      · -- deletions for updating
        rw [F.eq] at hn
        obtain ⟨x, hx, rfl⟩ := List.mem_map.mp (ersFinish_deletes_sub _ _ _ _ _ _ _ _ _ _ _ name hn)
        have hs := F.strat
        rcases ersRole_cases d rs.name with hr | hr | hr
        · rw [hr] at hs
          rcases ersStrategy_active hs F.status with ⟨hm, -, -, -⟩ | ⟨-, hre, -, -, -⟩
          case inr =>
            -- early error of ManageDeployment: nothing is deleted
            rw [hre] at hx
            exact (mem_nil_elim (ersErrResult_empty _ now).2.1 hx).elim
          have ht := manageDeployment_delete_mem _ now now false r hm x hx
          simp only [targeted, dropCanaryNodes, List.mem_filter] at ht
          exact ⟨x.2, (kept_pod_bound rs released now d items (ersPods d st) x.1 x.2 ht.1).1, rfl⟩
        · rw [hr] at hs
          obtain ⟨r0, hm, hr0, -, -, -⟩ := ersStrategy_canary hs
          have hx' : x ∈ r0.deleteE := by rw [hr0] at hx; exact hx
          have hb := (manageCanaryStatus_delete_mem _ now r0 hm x hx').1
          exact ⟨x.2, (kept_pod_bound rs released now d items (ersPods d st) x.1 x.2 hb).1, rfl⟩
        · rw [hr] at hs
          obtain ⟨hr0, -, -, -⟩ := ersStrategy_unknown (by decide) (by decide) hs
          rw [hr0] at hx
          exact (mem_nil_elim (C01_unknown_role_creates_nothing _ now).2 hx).elim
    · exact hadds hn

/-! ### 10. written pods are owned -/

/-- **Deleted / labelled pods are owned.**  Every pod the sync deletes (clean-up or update) or gives the
canary label is a stored pod of the EDS's namespace that carries the EDS's name label or belongs to
the DaemonSet being migrated. -/
theorem C12_ers_deletes_owned (h : ersOwner rs st = some d) :
    ∀ name ∈ (reconcileErs rs st released aff now).cleanupDeletes ++
             (reconcileErs rs st released aff now).deletes ++
             (reconcileErs rs st released aff now).labelAdds,
      ∃ p ∈ st.pods, p.name = name ∧ ownedByEds d p := by
  intro name hn
  obtain ⟨p, hp, hpn⟩ := ers_deletes_listed rs st released aff now d h name hn
  obtain ⟨a, b, c⟩ := mem_ersPods hp
  exact ⟨p, a, hpn, b, c⟩

/-- pods whose canary label is removed: namespace, all three labels. -/
theorem C12_ers_label_removes_owned (h : ersOwner rs st = some d) :
    ∀ name ∈ (reconcileErs rs st released aff now).labelRemoves,
      ∃ p ∈ st.pods, p.name = name ∧ p.ns = d.ns ∧
        SMap.get? p.labels K.edsNameLabel = some d.name ∧
        SMap.get? p.labels K.ersNameLabel = some rs.name ∧
        SMap.get? p.labels K.canaryLabel = some "true" := by
  intro name hn
  obtain ⟨p, hp, hpn, hns, hl, hc, he⟩ := (C04_label_scope rs st released aff now d h).2.1 name hn
  exact ⟨p, hp, hpn, by rw [hns, (ersOwner_some h).2.1], he, hl, hc⟩

/-- **Writes are owned.**  Every pod named in any of the four pod-write lists of a sync is a stored
pod of the EDS's namespace that carries the EDS's name label or is owned by the DaemonSet named by
the old-daemonset annotation. -/
theorem C12_ers_writes_owned (h : ersOwner rs st = some d) :
    ∀ name ∈ (reconcileErs rs st released aff now).cleanupDeletes ++
             (reconcileErs rs st released aff now).deletes ++
             (reconcileErs rs st released aff now).labelAdds ++
             (reconcileErs rs st released aff now).labelRemoves,
      ∃ p ∈ st.pods, p.name = name ∧ p.ns = d.ns ∧
        (SMap.get? p.labels K.edsNameLabel = some d.name ∨
         ∃ dsName, SMap.get? d.annotations K.oldDaemonsetAnnot = some dsName ∧
           p.owners.any (fun o => o.kind == "DaemonSet" && o.name == dsName) = true) := by
  intro name hn
  rcases List.mem_append.mp hn with hn | hn
  · exact C12_ers_deletes_owned rs st released aff now d h name hn
  · obtain ⟨p, hp, hpn, hns, he, _⟩ := C12_ers_label_removes_owned rs st released aff now d h name hn
    exact ⟨p, hp, hpn, hns, Or.inl he⟩

/-- the same with the predicate folded. -/
theorem C12_ers_writes_ownedByEds (h : ersOwner rs st = some d) :
    ∀ name ∈ (reconcileErs rs st released aff now).cleanupDeletes ++
             (reconcileErs rs st released aff now).deletes ++
             (reconcileErs rs st released aff now).labelAdds ++
             (reconcileErs rs st released aff now).labelRemoves,
      ∃ p ∈ st.pods, p.name = name ∧ ownedByEds d p :=
  C12_ers_writes_owned rs st released aff now d h

/-- **Created pods are owned**: the replica set's namespace, both name labels (the EDS one copied from
the replica set's own label), the replica set as only owner reference (`C10_meta`). -/
theorem C12_ers_creates_owned (x : String × Pod) (hx : x ∈ (reconcileErs rs st released aff now).creates) :
    x.2.ns = rs.ns ∧
    SMap.get? x.2.labels K.ersNameLabel = some rs.name ∧
    SMap.get? x.2.labels K.edsNameLabel = some (SMap.getD rs.labels K.edsNameLabel) ∧
    x.2.owners = [{ kind := "ExtendedDaemonSetReplicaSet", name := rs.name }] ∧
    Spec.C10.metaOk x.2 rs = true := by
  obtain ⟨n, s, rfl⟩ := C04_created_shape rs st released aff now x hx
  exact ⟨rfl, createPod_label_ers rs (some n) s aff, createPod_label_eds rs (some n) s aff, rfl,
    C10_meta rs n s aff⟩

/-- … so when the replica set carries its EDS's name label (as every replica set the EDS controller
creates does), a created pod satisfies the very predicate `ersPods` lists by. -/
theorem C12_ers_creates_eds_label (h : ersOwner rs st = some d)
    (hl : SMap.get? rs.labels K.edsNameLabel = some d.name)
    (x : String × Pod) (hx : x ∈ (reconcileErs rs st released aff now).creates) :
    ownedByEds d x.2 := by
  obtain ⟨h1, _, h3, _⟩ := C12_ers_creates_owned rs st released aff now x hx
  refine ⟨by rw [h1, (ersOwner_some h).2.1], Or.inl ?_⟩
  rw [h3]
  unfold SMap.getD
  rw [hl]; rfl

end

/-! ### 11. the sync reads the pods only through `ersPods` (and `canaryLabelled`) -/

/-- a write set with the canary-label removals blanked. -/
def ErsWrites.sansLabelRemoves (w : ErsWrites) : ErsWrites := { w with labelRemoves := [] }

theorem ersRun_labelled_irrelevant (d : EDS) (rs : ERS) (pods : List Pod) (l l' : List String)
    (released : String → Bool) (aff : Bool) (now : Time) (items : List NodeItem) :
    (ersRun d rs pods l released aff now items).sansLabelRemoves =
    (ersRun d rs pods l' released aff now items).sansLabelRemoves := by
  unfold ersRun ersStrategy
  by_cases ha : (ersRole d rs.name == "active") = true
  · simp only [ha, if_true]
    cases manageDeployment (ersParams released d rs items pods now) now now false with
    | ok r =>
      simp only []
      cases r.newStatus <;> rfl
    | err m => rfl
    | panic => rfl
  · have ha' : (ersRole d rs.name == "active") = false := by simpa using ha
    simp only [ha', Bool.false_eq_true, if_false]

/-- **Frame.**  Two stores that agree on the EDSs, nodes, settings and on the pod list `ersPods d ·`
produce the same deletions, creations, label additions, candidates, status (hence counters) and
requeue decision; only `labelRemoves` may differ.  In particular the status counters are computed
from `ersPods d st` alone. -/
theorem C12_ers_counts_own (rs : ERS) (st st' : ErsStore) (released : String → Bool) (aff : Bool) (now : Time)
    (d : EDS) (h : ersOwner rs st = some d)
    (he : st'.edss = st.edss) (hn : st'.nodes = st.nodes) (hs : st'.settings = st.settings)
    (hp : ersPods d st' = ersPods d st) :
    (reconcileErs rs st' released aff now).sansLabelRemoves =
    (reconcileErs rs st released aff now).sansLabelRemoves := by
  have h' : ersOwner rs st' = some d := by
    unfold ersOwner at h ⊢; rw [he]; exact h
  have hitems : ersNodeItems d rs st' = ersNodeItems d rs st := by
    unfold ersNodeItems; rw [hn, hs]
  rw [reconcileErs_eq rs st released aff now d h, reconcileErs_eq rs st' released aff now d h']
  unfold ersBody
  rw [hitems, hp]
  split
  · rfl
  · split
    · rfl
    · split
      · rfl
      · exact ersRun_labelled_irrelevant d rs _ _ _ released aff now _

/-- the individual fields of the frame theorem. -/
theorem C12_ers_counts_own_fields (rs : ERS) (st st' : ErsStore) (released : String → Bool) (aff : Bool)
    (now : Time) (d : EDS) (h : ersOwner rs st = some d)
    (he : st'.edss = st.edss) (hn : st'.nodes = st.nodes) (hs : st'.settings = st.settings)
    (hp : ersPods d st' = ersPods d st) :
    (reconcileErs rs st' released aff now).statusUpdate = (reconcileErs rs st released aff now).statusUpdate ∧
    (reconcileErs rs st' released aff now).creates = (reconcileErs rs st released aff now).creates ∧
    (reconcileErs rs st' released aff now).deletes = (reconcileErs rs st released aff now).deletes ∧
    (reconcileErs rs st' released aff now).cleanupDeletes = (reconcileErs rs st released aff now).cleanupDeletes ∧
    (reconcileErs rs st' released aff now).labelAdds = (reconcileErs rs st released aff now).labelAdds := by
  have := C12_ers_counts_own rs st st' released aff now d h he hn hs hp
  have h1 := congrArg (fun w : ErsWrites => w.statusUpdate) this
  have h2 := congrArg (fun w : ErsWrites => w.creates) this
  have h3 := congrArg (fun w : ErsWrites => w.deletes) this
  have h4 := congrArg (fun w : ErsWrites => w.cleanupDeletes) this
  have h5 := congrArg (fun w : ErsWrites => w.labelAdds) this
  exact ⟨h1, h2, h3, h4, h5⟩

/-! ### Examples (store of EdsProps/C04.lean) -/

/-- the canary is over, `d-new` is the active replica set.  `stray` lives in the namespace, carries
`d-new`'s name label and the canary label but NOT the EDS's name label (and no owner): it is not a
listed pod.  Before the repair the canary-label clean-up removed its label too; now it does not. -/
def exPods12 : List Pod :=
  [exPod04 "new-1" "n1" "d-new" "new" true, exPod04 "stray" "n2" "d-new" "new" true false]

example : (reconcileErs (exErs04 "d-new" "new") (exStore04 exPods12 false) (fun _ => true) true 100).labelRemoves
    = ["new-1"] := by decide
example : "stray" ∉ (reconcileErs (exErs04 "d-new" "new") (exStore04 exPods12 false) (fun _ => true) true
    100).labelRemoves := by decide
/-- `stray` is indeed not owned: no EDS name label, no owner reference … -/
example : ∀ p ∈ (exStore04 exPods12 false).pods, p.name = "stray" →
    SMap.get? p.labels K.edsNameLabel ≠ some (exEds04 false).name ∧ p.owners = [] := by decide
example : (ersPods (exEds04 false) (exStore04 exPods12 false)).map (·.name) = ["new-1"] := by decide
/-- … and it is left alone by every write (it is not even listed, so `n2` gets a new pod). -/
example : (reconcileErs (exErs04 "d-new" "new") (exStore04 exPods12 false) (fun _ => true) true 100).deletes = [] ∧
    (reconcileErs (exErs04 "d-new" "new") (exStore04 exPods12 false) (fun _ => true) true 100).cleanupDeletes = [] ∧
    (reconcileErs (exErs04 "d-new" "new") (exStore04 exPods12 false) (fun _ => true) true 100).labelAdds = [] ∧
    (reconcileErs (exErs04 "d-new" "new") (exStore04 exPods12 false) (fun _ => true) true 100).creates.map (·.1)
      = ["n2"] := by decide

/-- created pods carry both labels and the owner reference. -/
example : (reconcileErs (exErs04 "d-new" "new") exStore04 (fun _ => true) true 100).creates.map
    (fun x => (x.2.ns, SMap.get? x.2.labels K.edsNameLabel, SMap.get? x.2.labels K.ersNameLabel, x.2.owners))
    = [("ns", some "d", some "d-new", [{ kind := "ExtendedDaemonSetReplicaSet", name := "d-new" }])] := by decide

end Eds
