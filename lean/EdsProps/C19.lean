import EdsProofs.Cli
import EdsProps.C05
import EdsProps.C08
/-
  C19 — kubectl-eds canary pause / unpause / validate / fail, rolling-update pause / unpause and
  rollout freeze / unfreeze modify only the documented annotation (or condition) of the targeted
  object, refuse to act when their precondition does not hold, and the controller's next reconciles
  interpret them as documented.

  Quantification: every command, every `spec.strategy.canary` presence flag, every `status.canary`,
  every annotation map (association list, duplicates allowed unless a hypothesis says otherwise),
  every replica set / status the controller functions are applied to.

  Findings recorded here
  * `C19_frame` needs the annotation list to be self-consistent off the documented keys (true of
    every list with pairwise distinct keys, hence of every Go map); `C19_frame_needs_consistency`
    is the counterexample, `C19_frame_iff` the exact statement, `C19_frame_get` the
    hypothesis-free lookup form.
  * `C19_fail_rollback` needs "no earlier Canary-Failed entry, or the first one is already True":
    the model of `canary fail` *appends* a condition, the readers take the *first* entry
    (`C19_fail_ignored_after_false_entry`).  `C19_fail_via_updateCond` shows that writing the
    condition with the controller's own `updateCond` has no such gap.
-/
namespace Eds
open Spec.C19 CliP

/-! ## 1. Frame: only the documented keys change -/

/-- hypothesis-free form: every lookup outside the documented keys is unchanged. -/
theorem C19_frame_get (cmd : CliCmd) (h : Bool) (sc : Option CanaryStatus) (ann ann' : SMap)
    (hr : cliRun cmd h sc ann = .patchAnnotations ann') (k : String)
    (hk : (documentedKeys cmd).contains k = false) :
    SMap.get? ann' k = SMap.get? ann k := by
  obtain ⟨rfl, hpre⟩ := cliRun_patch hr
  cases cmd <;> simp [documentedKeys] at hk <;> simp only [patchOf]
  · rw [get_set_other _ _ _ _ hk.2, get_set_other _ _ _ _ hk.1]
  · rw [get_set_other _ _ _ _ hk.2, get_set_other _ _ _ _ hk.1]
  · cases sc with
    | none => rfl
    | some cs => exact get_set_other _ _ _ _ hk
  · exact get_set_other _ _ _ _ hk
  · exact get_set_other _ _ _ _ hk
  · exact get_set_other _ _ _ _ hk
  · exact get_set_other _ _ _ _ hk

/-- the entries (not only the lookups) outside the documented keys are literally the same list. -/
theorem C19_frame_entries (cmd : CliCmd) (h : Bool) (sc : Option CanaryStatus) (ann ann' : SMap)
    (hr : cliRun cmd h sc ann = .patchAnnotations ann') :
    ann'.filter (fun e => !(documentedKeys cmd).contains e.k) =
      ann.filter (fun e => !(documentedKeys cmd).contains e.k) := by
  obtain ⟨rfl, hpre⟩ := cliRun_patch hr
  cases cmd <;> simp only [patchOf]
  · rw [filter_set_off _ _ _ _ (by decide), filter_set_off _ _ _ _ (by decide)]
  · rw [filter_set_off _ _ _ _ (by decide), filter_set_off _ _ _ _ (by decide)]
  · cases sc with
    | none => rfl
    | some cs => exact filter_set_off _ _ _ _ (by decide)
  · exact filter_set_off _ _ _ _ (by decide)
  · exact filter_set_off _ _ _ _ (by decide)
  · exact filter_set_off _ _ _ _ (by decide)
  · exact filter_set_off _ _ _ _ (by decide)

/-- **exact** form: the frame predicate of the patch is the self-consistency of the input map off
the documented keys — the command itself never adds a violation. -/
theorem C19_frame_iff (cmd : CliCmd) (h : Bool) (sc : Option CanaryStatus) (ann ann' : SMap)
    (hr : cliRun cmd h sc ann = .patchAnnotations ann') :
    frameOk ann ann' (documentedKeys cmd) = frameOk ann ann (documentedKeys cmd) :=
  frameOk_of_agree ann ann' _ (C19_frame_entries cmd h sc ann ann' hr)
    (fun k hk => C19_frame_get cmd h sc ann ann' hr k hk)

/-- **Frame.** For an annotation map with pairwise distinct keys (every Go `map[string]string`)
only the documented annotation keys change. -/
theorem C19_frame (cmd : CliCmd) (h : Bool) (sc : Option CanaryStatus) (ann ann' : SMap)
    (hnd : (ann.map (·.k)).Nodup)
    (hr : cliRun cmd h sc ann = .patchAnnotations ann') :
    frameOk ann ann' (documentedKeys cmd) = true := by
  rw [C19_frame_iff cmd h sc ann ann' hr]
  exact frameOk_self ann _ hnd

/-- the weakest hypothesis: self-consistency off the documented keys. -/
theorem C19_frame_of_consistent (cmd : CliCmd) (h : Bool) (sc : Option CanaryStatus) (ann ann' : SMap)
    (hc : ∀ e ∈ ann, (documentedKeys cmd).contains e.k = false → SMap.get? ann e.k = some e.v)
    (hr : cliRun cmd h sc ann = .patchAnnotations ann') :
    frameOk ann ann' (documentedKeys cmd) = true := by
  rw [C19_frame_iff cmd h sc ann ann' hr]
  unfold frameOk
  simp only [Bool.and_self, List.all_eq_true, beq_iff_eq]
  intro e he
  have := List.mem_filter.1 he
  exact hc e this.1 (by simpa using this.2)

/-- the hypothesis cannot be dropped: with a duplicated foreign key carrying two values the
*list-level* predicate `frameOk` is already false of `(ann, ann)`, hence of `(ann, ann')`. -/
theorem C19_frame_needs_consistency :
    let ann : SMap := [⟨"x", "1"⟩, ⟨"x", "2"⟩]
    cliRun .ruPause false none ann
      = .patchAnnotations (ann ++ [⟨K.rollingUpdatePausedAnnot, "true"⟩]) ∧
    frameOk ann (ann ++ [⟨K.rollingUpdatePausedAnnot, "true"⟩]) (documentedKeys .ruPause) = false ∧
    frameOk ann ann (documentedKeys .ruPause) = false := by decide

/-! ## 2. Refusals -/

/-- **Precondition.** Without the documented precondition every command refuses. -/
theorem C19_refuses (cmd : CliCmd) (h : Bool) (sc : Option CanaryStatus) (ann : SMap)
    (hpre : precondition cmd h sc = false) :
    ∃ why, cliRun cmd h sc ann = .refused why := by
  cases cmd <;> cases h <;> cases sc <;> simp [precondition] at hpre <;> simp [cliRun]

/-- the refusal names the violated precondition. -/
theorem C19_refuses_reason (cmd : CliCmd) (h : Bool) (sc : Option CanaryStatus) (ann : SMap)
    (hpre : precondition cmd h sc = false) :
    cliRun cmd h sc ann = .refused "no-canary-strategy" ∨
    cliRun cmd h sc ann = .refused "no-active-canary" ∨
    cliRun cmd h sc ann = .refused "active-canary" := by
  cases cmd <;> cases h <;> cases sc <;> simp [precondition] at hpre <;> simp [cliRun]

/-- "the object is already in the requested state". -/
def C19.already (cmd : CliCmd) (sc : Option CanaryStatus) (ann : SMap) : Bool :=
  match cmd with
  | .canaryPause => SMap.get? ann K.canaryPausedAnnot == some "true"
  | .canaryUnpause => SMap.get? ann K.canaryPausedAnnot == some "false"
  | .canaryValidate =>
    (match sc with
     | some cs => SMap.get? ann K.canaryValidAnnot == some cs.replicaSet
     | none => false)
  | .canaryFail => false
  | .ruPause => SMap.get? ann K.rollingUpdatePausedAnnot == some "true"
  | .ruUnpause => SMap.get? ann K.rollingUpdatePausedAnnot == some "false" ||
                  (SMap.get? ann K.rollingUpdatePausedAnnot).isNone
  | .freeze => SMap.get? ann K.rolloutFrozenAnnot == some "true"
  | .unfreeze => SMap.get? ann K.rolloutFrozenAnnot == some "false" ||
                 (SMap.get? ann K.rolloutFrozenAnnot).isNone

/-- **Already in the requested state**: canary pause when the paused annotation is `true`, canary
unpause when it is `false`, validate when canary-valid already names `status.canary.replicaSet`,
rolling-update pause / freeze when already `true`, rolling-update unpause / unfreeze when `false`
or absent — all refuse, whatever the other inputs. -/
theorem C19_refuses_already (cmd : CliCmd) (h : Bool) (sc : Option CanaryStatus) (ann : SMap)
    (hal : C19.already cmd sc ann = true) :
    ∃ why, cliRun cmd h sc ann = .refused why := by
  cases cmd <;> cases h <;> cases sc <;> simp [C19.already] at hal <;> simp [cliRun, hal]
  all_goals (rcases hal with hal | hal <;> simp [hal])

/-- the individual clauses, spelled out. -/
theorem C19_refuses_already_clauses (h : Bool) (cs : CanaryStatus) (ann : SMap) :
    (SMap.get? ann K.canaryPausedAnnot = some "true" →
      cliRun .canaryPause true (some cs) ann = .refused "already-paused") ∧
    (SMap.get? ann K.canaryPausedAnnot = some "false" →
      cliRun .canaryUnpause true (some cs) ann = .refused "not-paused") ∧
    (SMap.get? ann K.canaryValidAnnot = some cs.replicaSet →
      cliRun .canaryValidate h (some cs) ann = .refused "already-validated") ∧
    (SMap.get? ann K.rollingUpdatePausedAnnot = some "true" →
      cliRun .ruPause h none ann = .refused "already") ∧
    (SMap.get? ann K.rollingUpdatePausedAnnot = some "false" ∨ SMap.get? ann K.rollingUpdatePausedAnnot = none →
      cliRun .ruUnpause h none ann = .refused "not-set") ∧
    (SMap.get? ann K.rolloutFrozenAnnot = some "true" →
      cliRun .freeze h none ann = .refused "already") ∧
    (SMap.get? ann K.rolloutFrozenAnnot = some "false" ∨ SMap.get? ann K.rolloutFrozenAnnot = none →
      cliRun .unfreeze h none ann = .refused "not-set") := by
  refine ⟨?_, ?_, ?_, ?_, ?_, ?_, ?_⟩
  · intro hg; simp [cliRun, hg]
  · intro hg; simp [cliRun, hg]
  · intro hg; simp [cliRun, hg]
  · intro hg; simp [cliRun, hg]
  · intro hg; rcases hg with hg | hg <;> simp [cliRun, hg]
  · intro hg; simp [cliRun, hg]
  · intro hg; rcases hg with hg | hg <;> simp [cliRun, hg]

/-- **Completeness of the refusals**: a command whose precondition holds and whose target is not
already in the requested state acts, and it acts exactly as documented (`canary fail` on the
replica set's status, the others by the annotation patch `patchOf`). -/
theorem C19_acts (cmd : CliCmd) (h : Bool) (sc : Option CanaryStatus) (ann : SMap)
    (hpre : precondition cmd h sc = true) (hal : C19.already cmd sc ann = false) :
    (cmd ≠ .canaryFail → cliRun cmd h sc ann = .patchAnnotations (patchOf cmd sc ann)) ∧
    (cmd = .canaryFail → ∃ cs, sc = some cs ∧ cliRun cmd h sc ann = .failErs cs.replicaSet) := by
  cases cmd <;> cases h <;> cases sc <;> simp [precondition] at hpre <;>
    simp [C19.already] at hal <;> simp [cliRun, patchOf, hal]
  all_goals first | (split <;> simp_all) | (intro hn; simp [hn] at hal)

/-- the specification predicate evaluated on the implementation (`Spec.C19.mustAct`) is the hypothesis
of `C19_acts`: such a command is never refused — e.g. `canary unpause` on a canary the controller
paused by itself, where the ExtendedDaemonSet carries no canary-paused annotation at all. -/
theorem C19_acts_when_applicable (cmd : CliCmd) (h : Bool) (sc : Option CanaryStatus) (ann : SMap)
    (hm : mustAct cmd h sc ann = true) : ∀ why, cliRun cmd h sc ann ≠ .refused why := by
  have hal : alreadyInState cmd sc ann = C19.already cmd sc ann := by
    cases cmd <;> rfl
  simp only [mustAct, Bool.and_eq_true, Bool.not_eq_true'] at hm
  obtain ⟨hpre, hna⟩ := hm
  rw [hal] at hna
  obtain ⟨h1, h2⟩ := C19_acts cmd h sc ann hpre hna
  intro why
  by_cases hc : cmd = .canaryFail
  · obtain ⟨cs, _, e⟩ := h2 hc; rw [e]; simp
  · rw [h1 hc]; simp

example : mustAct .canaryUnpause true (some { replicaSet := "foo-b", nodes := ["n1"] }) [] = true := by decide

/-- a patch is produced exactly when the precondition holds and the state is not already there. -/
theorem C19_patch_iff (cmd : CliCmd) (h : Bool) (sc : Option CanaryStatus) (ann : SMap) :
    (∃ ann', cliRun cmd h sc ann = .patchAnnotations ann') ↔
      (cmd ≠ .canaryFail ∧ precondition cmd h sc = true ∧ C19.already cmd sc ann = false) := by
  constructor
  · rintro ⟨ann', hr⟩
    have hpre := (cliRun_patch hr).2
    refine ⟨?_, hpre, ?_⟩
    · rintro rfl
      cases h <;> cases sc <;> simp [cliRun] at hr
    · cases hal : C19.already cmd sc ann with
      | false => rfl
      | true =>
        obtain ⟨why, hw⟩ := C19_refuses_already cmd h sc ann hal
        rw [hw] at hr; cases hr
  · rintro ⟨hne, hpre, hal⟩
    exact ⟨_, (C19_acts cmd h sc ann hpre hal).1 hne⟩

/-! ## 3. The documented value is written -/

theorem C19_writes (cmd : CliCmd) (h : Bool) (sc : Option CanaryStatus) (ann ann' : SMap)
    (hr : cliRun cmd h sc ann = .patchAnnotations ann') :
    writtenOk cmd sc ann' = true := by
  obtain ⟨rfl, hpre⟩ := cliRun_patch hr
  cases cmd <;> simp only [patchOf, writtenOk]
  · rw [get_set_same, get_set_other _ _ _ _ paused_ne_unpaused, get_set_same]; rfl
  · rw [get_set_same, get_set_other _ _ _ _ paused_ne_unpaused, get_set_same]; rfl
  · cases sc with
    | none => simp [precondition] at hpre
    | some cs => simp only []; rw [get_set_same]; simp
  · rw [get_set_same]; rfl
  · rw [get_set_same]; rfl
  · rw [get_set_same]; rfl
  · rw [get_set_same]; rfl

/-! ## 4. `canary fail` targets the canary replica set and nothing else -/

theorem C19_fail_never_patches (h : Bool) (sc : Option CanaryStatus) (ann ann' : SMap) :
    cliRun .canaryFail h sc ann ≠ .patchAnnotations ann' := by
  cases h <;> cases sc <;> simp [cliRun]

theorem C19_fail_targets_canary_ers (cs : CanaryStatus) (ann : SMap) :
    cliRun .canaryFail true (some cs) ann = .failErs cs.replicaSet ∧
    (∀ (h : Bool) (sc : Option CanaryStatus) (ann' : SMap),
        cliRun .canaryFail h sc ann ≠ .patchAnnotations ann') :=
  ⟨rfl, fun h sc ann' => C19_fail_never_patches h sc ann ann'⟩

/-- whenever `canary fail` acts, the named replica set is `status.canary.replicaSet`. -/
theorem C19_fail_only_canary_ers (h : Bool) (sc : Option CanaryStatus) (ann : SMap) (name : String)
    (hr : cliRun .canaryFail h sc ann = .failErs name) :
    h = true ∧ ∃ cs, sc = some cs ∧ name = cs.replicaSet := by
  cases h <;> cases sc <;> simp [cliRun] at hr
  exact ⟨rfl, _, rfl, hr.symm⟩

/-- no other command touches a replica set. -/
theorem C19_only_fail_touches_ers (cmd : CliCmd) (h : Bool) (sc : Option CanaryStatus) (ann : SMap)
    (name : String) (hr : cliRun cmd h sc ann = .failErs name) : cmd = .canaryFail := by
  cases cmd <;> first | rfl | skip
  all_goals (exfalso; cases h <;> cases sc <;> simp [cliRun] at hr)
  all_goals (repeat' split at hr) <;> simp_all

/-! ## 5. Interpretation by the controller -/

/-! ### a. pause -/

theorem C19_pause_annotations (h : Bool) (sc : Option CanaryStatus) (ann ann' : SMap)
    (hr : cliRun .canaryPause h sc ann = .patchAnnotations ann') :
    SMap.get? ann' K.canaryPausedAnnot = some "true" ∧ isCanaryUnpaused ann' = false := by
  have hw := C19_writes _ _ _ _ _ hr
  simp only [writtenOk, Bool.and_eq_true, beq_iff_eq] at hw
  refine ⟨hw.1, ?_⟩
  unfold isCanaryUnpaused; rw [hw.2]; decide

/-- **Pause ⇒ "Canary Paused".** After a successful `canary pause` the controller's pause reader
answers `true` for every replica set (and for none), so an active, not failed canary is reported
as `Canary Paused`. -/
theorem C19_pause_state (cs : CanaryStatus) (ann ann' : SMap)
    (hr : cliRun .canaryPause true (some cs) ann = .patchAnnotations ann') :
    (∀ ers : Option ERS, (isCanaryPaused ann' ers).1 = true) ∧
    (∀ (st : EDSStatus) (u : ERS) (reason : String),
        (manageStatus st u true false true reason ann').state = "Canary Paused") ∧
    (∀ (st : EDSStatus) (u : ERS),
        (manageStatus st u true false (isCanaryPaused ann' (some u)).1 (isCanaryPaused ann' (some u)).2 ann').state
          = "Canary Paused") := by
  have hp := (C19_pause_annotations _ _ _ _ hr).1
  have hall : ∀ ers : Option ERS, (isCanaryPaused ann' ers).1 = true := by
    intro ers
    unfold isCanaryPaused
    cases ers with
    | none => simp [hp]
    | some e => by_cases hc : isCondTrue e.status.conds "Canary-Paused" = true <;> simp [hc, hp]
  refine ⟨hall, ?_, ?_⟩
  · intro st u reason; rw [C08_canary_state]; rfl
  · intro st u; rw [C08_canary_state, hall]; rfl

/-- and a paused canary is not promoted by elapsed time (only by an explicit validation). -/
theorem C19_pause_blocks_promotion (cs : CanaryStatus) (ann ann' : SMap) (c : Canary) (a u : ERS) (now : Time)
    (hr : cliRun .canaryPause true (some cs) ann = .patchAnnotations ann')
    (hv : isCanaryValid ann' u.name = false) :
    (selectCurrent (some c) ann' (some a) u false now).1 = .active :=
  C05_paused_never_by_time c ann' a u now ((C19_pause_state cs ann ann' hr).1 _) hv

/-! ### b. unpause -/

/-- **Unpause ⇒ "Canary".** -/
theorem C19_unpause_annotations (cs : CanaryStatus) (ann ann' : SMap)
    (hr : cliRun .canaryUnpause true (some cs) ann = .patchAnnotations ann') :
    isCanaryUnpaused ann' = true ∧
    SMap.get? ann' K.canaryPausedAnnot = some "false" ∧
    (∀ u : ERS, isCondTrue u.status.conds "Canary-Paused" = false →
        (isCanaryPaused ann' (some u)).1 = false ∧
        (∀ st : EDSStatus, (manageStatus st u true false false "" ann').state = "Canary") ∧
        (∀ st : EDSStatus,
          (manageStatus st u true false (isCanaryPaused ann' (some u)).1 (isCanaryPaused ann' (some u)).2 ann').state
            = "Canary")) ∧
    (isCanaryPaused ann' none).1 = false := by
  have hw := C19_writes _ _ _ _ _ hr
  simp only [writtenOk, Bool.and_eq_true, beq_iff_eq] at hw
  have hnp : ∀ u : ERS, isCondTrue u.status.conds "Canary-Paused" = false →
      (isCanaryPaused ann' (some u)).1 = false := by
    intro u hu
    rw [C08_pause_sources, hu, hw.1]; decide
  refine ⟨?_, hw.1, ?_, ?_⟩
  · unfold isCanaryUnpaused; rw [hw.2]; decide
  · intro u hu
    refine ⟨hnp u hu, ?_, ?_⟩
    · intro st; rw [C08_canary_state]; rfl
    · intro st; rw [C08_canary_state, hnp u hu]; rfl
  · simp [isCanaryPaused, hw.1]

/-- the annotation written by `unpause` does not override a pause the controller itself recorded on
the replica set (auto-pause): that one is lifted by `isCanaryUnpaused` inside the canary strategy
(EdsProps/C06.lean, `C08_canary_resumes_on_unpause`), not by the annotation reader. -/
theorem C19_unpause_keeps_ers_pause (ann' : SMap) (u : ERS)
    (hu : isCondTrue u.status.conds "Canary-Paused" = true) :
    (isCanaryPaused ann' (some u)).1 = true := by
  rw [C08_pause_sources, hu]; rfl

/-! ### c. validate -/

/-- **Validate promotes exactly the replica set that was the canary when the command ran.** -/
theorem C19_validate_exact (h : Bool) (cs : CanaryStatus) (ann ann' : SMap)
    (hr : cliRun .canaryValidate h (some cs) ann = .patchAnnotations ann') :
    (∀ u : ERS, isCanaryValid ann' u.name = true ↔ u.name = cs.replicaSet) ∧
    (∀ (c : Canary) (a u : ERS) (now : Time), u.name = cs.replicaSet →
        (selectCurrent (some c) ann' (some a) u false now).1 = .upToDate) ∧
    (∀ u' : ERS, u'.name ≠ cs.replicaSet → isCanaryValid ann' u'.name = false) ∧
    (∀ (c : Canary) (a u' : ERS) (now : Time), u'.name ≠ cs.replicaSet →
        ((isCanaryPaused ann' (some u')).1 = true ∨ isCanaryFailed (some u') = true ∨
          (isCanaryEnded (some c) u' now).1 = false) →
        (selectCurrent (some c) ann' (some a) u' false now).1 = .active) := by
  have hw := C19_writes _ _ _ _ _ hr
  simp only [writtenOk, beq_iff_eq] at hw
  have hiff : ∀ u : ERS, isCanaryValid ann' u.name = true ↔ u.name = cs.replicaSet := by
    intro u
    unfold isCanaryValid
    rw [hw]
    simp only [beq_iff_eq, Option.some.injEq]
    exact eq_comm
  have hne : ∀ u' : ERS, u'.name ≠ cs.replicaSet → isCanaryValid ann' u'.name = false := by
    intro u' hu'
    cases hv : isCanaryValid ann' u'.name with
    | false => rfl
    | true => exact absurd ((hiff u').1 hv) hu'
  refine ⟨hiff, ?_, hne, ?_⟩
  · intro c a u now hu
    exact C05_valid_promotes c ann' a u now ((hiff u).2 hu)
  · intro c a u' now hu' hblock
    have hv := hne u' hu'
    rcases hblock with hp | hf | he
    · exact C05_paused_never_by_time c ann' a u' now hp hv
    · exact C05_failed_never_by_time c ann' a u' now hf hv
    · simp [selectCurrent, hv, he]

/-- the validation does not touch the pause annotations (frame), so a paused later replica set
stays paused. -/
theorem C19_validate_keeps_pause (h : Bool) (cs : CanaryStatus) (ann ann' : SMap) (ers : Option ERS)
    (hr : cliRun .canaryValidate h (some cs) ann = .patchAnnotations ann') :
    isCanaryPaused ann' ers = isCanaryPaused ann ers ∧ isCanaryUnpaused ann' = isCanaryUnpaused ann := by
  have h1 := C19_frame_get _ _ _ _ _ hr K.canaryPausedAnnot (by decide)
  have h2 := C19_frame_get _ _ _ _ _ hr K.canaryPausedReasonAnnot (by decide)
  have h3 := C19_frame_get _ _ _ _ _ hr K.canaryUnpausedAnnot (by decide)
  unfold isCanaryPaused isCanaryUnpaused
  rw [h1, h2, h3]
  exact ⟨rfl, rfl⟩

/-! ### d. fail -/

/-- what `canary fail` does to the named replica set. -/
def C19.failedErs (ers : ERS) (t : Time) : ERS :=
  { ers with status := { ers.status with conds := ers.status.conds ++
      [{ type := "Canary-Failed", status := "True", lastTransition := t, lastUpdate := t,
         reason := "Manually failed", message := "" }] } }

theorem findCond_append_single_cases (cs : List Cond) (c : Cond) (t : String) :
    findCond (cs ++ [c]) t =
      match findCond cs t with
      | some x => some x
      | none => if c.type == t then some c else none := by
  unfold findCond
  rw [List.find?_append]
  cases List.find? (fun c => c.type == t) cs with
  | some x => rfl
  | none => cases h : c.type == t <;> simp [h]

/-- exact reading of the appended condition: the readers see the *first* Canary-Failed entry. -/
theorem C19_fail_reads (ers : ERS) (t : Time) :
    isCanaryFailed (some (C19.failedErs ers t)) =
      match findCond ers.status.conds "Canary-Failed" with
      | none => true
      | some c => c.status == "True" := by
  unfold isCanaryFailed isCondTrue C19.failedErs
  simp only [findCond_append_single_cases]
  cases findCond ers.status.conds "Canary-Failed" with
  | none => rfl
  | some c => rfl

/-- **Fail ⇒ rollback**, provided the replica set has no earlier Canary-Failed entry or its first
one is already True. -/
theorem C19_fail_rollback (ers : ERS) (t : Time)
    (hfirst : findCond ers.status.conds "Canary-Failed" = none ∨
              isCondTrue ers.status.conds "Canary-Failed" = true) :
    let ers' : ERS := { ers with status := { ers.status with conds := ers.status.conds ++
      [{ type := "Canary-Failed", status := "True", lastTransition := t, lastUpdate := t,
         reason := "Manually failed", message := "" }] } }
    isCanaryFailed (some ers') = true := by
  intro ers'
  show isCanaryFailed (some (C19.failedErs ers t)) = true
  rw [C19_fail_reads]
  rcases hfirst with hn | ht
  · rw [hn]
  · unfold isCondTrue at ht
    cases hf : findCond ers.status.conds "Canary-Failed" with
    | none => rfl
    | some c => rw [hf] at ht; exact ht

/-- … and what the controller then does: the state is `Canary Failed`, `status.canary` is cleared,
the canary is no longer active and elapsed time never promotes the failed replica set. -/
theorem C19_fail_rollback_state (ers : ERS) (t : Time)
    (hfirst : findCond ers.status.conds "Canary-Failed" = none ∨
              isCondTrue ers.status.conds "Canary-Failed" = true)
    (st : EDSStatus) (active paused : Bool) (reason : String) (ann : SMap)
    (canary : Option Canary) (c : Canary) (a : ERS) (now : Time) :
    let ers' := C19.failedErs ers t
    (manageStatus st ers' active (isCanaryFailed (some ers')) paused reason ann).state = "Canary Failed" ∧
    (manageStatus st ers' active (isCanaryFailed (some ers')) paused reason ann).canary = none ∧
    isCanaryActive canary a.name ers'.name (isCanaryFailed (some ers')) = false ∧
    (isCanaryValid ann ers'.name = false →
      (selectCurrent (some c) ann (some a) ers' false now).1 = .active) := by
  intro ers'
  have hf : isCanaryFailed (some ers') = true := C19_fail_rollback ers t hfirst
  refine ⟨?_, ?_, ?_, ?_⟩
  · rw [hf]; simp [manageStatus]
  · rw [hf]; simp [manageStatus]
  · rw [hf]; simp [isCanaryActive]
  · intro hv; exact C05_failed_never_by_time c ann a ers' now hf hv

/-- **Counterexample to the unconditional statement** (general form): if the replica set already
carries a Canary-Failed entry that is not True (the controller's own reconcile never writes one —
`updateCond … "False" … writeFalseIfNotExist := false` — but nothing forbids it on the object), the
appended True entry is shadowed and the command has no effect on the controller. -/
theorem C19_fail_ignored_after_false_entry (ers : ERS) (t : Time) (c : Cond)
    (hc : findCond ers.status.conds "Canary-Failed" = some c) (hs : c.status ≠ "True") :
    isCanaryFailed (some (C19.failedErs ers t)) = false := by
  rw [C19_fail_reads, hc]
  simpa using hs

/-- … on a concrete replica set. -/
theorem C19_fail_ignored_after_false_entry_ex :
    let ers := exErs "canary" 0 [⟨"Canary-Failed", "False", 0, 0, "", ""⟩]
    let ers' : ERS := { ers with status := { ers.status with conds := ers.status.conds ++
      [{ type := "Canary-Failed", status := "True", lastTransition := 5, lastUpdate := 5,
         reason := "Manually failed", message := "" }] } }
    isCanaryFailed (some ers') = false := by decide

/-! Writing the condition the way the controller does (`updateCond`, which rewrites the first
entry) closes the gap. -/

theorem findCond_updateFirst (cs : List Cond) (t : String) (f : Cond → Cond)
    (hf : ∀ c, (f c).type = c.type) :
    findCond (updateFirst cs t f) t = (findCond cs t).map f := by
  induction cs with
  | nil => rfl
  | cons c cs ih =>
    unfold updateFirst
    by_cases hc : (c.type == t) = true
    · have hfc : ((f c).type == t) = true := by rw [hf]; exact hc
      simp [findCond, hc, hfc]
    · have hc' : (c.type == t) = false := by simpa using hc
      simp only [hc', Bool.false_eq_true, if_false]
      unfold findCond at ih ⊢
      simp only [List.find?_cons, hc']
      exact ih

theorem C19_fail_via_updateCond (cs : List Cond) (now : Time) (reason desc : String) (w s : Bool) :
    isCondTrue (updateCond cs now "Canary-Failed" "True" reason desc w s) "Canary-Failed" = true := by
  unfold updateCond
  cases hfc : findCond cs "Canary-Failed" with
  | none =>
    simp only [beq_self_eq_true, Bool.true_or, if_true]
    unfold isCondTrue
    rw [findCond_append_single_cases, hfc]
    rfl
  | some c0 =>
    simp only []
    unfold isCondTrue
    rw [findCond_updateFirst _ _ _ (by intro c; by_cases h1 : (c.status != "True") = true <;> cases s <;> simp [h1]), hfc]
    simp only [Option.map_some, beq_self_eq_true, if_true]
    by_cases h1 : (c0.status != "True") = true
    · cases s <;> simp [h1]
    · have : c0.status = "True" := by simpa using h1
      cases s <;> simp [this]

/-! ### e. rolling-update pause / unpause, freeze / unfreeze -/

theorem C19_rupause_stops_updates (h : Bool) (sc : Option CanaryStatus) (ann ann' : SMap)
    (hr : cliRun .ruPause h sc ann = .patchAnnotations ann') :
    isRollingUpdatePaused ann' = true ∧ isRolloutFrozen ann' = isRolloutFrozen ann ∧
    (∀ (c : Counts) (N ms mu mc : Int) (frozen : Bool),
        (rollingPlan c N ms mu mc (isRollingUpdatePaused ann') frozen).2 = []) := by
  have hw := C19_writes _ _ _ _ _ hr
  simp only [writtenOk, beq_iff_eq] at hw
  have hp : isRollingUpdatePaused ann' = true := by
    rw [(C08_flags ann').1, hw]; rfl
  refine ⟨hp, ?_, ?_⟩
  · rw [(C08_flags ann').2, (C08_flags ann).2, C19_frame_get _ _ _ _ _ hr K.rolloutFrozenAnnot (by decide)]
  · intro c N ms mu mc frozen
    rw [hp]; exact (C08_paused_no_update_delete c N ms mu mc frozen).1

theorem C19_ruunpause (h : Bool) (sc : Option CanaryStatus) (ann ann' : SMap)
    (hr : cliRun .ruUnpause h sc ann = .patchAnnotations ann') :
    isRollingUpdatePaused ann' = false ∧ isRolloutFrozen ann' = isRolloutFrozen ann := by
  have hw := C19_writes _ _ _ _ _ hr
  simp only [writtenOk, beq_iff_eq] at hw
  refine ⟨?_, ?_⟩
  · rw [(C08_flags ann').1, hw]; decide
  · rw [(C08_flags ann').2, (C08_flags ann).2, C19_frame_get _ _ _ _ _ hr K.rolloutFrozenAnnot (by decide)]

theorem C19_freeze (h : Bool) (sc : Option CanaryStatus) (ann ann' : SMap)
    (hr : cliRun .freeze h sc ann = .patchAnnotations ann') :
    isRolloutFrozen ann' = true ∧ isRollingUpdatePaused ann' = isRollingUpdatePaused ann ∧
    (∀ (c : Counts) (N ms mu mc : Int) (paused : Bool),
        rollingPlan c N ms mu mc paused (isRolloutFrozen ann') = ([], [])) := by
  have hw := C19_writes _ _ _ _ _ hr
  simp only [writtenOk, beq_iff_eq] at hw
  have hp : isRolloutFrozen ann' = true := by
    rw [(C08_flags ann').2, hw]; rfl
  refine ⟨hp, ?_, ?_⟩
  · rw [(C08_flags ann').1, (C08_flags ann).1,
      C19_frame_get _ _ _ _ _ hr K.rollingUpdatePausedAnnot (by decide)]
  · intro c N ms mu mc paused
    rw [hp]; exact C08_frozen_nothing c N ms mu mc paused

theorem C19_unfreeze (h : Bool) (sc : Option CanaryStatus) (ann ann' : SMap)
    (hr : cliRun .unfreeze h sc ann = .patchAnnotations ann') :
    isRolloutFrozen ann' = false ∧ isRollingUpdatePaused ann' = isRollingUpdatePaused ann := by
  have hw := C19_writes _ _ _ _ _ hr
  simp only [writtenOk, beq_iff_eq] at hw
  refine ⟨?_, ?_⟩
  · rw [(C08_flags ann').2, hw]; decide
  · rw [(C08_flags ann').1, (C08_flags ann).1,
      C19_frame_get _ _ _ _ _ hr K.rollingUpdatePausedAnnot (by decide)]

/-- the state string the next reconcile reports outside a canary. -/
theorem C19_noncanary_state (h : Bool) (sc : Option CanaryStatus) (ann ann' : SMap) :
    (cliRun .freeze h sc ann = .patchAnnotations ann' → nonCanaryState ann' = "Rollout frozen") ∧
    (cliRun .ruPause h sc ann = .patchAnnotations ann' →
      nonCanaryState ann' = if isRolloutFrozen ann then "Rollout frozen" else "RollingUpdate Paused") ∧
    (cliRun .ruUnpause h sc ann = .patchAnnotations ann' →
      nonCanaryState ann' = if isRolloutFrozen ann then "Rollout frozen" else "Running") ∧
    (cliRun .unfreeze h sc ann = .patchAnnotations ann' →
      nonCanaryState ann' = if isRollingUpdatePaused ann then "RollingUpdate Paused" else "Running") := by
  refine ⟨?_, ?_, ?_, ?_⟩ <;> intro hr <;> rw [C08_state]
  · rw [(C19_freeze _ _ _ _ hr).1]; rfl
  · rw [(C19_rupause_stops_updates _ _ _ _ hr).1, (C19_rupause_stops_updates _ _ _ _ hr).2.1]; rfl
  · rw [(C19_ruunpause _ _ _ _ hr).1, (C19_ruunpause _ _ _ _ hr).2]; rfl
  · rw [(C19_unfreeze _ _ _ _ hr).1, (C19_unfreeze _ _ _ _ hr).2]; rfl

/-! ## Concrete runs (non-vacuity) -/

def exAnn19 : SMap := [⟨"owner", "team-a"⟩, ⟨K.canaryValidAnnot, "rs-0"⟩]
def exCs19 : CanaryStatus := { replicaSet := "rs-1", nodes := ["n1"] }

-- pause: two keys appended, the rest untouched; a second pause is refused
example : cliRun .canaryPause true (some exCs19) exAnn19 = .patchAnnotations
    [⟨"owner", "team-a"⟩, ⟨K.canaryValidAnnot, "rs-0"⟩, ⟨K.canaryPausedAnnot, "true"⟩,
     ⟨K.canaryUnpausedAnnot, "false"⟩] := by decide
example : cliRun .canaryPause true (some exCs19)
    (exAnn19 ++ [⟨K.canaryPausedAnnot, "true"⟩, ⟨K.canaryUnpausedAnnot, "false"⟩]) = .refused "already-paused" := by decide
-- unpause after pause: both keys flipped in place
example : cliRun .canaryUnpause true (some exCs19)
    (exAnn19 ++ [⟨K.canaryPausedAnnot, "true"⟩, ⟨K.canaryUnpausedAnnot, "false"⟩]) = .patchAnnotations
    [⟨"owner", "team-a"⟩, ⟨K.canaryValidAnnot, "rs-0"⟩, ⟨K.canaryPausedAnnot, "false"⟩,
     ⟨K.canaryUnpausedAnnot, "true"⟩] := by decide
-- preconditions
example : cliRun .canaryPause false (some exCs19) exAnn19 = .refused "no-canary-strategy" := by decide
example : cliRun .canaryPause true none exAnn19 = .refused "no-active-canary" := by decide
example : cliRun .canaryFail true none exAnn19 = .refused "no-active-canary" := by decide
example : cliRun .ruPause true (some exCs19) exAnn19 = .refused "active-canary" := by decide
example : cliRun .freeze true (some exCs19) exAnn19 = .refused "active-canary" := by decide
example : cliRun .ruUnpause false none exAnn19 = .refused "not-set" := by decide
example : cliRun .unfreeze false none exAnn19 = .refused "not-set" := by decide
-- validate overwrites the stale value with the canary of *now* (rs-1), not a later rs-2
example : cliRun .canaryValidate true (some exCs19) exAnn19 = .patchAnnotations
    [⟨"owner", "team-a"⟩, ⟨K.canaryValidAnnot, "rs-1"⟩] := by decide
example : isCanaryValid [⟨"owner", "team-a"⟩, ⟨K.canaryValidAnnot, "rs-1"⟩] "rs-1" = true ∧
          isCanaryValid [⟨"owner", "team-a"⟩, ⟨K.canaryValidAnnot, "rs-1"⟩] "rs-2" = false := by decide
example : cliRun .canaryValidate true (some exCs19) [⟨K.canaryValidAnnot, "rs-1"⟩] = .refused "already-validated" := by decide
-- the controller on the validated map: rs-1 promoted at once, a later rs-2 (manual mode) is not
example : (selectCurrent (some { exCanary with duration := none, validationMode := "manual" })
    [⟨"owner", "team-a"⟩, ⟨K.canaryValidAnnot, "rs-1"⟩] (some (exErs "rs-0" 0 [])) (exErs "rs-1" 0 []) false 1).1
      = .upToDate := by decide
example : (selectCurrent (some { exCanary with duration := none, validationMode := "manual" })
    [⟨"owner", "team-a"⟩, ⟨K.canaryValidAnnot, "rs-1"⟩] (some (exErs "rs-0" 0 [])) (exErs "rs-2" 0 []) false 1).1
      = .active := by decide
-- frame and written value on the concrete runs
example : frameOk exAnn19 [⟨"owner", "team-a"⟩, ⟨K.canaryValidAnnot, "rs-0"⟩, ⟨K.canaryPausedAnnot, "true"⟩,
    ⟨K.canaryUnpausedAnnot, "false"⟩] (documentedKeys .canaryPause) = true := by decide
example : frameOk exAnn19 [⟨"owner", "team-b"⟩, ⟨K.canaryValidAnnot, "rs-0"⟩, ⟨K.canaryPausedAnnot, "true"⟩,
    ⟨K.canaryUnpausedAnnot, "false"⟩] (documentedKeys .canaryPause) = false := by decide
example : frameOk exAnn19 (exAnn19 ++ [⟨"extra", "1"⟩, ⟨K.rolloutFrozenAnnot, "true"⟩]) (documentedKeys .freeze) = false := by decide
-- rolling-update pause / freeze and their state strings
example : cliRun .ruPause false none exAnn19 = .patchAnnotations (exAnn19 ++ [⟨K.rollingUpdatePausedAnnot, "true"⟩]) := by decide
example : nonCanaryState (exAnn19 ++ [⟨K.rollingUpdatePausedAnnot, "true"⟩]) = "RollingUpdate Paused" := by decide
example : cliRun .unfreeze false none (exAnn19 ++ [⟨K.rolloutFrozenAnnot, "true"⟩]) =
    .patchAnnotations (exAnn19 ++ [⟨K.rolloutFrozenAnnot, "false"⟩]) := by decide
example : nonCanaryState (exAnn19 ++ [⟨K.rolloutFrozenAnnot, "false"⟩]) = "Running" := by decide
-- `set` rewrites every duplicate of the written key, so even a malformed list reads back the new value
example : cliRun .freeze false none [⟨K.rolloutFrozenAnnot, "false"⟩, ⟨K.rolloutFrozenAnnot, "no"⟩] =
    .patchAnnotations [⟨K.rolloutFrozenAnnot, "true"⟩, ⟨K.rolloutFrozenAnnot, "true"⟩] := by decide
-- fail: first-entry reading
example : isCanaryFailed (some (C19.failedErs (exErs "rs-1" 0 []) 7)) = true := by decide
example : isCanaryFailed (some (C19.failedErs (exErs "rs-1" 0 [⟨"Canary-Failed", "True", 1, 1, "CanaryFailed", ""⟩]) 7)) = true := by decide
example : isCanaryFailed (some (C19.failedErs (exErs "rs-1" 0 [⟨"Canary-Failed", "False", 1, 1, "", ""⟩]) 7)) = false := by decide

end Eds
