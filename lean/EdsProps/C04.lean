import EdsProofs.ReconcileErs
import EdsProps.C01
import EdsProps.C10
/-
  C04 — Canary blast radius: the new template runs only on the selected canary nodes.

  Subject: `Reconcile` of the replica-set controller as modelled by `reconcileErs`
  (EdsModel/ReconcileErs.lean); helper lemmas and the inversion `reconcileErs_cases` /
  `reconcileErs_full` in EdsProofs/ReconcileErs.lean.

  Vocabulary (EdsProofs/ReconcileErs.lean): `ersOwner rs st = some d` — the owner EDS `d` was found;
  `ersCanaryNodes d` — `d.status.canary.nodes` (`[]` without canary); `ersIgnore d rs` — the ignore list
  handed to `filterAndMap`; `ersFilter`, `ersParams` — filter output and strategy parameters.

  Quantification: every replica set, store, back-off oracle `released`, affinity mode and instant.
  Every write theorem only assumes `ersOwner rs st = some d` and the role; the early-return, not
  defaulted and gated syncs are covered (they write no pod at all).

  Pods are identified by *name* in the write lists of the model, so "the pod named in `w.deletes`"
  is stated as existence of a listed pod with that name (`∃ p ∈ ersPods d st, p.name = name ∧ …`);
  the `…_named` corollaries turn this into a statement about every listed pod with that name under
  the hypothesis that listed pod names are distinct (true in a namespace).

    1  `C04_roles_disjoint`, `C04_role_cases`, `C04_role_active_iff`, `C04_role_canary_iff`
    2  `C04_canary_creates_in_list` (creates + deletes), `C04_created_pinned` [hyp: node name ≠ "",
       and `affRequired ≠ some []` in affinity mode — both necessary, see C10],
       `C04_created_node_listed` (the node is a listed node, so `≠ ""` follows from the store)
    3  `C04_active_avoids_list` (+ `C04_active_avoids_list_named`)
    4  `C04_active_serves_rest` (iff), `C04_active_serves_rest_cands`
    5  `C04_unknown_inert`
    6  `C04_label_scope`, `C04_label_on`,
       `C04_label_off`, `C04_label_off_cond` [hyp `hok`, ADDED with the F15 repair: `ManageDeployment` does
       not return its early error.  Necessary: since the repair that sync is no longer an early return
       (`earlyErr = false`), it writes a status with ReconcileError=True but patches no label — see the
       counterexample `cxStore04` at the end of this file]
  All at full strength; no `_partial` theorem in this file.
-/
namespace Eds

/-! ### 1. Roles -/

theorem C04_role_cases (d : EDS) (n : String) :
    ersRole d n = "active" ∨ ersRole d n = "canary" ∨ ersRole d n = "unknown" := ersRole_cases d n

theorem C04_role_active_iff (d : EDS) (n : String) :
    ersRole d n = "active" ↔ d.status.activeReplicaSet ≠ "" ∧ d.status.activeReplicaSet = n :=
  ersRole_active_iff d n

theorem C04_role_canary_iff (d : EDS) (n : String) :
    ersRole d n = "canary" ↔
      d.status.activeReplicaSet ≠ "" ∧ d.status.activeReplicaSet ≠ n ∧
      ∃ cs, d.status.canary = some cs ∧ cs.replicaSet = n := ersRole_canary_iff d n

/-- at most one replica set is active, at most one is the canary, and none is both. -/
theorem C04_roles_disjoint (d : EDS) (n₁ n₂ : String) :
    (ersRole d n₁ = "active" → ersRole d n₂ = "active" → n₁ = n₂) ∧
    (ersRole d n₁ = "canary" → ersRole d n₂ = "canary" → n₁ = n₂) ∧
    (ersRole d n₁ = "active" → ersRole d n₁ ≠ "canary") := by
  refine ⟨?_, ?_, ?_⟩
  · intro h1 h2
    rw [ersRole_active_iff] at h1 h2
    rw [← h1.2, ← h2.2]
  · intro h1 h2
    rw [ersRole_canary_iff] at h1 h2
    obtain ⟨_, _, cs, hc, h1⟩ := h1
    obtain ⟨_, _, cs', hc', h2⟩ := h2
    rw [hc] at hc'
    cases hc'
    rw [← h1, ← h2]
  · intro h1 h2
    rw [h1] at h2
    exact absurd h2 (by decide)

/-- the active and the canary replica set are different objects. -/
theorem C04_active_ne_canary (d : EDS) (n₁ n₂ : String)
    (h1 : ersRole d n₁ = "active") (h2 : ersRole d n₂ = "canary") : n₁ ≠ n₂ := by
  intro h; subst h; rw [h1] at h2; exact absurd h2 (by decide)

section Writes
variable (rs : ERS) (st : ErsStore) (released : String → Bool) (aff : Bool) (now : Time) (d : EDS)

/-! ### small bridges -/

theorem ersParams_byNode (items : List NodeItem) (pods : List Pod) :
    (ersParams released d rs items pods now).byNode =
      (filterAndMap released rs.template items pods (ersIgnore d rs)).byNode := rfl

theorem ersParams_toCleanUp (items : List NodeItem) (pods : List Pod) :
    (ersParams released d rs items pods now).toCleanUp =
      (filterAndMap released rs.template items pods (ersIgnore d rs)).toDelete := rfl

theorem ersParams_canaryNodes (items : List NodeItem) (pods : List Pod) :
    (ersParams released d rs items pods now).canaryNodes = ersCanaryNodes d := rfl

theorem ersCanaryNodes_some {cs : CanaryStatus} (hc : d.status.canary = some cs) :
    ersCanaryNodes d = cs.nodes := by
  unfold ersCanaryNodes; rw [hc]

/-- the ignore list only ever holds canary nodes … -/
theorem ersIgnore_sub (n : String) (h : (ersIgnore d rs).contains n = true) : n ∈ ersCanaryNodes d := by
  unfold ersIgnore at h
  split at h
  · exact List.contains_iff_mem.mp h
  · simp at h

/-- … and for the active replica set, during a canary, it is exactly the canary node list. -/
theorem ersIgnore_active {cs : CanaryStatus} (hr : ersRole d rs.name = "active")
    (hc : d.status.canary = some cs) : ersIgnore d rs = cs.nodes := by
  have h2 := ((ersRole_active_iff d rs.name).mp hr).2
  unfold ersIgnore
  rw [ersCanaryNodes_some d hc, hc, h2]
  simp

/-- a kept pod of the per-node map is a listed pod bound to that node. -/
theorem kept_pod_bound (items : List NodeItem) (pods : List Pod) (ni : NodeItem) (k : Pod)
    (h : (ni, some k) ∈ (ersParams released d rs items pods now).byNode) :
    k ∈ pods ∧ k.nodeOf = some ni.node.name := by
  rw [ersParams_byNode] at h
  obtain ⟨a, b, _⟩ := C01_dup_resolution released rs.template items pods (ersIgnore d rs) ni k h
  exact ⟨a, b⟩

/-- keys of the per-node map are listed, fit and not ignored. -/
theorem key_listed (items : List NodeItem) (pods : List Pod) (e : NodeItem × Option Pod)
    (h : e ∈ (ersParams released d rs items pods now).byNode) :
    e.1 ∈ items ∧ (ersIgnore d rs).contains e.1.node.name = false ∧ fit rs.template e.1.node = true := by
  rw [ersParams_byNode] at h
  exact (C01_keys released rs.template items pods (ersIgnore d rs) e.1).mp (List.mem_map.mpr ⟨e, h, rfl⟩)

theorem mem_cleanupTargets {pods : List Pod} {name : String} (h : name ∈ cleanupTargets pods) :
    ∃ p ∈ pods, p.name = name ∧ p.deletion = none := by
  unfold cleanupTargets at h
  obtain ⟨p, hp, rfl⟩ := List.mem_map.mp h
  rw [List.mem_filter] at hp
  exact ⟨p, hp.1, rfl, by simpa using hp.2⟩

/-- a clean-up target is a listed pod bound to a node outside the ignore list. -/
theorem cleanup_pod_bound (items : List NodeItem) (pods : List Pod) (name : String)
    (h : name ∈ cleanupTargets (ersParams released d rs items pods now).toCleanUp) :
    ∃ p ∈ pods, p.name = name ∧ ∃ n, p.nodeOf = some n ∧ (ersIgnore d rs).contains n = false := by
  obtain ⟨p, hp, hn, _⟩ := mem_cleanupTargets h
  rw [ersParams_toCleanUp] at hp
  obtain ⟨hm, _, n, hno, hc⟩ := C01_ignored_kept released rs.template items pods (ersIgnore d rs) p hp
  refine ⟨p, hm, hn, n, hno, ?_⟩
  rcases hc with hc | ⟨hc, _⟩
  · obtain ⟨e, he, hen⟩ := List.mem_map.mp hc
    have := (C01_keys released rs.template items pods (ersIgnore d rs) e.1).mp (List.mem_map.mpr ⟨e, he, rfl⟩)
    rw [← hen]; exact this.2.1
  · exact hc

theorem mem_nil_elim {α} {a : α} {l : List α} (hl : l = []) (h : a ∈ l) : False := by
  rw [hl] at h; cases h

/-! ### 2. the canary role writes only on the canary nodes -/

/-- **Canary blast radius.**  In the canary role every creation targets a node of
`eds.status.canary.nodes`, and every pod deleted for updating is a listed pod bound to such a node. -/
theorem C04_canary_creates_in_list (h : ersOwner rs st = some d) (hr : ersRole d rs.name = "canary") :
    (∀ x ∈ (reconcileErs rs st released aff now).creates, x.1 ∈ ersCanaryNodes d) ∧
    (∀ name ∈ (reconcileErs rs st released aff now).deletes,
      ∃ p ∈ ersPods d st, p.name = name ∧ ∃ n ∈ ersCanaryNodes d, p.nodeOf = some n) := by
  rcases reconcileErs_cases rs st released aff now d h with hno | ⟨items, r, adds, removes, se, st0, F⟩
  · exact ⟨fun x hx => (mem_nil_elim hno.2.2.2.2 hx).elim, fun x hx => (mem_nil_elim hno.2.2.2.1 hx).elim⟩
  · have hs := F.strat
    rw [hr] at hs
    obtain ⟨r0, hm, hr0, -, -, -⟩ := ersStrategy_canary hs
    rw [F.eq]
    constructor
    · intro x hx
      obtain ⟨ni, hni, rfl⟩ := ersFinish_creates_sub _ _ _ _ _ _ _ _ _ _ _ x hx
      have hni' : ni ∈ r0.createE := by rw [hr0] at hni; exact hni
      exact (C01_canary_create_only_empty _ now r0 hm ni hni').2
    · intro name hn
      obtain ⟨x, hx, rfl⟩ := List.mem_map.mp (ersFinish_deletes_sub _ _ _ _ _ _ _ _ _ _ _ name hn)
      have hx' : x ∈ r0.deleteE := by rw [hr0] at hx; exact hx
      obtain ⟨hb, hc⟩ := manageCanaryStatus_delete_mem _ now r0 hm x hx'
      obtain ⟨hp, hno⟩ := kept_pod_bound rs released now d items (ersPods d st) x.1 x.2 hb
      exact ⟨x.2, hp, rfl, x.1.node.name, hc, hno⟩

/-- the pod built for a creation, and where it is bound (any role). -/
theorem C04_created_shape (x : String × Pod) (hx : x ∈ (reconcileErs rs st released aff now).creates) :
    ∃ (n : Node) (s : Option Setting), x = (n.name, (createPod rs (some n) s aff).pod) := by
  cases ho : ersOwner rs st with
  | none => exact (mem_nil_elim (reconcileErs_noPodWrite_of_no_owner rs st released aff now ho).2.2.2.2 hx).elim
  | some d =>
    rcases reconcileErs_cases rs st released aff now d ho with hno | ⟨items, r, adds, removes, se, st0, F⟩
    · exact (mem_nil_elim hno.2.2.2.2 hx).elim
    · rw [F.eq] at hx
      obtain ⟨ni, _, rfl⟩ := ersFinish_creates_sub _ _ _ _ _ _ _ _ _ _ _ x hx
      exact ⟨ni.node, ni.setting, rfl⟩

/-- **Pinned.**  The created pod is bound (`GetNodeNameFromPod`) to the node it is created for: by
`spec.nodeName` in node-name mode, by the rewritten node-name affinity in affinity mode (which needs a
template whose required node affinity is not the empty term list, see `C10_pinned_affinity`). -/
theorem C04_created_pinned (x : String × Pod) (hx : x ∈ (reconcileErs rs st released aff now).creates)
    (hne : x.1 ≠ "") (ha : aff = true → rs.template.affRequired ≠ some []) :
    x.2.nodeOf = some x.1 := by
  obtain ⟨n, s, rfl⟩ := C04_created_shape rs st released aff now x hx
  cases aff with
  | true => exact C10_nodeOf_affinity rs n s (ha rfl) hne
  | false => exact C10_nodeOf_nodeName rs n s hne

end Writes

/-! ### the node list -/

theorem mapM_option_mem {α β} (f : α → Option β) :
    ∀ (l : List α) (l' : List β), l.mapM f = some l' → ∀ b ∈ l', ∃ a ∈ l, f a = some b := by
  intro l
  induction l with
  | nil =>
    intro l' h b hb
    simp only [List.mapM_nil] at h
    cases h; cases hb
  | cons a rest ih =>
    intro l' h b hb
    rw [List.mapM_cons] at h
    cases hfa : f a with
    | none => rw [hfa] at h; cases h
    | some b0 =>
      rw [hfa] at h
      cases hrest : rest.mapM f with
      | none => rw [hrest] at h; cases h
      | some bs =>
        rw [hrest] at h
        cases h
        rcases List.mem_cons.mp hb with hb | hb
        · subst hb; exact ⟨a, List.mem_cons_self, hfa⟩
        · obtain ⟨a', ha', hfa'⟩ := ih bs hrest b hb
          exact ⟨a', List.mem_cons_of_mem _ ha', hfa'⟩

/-- every item of the node listing is a stored node. -/
theorem ersNodeItems_mem (d : EDS) (rs : ERS) (st : ErsStore) (items : List NodeItem)
    (h : ersNodeItems d rs st = some items) : ∀ ni ∈ items, ni.node ∈ st.nodes := by
  intro ni hni
  unfold ersNodeItems at h
  simp only [] at h
  split at h
  · cases h
  · rename_i ns hns
    obtain ⟨n, hn, hf⟩ := mapM_option_mem _ ns items h ni hni
    have hnode : ni.node = n := by
      cases hc : chooseSetting d.name (st.settings.filter (fun s => s.ns == d.ns)) n with
      | none => rw [hc] at hf; cases hf
      | some s => rw [hc] at hf; simp only [Option.map_some, Option.some.injEq] at hf; rw [← hf]
    rw [hnode]
    split at hns
    · cases hns; exact hn
    · split at hns
      · cases hns
      · cases hns; exact (List.mem_filter.mp hn).1

section Writes2
variable (rs : ERS) (st : ErsStore) (released : String → Bool) (aff : Bool) (now : Time) (d : EDS)

/-- a creation targets a stored node that the listing returned, fit for the template — so
`x.1 ≠ ""` in `C04_created_pinned` holds as soon as stored nodes have names. -/
theorem C04_created_node_listed (h : ersOwner rs st = some d)
    (x : String × Pod) (hx : x ∈ (reconcileErs rs st released aff now).creates) :
    ∃ n ∈ st.nodes, n.name = x.1 ∧ fit rs.template n = true := by
  rcases reconcileErs_cases rs st released aff now d h with hno | ⟨items, r, adds, removes, se, st0, F⟩
  · exact (mem_nil_elim hno.2.2.2.2 hx).elim
  · rw [F.eq] at hx
    obtain ⟨ni, hni, rfl⟩ := ersFinish_creates_sub _ _ _ _ _ _ _ _ _ _ _ x hx
    have hs := F.strat
    have hkey : (ni, none) ∈ (ersParams released d rs items (ersPods d st) now).byNode := by
      rcases ersRole_cases d rs.name with hr | hr | hr
      · rw [hr] at hs
        rcases ersStrategy_active hs F.status with ⟨hm, -, -, -⟩ | ⟨-, hre, -, -, -⟩
        · exact (C01_create_only_empty_byNode _ now now false r hm ni hni).1
        · -- early error of ManageDeployment: nothing is created
          rw [hre] at hni
          exact (mem_nil_elim (ersErrResult_empty _ now).1 hni).elim
      · rw [hr] at hs
        obtain ⟨r0, hm, hr0, -, -, -⟩ := ersStrategy_canary hs
        have hni' : ni ∈ r0.createE := by rw [hr0] at hni; exact hni
        exact (C01_canary_create_only_empty _ now r0 hm ni hni').1
      · rw [hr] at hs
        obtain ⟨hr0, -, -, -⟩ := ersStrategy_unknown (by decide) (by decide) hs
        rw [hr0] at hni
        exact (mem_nil_elim (C01_unknown_role_creates_nothing _ now).1 hni).elim
    obtain ⟨h1, _, h3⟩ := key_listed rs released now d items (ersPods d st) _ hkey
    exact ⟨ni.node, ersNodeItems_mem d rs st items F.hitems ni h1, rfl, h3⟩

/-! ### 3. the active role stays off the canary nodes -/

/-- **Active role avoids the canary nodes.**  During a canary (`eds.status.canary = some cs`) the
active replica set creates no pod on a node of `cs.nodes`, and every pod it deletes — for updating
or in its clean-up — is a listed pod bound to a node outside `cs.nodes`. -/
theorem C04_active_avoids_list (h : ersOwner rs st = some d) (hr : ersRole d rs.name = "active")
    (cs : CanaryStatus) (hc : d.status.canary = some cs) :
    (∀ x ∈ (reconcileErs rs st released aff now).creates, x.1 ∉ cs.nodes) ∧
    (∀ name ∈ (reconcileErs rs st released aff now).deletes,
      ∃ p ∈ ersPods d st, p.name = name ∧ ∃ n, p.nodeOf = some n ∧ n ∉ cs.nodes) ∧
    (∀ name ∈ (reconcileErs rs st released aff now).cleanupDeletes,
      ∃ p ∈ ersPods d st, p.name = name ∧ ∃ n, p.nodeOf = some n ∧ n ∉ cs.nodes) := by
  have hcn := ersCanaryNodes_some d hc
  have hig := ersIgnore_active rs d hr hc
  rcases reconcileErs_cases rs st released aff now d h with hno | ⟨items, r, adds, removes, se, st0, F⟩
  · exact ⟨fun x hx => (mem_nil_elim hno.2.2.2.2 hx).elim, fun x hx => (mem_nil_elim hno.2.2.2.1 hx).elim,
      fun x hx => (mem_nil_elim hno.1 hx).elim⟩
  · have hs := F.strat
    rw [hr] at hs
    rw [F.eq]
    rcases ersStrategy_active hs F.status with ⟨hm, -, -, -⟩ | ⟨-, hre, hadds, hrem, -⟩
    case inr =>
      -- early error of ManageDeployment: no pod write at all
      subst hre hadds hrem
      have hno := ersFinish_errResult_noPodWrite rs (ersRole d rs.name) (ersFreq d)
        (ersParams released d rs items (ersPods d st) now) (ersParams released d rs items (ersPods d st) now)
        se st0 aff now
      exact ⟨fun x hx => (mem_nil_elim hno.2.2.2.2 hx).elim, fun x hx => (mem_nil_elim hno.2.2.2.1 hx).elim,
        fun x hx => (mem_nil_elim hno.1 hx).elim⟩
    refine ⟨?_, ?_, ?_⟩
    · intro x hx
      obtain ⟨ni, hni, rfl⟩ := ersFinish_creates_sub _ _ _ _ _ _ _ _ _ _ _ x hx
      have := (C01_create_only_empty_byNode _ now now false r hm ni hni).2
      rw [ersParams_canaryNodes, hcn] at this
      intro hmem
      rw [List.contains_iff_mem.mpr hmem] at this
      cases this
    · intro name hn
      obtain ⟨x, hx, rfl⟩ := List.mem_map.mp (ersFinish_deletes_sub _ _ _ _ _ _ _ _ _ _ _ name hn)
      have ht := manageDeployment_delete_mem _ now now false r hm x hx
      simp only [targeted, dropCanaryNodes, List.mem_filter] at ht
      obtain ⟨hb, hnc⟩ := ht
      obtain ⟨hp, hno⟩ := kept_pod_bound rs released now d items (ersPods d st) x.1 x.2 hb
      refine ⟨x.2, hp, rfl, x.1.node.name, hno, ?_⟩
      rw [ersParams_canaryNodes, hcn] at hnc
      intro hmem
      rw [List.contains_iff_mem.mpr hmem] at hnc
      simp at hnc
    · intro name hn
      rw [ersFinish_cleanupDeletes, manageDeployment_cleanup _ now now false r hm] at hn
      obtain ⟨p, hp, hpn, n, hno, hi⟩ := cleanup_pod_bound rs released now d items (ersPods d st) name hn
      refine ⟨p, hp, hpn, n, hno, ?_⟩
      rw [hig] at hi
      intro hmem
      rw [List.contains_iff_mem.mpr hmem] at hi
      cases hi

/-- with distinct listed pod names: no listed pod bound to a canary node is named in the active
role's deletion lists. -/
theorem C04_active_avoids_list_named (h : ersOwner rs st = some d) (hr : ersRole d rs.name = "active")
    (cs : CanaryStatus) (hc : d.status.canary = some cs)
    (hnd : ((ersPods d st).map (·.name)).Nodup)
    (p : Pod) (hp : p ∈ ersPods d st) (n : String) (hn : p.nodeOf = some n) (hcn : n ∈ cs.nodes) :
    p.name ∉ (reconcileErs rs st released aff now).deletes ∧
    p.name ∉ (reconcileErs rs st released aff now).cleanupDeletes := by
  obtain ⟨_, h2, h3⟩ := C04_active_avoids_list rs st released aff now d h hr cs hc
  constructor
  · intro hm
    obtain ⟨q, hq, hqn, m, hqm, hnm⟩ := h2 _ hm
    have := inj_of_nodup_map _ hnd hq hp hqn
    subst this
    rw [hn] at hqm; cases hqm
    exact hnm hcn
  · intro hm
    obtain ⟨q, hq, hqn, m, hqm, hnm⟩ := h3 _ hm
    have := inj_of_nodup_map _ hnd hq hp hqn
    subst this
    rw [hn] at hqm; cases hqm
    exact hnm hcn

/-! ### 4. … and keeps serving every other fit node -/

/-- **The rest is served.**  The entries the active (and unknown) role works on — `targeted` — have
as keys exactly the listed nodes that are fit for the template and are not canary nodes.  (Holds for
every role; only the active and unknown strategies read `targeted`.) -/
theorem C04_active_serves_rest (items : List NodeItem) (pods : List Pod) (ni : NodeItem) :
    ni ∈ (targeted (ersParams released d rs items pods now)).map (·.1) ↔
      ni ∈ items ∧ fit rs.template ni.node = true ∧ ni.node.name ∉ ersCanaryNodes d := by
  constructor
  · intro hm
    obtain ⟨e, he, rfl⟩ := List.mem_map.mp hm
    simp only [targeted, dropCanaryNodes, List.mem_filter] at he
    obtain ⟨hb, hnc⟩ := he
    obtain ⟨h1, _, h3⟩ := key_listed rs released now d items pods e hb
    refine ⟨h1, h3, ?_⟩
    rw [ersParams_canaryNodes] at hnc
    intro hmem
    rw [List.contains_iff_mem.mpr hmem] at hnc
    simp at hnc
  · rintro ⟨h1, h2, h3⟩
    have hig : (ersIgnore d rs).contains ni.node.name = false := by
      cases hc : (ersIgnore d rs).contains ni.node.name with
      | false => rfl
      | true => exact absurd (ersIgnore_sub rs d _ hc) h3
    have hk := (C01_keys released rs.template items pods (ersIgnore d rs) ni).mpr ⟨h1, hig, h2⟩
    obtain ⟨e, he, rfl⟩ := List.mem_map.mp hk
    refine List.mem_map.mpr ⟨e, ?_, rfl⟩
    simp only [targeted, dropCanaryNodes, List.mem_filter]
    refine ⟨he, ?_⟩
    rw [ersParams_canaryNodes]
    cases hc : (ersCanaryNodes d).contains e.1.node.name with
    | false => rfl
    | true => exact absurd (List.contains_iff_mem.mp hc) h3

/-- end to end: in a full active sync a listed, fit, non-canary node to which no listed pod is bound
is a creation candidate. -/
theorem C04_active_serves_rest_cands (h : ersOwner rs st = some d) (hr : ersRole d rs.name = "active")
    (hd : isDefaulted d.strategy d.templateName = true) (hg : ersGated d rs now = false)
    (he : (reconcileErs rs st released aff now).earlyErr = false)
    (items : List NodeItem) (hi : ersNodeItems d rs st = some items)
    (ni : NodeItem) (hni : ni ∈ items) (hfit : fit rs.template ni.node = true)
    (hnc : ni.node.name ∉ ersCanaryNodes d)
    (hfree : ∀ p ∈ ersPods d st, p.nodeOf ≠ some ni.node.name) :
    ni ∈ (reconcileErs rs st released aff now).createCands := by
  obtain ⟨items', r, adds, removes, se, st0, F⟩ := reconcileErs_full rs st released aff now d h hd hg he
  have : items' = items := by have := F.hitems; rw [hi] at this; exact (Option.some.inj this).symm
  subst this
  rw [F.eq]
  have hc : (ersFinish rs (ersRole d rs.name) (ersFreq d) (ersParams released d rs items' (ersPods d st) now)
      r adds removes se st0 aff now).createCands =
      (countAll rs.templateGeneration now (targeted (ersParams released d rs items' (ersPods d st) now))).toCreate := by
    unfold ersFinish
    simp only [hr, beq_self_eq_true, if_true]
  rw [hc, countAll_toCreate, mem_noneNodes]
  have hk := (C04_active_serves_rest rs released now d items' (ersPods d st) ni).mpr ⟨hni, hfit, hnc⟩
  obtain ⟨⟨ni', o⟩, hm, hfst⟩ := List.mem_map.mp hk
  simp only at hfst
  subst hfst
  cases o with
  | none => exact hm
  | some k =>
    simp only [targeted, dropCanaryNodes, List.mem_filter] at hm
    obtain ⟨hp, hno⟩ := kept_pod_bound rs released now d items' (ersPods d st) ni' k hm.1
    exact absurd hno (hfree k hp)

/-! ### 5. a leftover replica set is inert -/

/-- **Unknown role**: no pod write at all. -/
theorem C04_unknown_inert (h : ersOwner rs st = some d) (hr : ersRole d rs.name = "unknown") :
    (reconcileErs rs st released aff now).creates = [] ∧
    (reconcileErs rs st released aff now).deletes = [] ∧
    (reconcileErs rs st released aff now).cleanupDeletes = [] ∧
    (reconcileErs rs st released aff now).labelAdds = [] ∧
    (reconcileErs rs st released aff now).labelRemoves = [] := by
  rcases reconcileErs_cases rs st released aff now d h with hno | ⟨items, r, adds, removes, se, st0, F⟩
  · exact ⟨hno.2.2.2.2, hno.2.2.2.1, hno.1, hno.2.1, hno.2.2.1⟩
  · have hs := F.strat
    rw [hr] at hs
    obtain ⟨hr0, hadds, hrem, -⟩ := ersStrategy_unknown (by decide) (by decide) hs
    obtain ⟨hc, hdel⟩ := C01_unknown_role_creates_nothing
      (ersParams released d rs items (ersPods d st) now) now
    rw [← hr0] at hc hdel
    rw [F.eq]
    obtain ⟨b1, hb1⟩ := ersFinish_creates_eq rs (ersRole d rs.name) (ersFreq d)
      (ersParams released d rs items (ersPods d st) now) r adds removes se st0 aff now
    obtain ⟨b2, hb2⟩ := ersFinish_deletes_eq rs (ersRole d rs.name) (ersFreq d)
      (ersParams released d rs items (ersPods d st) now) r adds removes se st0 aff now
    refine ⟨?_, ?_, ?_, ?_, ?_⟩
    · rw [hb1, hc]; cases b1 <;> rfl
    · rw [hb2, hdel]; cases b2 <;> rfl
    · rw [ersFinish_cleanupDeletes, hr0]; rfl
    · rw [ersFinish_labelAdds, hadds]
    · rw [ersFinish_labelRemoves, hrem]

/-! ### 6. the canary label -/

theorem mem_canaryLabelAdds {sp : StratParams} {name : String} (h : name ∈ canaryLabelAdds sp) :
    ∃ n ∈ sp.canaryNodes, ∃ ni pod, lookupNode sp.byNode n = some (ni, some pod) ∧ pod.name = name ∧
      pod.hasLabels = true ∧ SMap.get? pod.labels K.ersNameLabel = some sp.ers.name ∧
      SMap.get? pod.labels K.canaryLabel ≠ some "true" := by
  unfold canaryLabelAdds at h
  obtain ⟨n, hn, hf⟩ := List.mem_filterMap.mp h
  refine ⟨n, hn, ?_⟩
  split at hf
  · rename_i ni pod hl
    split at hf
    · rename_i hcond
      simp only [Bool.and_eq_true, beq_iff_eq, bne_iff_ne, ne_eq] at hcond
      simp only [Option.some.injEq] at hf
      exact ⟨ni, pod, hl, hf, hcond.1.1, hcond.1.2, hcond.2⟩
    · cases hf
  · cases hf

/-- **Label scope.**  The canary label is only ever added to / removed from pods carrying this
replica set's name label (for a removal also the EDS's name label); it is added only in the canary
role and removed only in the active role. -/
theorem C04_label_scope (h : ersOwner rs st = some d) :
    (∀ name ∈ (reconcileErs rs st released aff now).labelAdds,
      ∃ p ∈ ersPods d st, p.name = name ∧ SMap.get? p.labels K.ersNameLabel = some rs.name ∧
        ∃ n ∈ ersCanaryNodes d, p.nodeOf = some n) ∧
    (∀ name ∈ (reconcileErs rs st released aff now).labelRemoves,
      ∃ p ∈ st.pods, p.name = name ∧ p.ns = rs.ns ∧ SMap.get? p.labels K.ersNameLabel = some rs.name ∧
        SMap.get? p.labels K.canaryLabel = some "true" ∧
        SMap.get? p.labels K.edsNameLabel = some d.name) ∧
    (ersRole d rs.name ≠ "canary" → (reconcileErs rs st released aff now).labelAdds = []) ∧
    (ersRole d rs.name ≠ "active" → (reconcileErs rs st released aff now).labelRemoves = []) := by
  rcases reconcileErs_cases rs st released aff now d h with hno | ⟨items, r, adds, removes, se, st0, F⟩
  · exact ⟨fun x hx => (mem_nil_elim hno.2.1 hx).elim, fun x hx => (mem_nil_elim hno.2.2.1 hx).elim,
      fun _ => hno.2.1, fun _ => hno.2.2.1⟩
  · have hs := F.strat
    rw [F.eq, ersFinish_labelAdds, ersFinish_labelRemoves]
    rcases ersRole_cases d rs.name with hr | hr | hr
    · rw [hr] at hs
      have hadds : adds = [] := by
        rcases ersStrategy_active hs F.status with ⟨-, ha, -, -⟩ | ⟨-, -, ha, -, -⟩ <;> exact ha
      refine ⟨fun x hx => (mem_nil_elim hadds hx).elim, ?_, fun _ => hadds, fun hne => absurd hr hne⟩
      intro name hn
      rcases ersStrategy_active hs F.status with ⟨-, -, hrem, -⟩ | ⟨-, -, -, hrem, -⟩
      case inr =>
        -- early error of ManageDeployment: no label is removed
        exact (mem_nil_elim hrem hn).elim
      rw [hrem] at hn
      split at hn
      · obtain ⟨p, hp, rfl⟩ := List.mem_map.mp hn
        obtain ⟨a, b, c, e, f⟩ := mem_canaryLabelled.mp hp
        exact ⟨p, a, rfl, b, e, c, f⟩
      · cases hn
    · rw [hr] at hs
      obtain ⟨r0, -, -, hadds, hrem, -⟩ := ersStrategy_canary hs
      refine ⟨?_, fun x hx => (mem_nil_elim hrem hx).elim, fun hne => absurd hr hne, fun _ => hrem⟩
      intro name hn
      rw [hadds] at hn
      obtain ⟨n, hn', ni, pod, hl, hname, _, hlab, _⟩ := mem_canaryLabelAdds hn
      obtain ⟨hmem, hnn⟩ := lookupNode_some hl
      simp only at hnn
      obtain ⟨hp, hno⟩ := kept_pod_bound rs released now d items (ersPods d st) ni pod hmem
      exact ⟨pod, hp, hname, hlab, n, hn', by rw [hno, hnn]⟩
    · rw [hr] at hs
      obtain ⟨-, hadds, hrem, -⟩ := ersStrategy_unknown (by decide) (by decide) hs
      exact ⟨fun x hx => (mem_nil_elim hadds hx).elim, fun x hx => (mem_nil_elim hrem hx).elim,
        fun _ => hadds, fun _ => hrem⟩

/-- entries of the per-node map with the same node name hold the same kept pod (the pod lists are
keyed by node *name*). -/
theorem keptOf_congr_name (att : List (String × List Pod)) (ni ni' : NodeItem)
    (h : ni.node.name = ni'.node.name) : (keptOf att ni).2 = (keptOf att ni').2 := by
  unfold keptOf
  rw [h]
  split <;> rfl

/-- looking a node name up in the per-node map finds the kept pod of any entry with that name. -/
theorem lookupNode_kept (released : String → Bool) (t : Template) (nodes : List NodeItem) (pods : List Pod)
    (ignore : List String) (ni : NodeItem) (o : Option Pod)
    (h : (ni, o) ∈ (filterAndMap released t nodes pods ignore).byNode) :
    ∃ ni', lookupNode (filterAndMap released t nodes pods ignore).byNode ni.node.name = some (ni', o) := by
  unfold lookupNode
  cases hf : (filterAndMap released t nodes pods ignore).byNode.find? (fun e => e.1.node.name == ni.node.name) with
  | none =>
    rw [List.find?_eq_none] at hf
    exact absurd (by simp) (hf _ h)
  | some e =>
    obtain ⟨ni', o'⟩ := e
    have h1 := List.find?_some hf
    have h2 := List.mem_of_find?_eq_some hf
    simp only [beq_iff_eq] at h1
    have e1 := (mem_filter_byNode h2).2
    have e2 := (mem_filter_byNode h).2
    rw [keptOf_congr_name _ ni' ni h1, e2] at e1
    exact ⟨ni', by rw [e1]⟩

/-- **Label on.**  In a full canary sync the kept pod of a canary node that carries this replica
set's name label but not the canary label gets the label.  (No distinctness hypothesis on node
names: entries of the map with the same node name hold the same kept pod.) -/
theorem C04_label_on (h : ersOwner rs st = some d) (hr : ersRole d rs.name = "canary")
    (hd : isDefaulted d.strategy d.templateName = true) (hg : ersGated d rs now = false)
    (he : (reconcileErs rs st released aff now).earlyErr = false)
    (items : List NodeItem) (hi : ersNodeItems d rs st = some items)
    (ni : NodeItem) (p : Pod)
    (hm : (ni, some p) ∈ (ersFilter released d rs items (ersPods d st)).byNode)
    (hcn : ni.node.name ∈ ersCanaryNodes d) (hl : p.hasLabels = true)
    (hers : SMap.get? p.labels K.ersNameLabel = some rs.name)
    (hnc : SMap.get? p.labels K.canaryLabel ≠ some "true") :
    p.name ∈ (reconcileErs rs st released aff now).labelAdds := by
  obtain ⟨items', r, adds, removes, se, st0, F⟩ := reconcileErs_full rs st released aff now d h hd hg he
  have : items' = items := by have := F.hitems; rw [hi] at this; exact (Option.some.inj this).symm
  subst this
  have hs := F.strat
  rw [hr] at hs
  obtain ⟨r0, -, -, hadds, -, -⟩ := ersStrategy_canary hs
  rw [F.eq, ersFinish_labelAdds, hadds]
  unfold canaryLabelAdds
  rw [List.mem_filterMap]
  refine ⟨ni.node.name, hcn, ?_⟩
  obtain ⟨ni', hlk⟩ := lookupNode_kept released rs.template items' (ersPods d st) (ersIgnore d rs) ni (some p) hm
  rw [ersParams_byNode]
  rw [hlk]
  have hcond : (p.hasLabels && SMap.get? p.labels K.ersNameLabel ==
      some (ersParams released d rs items' (ersPods d st) now).ers.name &&
      SMap.get? p.labels K.canaryLabel != some "true") = true := by
    simp only [Bool.and_eq_true, beq_iff_eq, bne_iff_ne, ne_eq]
    exact ⟨⟨hl, hers⟩, hnc⟩
  simp only [hcond, if_true]

/-- **Label off.**  In a full active sync within five minutes of the rolling update's start, every
pod of the namespace carrying the EDS's name label, this replica set's name label and the canary
label is unlabelled.  (The EDS-label requirement is the repaired list selector of the clean-up; it
is what makes `C12_ers_writes_owned` hold for `labelRemoves`.)

STATEMENT CHANGED with the F15 repair: hypothesis `hok` (the rolling-update parameters parse, i.e.
`ManageDeployment` does not return its early error) is new.  Before the repair that case was an early
return, excluded by `he`; now the sync goes on, writes the status with ReconcileError=True and patches
no label, so without `hok` the statement is false (counterexample `cxStore04` below). -/
theorem C04_label_off (h : ersOwner rs st = some d) (hr : ersRole d rs.name = "active")
    (hd : isDefaulted d.strategy d.templateName = true) (hg : ersGated d rs now = false)
    (he : (reconcileErs rs st released aff now).earlyErr = false)
    (hok : ∀ items, ersNodeItems d rs st = some items →
      ∀ msg, manageDeployment (ersParams released d rs items (ersPods d st) now) now now false ≠ .err msg)
    (ht : now - rollingUpdateStartTime rs.status now < 5 * minute)
    (p : Pod) (hp : p ∈ st.pods) (hns : p.ns = rs.ns)
    (hcl : SMap.get? p.labels K.canaryLabel = some "true")
    (hers : SMap.get? p.labels K.ersNameLabel = some rs.name)
    (heds : SMap.get? p.labels K.edsNameLabel = some d.name) :
    p.name ∈ (reconcileErs rs st released aff now).labelRemoves := by
  obtain ⟨items, r, adds, removes, se, st0, F⟩ := reconcileErs_full rs st released aff now d h hd hg he
  have hs := F.strat
  rw [hr] at hs
  rcases ersStrategy_active hs F.status with ⟨-, -, hrem, -⟩ | ⟨⟨msg, hmsg⟩, -, -, -, -⟩
  case inr => exact absurd hmsg (hok items F.hitems msg)
  rw [F.eq, ersFinish_labelRemoves, hrem, if_pos ht]
  exact List.mem_map.mpr ⟨p, mem_canaryLabelled.mpr ⟨hp, hns, hcl, hers, heds⟩, rfl⟩

/-- … in terms of the stored Active condition: it is True and its last transition is less than five
minutes old (or the condition is absent / not True: the rolling update starts now).
STATEMENT CHANGED with the F15 repair: hypothesis `hok` is new, as in `C04_label_off`. -/
theorem C04_label_off_cond (h : ersOwner rs st = some d) (hr : ersRole d rs.name = "active")
    (hd : isDefaulted d.strategy d.templateName = true) (hg : ersGated d rs now = false)
    (he : (reconcileErs rs st released aff now).earlyErr = false)
    (hok : ∀ items, ersNodeItems d rs st = some items →
      ∀ msg, manageDeployment (ersParams released d rs items (ersPods d st) now) now now false ≠ .err msg)
    (ht : ∀ c, findCond rs.status.conds "Active" = some c → c.status = "True" →
          now - c.lastTransition < 5 * minute)
    (p : Pod) (hp : p ∈ st.pods) (hns : p.ns = rs.ns)
    (hcl : SMap.get? p.labels K.canaryLabel = some "true")
    (hers : SMap.get? p.labels K.ersNameLabel = some rs.name)
    (heds : SMap.get? p.labels K.edsNameLabel = some d.name) :
    p.name ∈ (reconcileErs rs st released aff now).labelRemoves := by
  refine C04_label_off rs st released aff now d h hr hd hg he hok ?_ p hp hns hcl hers heds
  unfold rollingUpdateStartTime
  split
  · rename_i c hc
    split
    · rename_i hst
      exact ht c hc (by simpa using hst)
    · simp only [Int.sub_self]; decide
  · simp only [Int.sub_self]; decide

end Writes2

/-! ### Non-vacuity.  EDS `d` (namespace `ns`, defaulted, reconcile frequency 10 s) with active replica
set `d-old` and a canary `d-new` on node `n1`; two fit nodes `n1`, `n2`; a third replica set `d-x` is a
leftover.  Every hypothesis used above (`ersOwner … = some d`, the three roles, defaulted, not gated,
not an early return) is satisfied by these syncs. -/

def exStrategy04 (freq : Dur := 10 * sec) : Strategy :=
  { rollingUpdate := { maxUnavailable := some ⟨"int", 1⟩, maxPodSchedulerFailure := some ⟨"int", 0⟩,
                       maxParallelPodCreation := some 250, slowStartInterval := some minute,
                       slowStartAdditiveIncrease := some ⟨"int", 5⟩ },
    canary := some { replicas := some ⟨"int", 1⟩, duration := some (10 * minute),
                     nodeSelector := some { matchLabels := [], exprs := [] },
                     antiAffinityKeys := [],
                     autoPause := some { enabled := some true, maxRestarts := some 2, maxSlowStartDuration := none },
                     autoFail := some { enabled := some true, maxRestarts := some 5,
                                        maxRestartsDuration := none, canaryTimeout := none },
                     noRestartsDuration := none, validationMode := "auto" },
    reconcileFrequency := some freq }

/-- `canary = true`: `d-old` active, `d-new` canary on `n1`; `false`: canary over, `d-new` active. -/
def exEds04 (canary : Bool := true) (freq : Dur := 10 * sec) : EDS :=
  { name := "d", ns := "ns", labels := [], annotations := [], templateHash := "h", templateName := "",
    template := exTemplate01, strategy := exStrategy04 freq,
    status := { desired := 0, current := 0, ready := 0, available := 0, upToDate := 0, ignored := 0, state := "",
                activeReplicaSet := if canary then "d-old" else "d-new", reason := "",
                canary := if canary then some { replicaSet := "d-new", nodes := ["n1"] } else none,
                conds := [] } }

def exErs04 (name tg : String) (conds : List Cond := []) : ERS :=
  { name := name, ns := "ns", uid := "u", labels := [⟨K.edsNameLabel, "d"⟩], annotations := [], creation := 0,
    deleted := false, ownerEds := some "d", selector := none, templateGeneration := tg, template := exTemplate01,
    status := { status := "", desired := 0, current := 0, ready := 0, available := 0, ignored := 0, conds := conds } }

def exStore04 (pods : List Pod := []) (canary : Bool := true) (freq : Dur := 10 * sec) : ErsStore :=
  { edss := [exEds04 canary freq], nodes := [(exNode01 "n1").node, (exNode01 "n2").node], pods := pods,
    settings := [], daemonsets := [] }

/-- a ready pod of replica set `ers` (template generation `tg`) running on `node`. -/
def exPod04 (name node ers tg : String) (canaryLabel : Bool := false) (edsLabel : Bool := true) : Pod :=
  { name := name, ns := "ns",
    labels := (if edsLabel then [⟨K.edsNameLabel, "d"⟩] else []) ++ [⟨K.ersNameLabel, ers⟩] ++
              (if canaryLabel then [⟨K.canaryLabel, "true"⟩] else []),
    annotations := [⟨K.templateHashAnnot, tg⟩], owners := [], creation := 1, deletion := none,
    gracePeriod := none, nodeName := node, affOther := "", affRequired := none, tolerations := [],
    containers := [], phase := "Running", startTime := some 1, conds := [⟨"Ready", "True", "", 1⟩], cstats := [] }

/-- the hypotheses: owner found, roles, defaulted, not gated, full run. -/
example : ersOwner (exErs04 "d-new" "new") exStore04 = some exEds04 ∧
    ersRole exEds04 "d-new" = "canary" ∧ ersRole exEds04 "d-old" = "active" ∧ ersRole exEds04 "d-x" = "unknown" ∧
    isDefaulted (exEds04).strategy (exEds04).templateName = true ∧
    ersGated exEds04 (exErs04 "d-new" "new") 100 = false ∧
    (reconcileErs (exErs04 "d-new" "new") exStore04 (fun _ => true) true 100).earlyErr = false := by decide

/-- no pod yet: the canary replica set creates on the canary node only, the active one on the other
node only, the leftover nowhere. -/
example : (reconcileErs (exErs04 "d-new" "new") exStore04 (fun _ => true) true 100).creates.map (·.1) = ["n1"] := by
  decide
example : (reconcileErs (exErs04 "d-old" "old") exStore04 (fun _ => true) true 100).creates.map (·.1) = ["n2"] := by
  decide
example : (reconcileErs (exErs04 "d-x" "x") exStore04 (fun _ => true) true 100).creates = [] := by decide
/-- the created pod is bound to its node (affinity mode and node-name mode). -/
example : (reconcileErs (exErs04 "d-new" "new") exStore04 (fun _ => true) true 100).creates.map (·.2.nodeOf)
    = [some "n1"] := by decide
example : (reconcileErs (exErs04 "d-new" "new") exStore04 (fun _ => true) false 100).creates.map (·.2.nodeOf)
    = [some "n1"] := by decide

/-- both nodes run the old generation: the canary replica set replaces the pod of `n1` only; the active
one (whose pods are up to date) and the leftover touch nothing. -/
def exPodsOld04 : List Pod := [exPod04 "old-1" "n1" "d-old" "old", exPod04 "old-2" "n2" "d-old" "old"]
example : (reconcileErs (exErs04 "d-new" "new") (exStore04 exPodsOld04) (fun _ => true) true 100).deletes = ["old-1"] ∧
    (reconcileErs (exErs04 "d-new" "new") (exStore04 exPodsOld04) (fun _ => true) true 100).creates = [] := by decide
example : (reconcileErs (exErs04 "d-old" "old") (exStore04 exPodsOld04) (fun _ => true) true 100).noPodWrite := by
  decide
example : (reconcileErs (exErs04 "d-x" "x") (exStore04 exPodsOld04) (fun _ => true) true 100).noPodWrite := by
  decide
/-- an active replica set of a *newer* generation would replace `old-2` but still leaves `old-1`
(on the canary node) alone. -/
example : (reconcileErs (exErs04 "d-old" "old2") (exStore04 exPodsOld04) (fun _ => true) true 100).deletes
    = ["old-2"] := by decide

/-- the canary pod of `n1` gets the canary label (`C04_label_on`) … -/
example : (reconcileErs (exErs04 "d-new" "new")
    (exStore04 [exPod04 "new-1" "n1" "d-new" "new", exPod04 "old-2" "n2" "d-old" "old"]) (fun _ => true) true 100).labelAdds
    = ["new-1"] := by decide
/-- … and loses it once `d-new` has become the active replica set (`C04_label_off`). -/
example : (reconcileErs (exErs04 "d-new" "new")
    (exStore04 [exPod04 "new-1" "n1" "d-new" "new" true, exPod04 "old-2" "n2" "d-old" "old"] false)
    (fun _ => true) true 100).labelRemoves = ["new-1"] := by decide

/-! ### Why `hok` in `C04_label_off` (F15 repair).  A *defaulted* strategy only needs `maxUnavailable` to
be set, not to parse.  With a kind that is neither "int" nor "pct" `ManageDeployment` returns its early
error; since the repair the sync is then a full one (`earlyErr = false`) that writes
ReconcileError=True, but it patches no label: every other hypothesis of `C04_label_off` holds and the
conclusion fails. -/

def cxStrategy04 : Strategy :=
  { exStrategy04 with
    rollingUpdate := { (exStrategy04).rollingUpdate with maxUnavailable := some ⟨"bad", 1⟩ } }

def cxEds04 : EDS := { exEds04 false with strategy := cxStrategy04 }

def cxStore04 : ErsStore :=
  { exStore04 [exPod04 "new-1" "n1" "d-new" "new" true] false with edss := [cxEds04] }

example : ersOwner (exErs04 "d-new" "new") cxStore04 = some cxEds04 ∧
    ersRole cxEds04 (exErs04 "d-new" "new").name = "active" ∧
    isDefaulted cxEds04.strategy cxEds04.templateName = true ∧
    ersGated cxEds04 (exErs04 "d-new" "new") 100 = false ∧
    (reconcileErs (exErs04 "d-new" "new") cxStore04 (fun _ => true) true 100).earlyErr = false ∧
    (100 : Int) - rollingUpdateStartTime (exErs04 "d-new" "new").status 100 < 5 * minute ∧
    exPod04 "new-1" "n1" "d-new" "new" true ∈ cxStore04.pods ∧
    (exPod04 "new-1" "n1" "d-new" "new" true).ns = (exErs04 "d-new" "new").ns ∧
    SMap.get? (exPod04 "new-1" "n1" "d-new" "new" true).labels K.canaryLabel = some "true" ∧
    SMap.get? (exPod04 "new-1" "n1" "d-new" "new" true).labels K.ersNameLabel = some "d-new" ∧
    SMap.get? (exPod04 "new-1" "n1" "d-new" "new" true).labels K.edsNameLabel = some cxEds04.name ∧
    (reconcileErs (exErs04 "d-new" "new") cxStore04 (fun _ => true) true 100).labelRemoves = [] ∧
    (reconcileErs (exErs04 "d-new" "new") cxStore04 (fun _ => true) true 100).noPodWrite := by decide

end Eds
