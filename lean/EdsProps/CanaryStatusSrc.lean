import EdsProofs.BridgeCanaryStatus
import EdsProps.C01
import EdsProps.C06
import EdsProps.C14
/-
  EdsProps.CanaryStatusSrc — C06 / C08 / C04 / C14 stated directly about the Lean definition the translator regenerates
  from `manageCanaryStatus` (strategy/canary.go) on every run (EdsModel/Generated/DecCanaryStatus.lean), obtained by
  transporting the model-level theorems along `Bridge.src_manageCanaryStatus`.  These are statements about what the code
  says *now*: `none` is a Go panic, the two Go maps are association lists in any order.

  Setting of every theorem: a non-nil `params` `P` with non-nil `Strategy`, `NewStatus`, `Replicaset`, whose maps are
  related to the model's `byNode` by `Bridge.MapsRel` (what `FilterAndMapPodsByNode` constructs), pods with
  `Go.lastStateWF` container statuses, and a returned `Result` `R`.
-/
namespace Eds

namespace Src
export Eds.Generated.Decisions (manageCanaryStatus)
end Src

section
variable (ann : SMap) (P : GParams) (p : StratParams) (now : Time) (nilSlice : Bool) (R : GResult)
  (hstrat : P.strategy = some p.strategy) (hns : P.newStatus = some p.newStatus) (hrs : P.replicaset = some p.ers)
  (hcn : P.canaryNodes = p.canaryNodes) (hann : p.edsAnnotations = ann)
  (hm : Bridge.MapsRel P.nodeByName P.podByNodeName p.byNode) (hwfm : Bridge.MapPodsWF P.podByNodeName)
  (h : Src.manageCanaryStatus ann (some P) now nilSlice = some (some R))

include hstrat hns hrs hcn hann hm hwfm h

/-- the translated function returns exactly what the model does. -/
theorem C06_src_status_model : ∃ r, Eds.manageCanaryStatus p now = some r ∧ R = Bridge.canaryResultOf r := by
  rw [show Src.manageCanaryStatus = Generated.Decisions.manageCanaryStatus from rfl,
    Bridge.src_manageCanaryStatus ann P p now nilSlice hstrat hns hrs hcn hann hm hwfm] at h
  cases hr : Eds.manageCanaryStatus p now with
  | none => rw [hr] at h; cases h
  | some r =>
    rw [hr] at h
    simp only [Option.some.injEq] at h
    exact ⟨r, rfl, h.symm⟩

/-- **C06 / C08: a paused or failed canary creates no pod** — about the code. -/
theorem C06_src_status_blocks_creation (hb : R.isPaused = true ∨ R.isFailed = true) : R.podsToCreate = [] := by
  obtain ⟨r, hr, rfl⟩ := C06_src_status_model ann P p now nilSlice R hstrat hns hrs hcn hann hm hwfm h
  have := C06_blocks_creation p now r hr hb
  simp [Bridge.canaryResultOf, this]

theorem C08_src_status_paused_no_create (hb : R.isPaused = true) : R.podsToCreate = [] :=
  C06_src_status_blocks_creation ann P p now nilSlice R hstrat hns hrs hcn hann hm hwfm h (Or.inl hb)

/-- **C08: a canary resumes on unpause** — about the code: with the unpaused annotation read and the canary not failed,
the returned result is not paused. -/
theorem C08_src_status_resumes_on_unpause (hu : isCanaryUnpaused ann = true) (hnf : R.isFailed = false) :
    R.isPaused = false := by
  obtain ⟨r, hr, rfl⟩ := C06_src_status_model ann P p now nilSlice R hstrat hns hrs hcn hann hm hwfm h
  exact C08_canary_resumes_on_unpause p now r hr (hann ▸ hu) hnf

/-- **C04 / C01: pods are created only on the listed canary nodes, and only where the map holds no pod** — about the
code: every pointer of `PodsToCreate` is a non-nil key of `PodByNodeName` whose pod is nil and whose node is named in
`CanaryNodes`. -/
theorem C04_src_status_create_only_canary_nodes :
    ∀ x ∈ R.podsToCreate, ∃ ni, x = some ni ∧ (some ni, none) ∈ P.podByNodeName ∧ ni.node.name ∈ P.canaryNodes := by
  obtain ⟨r, hr, rfl⟩ := C06_src_status_model ann P p now nilSlice R hstrat hns hrs hcn hann hm hwfm h
  intro x hx
  simp only [Bridge.canaryResultOf, List.mem_map] at hx
  obtain ⟨ni, hni, rfl⟩ := hx
  obtain ⟨h1, h2⟩ := C01_canary_create_only_empty p now r hr ni hni
  exact ⟨ni, rfl, Bridge.entries_mem_none hm.entries h1, hcn ▸ h2⟩

/-- **C14: the counters of the returned status are ordered, and `desired` is the number of canary nodes** — about the
code. -/
theorem C14_src_status_counters (st : ERSStatus) (hst : R.newStatus = some st) :
    0 ≤ st.available ∧ st.available ≤ st.ready ∧ st.ready ≤ st.current ∧ st.current ≤ st.desired ∧
      st.desired = P.canaryNodes.length := by
  obtain ⟨r, hr, rfl⟩ := C06_src_status_model ann P p now nilSlice R hstrat hns hrs hcn hann hm hwfm h
  have hst' : r.newStatus = some st := hst
  obtain ⟨a, b, c, d⟩ := C14_ers_order_canary p now r st hr hst'
  exact ⟨a, b, c, d, hcn ▸ C14_canary_desired p now r st hr hst'⟩

end
end Eds
