import EdsProofs.ReconcileErs
import EdsProofs.ErsRun
import EdsProofs.C02cConds
import EdsProps.C04
import EdsProps.C08
/-
  C08c — pause / freeze at the level of the whole sync of the replica-set controller, active role.

  Subject: `reconcileErs` (EdsModel/ReconcileErs.lean), through the inversions `reconcileErs_cases` /
  `ersBody_cases` (EdsProofs/ReconcileErs.lean), `C08_sync` (EdsProps/C08.lean, the statement about
  `manageDeployment` alone) and the condition lemmas of EdsProofs/ErsRun.lean, C02cConds.lean.
  `isRollingUpdatePaused ann` / `isRolloutFrozen ann` (EdsModel/Rolling.lean) = "the annotation
  rolling-update-paused / rollout-frozen is present with the value `true`" (`C08_flags`).

  Quantification: every replica set, store, back-off oracle `released`, affinity mode and instant; every
  outcome of the sync.  Only `ersOwner rs st = some d` and the role are assumed unless stated.

    `C08_sync_paused_no_update_delete`  paused or frozen ⇒ `deletes = []`                         [full]
    `C08_sync_frozen_no_create`         frozen ⇒ `creates = []`                                   [full]
    `C08_sync_flags_partial`            [hyp ADDED: the owner is defaulted] a written status has
                                        RollingUpdatePaused / RolloutFrozen / Active True *iff* the
                                        ExtendedDaemonSet's own annotation says so (an equality of Booleans,
                                        stronger than "only if")
      — the statement without the hypothesis is FALSE: a sync whose owner is not defaulted writes the stored
        status with only ReconcileError updated, so a stale RollingUpdatePaused=True is written back although
        the annotation is gone (`cxStore08`, checked by `decide`); `C08_sync_flags_not_defaulted` says that this
        is all that happens there: the two conditions are the stored ones, untouched.
    `C08_sync_ers_annotations_irrelevant`  annotations carried by the replica set object never pause or freeze:
                                        the whole plan is the plan for the replica set with any other
                                        annotations (every role; + example `exErsAnnotated08`)            [full]
    `C08_sync_annotations_frame`        the active sync reads the ExtendedDaemonSet's annotations only through
                                        the paused flag, the frozen flag and the old-daemonset annotation
    `C08_sync_resume`, `C08_sync_resume_frozen`   annotation absent or ≠ "true" ⇒ the whole plan
                                        (`ErsWrites`: every write list, status, requeue) equals the plan for the
                                        same store with the annotation removed from the ExtendedDaemonSet [full]
-/
namespace Eds

/-! ### conditions written by `ManageDeployment` -/

theorem isCondTrue_rollingConds (p : StratParams) (now : Time) :
    isCondTrue (rollingConds p now) "RollingUpdatePaused" = isRollingUpdatePaused p.edsAnnotations ∧
    isCondTrue (rollingConds p now) "RolloutFrozen" = isRolloutFrozen p.edsAnnotations ∧
    isCondTrue (rollingConds p now) "Active" =
      (!isRollingUpdatePaused p.edsAnnotations && !isRolloutFrozen p.edsAnnotations) := by
  unfold rollingConds
  simp only []
  refine ⟨?_, ?_, ?_⟩
  · rw [isCondTrue_updateCond_other _ _ _ _ _ _ _ _ _ (by decide),
      isCondTrue_updateCond_other _ _ _ _ _ _ _ _ _ (by decide), isCondTrue_updateCond_same]
  · rw [isCondTrue_updateCond_other _ _ _ _ _ _ _ _ _ (by decide), isCondTrue_updateCond_same]
  · rw [isCondTrue_updateCond_same]

theorem isCondTrue_deploymentConds (p : StratParams) (now wall : Time) (cf : Bool) :
    isCondTrue (deploymentConds p now wall cf) "RollingUpdatePaused" = isRollingUpdatePaused p.edsAnnotations ∧
    isCondTrue (deploymentConds p now wall cf) "RolloutFrozen" = isRolloutFrozen p.edsAnnotations ∧
    isCondTrue (deploymentConds p now wall cf) "Active" =
      (!isRollingUpdatePaused p.edsAnnotations && !isRolloutFrozen p.edsAnnotations) := by
  unfold deploymentConds
  split
  · exact isCondTrue_rollingConds p now
  · rw [isCondTrue_updateCond_other _ _ _ _ _ _ _ _ _ (by decide),
      isCondTrue_updateCond_other _ _ _ _ _ _ _ _ _ (by decide),
      isCondTrue_updateCond_other _ _ _ _ _ _ _ _ _ (by decide)]
    exact isCondTrue_rollingConds p now

/-- the status a successful `ManageDeployment` returns carries `deploymentConds`. -/
theorem manageDeployment_conds (p : StratParams) (now wall : Time) (cf : Bool) (r : StratResult) (st0 : ERSStatus)
    (h : manageDeployment p now wall cf = .ok r) (hs : r.newStatus = some st0) :
    st0.conds = deploymentConds p now wall cf := by
  obtain ⟨ms, mu, mc, hms, hmu, hmc, -, -⟩ := manageDeployment_plan p now wall cf r h
  obtain ⟨r', st0', h', hs', hc, -, -, -⟩ := manageDeployment_ok p now wall cf ms mu mc hms hmu hmc
  rw [h] at h'
  injection h' with h'
  subst h'
  rw [hs] at hs'
  injection hs' with hs'
  subst hs'
  exact hc

section Sync
variable (rs : ERS) (st : ErsStore) (released : String → Bool) (aff : Bool) (now : Time) (d : EDS)

/-! ### 1. paused / frozen: no deletion for updating; frozen: no creation -/

/-- **Paused or frozen ⇒ no pod is deleted for updating**, whatever the sync does otherwise. -/
theorem C08_sync_paused_no_update_delete (h : ersOwner rs st = some d) (hr : ersRole d rs.name = "active")
    (hpf : isRollingUpdatePaused d.annotations = true ∨ isRolloutFrozen d.annotations = true) :
    (reconcileErs rs st released aff now).deletes = [] := by
  rcases reconcileErs_cases rs st released aff now d h with hno | ⟨items, r, adds, removes, se, st0, F⟩
  · exact hno.2.2.2.1
  · have hs := F.strat
    rw [hr] at hs
    rw [F.eq]
    rcases ersStrategy_active hs F.status with ⟨hm, -, -, -⟩ | ⟨-, hre, hadds, hrem, -⟩
    · have hdel : r.deleteE = [] := (C08_sync _ now now false r hm).1 hpf
      obtain ⟨b, hb⟩ := ersFinish_deletes_eq rs (ersRole d rs.name) (ersFreq d)
        (ersParams released d rs items (ersPods d st) now) r adds removes se st0 aff now
      rw [hb, hdel]; cases b <;> rfl
    · subst hre hadds hrem
      exact (ersFinish_errResult_noPodWrite rs (ersRole d rs.name) (ersFreq d)
        (ersParams released d rs items (ersPods d st) now) (ersParams released d rs items (ersPods d st) now)
        se st0 aff now).2.2.2.1

/-- **Frozen ⇒ no pod is created.** -/
theorem C08_sync_frozen_no_create (h : ersOwner rs st = some d) (hr : ersRole d rs.name = "active")
    (hf : isRolloutFrozen d.annotations = true) :
    (reconcileErs rs st released aff now).creates = [] := by
  rcases reconcileErs_cases rs st released aff now d h with hno | ⟨items, r, adds, removes, se, st0, F⟩
  · exact hno.2.2.2.2
  · have hs := F.strat
    rw [hr] at hs
    rw [F.eq]
    rcases ersStrategy_active hs F.status with ⟨hm, -, -, -⟩ | ⟨-, hre, hadds, hrem, -⟩
    · have hcre : r.createE = [] := (C08_sync _ now now false r hm).2 hf
      obtain ⟨b, hb⟩ := ersFinish_creates_eq rs (ersRole d rs.name) (ersFreq d)
        (ersParams released d rs items (ersPods d st) now) r adds removes se st0 aff now
      rw [hb, hcre]; cases b <;> rfl
    · subst hre hadds hrem
      exact (ersFinish_errResult_noPodWrite rs (ersRole d rs.name) (ersFreq d)
        (ersParams released d rs items (ersPods d st) now) (ersParams released d rs items (ersPods d st) now)
        se st0 aff now).2.2.2.2

/-! ### 2. the conditions of the written status -/

/-- the status a full run in the active role hands to `ersFinish` has the three rolling conditions of
the ExtendedDaemonSet's own annotations. -/
theorem fullRun_active_flags {items : List NodeItem} {r : StratResult} {adds removes : List String} {se : Bool}
    {st0 : ERSStatus} {w : ErsWrites} (hr : ersRole d rs.name = "active")
    (F : FullRun d rs st released aff now w items r adds removes se st0) :
    isCondTrue st0.conds "RollingUpdatePaused" = isRollingUpdatePaused d.annotations ∧
    isCondTrue st0.conds "RolloutFrozen" = isRolloutFrozen d.annotations ∧
    isCondTrue st0.conds "Active" = (!isRollingUpdatePaused d.annotations && !isRolloutFrozen d.annotations) := by
  have hs := F.strat
  rw [hr] at hs
  rcases ersStrategy_active hs F.status with ⟨hm, -, -, -⟩ | ⟨-, hre, -, -, -⟩
  · rw [manageDeployment_conds _ now now false r st0 hm F.status]
    exact isCondTrue_deploymentConds (ersParams released d rs items (ersPods d st) now) now now false
  · have hst := F.status
    rw [hre] at hst
    unfold ersErrResult at hst
    simp only [Option.some.injEq] at hst
    rw [← hst]
    exact isCondTrue_rollingConds (ersParams released d rs items (ersPods d st) now) now

/-- **Flags.**  With a defaulted owner, a status written by the active role has
RollingUpdatePaused (RolloutFrozen) True exactly when the ExtendedDaemonSet's own current annotation is
`true`; Active is True exactly when neither is.  Nothing else enters: not the stored conditions, not the
replica set's own annotations. -/
theorem C08_sync_flags_partial (h : ersOwner rs st = some d) (hr : ersRole d rs.name = "active")
    (hd : isDefaulted d.strategy d.templateName = true)
    (s : ERSStatus) (hs : (reconcileErs rs st released aff now).statusUpdate = some s) :
    isCondTrue s.conds "RollingUpdatePaused" = isRollingUpdatePaused d.annotations ∧
    isCondTrue s.conds "RolloutFrozen" = isRolloutFrozen d.annotations ∧
    isCondTrue s.conds "Active" = (!isRollingUpdatePaused d.annotations && !isRolloutFrozen d.annotations) := by
  rw [reconcileErs_eq rs st released aff now d h] at hs
  rcases ersBody_cases d rs st released aff now with he | ⟨he, _⟩ | ⟨_, _, he⟩ |
      ⟨items, r, adds, removes, se, st0, F⟩
  · rw [he] at hs; cases hs
  · rw [hd] at he; cases he
  · rw [he] at hs; cases hs
  · obtain ⟨f1, f2, f3⟩ := fullRun_active_flags rs st released aff now d hr F
    have key : ∀ t, "PodsCleanupDone" ≠ t → "Unschedule" ≠ t → "PodDeletion" ≠ t → "PodCreation" ≠ t →
        "ReconcileError" ≠ t → "LastFullSync" ≠ t → isCondTrue s.conds t = isCondTrue st0.conds t := by
      intro t h1 h2 h3 h4 h5 h6
      have := ersFinish_findCond rs (ersRole d rs.name) (ersFreq d)
        (ersParams released d rs items (ersPods d st) now) r adds removes se st0 aff now t h1 h2 h3 h4 h5 h6
      rw [← F.eq, hs] at this
      unfold isCondTrue
      rw [← this]
      rfl
    refine ⟨?_, ?_, ?_⟩
    · rw [key _ (by decide) (by decide) (by decide) (by decide) (by decide) (by decide)]; exact f1
    · rw [key _ (by decide) (by decide) (by decide) (by decide) (by decide) (by decide)]; exact f2
    · rw [key _ (by decide) (by decide) (by decide) (by decide) (by decide) (by decide)]; exact f3

/-- "only if" form of the task statement, for the record. -/
theorem C08_sync_flags_partial_only_if (h : ersOwner rs st = some d) (hr : ersRole d rs.name = "active")
    (hd : isDefaulted d.strategy d.templateName = true)
    (s : ERSStatus) (hs : (reconcileErs rs st released aff now).statusUpdate = some s) :
    (isCondTrue s.conds "RollingUpdatePaused" = true →
      SMap.get? d.annotations K.rollingUpdatePausedAnnot = some "true") ∧
    (isCondTrue s.conds "RolloutFrozen" = true →
      SMap.get? d.annotations K.rolloutFrozenAnnot = some "true") := by
  obtain ⟨f1, f2, -⟩ := C08_sync_flags_partial rs st released aff now d h hr hd s hs
  rw [f1, f2, (C08_flags d.annotations).1, (C08_flags d.annotations).2]
  exact ⟨fun h => by simpa using h, fun h => by simpa using h⟩

/-- the sync of a replica set whose owner is **not** defaulted: the status it writes is the stored one with
ReconcileError set; the two conditions are the *stored* ones (this is why `C08_sync_flags_partial` needs `hd`). -/
theorem C08_sync_flags_not_defaulted (h : ersOwner rs st = some d)
    (hd : isDefaulted d.strategy d.templateName = false)
    (s : ERSStatus) (hs : (reconcileErs rs st released aff now).statusUpdate = some s) :
    isCondTrue s.conds "RollingUpdatePaused" = isCondTrue rs.status.conds "RollingUpdatePaused" ∧
    isCondTrue s.conds "RolloutFrozen" = isCondTrue rs.status.conds "RolloutFrozen" := by
  rw [reconcileErs_eq rs st released aff now d h] at hs
  have hb : ersBody d rs st released aff now = ersNotDefaulted rs now := by
    unfold ersBody; rw [hd]; rfl
  rw [hb] at hs
  have key : ∀ t, "ReconcileError" ≠ t → isCondTrue s.conds t = isCondTrue rs.status.conds t := by
    intro t ht
    have := ersNotDefaulted_findCond rs now t ht
    rw [hs] at this
    unfold isCondTrue
    rw [← this]
    rfl
  exact ⟨key _ (by decide), key _ (by decide)⟩

end Sync

/-! ### 3. annotations frame and resume -/

theorem manageDeployment_congr_ann (p : StratParams) (ann : SMap) (now wall : Time) (cf : Bool)
    (hp : isRollingUpdatePaused ann = isRollingUpdatePaused p.edsAnnotations)
    (hf : isRolloutFrozen ann = isRolloutFrozen p.edsAnnotations) :
    manageDeployment { p with edsAnnotations := ann } now wall cf = manageDeployment p now wall cf := by
  unfold manageDeployment
  simp only [hp, hf]

theorem rollingConds_congr_ann (p : StratParams) (ann : SMap) (now : Time)
    (hp : isRollingUpdatePaused ann = isRollingUpdatePaused p.edsAnnotations)
    (hf : isRolloutFrozen ann = isRolloutFrozen p.edsAnnotations) :
    rollingConds { p with edsAnnotations := ann } now = rollingConds p now := by
  unfold rollingConds
  simp only [hp, hf]

theorem ersStrategy_active_congr_ann (rs : ERS) (labelled : List String) (p : StratParams) (ann : SMap) (now : Time)
    (hp : isRollingUpdatePaused ann = isRollingUpdatePaused p.edsAnnotations)
    (hf : isRolloutFrozen ann = isRolloutFrozen p.edsAnnotations) :
    ersStrategy rs labelled "active" { p with edsAnnotations := ann } now = ersStrategy rs labelled "active" p now := by
  unfold ersStrategy
  simp only [beq_self_eq_true, if_true]
  rw [manageDeployment_congr_ann p ann now now false hp hf, rollingConds_congr_ann p ann now hp hf]

theorem ersFinish_congr_ann (rs : ERS) (role : String) (freq : Dur) (sp : StratParams) (ann : SMap) (r : StratResult)
    (adds removes : List String) (se : Bool) (st0 : ERSStatus) (aff : Bool) (now : Time) :
    ersFinish rs role freq { sp with edsAnnotations := ann } r adds removes se st0 aff now =
      ersFinish rs role freq sp r adds removes se st0 aff now := rfl

/-- the run once the node list is known: the active role reads the owner's annotations through the two
flags only. -/
theorem ersRun_congr_ann (d : EDS) (rs : ERS) (pods : List Pod) (labelled : List String) (released : String → Bool)
    (aff : Bool) (now : Time) (items : List NodeItem) (ann : SMap) (hr : ersRole d rs.name = "active")
    (hp : isRollingUpdatePaused ann = isRollingUpdatePaused d.annotations)
    (hf : isRolloutFrozen ann = isRolloutFrozen d.annotations) :
    ersRun { d with annotations := ann } rs pods labelled released aff now items =
      ersRun d rs pods labelled released aff now items := by
  have hrole : ersRole { d with annotations := ann } rs.name = ersRole d rs.name := rfl
  have hsp : ersParams released { d with annotations := ann } rs items pods now =
      { ersParams released d rs items pods now with edsAnnotations := ann } := rfl
  have hfreq : ersFreq { d with annotations := ann } = ersFreq d := rfl
  unfold ersRun
  rw [hrole, hsp, hfreq, hr,
    ersStrategy_active_congr_ann rs labelled (ersParams released d rs items pods now) ann now hp hf]
  cases ersStrategy rs labelled "active" (ersParams released d rs items pods now) now with
  | none => rfl
  | some q =>
    obtain ⟨r, adds, removes, se⟩ := q
    simp only []
    cases r.newStatus with
    | none => rfl
    | some st0 => rfl

theorem ersPods_congr_ann (d : EDS) (st st' : ErsStore) (ann : SMap)
    (hpods : st'.pods = st.pods) (hds : st'.daemonsets = st.daemonsets)
    (ho : SMap.get? ann K.oldDaemonsetAnnot = SMap.get? d.annotations K.oldDaemonsetAnnot) :
    ersPods { d with annotations := ann } st' = ersPods d st := by
  unfold ersPods
  simp only [ho, hpods, hds]

theorem ersNodeItems_congr_ann (d : EDS) (rs : ERS) (st st' : ErsStore) (ann : SMap)
    (hnodes : st'.nodes = st.nodes) (hset : st'.settings = st.settings) :
    ersNodeItems { d with annotations := ann } rs st' = ersNodeItems d rs st := by
  unfold ersNodeItems
  simp only [hnodes, hset]

theorem canaryLabelled_congr_store (n : String) (rs : ERS) (st st' : ErsStore) (hpods : st'.pods = st.pods) :
    canaryLabelled n rs st' = canaryLabelled n rs st := by
  unfold canaryLabelled
  rw [hpods]

/-- two stores that differ at most in their ExtendedDaemonSet objects. -/
def ErsStore.sameButEdss (st st' : ErsStore) : Prop :=
  st'.nodes = st.nodes ∧ st'.pods = st.pods ∧ st'.settings = st.settings ∧ st'.daemonsets = st.daemonsets

/-- **Frame.**  The sync of the active replica set reads the annotations of its ExtendedDaemonSet through
exactly three things: the paused flag, the frozen flag and the old-daemonset annotation.  Two stores that
differ only in the owner's annotations, with these three equal, produce the same plan (all of `ErsWrites`). -/
theorem C08_sync_annotations_frame (rs : ERS) (st st' : ErsStore) (released : String → Bool) (aff : Bool)
    (now : Time) (d : EDS) (ann : SMap)
    (h : ersOwner rs st = some d) (hr : ersRole d rs.name = "active")
    (h' : ersOwner rs st' = some { d with annotations := ann }) (hst : st.sameButEdss st')
    (hp : isRollingUpdatePaused ann = isRollingUpdatePaused d.annotations)
    (hf : isRolloutFrozen ann = isRolloutFrozen d.annotations)
    (ho : SMap.get? ann K.oldDaemonsetAnnot = SMap.get? d.annotations K.oldDaemonsetAnnot) :
    reconcileErs rs st' released aff now = reconcileErs rs st released aff now := by
  obtain ⟨hnodes, hpods, hset, hds⟩ := hst
  rw [reconcileErs_eq rs st released aff now d h, reconcileErs_eq rs st' released aff now _ h']
  unfold ersBody
  have hdef : isDefaulted ({ d with annotations := ann } : EDS).strategy ({ d with annotations := ann } : EDS).templateName
      = isDefaulted d.strategy d.templateName := rfl
  have hgate : ersGated { d with annotations := ann } rs now = ersGated d rs now := rfl
  have hwait : ersGateWait { d with annotations := ann } rs now = ersGateWait d rs now := rfl
  have hname : ({ d with annotations := ann } : EDS).name = d.name := rfl
  rw [hdef, hgate, hwait, ersNodeItems_congr_ann d rs st st' ann hnodes hset,
    ersPods_congr_ann d st st' ann hpods hds ho, hname, canaryLabelled_congr_store d.name rs st st' hpods]
  split
  · rfl
  · split
    · rfl
    · cases ersNodeItems d rs st with
      | none => rfl
      | some items =>
        simp only []
        exact ersRun_congr_ann d rs _ _ released aff now items ann hr hp hf

/-! #### removing an annotation -/

theorem SMap.get?_erase_ne08 (m : SMap) (k k' : String) (h : k' ≠ k) :
    SMap.get? (SMap.erase m k) k' = SMap.get? m k' := by
  unfold SMap.erase
  induction m with
  | nil => rfl
  | cons e m ih =>
    rw [List.filter_cons]
    by_cases hk : e.k = k
    · have hb : (e.k != k) = false := by simp [hk]
      have hne : ¬ e.k = k' := by rw [hk]; exact fun h' => h h'.symm
      simp only [hb, Bool.false_eq_true, if_false]
      rw [SMap.get?_cons, if_neg hne]
      exact ih
    · have hb : (e.k != k) = true := by simp [hk]
      simp only [hb, if_true]
      rw [SMap.get?_cons, SMap.get?_cons, ih]

theorem SMap.get?_erase_self08 (m : SMap) (k : String) : SMap.get? (SMap.erase m k) k = none := by
  unfold SMap.erase
  induction m with
  | nil => rfl
  | cons e m ih =>
    rw [List.filter_cons]
    by_cases hk : e.k = k
    · have hb : (e.k != k) = false := by simp [hk]
      simp only [hb, Bool.false_eq_true, if_false]
      exact ih
    · have hb : (e.k != k) = true := by simp [hk]
      simp only [hb, if_true]
      rw [SMap.get?_cons, if_neg hk]
      exact ih

/-- **Resume (paused).**  If the rolling-update-paused annotation is absent or has a value other than
`true`, the sync plans exactly what it plans for the same store with the annotation removed from the
ExtendedDaemonSet: creations, deletions, clean-up, label patches, status, requeue. -/
theorem C08_sync_resume (rs : ERS) (st st' : ErsStore) (released : String → Bool) (aff : Bool)
    (now : Time) (d : EDS)
    (h : ersOwner rs st = some d) (hr : ersRole d rs.name = "active")
    (h' : ersOwner rs st' =
      some { d with annotations := SMap.erase d.annotations K.rollingUpdatePausedAnnot })
    (hst : st.sameButEdss st')
    (hnp : isRollingUpdatePaused d.annotations = false) :
    reconcileErs rs st released aff now = reconcileErs rs st' released aff now := by
  refine (C08_sync_annotations_frame rs st st' released aff now d _ h hr h' hst ?_ ?_ ?_).symm
  · rw [hnp]
    unfold isRollingUpdatePaused SMap.getD
    rw [SMap.get?_erase_self08]
    decide
  · unfold isRolloutFrozen SMap.getD
    rw [SMap.get?_erase_ne08 _ _ _ (by decide)]
  · exact SMap.get?_erase_ne08 _ _ _ (by decide)

/-- **Resume (frozen).**  Same for the rollout-frozen annotation. -/
theorem C08_sync_resume_frozen (rs : ERS) (st st' : ErsStore) (released : String → Bool) (aff : Bool)
    (now : Time) (d : EDS)
    (h : ersOwner rs st = some d) (hr : ersRole d rs.name = "active")
    (h' : ersOwner rs st' =
      some { d with annotations := SMap.erase d.annotations K.rolloutFrozenAnnot })
    (hst : st.sameButEdss st')
    (hnf : isRolloutFrozen d.annotations = false) :
    reconcileErs rs st released aff now = reconcileErs rs st' released aff now := by
  refine (C08_sync_annotations_frame rs st st' released aff now d _ h hr h' hst ?_ ?_ ?_).symm
  · unfold isRollingUpdatePaused SMap.getD
    rw [SMap.get?_erase_ne08 _ _ _ (by decide)]
  · rw [hnf]
    unfold isRolloutFrozen SMap.getD
    rw [SMap.get?_erase_self08]
    decide
  · exact SMap.get?_erase_ne08 _ _ _ (by decide)

/-- **The replica set's own annotations are never read**: the whole plan of the sync is the same for the
replica set with any other annotations — in particular a rolling-update-paused / rollout-frozen annotation
carried by the replica set object neither pauses nor freezes anything (every role). -/
theorem C08_sync_ers_annotations_irrelevant (rs : ERS) (a : SMap) (st : ErsStore) (released : String → Bool)
    (aff : Bool) (now : Time) :
    reconcileErs { rs with annotations := a } st released aff now = reconcileErs rs st released aff now := rfl

/-! ### Non-vacuity and the counterexample.  The store of EdsProps/C04.lean with the canary over: EDS `d`
(defaulted, maxUnavailable 1), active replica set `d-new`, nodes `n1`, `n2`. -/

def exEds08 (ann : SMap) : EDS := { exEds04 false with annotations := ann }
def exStore08 (ann : SMap) (pods : List Pod) : ErsStore := { exStore04 pods false with edss := [exEds08 ann] }

/-- both nodes run the old generation.  Not paused: one pod is replaced.  Paused, or frozen: none
(`C08_sync_paused_no_update_delete`); the hypotheses (owner, role) hold, the sync is a full one and the
written status carries the flag (`C08_sync_flags_partial`). -/
example : (reconcileErs (exErs04 "d-new" "new") (exStore08 [] exPodsOld04) (fun _ => true) true 100).deletes
    = ["old-1"] := by decide
example : ersOwner (exErs04 "d-new" "new") (exStore08 [⟨K.rollingUpdatePausedAnnot, "true"⟩] exPodsOld04)
      = some (exEds08 [⟨K.rollingUpdatePausedAnnot, "true"⟩]) ∧
    ersRole (exEds08 [⟨K.rollingUpdatePausedAnnot, "true"⟩]) "d-new" = "active" ∧
    isDefaulted (exEds08 [⟨K.rollingUpdatePausedAnnot, "true"⟩]).strategy
      (exEds08 [⟨K.rollingUpdatePausedAnnot, "true"⟩]).templateName = true ∧
    isRollingUpdatePaused (exEds08 [⟨K.rollingUpdatePausedAnnot, "true"⟩]).annotations = true ∧
    (reconcileErs (exErs04 "d-new" "new") (exStore08 [⟨K.rollingUpdatePausedAnnot, "true"⟩] exPodsOld04)
      (fun _ => true) true 100).deletes = [] ∧
    (reconcileErs (exErs04 "d-new" "new") (exStore08 [⟨K.rollingUpdatePausedAnnot, "true"⟩] exPodsOld04)
      (fun _ => true) true 100).earlyErr = false ∧
    (reconcileErs (exErs04 "d-new" "new") (exStore08 [⟨K.rollingUpdatePausedAnnot, "true"⟩] exPodsOld04)
      (fun _ => true) true 100).statusUpdate.map
        (fun s => (isCondTrue s.conds "RollingUpdatePaused", isCondTrue s.conds "RolloutFrozen",
                   isCondTrue s.conds "Active")) = some (true, false, false) := by decide
example : (reconcileErs (exErs04 "d-new" "new") (exStore08 [⟨K.rolloutFrozenAnnot, "true"⟩] exPodsOld04)
      (fun _ => true) true 100).deletes = [] := by decide

/-- no pod yet.  Not frozen (even paused): both nodes get a pod.  Frozen: none (`C08_sync_frozen_no_create`). -/
example : (reconcileErs (exErs04 "d-new" "new") (exStore08 [⟨K.rollingUpdatePausedAnnot, "true"⟩] [])
      (fun _ => true) true 100).creates.map (·.1) = ["n1", "n2"] := by decide
example : isRolloutFrozen (exEds08 [⟨K.rolloutFrozenAnnot, "true"⟩]).annotations = true ∧
    (reconcileErs (exErs04 "d-new" "new") (exStore08 [⟨K.rolloutFrozenAnnot, "true"⟩] [])
      (fun _ => true) true 100).creates = [] ∧
    (reconcileErs (exErs04 "d-new" "new") (exStore08 [⟨K.rolloutFrozenAnnot, "true"⟩] [])
      (fun _ => true) true 100).statusUpdate.map
        (fun s => (isCondTrue s.conds "RollingUpdatePaused", isCondTrue s.conds "RolloutFrozen",
                   isCondTrue s.conds "Active")) = some (false, true, false) := by decide

/-- **annotations carried by the replica set object never pause or freeze**: the replica set carries both
annotations with the value `true`, its ExtendedDaemonSet none — the rolling update goes on and the written
status says not paused, not frozen, active. -/
def exErsAnnotated08 : ERS :=
  { exErs04 "d-new" "new" with
    annotations := [⟨K.rollingUpdatePausedAnnot, "true"⟩, ⟨K.rolloutFrozenAnnot, "true"⟩] }
example : (reconcileErs exErsAnnotated08 (exStore08 [] exPodsOld04) (fun _ => true) true 100).deletes = ["old-1"] ∧
    (reconcileErs exErsAnnotated08 (exStore08 [] []) (fun _ => true) true 100).creates.map (·.1) = ["n1", "n2"] ∧
    (reconcileErs exErsAnnotated08 (exStore08 [] exPodsOld04) (fun _ => true) true 100).statusUpdate.map
        (fun s => (isCondTrue s.conds "RollingUpdatePaused", isCondTrue s.conds "RolloutFrozen",
                   isCondTrue s.conds "Active")) = some (false, false, true) := by decide

/-- resume: the annotation is present with the value `false`; the hypotheses of `C08_sync_resume` hold for
the store without it (and the sync does replace a pod). -/
example : ersOwner (exErs04 "d-new" "new") (exStore08 [⟨K.rollingUpdatePausedAnnot, "false"⟩] exPodsOld04)
      = some (exEds08 [⟨K.rollingUpdatePausedAnnot, "false"⟩]) ∧
    ersOwner (exErs04 "d-new" "new") (exStore08 [] exPodsOld04)
      = some { exEds08 [⟨K.rollingUpdatePausedAnnot, "false"⟩] with
               annotations := SMap.erase (exEds08 [⟨K.rollingUpdatePausedAnnot, "false"⟩]).annotations
                 K.rollingUpdatePausedAnnot } ∧
    isRollingUpdatePaused (exEds08 [⟨K.rollingUpdatePausedAnnot, "false"⟩]).annotations = false ∧
    (reconcileErs (exErs04 "d-new" "new") (exStore08 [⟨K.rollingUpdatePausedAnnot, "false"⟩] exPodsOld04)
      (fun _ => true) true 100).deletes = ["old-1"] := by decide
example : (exStore08 [⟨K.rollingUpdatePausedAnnot, "false"⟩] exPodsOld04).sameButEdss (exStore08 [] exPodsOld04) :=
  ⟨rfl, rfl, rfl, rfl⟩

/-! #### Why `hd` in `C08_sync_flags_partial`.  The owner is **not** defaulted (no reconcile frequency) and
carries no annotation; the replica set's stored status still says RollingUpdatePaused=True from an earlier
pause.  The sync writes that status back with only ReconcileError added: every hypothesis of the
unrestricted statement holds (owner, active role, a status is written) and its conclusion fails. -/

def cxEds08 : EDS := { exEds04 false with strategy := { exStrategy04 with reconcileFrequency := none } }
def cxErs08 : ERS := exErs04 "d-new" "new" [⟨"RollingUpdatePaused", "True", 1, 1, "", ""⟩]
def cxStore08 : ErsStore := { exStore04 [] false with edss := [cxEds08] }

example : ersOwner cxErs08 cxStore08 = some cxEds08 ∧ ersRole cxEds08 cxErs08.name = "active" ∧
    isDefaulted cxEds08.strategy cxEds08.templateName = false ∧
    isRollingUpdatePaused cxEds08.annotations = false ∧
    SMap.get? cxEds08.annotations K.rollingUpdatePausedAnnot = none ∧
    (reconcileErs cxErs08 cxStore08 (fun _ => true) true 100).statusUpdate.map
      (fun s => isCondTrue s.conds "RollingUpdatePaused") = some true := by decide

/-- the unrestricted statement, refuted. -/
example : ¬ (∀ (rs : ERS) (st : ErsStore) (released : String → Bool) (aff : Bool) (now : Time) (d : EDS),
    ersOwner rs st = some d → ersRole d rs.name = "active" →
    ∀ s, (reconcileErs rs st released aff now).statusUpdate = some s →
      isCondTrue s.conds "RollingUpdatePaused" = true → isRollingUpdatePaused d.annotations = true) := by
  intro hall
  have h1 : ersOwner cxErs08 cxStore08 = some cxEds08 := by decide
  have h2 : ersRole cxEds08 cxErs08.name = "active" := by decide
  have h3 : ∃ s, (reconcileErs cxErs08 cxStore08 (fun _ => true) true 100).statusUpdate = some s ∧
      isCondTrue s.conds "RollingUpdatePaused" = true := by
    cases hs : (reconcileErs cxErs08 cxStore08 (fun _ => true) true 100).statusUpdate with
    | none => exact absurd hs (by decide)
    | some s =>
      refine ⟨s, rfl, ?_⟩
      have : (reconcileErs cxErs08 cxStore08 (fun _ => true) true 100).statusUpdate.map
          (fun s => isCondTrue s.conds "RollingUpdatePaused") = some true := by decide
      rw [hs] at this
      exact Option.some.inj this
  obtain ⟨s, hs, ht⟩ := h3
  have := hall cxErs08 cxStore08 (fun _ => true) true 100 cxEds08 h1 h2 s hs ht
  exact absurd this (by decide)

end Eds
