import EdsProps.C02
import EdsProps.C03
/-
  C02b — the abstract cooperative round of C02 IS what the real plan does to a cooperative cluster.

  `EdsProps/C02.lean` proves convergence of the abstract round `absRound mu mc ⟨e, o⟩`.  This file
  links it to `rollingPlan (countAll …)`:

  * a cooperative world over the real entry type `NodeItem × Option Pod` (`coop`, `coopE`, `coopO`);
  * the count bridge `countAll_coop`: the counters / candidate lists of the real counting fold on a
    cooperative entry list;
  * the plan bridge `rollingPlan_coop`, `C02b_plan_lengths*`: the real plan creates on the first
    `min e mc` empty nodes and deletes the first `min o (mu − e)` outdated pods;
  * the refinement `C02b_refines`: plan + cooperative successor acts on `(coopE, coopO)` exactly as
    `absRound`; and the corollary `C02_converges_coop`.
-/
namespace Eds
open Spec.C03

/-! ### 1. The cooperative world over the real entry type -/

/-- (a) node without a pod. -/
def isEmptyE (e : Entry) : Bool := e.2.isNone
/-- (b) node whose pod is outdated and available. -/
def isOldE (tg : String) (wall : Time) (e : Entry) : Bool := classify tg wall e == .outdated true
/-- (c) node whose pod is up to date, available and ready. -/
def isCurE (tg : String) (wall : Time) (e : Entry) : Bool := classify tg wall e == .upToDate true true

def coopEntry (tg : String) (wall : Time) (e : Entry) : Bool :=
  isEmptyE e || isOldE tg wall e || isCurE tg wall e

/-- every entry is (a), (b) or (c): no stuck / terminating / unavailable / not-ready pod. -/
def coop (tg : String) (wall : Time) (es : List Entry) : Bool := es.all (coopEntry tg wall)

/-- number of nodes without a pod -/
def coopE (es : List Entry) : Nat := es.countP isEmptyE
/-- number of nodes with an outdated available pod -/
def coopO (tg : String) (wall : Time) (es : List Entry) : Nat := es.countP (isOldE tg wall)

/-- the abstract state of a (cooperative) entry list. -/
def absOf (tg : String) (wall : Time) (es : List Entry) : Abs := ⟨coopE es, coopO tg wall es⟩

/-- the creation candidates, in list order. -/
def createCands (es : List Entry) : List NodeItem := (es.filter isEmptyE).map (·.1)

/-- the (available) deletion candidates, in list order. -/
def oldCands (tg : String) (wall : Time) (es : List Entry) : List (NodeItem × Pod) :=
  es.filterMap (fun e =>
    match e.2 with
    | some p => if isOldE tg wall e then some (e.1, p) else none
    | none => none)

theorem classify_none (tg : String) (wall : Time) (ni : NodeItem) :
    classify tg wall (ni, none) = .noPod := rfl

theorem classify_some_ne_noPod (tg : String) (wall : Time) (ni : NodeItem) (p : Pod) :
    classify tg wall (ni, some p) ≠ .noPod := by
  intro hc
  simp only [classify] at hc
  split at hc <;> (try split at hc) <;> (try split at hc) <;> simp at hc

/-- `isEmptyE` is the category `noPod`. -/
theorem isEmptyE_iff (tg : String) (wall : Time) (e : Entry) :
    isEmptyE e = true ↔ classify tg wall e = .noPod := by
  obtain ⟨ni, op⟩ := e
  cases op with
  | none => simp [isEmptyE, classify_none]
  | some p => simp [isEmptyE, classify_some_ne_noPod]

/-- the three shapes of a cooperative entry. -/
theorem coopEntry_cases (tg : String) (wall : Time) (e : Entry) (h : coopEntry tg wall e = true) :
    (∃ ni, e = (ni, none)) ∨
    (∃ ni p, e = (ni, some p) ∧ classify tg wall (ni, some p) = .outdated true) ∨
    (∃ ni p, e = (ni, some p) ∧ classify tg wall (ni, some p) = .upToDate true true) := by
  obtain ⟨ni, op⟩ := e
  cases op with
  | none => exact Or.inl ⟨ni, rfl⟩
  | some p =>
    simp only [coopEntry, isEmptyE, isOldE, isCurE, Option.isNone_some, Bool.false_or,
      Bool.or_eq_true, beq_iff_eq] at h
    rcases h with h | h
    · exact Or.inr (Or.inl ⟨ni, p, rfl, h⟩)
    · exact Or.inr (Or.inr ⟨ni, p, rfl, h⟩)

theorem coop_cons (tg : String) (wall : Time) (a : Entry) (es : List Entry) :
    coop tg wall (a :: es) = true ↔ coopEntry tg wall a = true ∧ coop tg wall es = true := by
  simp [coop]

theorem coopE_le_length (es : List Entry) : coopE es ≤ es.length := List.countP_le_length

theorem coopE_add_coopO_le (tg : String) (wall : Time) (es : List Entry) :
    coopE es + coopO tg wall es ≤ es.length := by
  induction es with
  | nil => simp [coopE, coopO]
  | cons a es ih =>
    have hx : ¬ (isEmptyE a = true ∧ isOldE tg wall a = true) := by
      intro ⟨h1, h2⟩
      rw [isEmptyE_iff tg wall] at h1
      simp [isOldE, h1] at h2
    simp only [coopE, coopO, List.countP_cons, List.length_cons] at *
    split <;> split <;> simp_all <;> omega

theorem createCands_length (es : List Entry) : (createCands es).length = coopE es := by
  simp [createCands, coopE, List.countP_eq_length_filter]

theorem oldCands_length (tg : String) (wall : Time) (es : List Entry) :
    (oldCands tg wall es).length = coopO tg wall es := by
  induction es with
  | nil => rfl
  | cons a es ih =>
    obtain ⟨ni, op⟩ := a
    cases op with
    | none =>
      have : isOldE tg wall (ni, none) = false := by simp [isOldE, classify_none]
      simp only [oldCands, coopO, List.filterMap_cons, List.countP_cons, this] at *
      simpa using ih
    | some p =>
      simp only [oldCands, coopO, List.filterMap_cons, List.countP_cons] at *
      split <;> rename_i hq <;> split at hq <;> simp_all

/-! ### 2. The count bridge -/

set_option linter.unusedSimpArgs false in
/-- the counting fold over a cooperative list, from any accumulator. -/
theorem foldl_countStep_coop (tg : String) (wall : Time) (es : List Entry)
    (h : coop tg wall es = true) (c : Counts) :
    es.foldl (countStep tg wall) c =
      { desired := c.desired + es.length,
        allPods := c.allPods + (es.length - coopE es),
        created := c.created + (es.length - coopE es - coopO tg wall es),
        available := c.available + (es.length - coopE es - coopO tg wall es),
        ready := c.ready + (es.length - coopE es - coopO tg wall es),
        oldAvailable := c.oldAvailable + coopO tg wall es,
        oldUnavailable := c.oldUnavailable,
        terminating := c.terminating,
        stuck := c.stuck,
        toCreate := c.toCreate ++ createCands es,
        toDeleteUnavail := c.toDeleteUnavail,
        toDeleteAvail := c.toDeleteAvail ++ oldCands tg wall es } := by
  induction es generalizing c with
  | nil => simp [coopE, coopO, createCands, oldCands]
  | cons a es ih =>
    rw [coop_cons] at h
    rw [List.foldl_cons, ih h.2]
    rcases coopEntry_cases tg wall a h.1 with ⟨ni, rfl⟩ | ⟨ni, p, rfl, hc⟩ | ⟨ni, p, rfl, hc⟩
    · have ho : isOldE tg wall (ni, none) = false := by simp [isOldE, classify_none]
      simp only [countStep, coopE, coopO, createCands, oldCands, List.countP_cons, List.filter_cons,
        List.filterMap_cons, isEmptyE, ho, Option.isNone_none, if_true, List.map_cons,
        List.length_cons, List.append_assoc, List.singleton_append, Counts.mk.injEq]
      refine ⟨?_, ?_, ?_, ?_, ?_, ?_, ?_, ?_, ?_, ?_, ?_, ?_⟩ <;> first | rfl | (simp; omega) | simp
    · have ho : isOldE tg wall (ni, some p) = true := by simp [isOldE, hc]
      simp only [countStep, hc, coopE, coopO, createCands, oldCands, List.countP_cons, List.filter_cons,
        List.filterMap_cons, isEmptyE, ho, Option.isNone_some, if_true, List.map_cons,
        List.length_cons, List.append_assoc, List.singleton_append, Counts.mk.injEq]
      refine ⟨?_, ?_, ?_, ?_, ?_, ?_, ?_, ?_, ?_, ?_, ?_, ?_⟩ <;> first | rfl | (simp; omega) | simp
    · have ho : isOldE tg wall (ni, some p) = false := by simp [isOldE, hc]
      simp only [countStep, hc, coopE, coopO, createCands, oldCands, List.countP_cons, List.filter_cons,
        List.filterMap_cons, isEmptyE, ho, Option.isNone_some, if_true, List.map_cons,
        List.length_cons, List.append_assoc, List.singleton_append, Counts.mk.injEq]
      refine ⟨?_, ?_, ?_, ?_, ?_, ?_, ?_, ?_, ?_, ?_, ?_, ?_⟩ <;> first | rfl | (simp; omega) | simp

/-- **Count bridge** (record form): the counters of the real counting loop on a cooperative list. -/
theorem countAll_coop_eq (tg : String) (wall : Time) (es : List Entry) (h : coop tg wall es = true) :
    countAll tg wall es =
      { desired := es.length,
        allPods := es.length - coopE es,
        created := es.length - coopE es - coopO tg wall es,
        available := es.length - coopE es - coopO tg wall es,
        ready := es.length - coopE es - coopO tg wall es,
        oldAvailable := coopO tg wall es,
        oldUnavailable := 0,
        terminating := 0,
        stuck := 0,
        toCreate := createCands es,
        toDeleteUnavail := [],
        toDeleteAvail := oldCands tg wall es } := by
  unfold countAll
  rw [foldl_countStep_coop tg wall es h]
  simp

/-- **Count bridge** (field form). `e = coopE es`, `o = coopO tg wall es`, `N = es.length`:
`desired = N`, `allPods = N − e`, `created = available = ready = N − e − o`, `oldAvailable = o`,
`oldUnavailable = stuck = terminating = 0`, `|toCreate| = e`, `|toDeleteAvail| = o`,
`toDeleteUnavail = []`. -/
theorem countAll_coop (tg : String) (wall : Time) (es : List Entry) (h : coop tg wall es = true) :
    (countAll tg wall es).desired = es.length ∧
    (countAll tg wall es).allPods = (es.length : Int) - coopE es ∧
    (countAll tg wall es).created = (es.length : Int) - coopE es - coopO tg wall es ∧
    (countAll tg wall es).available = (es.length : Int) - coopE es - coopO tg wall es ∧
    (countAll tg wall es).ready = (es.length : Int) - coopE es - coopO tg wall es ∧
    (countAll tg wall es).oldAvailable = coopO tg wall es ∧
    (countAll tg wall es).oldUnavailable = 0 ∧
    (countAll tg wall es).stuck = 0 ∧
    (countAll tg wall es).terminating = 0 ∧
    (countAll tg wall es).toCreate.length = coopE es ∧
    (countAll tg wall es).toDeleteAvail.length = coopO tg wall es ∧
    (countAll tg wall es).toDeleteUnavail = [] := by
  rw [countAll_coop_eq tg wall es h]
  simp [createCands_length, oldCands_length]

/-- the counters of a cooperative list are the `coopParams` of C02. -/
theorem countAll_coopParams (tg : String) (wall : Time) (es : List Entry) (h : coop tg wall es = true)
    (ms mu mc : Int) :
    ({ nbNodes := es.length, nbPods := (countAll tg wall es).allPods,
       nbAvailablesPod := (countAll tg wall es).available,
       nbOldAvailablesPod := (countAll tg wall es).oldAvailable,
       nbCreatedPod := (countAll tg wall es).created,
       nbUnresponsiveNodes := (countAll tg wall es).stuck,
       nbOldUnavailablePods := (countAll tg wall es).oldUnavailable,
       maxPodCreation := mc, maxUnavailablePod := mu, maxUnschedulablePod := ms } : LimitParams)
      = coopParams es.length (coopE es) (coopO tg wall es) mc mu ms := by
  rw [countAll_coop_eq tg wall es h]
  rfl

/-! ### 3. The plan bridge -/

/-- **Plan bridge** (list form): on a cooperative list, a sync that is neither paused nor frozen
creates on the first `min e mc` empty nodes and deletes the first `min o (mu − e)` outdated pods
(`mu − e` truncated at 0, as in `absRound`). -/
theorem rollingPlan_coop (tg : String) (wall : Time) (es : List Entry) (h : coop tg wall es = true)
    (ms : Int) (mu mc : Nat) (hms : 0 ≤ ms) :
    rollingPlan (countAll tg wall es) es.length ms mu mc false false =
      ((createCands es).take (min (coopE es) mc),
       (oldCands tg wall es).take (min (coopO tg wall es) (mu - coopE es))) := by
  unfold rollingPlan
  simp only [countAll_coopParams tg wall es h,
    C02_coop_limits es.length (coopE es) (coopO tg wall es) mc mu ms (by omega) hms]
  rw [countAll_coop_eq tg wall es h]
  simp only [List.nil_append, Bool.not_false, Bool.and_self, if_true, createCands_length,
    oldCands_length]
  have h1 : (min (max 0 (min (coopE es : Int) mc)) (coopE es : Int)).toNat = min (coopE es) mc := by
    omega
  have h2 : (min (max 0 (min ((mu : Int) - coopE es) mu)) (coopO tg wall es : Int)).toNat
      = min (coopO tg wall es) (mu - coopE es) := by
    omega
  rw [h1, h2]

/-- **Plan bridge** (`Nat` form, the numbers `absRound` uses). -/
theorem C02b_plan_lengths (tg : String) (wall : Time) (es : List Entry) (h : coop tg wall es = true)
    (ms : Int) (mu mc : Nat) (hms : 0 ≤ ms) :
    (rollingPlan (countAll tg wall es) es.length ms mu mc false false).1.length = min (coopE es) mc ∧
    (rollingPlan (countAll tg wall es) es.length ms mu mc false false).2.length
      = min (coopO tg wall es) (mu - coopE es) := by
  rw [rollingPlan_coop tg wall es h ms mu mc hms]
  simp only [List.length_take, createCands_length, oldCands_length]
  omega

/-- **Plan bridge** (`Int` form): any resolved strategy values `mu, mc, ms ≥ 0`. -/
theorem C02b_plan_lengths_int (tg : String) (wall : Time) (es : List Entry) (h : coop tg wall es = true)
    (ms mu mc : Int) (hms : 0 ≤ ms) (hmu : 0 ≤ mu) (hmc : 0 ≤ mc) :
    ((rollingPlan (countAll tg wall es) es.length ms mu mc false false).1.length : Int)
      = min (coopE es : Int) mc ∧
    ((rollingPlan (countAll tg wall es) es.length ms mu mc false false).2.length : Int)
      = min (coopO tg wall es : Int) (max 0 (mu - coopE es)) := by
  have := C02b_plan_lengths tg wall es h ms mu.toNat mc.toNat hms
  have e1 : ((mu.toNat : Nat) : Int) = mu := by omega
  have e2 : ((mc.toNat : Nat) : Int) = mc := by omega
  rw [e1, e2] at this
  omega

/-! ### 4. The refinement step -/

/-- what the cooperative environment does to one entry once the plan is executed: a node in the
creation list gets the pod `mkPod ni` (up to date, available and ready by hypothesis), the node of a
deleted pod becomes empty, every other entry is unchanged.  Nodes are identified by NAME, as the
controller does (`podsToCreate` / `podsToDelete`). -/
def coopUpd (mkPod : NodeItem → Pod) (C D : List String) (e : Entry) : Entry :=
  if e.1.node.name ∈ C then (e.1, some (mkPod e.1))
  else if e.1.node.name ∈ D then (e.1, none)
  else e

/-- the cooperative successor of an entry list under a plan. -/
def coopSucc (mkPod : NodeItem → Pod) (plan : List NodeItem × List (NodeItem × Pod))
    (es : List Entry) : List Entry :=
  es.map (coopUpd mkPod (plan.1.map (·.node.name)) (plan.2.map (·.1.node.name)))

/-- one real round: the plan of the active role on the counters of `es`, then the cooperative
environment. -/
def realRound (tg : String) (wall : Time) (mkPod : NodeItem → Pod) (ms : Int) (mu mc : Nat)
    (es : List Entry) : List Entry :=
  coopSucc mkPod (rollingPlan (countAll tg wall es) es.length ms mu mc false false) es

def realRounds (tg : String) (wall : Time) (mkPod : NodeItem → Pod) (ms : Int) (mu mc : Nat) :
    Nat → List Entry → List Entry
  | 0, es => es
  | k + 1, es => realRounds tg wall mkPod ms mu mc k (realRound tg wall mkPod ms mu mc es)

/-- positional description of the successor: the first `nc` empty entries are filled, the first
`nd` outdated-available entries are emptied. -/
def coopStep (tg : String) (wall : Time) (mkPod : NodeItem → Pod) :
    Nat → Nat → List Entry → List Entry
  | _, _, [] => []
  | nc, nd, e :: es =>
    if isEmptyE e then
      match nc with
      | 0 => e :: coopStep tg wall mkPod 0 nd es
      | k + 1 => (e.1, some (mkPod e.1)) :: coopStep tg wall mkPod k nd es
    else if isOldE tg wall e then
      match nd with
      | 0 => e :: coopStep tg wall mkPod nc 0 es
      | k + 1 => (e.1, none) :: coopStep tg wall mkPod nc k es
    else e :: coopStep tg wall mkPod nc nd es

abbrev names (es : List Entry) : List String := es.map (·.1.node.name)

theorem createCands_names_sub (es : List Entry) (n : Nat) (x : String)
    (hx : x ∈ ((createCands es).take n).map (·.node.name)) : x ∈ names es := by
  simp only [List.mem_map] at hx ⊢
  obtain ⟨ni, hni, rfl⟩ := hx
  have := List.mem_of_mem_take hni
  simp only [createCands, List.mem_map, List.mem_filter] at this
  obtain ⟨e, ⟨he, _⟩, rfl⟩ := this
  exact ⟨e, he, rfl⟩

theorem oldCands_names_sub (tg : String) (wall : Time) (es : List Entry) (n : Nat) (x : String)
    (hx : x ∈ ((oldCands tg wall es).take n).map (·.1.node.name)) : x ∈ names es := by
  simp only [List.mem_map] at hx ⊢
  obtain ⟨np, hnp, rfl⟩ := hx
  have := List.mem_of_mem_take hnp
  simp only [oldCands, List.mem_filterMap] at this
  obtain ⟨e, he, hm⟩ := this
  refine ⟨e, he, ?_⟩
  split at hm
  · split at hm
    · simp only [Option.some.injEq] at hm; rw [← hm]
    · simp at hm
  · simp at hm

theorem coopUpd_cons_C (mkPod : NodeItem → Pod) (k : String) (C D : List String) (es : List Entry)
    (hk : k ∉ names es) : es.map (coopUpd mkPod (k :: C) D) = es.map (coopUpd mkPod C D) := by
  apply List.map_congr_left
  intro e he
  have : e.1.node.name ≠ k := by
    intro h; exact hk (h ▸ List.mem_map.mpr ⟨e, he, rfl⟩)
  simp [coopUpd, this]

theorem coopUpd_cons_D (mkPod : NodeItem → Pod) (k : String) (C D : List String) (es : List Entry)
    (hk : k ∉ names es) : es.map (coopUpd mkPod C (k :: D)) = es.map (coopUpd mkPod C D) := by
  apply List.map_congr_left
  intro e he
  have : e.1.node.name ≠ k := by
    intro h; exact hk (h ▸ List.mem_map.mpr ⟨e, he, rfl⟩)
  simp [coopUpd, this]

/-- with distinct node names, the by-name successor under "first `nc` creation candidates, first
`nd` deletion candidates" is the positional one. -/
theorem coopSucc_eq_step (tg : String) (wall : Time) (mkPod : NodeItem → Pod) (es : List Entry)
    (hnd : (names es).Nodup) (nc nd : Nat) :
    coopSucc mkPod ((createCands es).take nc, (oldCands tg wall es).take nd) es
      = coopStep tg wall mkPod nc nd es := by
  unfold coopSucc
  simp only []
  induction es generalizing nc nd with
  | nil => rfl
  | cons a rest ih =>
    simp only [names, List.map_cons, List.nodup_cons] at hnd
    obtain ⟨hk, hrest⟩ := hnd
    have hC : ∀ n, a.1.node.name ∉ ((createCands rest).take n).map (·.node.name) :=
      fun n hx => hk (createCands_names_sub rest n _ hx)
    have hD : ∀ n, a.1.node.name ∉ ((oldCands tg wall rest).take n).map (·.1.node.name) :=
      fun n hx => hk (oldCands_names_sub tg wall rest n _ hx)
    obtain ⟨ni, op⟩ := a
    cases op with
    | none =>
      have hE : isEmptyE (ni, none) = true := rfl
      have hcc : createCands ((ni, none) :: rest) = ni :: createCands rest := by
        simp [createCands, hE]
      have hoc : oldCands tg wall ((ni, none) :: rest) = oldCands tg wall rest := by
        simp [oldCands]
      rw [hcc, hoc]
      cases nc with
      | zero =>
        have := ih hrest 0 nd
        simp only [List.take_zero, List.map_nil] at this ⊢
        simp only [coopStep, hE, if_true, List.map_cons, this, List.cons.injEq, and_true]
        simp [coopUpd]
      | succ k =>
        simp only [List.take_succ_cons, List.map_cons, coopStep, hE, if_true, List.cons.injEq]
        refine ⟨by simp [coopUpd], ?_⟩
        rw [coopUpd_cons_C mkPod _ _ _ rest hk]
        exact ih hrest k nd
    | some p =>
      have hE : isEmptyE (ni, some p) = false := rfl
      have hcc : createCands ((ni, some p) :: rest) = createCands rest := by
        simp [createCands, hE]
      rw [hcc]
      have hnC : (ni, some p).1.node.name ∉ ((createCands rest).take nc).map (·.node.name) := hC nc
      cases hO : isOldE tg wall (ni, some p) with
      | true =>
        have hoc : oldCands tg wall ((ni, some p) :: rest) = (ni, p) :: oldCands tg wall rest := by
          simp [oldCands, hO]
        rw [hoc]
        cases nd with
        | zero =>
          have := ih hrest nc 0
          simp only [List.take_zero, List.map_nil] at this ⊢
          simp only [coopStep, hE, hO, if_true, List.map_cons, this, Bool.false_eq_true, if_false,
            List.cons.injEq, and_true]
          simp only [coopUpd, if_neg hnC, List.not_mem_nil, if_false]
        | succ k =>
          simp only [List.take_succ_cons, List.map_cons, coopStep, hE, hO, if_true,
            Bool.false_eq_true, if_false, List.cons.injEq]
          refine ⟨?_, ?_⟩
          · simp only [coopUpd, if_neg hnC, List.mem_cons, true_or, if_true]
          · rw [coopUpd_cons_D mkPod _ _ _ rest hk]
            exact ih hrest nc k
      | false =>
        have hoc : oldCands tg wall ((ni, some p) :: rest) = oldCands tg wall rest := by
          simp [oldCands, hO]
        rw [hoc]
        simp only [List.map_cons, coopStep, hE, hO, Bool.false_eq_true, if_false, List.cons.injEq]
        refine ⟨?_, ih hrest nc nd⟩
        simp only [coopUpd, if_neg hnC, if_neg (hD nd)]

theorem coopE_cons (a : Entry) (es : List Entry) :
    coopE (a :: es) = coopE es + (if isEmptyE a then 1 else 0) := by
  simp [coopE, List.countP_cons]

theorem coopO_cons (tg : String) (wall : Time) (a : Entry) (es : List Entry) :
    coopO tg wall (a :: es) = coopO tg wall es + (if isOldE tg wall a then 1 else 0) := by
  simp [coopO, List.countP_cons]

theorem isOldE_none (tg : String) (wall : Time) (ni : NodeItem) : isOldE tg wall (ni, none) = false := by
  simp [isOldE, classify_none]

/-- the counts after the positional step (additive form). -/
theorem coopStep_counts (tg : String) (wall : Time) (mkPod : NodeItem → Pod)
    (hmk : ∀ ni, classify tg wall (ni, some (mkPod ni)) = .upToDate true true)
    (es : List Entry) (nc nd : Nat) :
    coopE (coopStep tg wall mkPod nc nd es) + min nc (coopE es)
      = coopE es + min nd (coopO tg wall es) ∧
    coopO tg wall (coopStep tg wall mkPod nc nd es) + min nd (coopO tg wall es) = coopO tg wall es := by
  have hmkE : ∀ ni, isEmptyE (ni, some (mkPod ni)) = false := fun _ => rfl
  have hmkO : ∀ ni, isOldE tg wall (ni, some (mkPod ni)) = false := fun ni => by simp [isOldE, hmk]
  induction es generalizing nc nd with
  | nil => simp [coopStep, coopE, coopO]
  | cons a rest ih =>
    cases hE : isEmptyE a with
    | true =>
      have hO : isOldE tg wall a = false := by
        obtain ⟨ni, op⟩ := a
        cases op with
        | none => exact isOldE_none tg wall ni
        | some p => simp [isEmptyE] at hE
      cases nc with
      | zero =>
        have := ih 0 nd
        simp only [coopStep, hE, if_true, coopE_cons, coopO_cons, hO, Bool.false_eq_true, if_false]
        omega
      | succ k =>
        have := ih k nd
        simp only [coopStep, hE, if_true, coopE_cons, coopO_cons, hO, hmkE, hmkO, Bool.false_eq_true, if_false]
        omega
    | false =>
      cases hO : isOldE tg wall a with
      | true =>
        cases nd with
        | zero =>
          have := ih nc 0
          simp only [coopStep, hE, hO, if_true, coopE_cons, coopO_cons, Bool.false_eq_true, if_false]
          omega
        | succ k =>
          have := ih nc k
          have h1 : isEmptyE (a.1, none) = true := rfl
          simp only [coopStep, hE, hO, if_true, coopE_cons, coopO_cons, h1, isOldE_none, Bool.false_eq_true, if_false]
          omega
      | false =>
        have := ih nc nd
        simp only [coopStep, hE, hO, coopE_cons, coopO_cons, Bool.false_eq_true, if_false]
        omega

/-- the positional step keeps the list cooperative. -/
theorem coopStep_coop (tg : String) (wall : Time) (mkPod : NodeItem → Pod)
    (hmk : ∀ ni, classify tg wall (ni, some (mkPod ni)) = .upToDate true true)
    (es : List Entry) (h : coop tg wall es = true) (nc nd : Nat) :
    coop tg wall (coopStep tg wall mkPod nc nd es) = true := by
  have hmkC : ∀ ni, coopEntry tg wall (ni, some (mkPod ni)) = true := fun ni => by
    simp [coopEntry, isCurE, hmk]
  have hnone : ∀ ni, coopEntry tg wall (ni, none) = true := fun ni => by simp [coopEntry, isEmptyE]
  induction es generalizing nc nd with
  | nil => simp [coopStep, coop]
  | cons a rest ih =>
    rw [coop_cons] at h
    obtain ⟨ha, hr⟩ := h
    cases hE : isEmptyE a with
    | true =>
      cases nc with
      | zero => simp only [coopStep, hE, if_true, coop_cons]; exact ⟨ha, ih hr 0 nd⟩
      | succ k => simp only [coopStep, hE, if_true, coop_cons]; exact ⟨hmkC _, ih hr k nd⟩
    | false =>
      cases hO : isOldE tg wall a with
      | true =>
        cases nd with
        | zero =>
          simp only [coopStep, hE, hO, if_true, coop_cons, Bool.false_eq_true, if_false]
          exact ⟨ha, ih hr nc 0⟩
        | succ k =>
          simp only [coopStep, hE, hO, if_true, coop_cons, Bool.false_eq_true, if_false]
          exact ⟨hnone _, ih hr nc k⟩
      | false =>
        simp only [coopStep, hE, hO, coop_cons, Bool.false_eq_true, if_false]
        exact ⟨ha, ih hr nc nd⟩

/-- the successor keeps the nodes (and their order). -/
theorem coopSucc_nodes (mkPod : NodeItem → Pod) (plan : List NodeItem × List (NodeItem × Pod))
    (es : List Entry) : (coopSucc mkPod plan es).map (·.1) = es.map (·.1) := by
  unfold coopSucc
  rw [List.map_map]
  apply List.map_congr_left
  intro e _
  simp only [Function.comp, coopUpd]
  split
  · rfl
  · split <;> rfl

theorem coopSucc_names (mkPod : NodeItem → Pod) (plan : List NodeItem × List (NodeItem × Pod))
    (es : List Entry) : names (coopSucc mkPod plan es) = names es := by
  have := congrArg (List.map (fun (ni : NodeItem) => ni.node.name)) (coopSucc_nodes mkPod plan es)
  rw [List.map_map, List.map_map] at this
  exact this

theorem coopSucc_length (mkPod : NodeItem → Pod) (plan : List NodeItem × List (NodeItem × Pod))
    (es : List Entry) : (coopSucc mkPod plan es).length = es.length := by
  simp [coopSucc]

/-- one real round, spelled out positionally. -/
theorem realRound_eq_step (tg : String) (wall : Time) (mkPod : NodeItem → Pod) (ms : Int) (mu mc : Nat)
    (es : List Entry) (h : coop tg wall es = true) (hnd : (names es).Nodup) (hms : 0 ≤ ms) :
    realRound tg wall mkPod ms mu mc es
      = coopStep tg wall mkPod (min (coopE es) mc) (min (coopO tg wall es) (mu - coopE es)) es := by
  unfold realRound
  rw [rollingPlan_coop tg wall es h ms mu mc hms]
  exact coopSucc_eq_step tg wall mkPod es hnd _ _

/-- **Refinement.**  On a cooperative entry list with distinct node names, one real round — the
plan `rollingPlan (countAll …)` of a sync that is neither paused nor frozen, followed by the
cooperative environment — yields a cooperative list over the same nodes whose abstract state is
`absRound` of the abstract state before. -/
theorem C02b_refines (tg : String) (wall : Time) (mkPod : NodeItem → Pod) (ms : Int) (mu mc : Nat)
    (es : List Entry)
    (hmk : ∀ ni, classify tg wall (ni, some (mkPod ni)) = .upToDate true true)
    (h : coop tg wall es = true) (hnd : (es.map (·.1.node.name)).Nodup) (hms : 0 ≤ ms) :
    coop tg wall (realRound tg wall mkPod ms mu mc es) = true ∧
    ((realRound tg wall mkPod ms mu mc es).map (·.1.node.name)).Nodup ∧
    (realRound tg wall mkPod ms mu mc es).map (·.1) = es.map (·.1) ∧
    absOf tg wall (realRound tg wall mkPod ms mu mc es) = absRound mu mc (absOf tg wall es) := by
  refine ⟨?_, ?_, ?_, ?_⟩
  · rw [realRound_eq_step tg wall mkPod ms mu mc es h hnd hms]
    exact coopStep_coop tg wall mkPod hmk es h _ _
  · have := coopSucc_names mkPod
      (rollingPlan (countAll tg wall es) es.length ms mu mc false false) es
    unfold names at this
    unfold realRound
    rw [this]; exact hnd
  · exact coopSucc_nodes mkPod _ es
  · rw [realRound_eq_step tg wall mkPod ms mu mc es h hnd hms]
    have := coopStep_counts tg wall mkPod hmk es (min (coopE es) mc)
      (min (coopO tg wall es) (mu - coopE es))
    unfold absOf absRound
    simp only [Abs.mk.injEq]
    omega

/-- `k` real rounds refine `k` abstract rounds. -/
theorem C02b_refines_rounds (tg : String) (wall : Time) (mkPod : NodeItem → Pod) (ms : Int) (mu mc : Nat)
    (hmk : ∀ ni, classify tg wall (ni, some (mkPod ni)) = .upToDate true true) (hms : 0 ≤ ms)
    (k : Nat) (es : List Entry)
    (h : coop tg wall es = true) (hnd : (es.map (·.1.node.name)).Nodup) :
    coop tg wall (realRounds tg wall mkPod ms mu mc k es) = true ∧
    ((realRounds tg wall mkPod ms mu mc k es).map (·.1.node.name)).Nodup ∧
    (realRounds tg wall mkPod ms mu mc k es).map (·.1) = es.map (·.1) ∧
    absOf tg wall (realRounds tg wall mkPod ms mu mc k es) = rounds mu mc k (absOf tg wall es) := by
  induction k generalizing es with
  | zero => exact ⟨h, hnd, rfl, rfl⟩
  | succ k ih =>
    obtain ⟨h1, h2, h3, h4⟩ := C02b_refines tg wall mkPod ms mu mc es hmk h hnd hms
    obtain ⟨i1, i2, i3, i4⟩ := ih (realRound tg wall mkPod ms mu mc es) h1 h2
    unfold realRounds rounds
    exact ⟨i1, i2, i3.trans h3, by rw [i4, h4]⟩

/-- a cooperative list with no empty node and no outdated pod: every node runs an up-to-date,
available and ready pod. -/
theorem coop_zero_all_current (tg : String) (wall : Time) (es : List Entry) (h : coop tg wall es = true)
    (he : coopE es = 0) (ho : coopO tg wall es = 0) :
    ∀ e ∈ es, classify tg wall e = .upToDate true true := by
  intro e hmem
  have hc : coopEntry tg wall e = true := by
    simp only [coop, List.all_eq_true] at h; exact h e hmem
  have h1 : isEmptyE e = false := by
    cases hh : isEmptyE e with
    | false => rfl
    | true =>
      have : 0 < coopE es := List.countP_pos_iff.mpr ⟨e, hmem, hh⟩
      omega
  have h2 : isOldE tg wall e = false := by
    cases hh : isOldE tg wall e with
    | false => rfl
    | true =>
      have : 0 < coopO tg wall es := List.countP_pos_iff.mpr ⟨e, hmem, hh⟩
      omega
  simpa [coopEntry, h1, h2, isCurE] using hc

/-- **C02 on the real plan, cooperative environment.**  From any cooperative entry list with
distinct node names, with maxUnavailable ≥ 1 and a creation cap ≥ 1, iterating "real plan, then
cooperative environment" reaches after `2·outdated + empty` rounds — and keeps for every later
round — a list over the same nodes in which no node lacks a pod and no pod is outdated: every node
runs an up-to-date, available and ready pod. -/
theorem C02_converges_coop (tg : String) (wall : Time) (mkPod : NodeItem → Pod) (ms : Int) (mu mc : Nat)
    (es : List Entry)
    (hmk : ∀ ni, classify tg wall (ni, some (mkPod ni)) = .upToDate true true)
    (h : coop tg wall es = true) (hnd : (es.map (·.1.node.name)).Nodup) (hms : 0 ≤ ms)
    (hmu : 1 ≤ mu) (hmc : 1 ≤ mc) (k : Nat) (hk : 2 * coopO tg wall es + coopE es ≤ k) :
    coopE (realRounds tg wall mkPod ms mu mc k es) = 0 ∧
    coopO tg wall (realRounds tg wall mkPod ms mu mc k es) = 0 ∧
    (realRounds tg wall mkPod ms mu mc k es).map (·.1) = es.map (·.1) ∧
    ∀ e ∈ realRounds tg wall mkPod ms mu mc k es, classify tg wall e = .upToDate true true := by
  obtain ⟨h1, _, h3, h4⟩ := C02b_refines_rounds tg wall mkPod ms mu mc hmk hms k es h hnd
  have hv := variant_rounds mu mc hmu hmc k (absOf tg wall es)
  rw [← h4] at hv
  have hv0 : variant (absOf tg wall es) = 2 * coopO tg wall es + coopE es := rfl
  have he : coopE (realRounds tg wall mkPod ms mu mc k es) = 0 := by
    unfold variant absOf at hv; simp only [] at hv; unfold variant absOf at hv0; omega
  have ho : coopO tg wall (realRounds tg wall mkPod ms mu mc k es) = 0 := by
    unfold variant absOf at hv; simp only [] at hv; unfold variant absOf at hv0; omega
  exact ⟨he, ho, h3, coop_zero_all_current tg wall _ h1 he ho⟩

/-- the "within" form: some round count `k ≤ 2·outdated + empty` reaches `coopE = 0 ∧ coopO = 0`. -/
theorem C02_converges_coop_within (tg : String) (wall : Time) (mkPod : NodeItem → Pod) (ms : Int)
    (mu mc : Nat) (es : List Entry)
    (hmk : ∀ ni, classify tg wall (ni, some (mkPod ni)) = .upToDate true true)
    (h : coop tg wall es = true) (hnd : (es.map (·.1.node.name)).Nodup) (hms : 0 ≤ ms)
    (hmu : 1 ≤ mu) (hmc : 1 ≤ mc) :
    ∃ k, k ≤ 2 * coopO tg wall es + coopE es ∧
      coopE (realRounds tg wall mkPod ms mu mc k es) = 0 ∧
      coopO tg wall (realRounds tg wall mkPod ms mu mc k es) = 0 :=
  ⟨_, Nat.le_refl _, (C02_converges_coop tg wall mkPod ms mu mc es hmk h hnd hms hmu hmc _ (Nat.le_refl _)).1,
    (C02_converges_coop tg wall mkPod ms mu mc es hmk h hnd hms hmu hmc _ (Nat.le_refl _)).2.1⟩

/-- at the reached state the real plan is empty (the fixpoint is stable). -/
theorem C02b_fixpoint_plan (tg : String) (wall : Time) (es : List Entry) (h : coop tg wall es = true)
    (he : coopE es = 0) (ho : coopO tg wall es = 0) (ms : Int) (mu mc : Nat) (hms : 0 ≤ ms) :
    rollingPlan (countAll tg wall es) es.length ms mu mc false false = ([], []) := by
  rw [rollingPlan_coop tg wall es h ms mu mc hms, he, ho]
  simp

/-! ### 5. Non-vacuity -/

/-- an up-to-date, Ready pod for node `n` (template generation "new"). -/
def exPodNew (n : String) : Pod :=
  { name := "q-" ++ n, ns := "d", labels := [], annotations := [⟨K.templateHashAnnot, "new"⟩], owners := [],
    creation := 0, deletion := none, gracePeriod := none, nodeName := n, affOther := "", affRequired := none,
    tolerations := [], containers := [], phase := "Running", startTime := none,
    conds := [⟨"Ready", "True", "", 0⟩], cstats := [] }

/-- node `a` has no pod, node `b` an outdated available pod, node `c` an up-to-date ready one. -/
def exCoop : List Entry :=
  [(exNode "a", none), (exNode "b", some (exPod "b")), (exNode "c", some (exPodNew "c"))]

example : coop "new" 100 exCoop = true ∧ coopE exCoop = 1 ∧ coopO "new" 100 exCoop = 1 ∧
    (exCoop.map (·.1.node.name)).Nodup := by decide

example : (exCoop.map (classify "new" 100)) = [.noPod, .outdated true, .upToDate true true] := by decide

/-- count bridge on the example: N = 3, e = 1, o = 1. -/
example : (countAll "new" 100 exCoop).desired = 3 ∧ (countAll "new" 100 exCoop).allPods = 2 ∧
    (countAll "new" 100 exCoop).created = 1 ∧ (countAll "new" 100 exCoop).available = 1 ∧
    (countAll "new" 100 exCoop).ready = 1 ∧ (countAll "new" 100 exCoop).oldAvailable = 1 ∧
    (countAll "new" 100 exCoop).oldUnavailable = 0 ∧ (countAll "new" 100 exCoop).stuck = 0 ∧
    (countAll "new" 100 exCoop).terminating = 0 ∧
    (countAll "new" 100 exCoop).toCreate = [exNode "a"] ∧
    (countAll "new" 100 exCoop).toDeleteAvail = [(exNode "b", exPod "b")] ∧
    (countAll "new" 100 exCoop).toDeleteUnavail = [] := by decide

/-- plan bridge on the example: mu = 1 is used up by the empty node ⇒ 1 creation, 0 deletions;
mu = 2 ⇒ 1 creation, 1 deletion. -/
example : (rollingPlan (countAll "new" 100 exCoop) 3 0 1 1 false false).1.length = min 1 1 ∧
    (rollingPlan (countAll "new" 100 exCoop) 3 0 1 1 false false).2.length = min 1 (1 - 1) ∧
    (rollingPlan (countAll "new" 100 exCoop) 3 0 2 1 false false).2.length = min 1 (2 - 1) := by decide

/-- the hypothesis on `mkPod` is satisfiable for these nodes, and three real rounds
(`2·o + e = 3`) reach the fixpoint on the example. -/
example : ∀ e ∈ exCoop, classify "new" 100 (e.1, some (exPodNew e.1.node.name)) = .upToDate true true := by
  decide

set_option maxRecDepth 8000 in
example : absOf "new" 100 (realRounds "new" 100 (fun ni => exPodNew ni.node.name) 0 1 1 3 exCoop) = ⟨0, 0⟩ ∧
    absOf "new" 100 (realRounds "new" 100 (fun ni => exPodNew ni.node.name) 0 1 1 2 exCoop) ≠ ⟨0, 0⟩ := by
  decide

end Eds
