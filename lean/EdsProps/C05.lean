import EdsModel
import EdsSpec.C05
/-
  C05 — A new version becomes active only when the promotion rule allows it.
  Quantification: every canary strategy (absent / auto / manual, any durations), every annotation map,
  every replica-set status (conditions, creation time), every clock value.
-/
namespace Eds
open Spec.C05

/-- the code's "ended" implies the statement's two time conditions (the code is slightly stronger:
without a recorded restart it needs `0 < duration` as well). -/
theorem C05_ended_implies (c : Canary) (u : ERS) (now : Time)
    (h : (isCanaryEnded (some c) u now).1 = true) :
    durationElapsed c u now = true ∧ noRecentRestart c u now = true := by
  unfold isCanaryEnded at h
  simp only [] at h
  cases hd : c.duration with
  | none => simp [hd] at h
  | some d =>
    simp only [hd] at h
    have hboth : u.creation + d - now < 0 ∧ pendingNoRestart c d u now < 0 := by
      generalize pendingNoRestart c d u now = pnr at h
      by_cases hgt : pnr > u.creation + d - now
      · simp only [hgt, if_true] at h
        by_cases hge : pnr ≥ 0
        · simp only [hge, if_true] at h; simp at h
        · constructor <;> omega
      · simp only [hgt, if_false] at h
        by_cases hge : u.creation + d - now ≥ 0
        · simp only [hge, if_true] at h; simp at h
        · constructor <;> omega
    obtain ⟨h1, h2⟩ := hboth
    unfold durationElapsed noRecentRestart
    simp only [hd]
    refine ⟨by simp; omega, ?_⟩
    cases hnr : c.noRestartsDuration with
    | none => rfl
    | some nr =>
      cases hrc : findCond u.status.conds "PodRestarting" with
      | none => rfl
      | some rc =>
        simp only [pendingNoRestart, lastRestartTime, hnr, hrc] at h2
        by_cases hz : isZeroTime rc.lastUpdate = true
        · simp [hz]
        · simp only [hz] at h2 ⊢
          simp at h2 ⊢
          omega

/-- **Only-if.** If the selection switches away from an existing, different active replica set,
the promotion rule of the statement holds — for every spec that passed the schema (mode is auto or
manual) and validation (no duration in manual mode). -/
theorem C05_only_if (canary : Option Canary) (ann : SMap) (a u : ERS) (now : Time) (rq : Dur)
    (hmodes : ∀ c, canary = some c → c.validationMode = "auto" ∨ c.validationMode = "manual")
    (hmanual : ∀ c, canary = some c → c.validationMode = "manual" → c.duration = none)
    (h : selectCurrent canary ann (some a) u false now = (.upToDate, rq)) :
    promotionAllowed canary ann u now = true := by
  unfold selectCurrent at h
  simp only [] at h
  cases hc : canary with
  | none => simp [promotionAllowed]
  | some c =>
    simp only [hc] at h
    unfold promotionAllowed
    simp only []
    by_cases hv : isCanaryValid ann u.name = true
    · simp [hv]
    · simp only [Bool.not_eq_true] at hv
      simp only [hv, Bool.false_or] at h ⊢
      by_cases hcond : (!(isCanaryPaused ann (some u)).1 && !isCanaryFailed (some u) && (isCanaryEnded (some c) u now).1) = true
      · simp only [Bool.and_eq_true, Bool.not_eq_true'] at hcond
        obtain ⟨⟨hp, hf⟩, he⟩ := hcond
        have ⟨h1, h2⟩ := C05_ended_implies c u now he
        have hdur : c.duration ≠ none := by
          intro hn; simp [durationElapsed, hn] at h1
        have hauto : c.validationMode = "auto" := by
          rcases hmodes c hc with hm | hm
          · exact hm
          · exact absurd (hmanual c hc hm) hdur
        simp [h1, h2, hp, hf, hauto]
      · simp only [hcond] at h
        simp at h

/-- **Failed is never promoted by elapsed time.** -/
theorem C05_failed_never_by_time (c : Canary) (ann : SMap) (a u : ERS) (now : Time)
    (hf : isCanaryFailed (some u) = true) (hv : isCanaryValid ann u.name = false) :
    (selectCurrent (some c) ann (some a) u false now).1 = .active := by
  simp [selectCurrent, hf, hv]

/-- **Manual mode: elapsed time alone never promotes.** -/
theorem C05_manual_never_by_time (c : Canary) (ann : SMap) (a u : ERS) (now : Time)
    (hd : c.duration = none) (hv : isCanaryValid ann u.name = false) :
    (selectCurrent (some c) ann (some a) u false now).1 = .active := by
  simp [selectCurrent, isCanaryEnded, hd, hv]

/-- **Paused is never promoted by elapsed time** (shared with C08). -/
theorem C05_paused_never_by_time (c : Canary) (ann : SMap) (a u : ERS) (now : Time)
    (hp : (isCanaryPaused ann (some u)).1 = true) (hv : isCanaryValid ann u.name = false) :
    (selectCurrent (some c) ann (some a) u false now).1 = .active := by
  simp [selectCurrent, hp, hv]

/-- **Explicit validation promotes**, whatever the pause / failed / time state. -/
theorem C05_valid_promotes (c : Canary) (ann : SMap) (a u : ERS) (now : Time)
    (hv : isCanaryValid ann u.name = true) :
    (selectCurrent (some c) ann (some a) u false now).1 = .upToDate := by
  simp [selectCurrent, hv]

/-- **Adoption.** If the recorded active replica set no longer exists, the matching one is adopted. -/
theorem C05_adopt_when_missing (canary : Option Canary) (ann : SMap) (u : ERS) (now : Time) :
    (selectCurrent canary ann none u false now).1 = .upToDate := by
  simp [selectCurrent]

/-- **No canary strategy**: the new replica set becomes active at once. -/
theorem C05_no_canary (ann : SMap) (a u : ERS) (now : Time) :
    (selectCurrent none ann (some a) u false now).1 = .upToDate := by
  simp [selectCurrent]

/-- **Wake-up.** While the canary has not ended, the returned requeue delay is the remaining time:
non-negative, and at `now + delay + 1ns` the duration condition of the rule holds. -/
theorem C05_requeue (c : Canary) (u : ERS) (now : Time) (d : Dur) (hd : c.duration = some d)
    (h : (isCanaryEnded (some c) u now).1 = false) :
    0 ≤ (isCanaryEnded (some c) u now).2 ∧ u.creation + d ≤ now + (isCanaryEnded (some c) u now).2 := by
  unfold isCanaryEnded at h ⊢
  simp only [hd] at h ⊢
  generalize pendingNoRestart c d u now = pnr at h ⊢
  by_cases hgt : pnr > u.creation + d - now
  · simp only [hgt, if_true] at h ⊢
    by_cases hge : pnr ≥ 0
    · simp only [hge, if_true]; constructor <;> first | trivial | omega
    · simp only [hge, if_false] at h; simp at h
  · simp only [hgt, if_false] at h ⊢
    by_cases hge : u.creation + d - now ≥ 0
    · simp only [hge, if_true]; constructor <;> first | trivial | omega
    · simp only [hge, if_false] at h; simp at h

/-- Non-vacuity: an auto canary whose duration elapsed, neither paused nor failed, is promoted,
and the rule's hypotheses are satisfiable. -/
def exCanary : Canary :=
  { replicas := some ⟨"int", 1⟩, duration := some (10 * minute), nodeSelector := some ⟨[], []⟩,
    antiAffinityKeys := [], autoPause := none, autoFail := none, noRestartsDuration := some (5 * minute),
    validationMode := "auto" }
def exErs (name : String) (creation : Time) (conds : List Cond) : ERS :=
  { name := name, ns := "d", uid := name, labels := [], annotations := [], creation := creation, deleted := false,
    ownerEds := some "d", selector := none, templateGeneration := name,
    template := { labels := [], annotations := [], nodeSelector := [], affOther := "", affRequired := none,
                  tolerations := [], containers := [] },
    status := { status := "", desired := 0, current := 0, ready := 0, available := 0, ignored := 0, conds := conds } }

example : selectCurrent (some exCanary) [] (some (exErs "old" 0 [])) (exErs "new" 0 []) false (11 * minute)
    = (.upToDate, -minute) := by decide
example : (selectCurrent (some exCanary) [] (some (exErs "old" 0 [])) (exErs "new" 0 []) false (9 * minute)).1
    = .active := by decide
example : (selectCurrent (some exCanary) [] (some (exErs "old" 0 []))
    (exErs "new" 0 [⟨"Canary-Failed", "True", 0, 0, "", ""⟩]) false (11 * minute)).1 = .active := by decide

end Eds
