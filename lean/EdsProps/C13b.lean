import EdsModel

import EdsProofs.Cli
/-
  EdsProps.C13b — C13, last clause: the controller "keeps the PodTemplate object of the same name
  equal to spec.template and its hash".  Theorems about `reconcilePodTemplate`
  (`EdsModel/PodTemplateCtl.lean`), tied to `controllers/podtemplate` by the `podtemplate` stream.
-/
namespace Eds
open CliP

/-- what the controller itself guarantees about an object it wrote: the hash annotation is the hash
of the stored template. -/
def PodTpl.consistent (p : PodTpl) : Prop :=
  SMap.get? p.annotations K.templateHashAnnot = some p.templateHash

/-- what C13 asks of the stored object, relative to the ExtendedDaemonSet. -/
def PodTpl.mirrors (p : PodTpl) (d : EDS) : Prop :=
  p.name = d.name ∧ p.ns = d.ns ∧ p.templateHash = d.templateHash ∧
  SMap.get? p.annotations K.templateHashAnnot = some d.templateHash

theorem newPodTemplate_mirrors (d : EDS) :
    (newPodTemplate d).mirrors d ∧ (newPodTemplate d).template = d.template ∧
    (newPodTemplate d).ownerEds = some d.name ∧ (newPodTemplate d).consistent := by
  unfold PodTpl.mirrors PodTpl.consistent newPodTemplate
  simp [get_set_same]

/-- **Every write is faithful**: whatever the controller creates or updates is the PodTemplate named
like the ExtendedDaemonSet, in its namespace, owned by it, carrying exactly `spec.template` and its
hash. -/
theorem C13_podtemplate_write_faithful (d : EDS) (cur : Option PodTpl) (p : PodTpl)
    (h : reconcilePodTemplate d cur = .create p ∨ reconcilePodTemplate d cur = .update p) :
    p.template = d.template ∧ p.mirrors d ∧ p.ownerEds = some d.name := by
  have hn := newPodTemplate_mirrors d
  unfold reconcilePodTemplate at h
  cases cur with
  | none =>
    simp only [] at h
    rcases h with h | h
    · injection h with h; subst h; exact ⟨hn.2.1, hn.1, hn.2.2.1⟩
    · cases h
  | some q =>
    simp only [] at h
    split at h
    · rcases h with h | h <;> cases h
    · rcases h with h | h
      · cases h
      · injection h with h; subst h; exact ⟨hn.2.1, hn.1, hn.2.2.1⟩

/-- **Mirror after one reconcile**: from any store in which the PodTemplate, if present, is named like
the ExtendedDaemonSet and consistent (the invariant of controller-written objects), one reconcile
leaves a PodTemplate that mirrors `spec.template`'s hash, and the invariant is kept. -/
theorem C13_podtemplate_mirror (d : EDS) (cur : Option PodTpl)
    (hc : ∀ p, cur = some p → p.consistent ∧ p.name = d.name ∧ p.ns = d.ns) :
    ∃ p, (reconcilePodTemplate d cur).apply cur = some p ∧ p.mirrors d ∧ p.consistent := by
  have hn := newPodTemplate_mirrors d
  unfold reconcilePodTemplate
  cases cur with
  | none => exact ⟨newPodTemplate d, rfl, hn.1, hn.2.2.2⟩
  | some q =>
    simp only []
    split
    · rename_i heq
      have hq := hc q rfl
      have heq' : SMap.get? q.annotations K.templateHashAnnot = some d.templateHash := by
        simpa using heq
      refine ⟨q, rfl, ⟨hq.2.1, hq.2.2, ?_, heq'⟩, hq.1⟩
      have := hq.1
      unfold PodTpl.consistent at this
      rw [this] at heq'
      exact Option.some.inj heq'
    · exact ⟨newPodTemplate d, rfl, hn.1, hn.2.2.2⟩

/-- **No loop**: a second reconcile on the result writes nothing. -/
theorem C13_podtemplate_idempotent (d : EDS) (cur : Option PodTpl) :
    reconcilePodTemplate d ((reconcilePodTemplate d cur).apply cur) = .none := by
  have hn := (newPodTemplate_mirrors d).1.2.2.2
  cases cur with
  | none => simp [reconcilePodTemplate, PodTplWrite.apply, hn]
  | some q =>
    by_cases heq : (SMap.get? q.annotations K.templateHashAnnot == some d.templateHash) = true
    · simp [reconcilePodTemplate, PodTplWrite.apply, heq]
    · simp [reconcilePodTemplate, PodTplWrite.apply, heq, hn]

/-- **A template change is always propagated**: when the stored hash annotation differs from the hash
of `spec.template`, the reconcile rewrites the object. -/
theorem C13_podtemplate_updates_when_stale (d : EDS) (q : PodTpl)
    (h : SMap.get? q.annotations K.templateHashAnnot ≠ some d.templateHash) :
    reconcilePodTemplate d (some q) = .update (newPodTemplate d) := by
  unfold reconcilePodTemplate
  simp [h]

/-- non-vacuity: a stale object is rewritten, an up-to-date one is left alone. -/
def exEds : EDS := { (default : EDS) with name := "foo", ns := "ns1", templateHash := "h2" }
def exStale : PodTpl :=
  { name := "foo", ns := "ns1", labels := [], templateHash := "h1", template := default,
    ownerEds := some "foo", annotations := [{ k := K.templateHashAnnot, v := "h1" }] }
example :
    reconcilePodTemplate exEds (some exStale) = .update (newPodTemplate exEds) ∧
    reconcilePodTemplate exEds (some (newPodTemplate exEds)) = .none := by decide

end Eds
