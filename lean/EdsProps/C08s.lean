import EdsProofs.BridgeCanary
import EdsProps.C05
import EdsProps.C08
/-
  EdsProps.C08s — property theorems stated directly about the Lean definitions that the translator
  regenerates from the Go source on every run (EdsModel/Generated/Dec*.lean), obtained by
  transporting the model-level theorems along the `src_*` bridges.  These are statements about what
  the code says *now*: `none` is a Go panic, so each also says the function does not crash.
-/
namespace Eds
open Spec.C05
namespace Src
export Eds.Generated.Decisions (selectCurrentReplicaSet nonCanaryState)
end Src

/-- **A paused canary is never promoted by elapsed time, on the code** (C08). -/
theorem C08_src_paused_not_promoted (d : GEds) (c : Canary) (a u : ERS) (now : Time)
    (hc : d.spec.strategy.canary = some c)
    (hp : (isCanaryPaused d.annotations (some u)).1 = true) (hv : isCanaryValid d.annotations u.name = false) :
    ∃ rq, Src.selectCurrentReplicaSet (some d) (some a) (some u) now false = some (some a, rq) := by
  refine ⟨(selectCurrent (some c) d.annotations (some a) u false now).2, ?_⟩
  rw [Bridge.src_selectCurrent, hc, C05_paused_never_by_time c d.annotations a u now hp hv]
  rfl

/-! ### C08 — state string, on the translated `nonCanaryState` -/

theorem C08_src_state (ann : SMap) :
    Src.nonCanaryState ann = some
      (if isRolloutFrozen ann then "Rollout frozen"
       else if isRollingUpdatePaused ann then "RollingUpdate Paused" else "Running") := by
  rw [Bridge.src_nonCanaryState, C08_state]


end Eds
