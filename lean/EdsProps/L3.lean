import EdsProofs.Cluster
/-
  L3 — history invariants of the WHOLE cluster (EdsModel/Cluster.lean), by induction over ARBITRARY
  operation sequences: reconciles of the daemonset controller and of the replica-set controller,
  node / pod / spec changes by the environment and clock ticks, in any order and number.

  `step` applies every planned write of a reconcile; `stepF f` applies the subset the fault pattern `f`
  lets through.  Unless said otherwise a step theorem is proved for `stepF f` with `f` arbitrary and
  restated for `step`; the lifted forms are over `run` (all ops succeed) and `runF` (a fault pattern
  per step).  Side conditions on the operations of a run are stated with `RunOk C w ops` (`C w op`
  holds for each op in the world it is applied to).  All invariants and side conditions are decidable
  on concrete runs (instances below), which is how the examples at the end check non-vacuity.

  a. C13 one replica set per template
       `L3_hashesNodup_stepF/_step`, `L3_allHashed_…`, `L3_annotGen_…`   Inv w → Inv (stepF f w op), NO side condition
       `L3_namesNodup_stepF/_step`                                       needs `OpFresh w op` (newName not an own name)
       `L3_one_per_template(_faults)`, `L3_all_hashed(_faults)`, `L3_annot_gen(_faults)`, `L3_names_nodup(_faults)`
       `L3_at_most_one_per_hash`, `L3_one_per_template_from_empty`
  b. C13 never deletes in-use
       `L3_survives_or_cleanup`            only the daemonset reconcile's clean-up removes replica sets
       `L3_active_never_removed`           the replica set named active AFTER any step survived it   [no hypothesis]
       `L3_uptodate_never_removed`         the own replica set matching spec's hash AFTER the step   [HashesNodup, AnnotGen]
       `L3_selected_uptodate_never_removed` [no hypothesis], `L3_never_deletes_in_use` (history form)
       NOT true under faults (example `wPromo`): status update failing after the clean-up succeeded.
  c. C15/C04 canary node list
       `L3_canaryNodup_stepF/_step`, `L3_canary_nodup(_faults)`   Nodup along any run; NO condition on node names
       `L3_canary_bound_stepF/_step`   new length ≤ max (old length) (request resolved against targeted nodes)
       `L3_canary_bound`               history form with a uniform bound K
  d. C05 promotion only by the rule
       `L3_promotion_stepF/_step`, `L3_promotion_history(_faults)`   [WF = NamesNodup ∧ SchemaOk; ops: OpFresh ∧ OpSchema]
  e. C12 frame
       `L3_foreign_pods_untouched`, `L3_foreign_pod_stays` [PodKeysUnique], `L3_eds_reconcile_writes_no_pod`,
       `L3_created_pods_owned`
  f. who writes what, roles
       `L3_status_written_only_by_eds_reconcile`, `L3_role_changes_only_at_eds_reconcile`, `L3_eds_object_frame`,
       `L3_ers_written_only_by_own_reconcile`, `L3_role_unique(_history)`,
       `L3_roles_distinct_after_write_partial` (the unconditional invariant is false: `exStaleCanary`)
  g. C01 one live pod per node with the daemonset object evolving (uses invariant c for C01b's `hc`)
       `L3_one_per_node_step`, `L3_one_per_node`   [C01Inv; ops: OpEnvC01]
-/
namespace Eds
open Cluster Spec.C05

/-! ## Runs: lifting a step invariant to every operation sequence -/

/-- side condition `C` holds for every operation of the run, in the world it is applied to. -/
def RunOk (C : World → Op → Prop) : World → List Op → Prop
  | _, [] => True
  | w, op :: ops => C w op ∧ RunOk C (step w op) ops

def RunOkF (C : World → Op → Prop) : World → List (Faults × Op) → Prop
  | _, [] => True
  | w, x :: ops => C w x.2 ∧ RunOkF C (stepF x.1 w x.2) ops

/-- the side conditions are decidable on concrete runs (used by the examples). -/
instance RunOk.dec {C : World → Op → Prop} [∀ w op, Decidable (C w op)] :
    ∀ (w : World) (ops : List Op), Decidable (RunOk C w ops)
  | _, [] => isTrue trivial
  | w, op :: ops => @instDecidableAnd _ _ inferInstance (RunOk.dec (step w op) ops)

instance RunOkF.dec {C : World → Op → Prop} [∀ w op, Decidable (C w op)] :
    ∀ (w : World) (ops : List (Faults × Op)), Decidable (RunOkF C w ops)
  | _, [] => isTrue trivial
  | w, x :: ops => @instDecidableAnd _ _ inferInstance (RunOkF.dec (stepF x.1 w x.2) ops)

/-- induction over arbitrary operation sequences, with faults. -/
theorem runF_inv {P : World → Prop} {C : World → Op → Prop}
    (hstep : ∀ f w op, P w → C w op → P (stepF f w op)) :
    ∀ (ops : List (Faults × Op)) (w : World), P w → RunOkF C w ops → P (runF w ops) := by
  intro ops
  induction ops with
  | nil => intro w h _; exact h
  | cons x ops ih =>
    intro w h hok
    exact ih _ (hstep x.1 w x.2 h hok.1) hok.2

theorem run_inv {P : World → Prop} {C : World → Op → Prop}
    (hstep : ∀ w op, P w → C w op → P (step w op)) :
    ∀ (ops : List Op) (w : World), P w → RunOk C w ops → P (run w ops) := by
  intro ops
  induction ops with
  | nil => intro w h _; exact h
  | cons x ops ih =>
    intro w h hok
    exact ih _ (hstep w x h hok.1) hok.2

theorem run_append (w : World) (ops : List Op) (op : Op) : run w (ops ++ [op]) = step (run w ops) op := by
  unfold run; rw [List.foldl_append]; rfl

theorem RunOk_append {C : World → Op → Prop} (ops : List Op) (op : Op) (w : World)
    (h : RunOk C w (ops ++ [op])) : RunOk C w ops ∧ C (run w ops) op := by
  induction ops generalizing w with
  | nil => exact ⟨trivial, h.1⟩
  | cons x ops ih =>
    obtain ⟨h1, h2⟩ := ih _ h.2
    exact ⟨⟨h.1, h1⟩, h2⟩

theorem RunOk_true (w : World) (ops : List Op) : RunOk (fun _ _ => True) w ops := by
  induction ops generalizing w with
  | nil => trivial
  | cons x ops ih => exact ⟨trivial, ih _⟩

theorem RunOkF_true (w : World) (ops : List (Faults × Op)) : RunOkF (fun _ _ => True) w ops := by
  induction ops generalizing w with
  | nil => trivial
  | cons x ops ih => exact ⟨trivial, ih _⟩

/-! ## a. C13: one replica set per template, along any run -/

/-- the hash annotations of the daemonset's own replica sets are pairwise distinct. -/
def HashesNodup (w : World) : Prop := hashesNodup w.eds w.erss
/-- every own replica set records a template hash. -/
def AllHashed (w : World) : Prop := allHashed w.eds w.erss
/-- the recorded hash is the replica set's template generation. -/
def AnnotGen (w : World) : Prop :=
  ∀ e ∈ w.own, SMap.get? e.annotations K.templateHashAnnot = some e.templateGeneration
/-- the own replica sets have pairwise distinct names. -/
def NamesNodup (w : World) : Prop := (w.own.map (·.name)).Nodup

instance (w : World) : Decidable (HashesNodup w) :=
  inferInstanceAs (Decidable (((ownErs w.eds w.erss).map (fun e => SMap.get? e.annotations K.templateHashAnnot)).Nodup))
instance (w : World) : Decidable (AllHashed w) :=
  inferInstanceAs (Decidable (∀ e ∈ ownErs w.eds w.erss, (SMap.get? e.annotations K.templateHashAnnot).isSome = true))
instance (w : World) : Decidable (AnnotGen w) :=
  inferInstanceAs (Decidable (∀ e ∈ w.own, SMap.get? e.annotations K.templateHashAnnot = some e.templateGeneration))
instance (w : World) : Decidable (NamesNodup w) := inferInstanceAs (Decidable ((w.own.map (·.name)).Nodup))

/-- the freshness side condition: the name the API server gives a created replica set is not the
name of an existing own replica set. -/
def OpFresh (w : World) : Op → Prop
  | .reconcileEds nn _ => nn ∉ w.own.map (·.name)
  | _ => True

instance (w : World) (op : Op) : Decidable (OpFresh w op) :=
  match op with
  | .reconcileEds nn _ => inferInstanceAs (Decidable (nn ∉ w.own.map (·.name)))
  | .reconcileErs _ _ _ => isTrue trivial
  | .setNodes _ => isTrue trivial
  | .kubelet _ => isTrue trivial
  | .userSpec _ _ _ _ => isTrue trivial
  | .tick _ => isTrue trivial

theorem HashesNodup_iff (w : World) :
    HashesNodup w ↔ (w.own.map (fun e => SMap.get? e.annotations K.templateHashAnnot)).Nodup := Iff.rfl

theorem map_status_frame {β} (g : ERS → ERS) (hg : ∀ e, g e = { e with status := (g e).status })
    (φ : ERS → β) (hφ : ∀ e st, φ { e with status := st } = φ e) (l : List ERS) :
    (l.map g).map φ = l.map φ := by
  rw [List.map_map]
  apply List.map_congr_left
  intro e _
  simp only [Function.comp]
  rw [hg e, hφ]

/-- **C13 (step, any fault pattern): at most one own replica set per template hash.**  No freshness
condition is needed: the invariant speaks about hashes, not names. -/
theorem L3_hashesNodup_stepF (f : Faults) (w : World) (op : Op) (h : HashesNodup w) :
    HashesNodup (stepF f w op) := by
  rw [HashesNodup_iff] at h ⊢
  rcases own_stepF f w op with ⟨nn, m, wr, _, hsub, hown⟩ | ⟨g, hg, hown⟩
  · rw [hown, List.map_append]
    have hsubl : ((w.own.filter (fun e => !(e.ns == w.eds.ns && wr.deletedErs.contains e.name))).map
        (fun e => SMap.get? e.annotations K.templateHashAnnot)).Nodup :=
      List.Nodup.sublist (List.Sublist.map _ List.filter_sublist) h
    cases hc : wr.created with
    | none => simpa using hsubl
    | some n =>
      simp only [List.map_cons, List.map_nil]
      apply nodup_append_singleton hsubl
      rw [ersOfNewAt_hash]
      intro hmem
      simp only [List.mem_map, List.mem_filter] at hmem
      obtain ⟨e, ⟨he, _⟩, hh⟩ := hmem
      exact (hsub.created_some hc).2 e he hh
  · rw [hown, map_status_frame g hg _ (fun _ _ => rfl)]
    exact h

theorem L3_allHashed_stepF (f : Faults) (w : World) (op : Op) (h : AllHashed w) :
    AllHashed (stepF f w op) := by
  have h' : ∀ e ∈ w.own, (SMap.get? e.annotations K.templateHashAnnot).isSome = true := h
  show ∀ e ∈ (stepF f w op).own, (SMap.get? e.annotations K.templateHashAnnot).isSome = true
  rcases own_stepF f w op with ⟨nn, m, wr, _, hsub, hown⟩ | ⟨g, hg, hown⟩
  · rw [hown]
    intro e he
    rcases List.mem_append.1 he with he | he
    · exact h' e (List.mem_filter.1 he).1
    · cases hc : wr.created with
      | none => simp [hc] at he
      | some n =>
        simp only [hc, List.mem_singleton] at he
        subst he
        rw [ersOfNewAt_hash]; rfl
  · rw [hown]
    intro e he
    obtain ⟨e0, he0, rfl⟩ := List.mem_map.1 he
    rw [hg e0]
    exact h' e0 he0

theorem L3_annotGen_stepF (f : Faults) (w : World) (op : Op) (h : AnnotGen w) :
    AnnotGen (stepF f w op) := by
  unfold AnnotGen at h ⊢
  rcases own_stepF f w op with ⟨nn, m, wr, _, hsub, hown⟩ | ⟨g, hg, hown⟩
  · rw [hown]
    intro e he
    rcases List.mem_append.1 he with he | he
    · exact h e (List.mem_filter.1 he).1
    · cases hc : wr.created with
      | none => simp [hc] at he
      | some n =>
        simp only [hc, List.mem_singleton] at he
        subst he
        rw [ersOfNewAt_hash]; rfl
  · rw [hown]
    intro e he
    obtain ⟨e0, he0, rfl⟩ := List.mem_map.1 he
    rw [hg e0]
    exact h e0 he0

/-- **names stay distinct** given fresh names for created replica sets. -/
theorem L3_namesNodup_stepF (f : Faults) (w : World) (op : Op) (h : NamesNodup w) (hf : OpFresh w op) :
    NamesNodup (stepF f w op) := by
  unfold NamesNodup at h ⊢
  rcases own_stepF f w op with ⟨nn, m, wr, hop, hsub, hown⟩ | ⟨g, hg, hown⟩
  · rw [hown, List.map_append]
    have hsubl : ((w.own.filter (fun e => !(e.ns == w.eds.ns && wr.deletedErs.contains e.name))).map
        (·.name)).Nodup :=
      List.Nodup.sublist (List.Sublist.map _ List.filter_sublist) h
    cases hc : wr.created with
    | none => simpa using hsubl
    | some n =>
      simp only [List.map_cons, List.map_nil]
      apply nodup_append_singleton hsubl
      subst hop
      intro hmem
      apply hf
      simp only [List.mem_map, List.mem_filter] at hmem ⊢
      obtain ⟨e, ⟨he, _⟩, hh⟩ := hmem
      exact ⟨e, he, hh⟩
  · rw [hown, map_status_frame g hg _ (fun _ _ => rfl)]
    exact h


/-! ### lifted forms -/

/-- **C13 (history): one replica set per template, for ALL operation sequences** — reconciles of
both controllers, node / pod / spec changes and clock ticks in any order and number. -/
theorem L3_one_per_template (w : World) (ops : List Op) (h : HashesNodup w) : HashesNodup (run w ops) :=
  run_inv (C := fun _ _ => True) (fun w op h _ => by rw [← stepF_ok]; exact L3_hashesNodup_stepF {} w op h)
    ops w h (RunOk_true w ops)

/-- … even when any subset of the planned writes of any reconcile fails. -/
theorem L3_one_per_template_faults (w : World) (ops : List (Faults × Op)) (h : HashesNodup w) :
    HashesNodup (runF w ops) :=
  runF_inv (C := fun _ _ => True) (fun f w op h _ => L3_hashesNodup_stepF f w op h) ops w h (RunOkF_true w ops)

theorem L3_all_hashed (w : World) (ops : List Op) (h : AllHashed w) : AllHashed (run w ops) :=
  run_inv (C := fun _ _ => True) (fun w op h _ => by rw [← stepF_ok]; exact L3_allHashed_stepF {} w op h)
    ops w h (RunOk_true w ops)

theorem L3_all_hashed_faults (w : World) (ops : List (Faults × Op)) (h : AllHashed w) : AllHashed (runF w ops) :=
  runF_inv (C := fun _ _ => True) (fun f w op h _ => L3_allHashed_stepF f w op h) ops w h (RunOkF_true w ops)

theorem L3_annot_gen (w : World) (ops : List Op) (h : AnnotGen w) : AnnotGen (run w ops) :=
  run_inv (C := fun _ _ => True) (fun w op h _ => by rw [← stepF_ok]; exact L3_annotGen_stepF {} w op h)
    ops w h (RunOk_true w ops)

theorem L3_annot_gen_faults (w : World) (ops : List (Faults × Op)) (h : AnnotGen w) : AnnotGen (runF w ops) :=
  runF_inv (C := fun _ _ => True) (fun f w op h _ => L3_annotGen_stepF f w op h) ops w h (RunOkF_true w ops)

/-- **names stay distinct along any run with fresh names** (`RunOk OpFresh`: at each daemonset
reconcile of the run the name the API server hands out is not the name of an own replica set of the
world at that moment). -/
theorem L3_names_nodup (w : World) (ops : List Op) (h : NamesNodup w) (hf : RunOk OpFresh w ops) :
    NamesNodup (run w ops) :=
  run_inv (fun w op h hc => by rw [← stepF_ok]; exact L3_namesNodup_stepF {} w op h hc) ops w h hf

theorem L3_names_nodup_faults (w : World) (ops : List (Faults × Op)) (h : NamesNodup w)
    (hf : RunOkF OpFresh w ops) : NamesNodup (runF w ops) :=
  runF_inv (fun f w op h hc => L3_namesNodup_stepF f w op h hc) ops w h hf

/-- at any point of any run: two own replica sets with the same template hash are the same object. -/
theorem L3_at_most_one_per_hash (w : World) (ops : List Op) (h : HashesNodup w) (e1 e2 : ERS)
    (h1 : e1 ∈ (run w ops).own) (h2 : e2 ∈ (run w ops).own)
    (hh : SMap.get? e1.annotations K.templateHashAnnot = SMap.get? e2.annotations K.templateHashAnnot) :
    e1 = e2 :=
  C13_at_most_one_per_hash _ _ (L3_one_per_template w ops h) e1 e2 h1 h2 hh

/-- from a world without replica sets no hypothesis is left. -/
theorem L3_one_per_template_from_empty (w : World) (ops : List Op) (h : w.erss = []) :
    HashesNodup (run w ops) ∧ AllHashed (run w ops) ∧ AnnotGen (run w ops) := by
  refine ⟨L3_one_per_template w ops ?_, L3_all_hashed w ops ?_, L3_annot_gen w ops ?_⟩
  · unfold HashesNodup hashesNodup; rw [h]; exact List.nodup_nil
  · unfold AllHashed allHashed; rw [h]; intro e he; cases he
  · unfold AnnotGen World.own; rw [h]; intro e he; cases he

/-! ## b. C13: a replica set in use is never removed -/

/-- `e` is still in the world, up to its status. -/
def Survives (e : ERS) (w' : World) : Prop := ∃ e' ∈ w'.erss, e' = { e with status := e'.status }

/-- **only the daemonset reconcile's clean-up removes replica sets**: a replica set survives a step
unless it was named in `deletedErs` of a daemonset reconcile. -/
theorem L3_survives_or_cleanup (w : World) (op : Op) (e : ERS) (he : e ∈ w.erss) :
    Survives e (step w op) ∨
    ∃ nn m, op = .reconcileEds nn m ∧ e.ns = w.eds.ns ∧ e.name ∈ (edsWrites w m).deletedErs := by
  rw [← stepF_ok]
  rcases stepF_shape {} w op with ⟨nn, m, wr, hop, _, heq⟩ | ⟨rs, wr, herss, _⟩ | ⟨herss, _⟩
  · subst hop
    by_cases hk : e.ns = w.eds.ns ∧ e.name ∈ (edsWrites w m).deletedErs
    · exact Or.inr ⟨nn, m, rfl, hk⟩
    · left
      refine ⟨e, ?_, rfl⟩
      rw [stepF_ok, step_reconcileEds, applyEds_erss]
      apply mem_applyErsList_of_not_deleted _ _ _ _ _ _ he
      by_cases hns : e.ns = w.eds.ns
      · right; intro hd; exact hk ⟨hns, hd⟩
      · left; exact hns
  · left
    refine ⟨setStatusOf rs wr e, ?_, setStatusOf_eq rs wr e⟩
    rw [herss]; exact List.mem_map_of_mem he
  · left
    exact ⟨e, by rw [herss]; exact he, rfl⟩

theorem L3_removed_only_by_cleanup (w : World) (op : Op) (e : ERS) (he : e ∈ w.erss)
    (h : ¬ Survives e (step w op)) :
    ∃ nn m, op = .reconcileEds nn m ∧ e.ns = w.eds.ns ∧ e.name ∈ (edsWrites w m).deletedErs :=
  (L3_survives_or_cleanup w op e he).resolve_left h

/-- the active replica set named by the status AFTER a daemonset reconcile is not among the names
that reconcile deletes. -/
theorem L3_active_not_deleted (w : World) (nn m : String) :
    (step w (.reconcileEds nn m)).eds.status.activeReplicaSet ∉ (edsWrites w m).deletedErs := by
  rw [step_reconcileEds, applyEds_status]
  unfold edsWrites
  rcases reconcileEds_cases w.eds w.erss w.pods w.nodes w.now m with hr | hr | ⟨_, hr⟩ | ⟨u, hu, hr⟩
  · rw [hr]; simp
  · rw [hr]; simp
  · rw [hr]; simp
  · rw [hr, edsMain_active_after, edsMain_deleted]
    intro hmem
    unfold cleanupTargetsERS at hmem
    simp only [List.mem_map, List.mem_filter, Bool.and_eq_true, bne_iff_ne, ne_eq] at hmem
    obtain ⟨e, ⟨_, ⟨⟨⟨h1, _⟩, _⟩, _⟩⟩, hn⟩ := hmem
    exact h1 hn

/-- the template hash in spec after a daemonset reconcile is the hash annotation of an own replica
set that the reconcile does not delete — under the hash invariants. -/
theorem L3_uptodate_not_deleted (w : World) (nn m : String) (hh : HashesNodup w) (hg : AnnotGen w)
    (e : ERS) (he : e ∈ w.own)
    (hm : SMap.get? e.annotations K.templateHashAnnot = some (step w (.reconcileEds nn m)).eds.templateHash) :
    e.name ∉ (edsWrites w m).deletedErs := by
  rw [step_reconcileEds] at hm
  have hth : (applyEds w (edsWrites w m) nn).eds.templateHash =
      (match (edsWrites w m).specUpdate with | some x => x.1 | none => w.eds.templateHash) :=
    applyEdsObj_templateHash _ _ _
  rw [hth] at hm
  unfold edsWrites at hm ⊢
  rcases reconcileEds_cases w.eds w.erss w.pods w.nodes w.now m with hr | hr | ⟨_, hr⟩ | ⟨u, hu, hr⟩
  · rw [hr]; simp
  · rw [hr]; simp
  · rw [hr]; simp
  · have hum := C13_reuse_selects w.eds w.erss u hu
    have hcm : (currentOf w.eds (ownErs w.eds w.erss) u w.now).1 ∈ ownErs w.eds w.erss :=
      currentOf_mem _ _ _ _ hum.1
    rw [hr] at hm ⊢
    -- the hash written is the spec's or the current replica set's generation
    have hcase : (match (edsMain w.eds (ownErs w.eds w.erss) u w.pods w.nodes w.now).specUpdate with
        | some x => x.1 | none => w.eds.templateHash) = w.eds.templateHash ∨
        (match (edsMain w.eds (ownErs w.eds w.erss) u w.pods w.nodes w.now).specUpdate with
        | some x => x.1 | none => w.eds.templateHash) =
          (currentOf w.eds (ownErs w.eds w.erss) u w.now).1.templateGeneration :=
      edsMain_specHash_cases _ _ _ _ _ _
    rcases hcase with hc | hc
    · rw [hc] at hm
      have : e = u := C13_at_most_one_per_hash _ _ hh e u he hum.1 (by rw [hm, hum.2])
      rw [this]
      have := C13_uptodate_never_deleted w.eds w.erss w.pods w.nodes w.now m u hu
      rw [hr] at this; exact this
    · rw [hc] at hm
      have : e = (currentOf w.eds (ownErs w.eds w.erss) u w.now).1 :=
        C13_at_most_one_per_hash _ _ hh e _ he hcm (by rw [hm, hg _ hcm])
      rw [this]
      have := C13_current_never_deleted w.eds w.erss w.pods w.nodes w.now m u hu
      rw [hr] at this; exact this


theorem mem_own {w : World} {e : ERS} (h : e ∈ w.own) : e ∈ w.erss := (List.mem_filter.1 h).1
theorem own_ns {w : World} {e : ERS} (h : e ∈ w.own) : e.ns = w.eds.ns := by
  have := (List.mem_filter.1 h).2
  simp only [Bool.and_eq_true, beq_iff_eq] at this
  exact this.1

/-- **C13 (step): the replica set the status names as active AFTER a step survived that step** — for
every operation, no hypothesis. -/
theorem L3_active_never_removed (w : World) (op : Op) (e : ERS) (he : e ∈ w.erss)
    (h : e.name = (step w op).eds.status.activeReplicaSet) : Survives e (step w op) := by
  rcases L3_survives_or_cleanup w op e he with hs | ⟨nn, m, rfl, _, hd⟩
  · exact hs
  · rw [h] at hd
    exact absurd hd (L3_active_not_deleted w nn m)

/-- **C13 (step): the own replica set whose hash annotation matches spec.template AFTER a step
survived that step** (after a rollback that is the restored one) — under the hash invariants. -/
theorem L3_uptodate_never_removed (w : World) (op : Op) (hh : HashesNodup w) (hg : AnnotGen w)
    (e : ERS) (he : e ∈ w.own)
    (hm : SMap.get? e.annotations K.templateHashAnnot = some (step w op).eds.templateHash) :
    Survives e (step w op) := by
  rcases L3_survives_or_cleanup w op e (mem_own he) with hs | ⟨nn, m, rfl, _, hd⟩
  · exact hs
  · exact absurd hd (L3_uptodate_not_deleted w nn m hh hg e he hm)

/-- without any invariant: the replica set the reconcile selected as up to date survives. -/
theorem L3_selected_uptodate_never_removed (w : World) (op : Op) (u : ERS)
    (hu : upToDateOf w.eds w.own = some u) : Survives u (step w op) := by
  have hum := C13_reuse_selects w.eds w.erss u hu
  rcases L3_survives_or_cleanup w op u (mem_own hum.1) with hs | ⟨nn, m, rfl, _, hd⟩
  · exact hs
  · exact absurd hd (C13_uptodate_never_deleted w.eds w.erss w.pods w.nodes w.now m u hu)

/-- **C13 (history): never deletes in-use.**  At every step of every run from a world satisfying the
hash invariants, the replica set named active after the step and the own replica set matching the
spec's template hash after the step are not removed by the step. -/
theorem L3_never_deletes_in_use (w0 : World) (ops : List Op) (op : Op) (hh : HashesNodup w0) (hg : AnnotGen w0)
    (e : ERS) (he : e ∈ (run w0 ops).own)
    (huse : e.name = (step (run w0 ops) op).eds.status.activeReplicaSet ∨
      SMap.get? e.annotations K.templateHashAnnot = some (step (run w0 ops) op).eds.templateHash) :
    Survives e (step (run w0 ops) op) := by
  rcases huse with h | h
  · exact L3_active_never_removed _ op e (mem_own he) h
  · exact L3_uptodate_never_removed _ op (L3_one_per_template w0 ops hh) (L3_annot_gen w0 ops hg) e he h

/-! ## c. C15 / C04: the canary node list -/

def CanaryNodup (w : World) : Prop := (canaryNodesOf w.eds.status).Nodup

instance (w : World) : Decidable (CanaryNodup w) :=
  inferInstanceAs (Decidable ((canaryNodesOf w.eds.status).Nodup))

/-- the request of the running canary resolved against the nodes its template targets (0 when
there is no canary strategy, no up-to-date replica set, or the request does not resolve). -/
def requestOf (w : World) : Int :=
  match w.eds.strategy.canary, upToDateOf w.eds w.own with
  | some c, some u => (resolveIntOrPercent c.replicas (targetedCount u.template w.nodes)).getD 0
  | _, _ => 0

/-- the canary node list after a daemonset reconcile (any fault pattern): empty, unchanged, or the
result of `selectNodes` on the previous list. -/
theorem eds_step_nodes_cases (f : Faults) (w : World) (nn m : String) :
    canaryNodesOf (stepF f w (.reconcileEds nn m)).eds.status = [] ∨
    canaryNodesOf (stepF f w (.reconcileEds nn m)).eds.status = canaryNodesOf w.eds.status ∨
    ∃ u c sel short, upToDateOf w.eds w.own = some u ∧ w.eds.strategy.canary = some c ∧
      selectNodes u.template c (targetedCount u.template w.nodes) (canaryNodesOf w.eds.status)
        (ownPods w.eds w.pods) w.nodes = .ok (sel, short) ∧
      canaryNodesOf (stepF f w (.reconcileEds nn m)).eds.status = sel := by
  show canaryNodesOf (applyEds w (maskEds f (edsWrites w m)) nn).eds.status = [] ∨
    canaryNodesOf (applyEds w (maskEds f (edsWrites w m)) nn).eds.status = _ ∨
    ∃ u c sel short, _ ∧ _ ∧ _ ∧ canaryNodesOf (applyEds w (maskEds f (edsWrites w m)) nn).eds.status = sel
  rw [applyEds_status]
  rcases (EdsSub.mask f (edsWrites w m)).status with hs | hs
  · rw [hs]; right; left; rfl
  · rw [hs]
    cases hst : (edsWrites w m).statusUpdate with
    | none => right; left; rfl
    | some st =>
      simp only []
      unfold edsWrites at hst
      obtain ⟨u, hu, hmain⟩ := reconcileEds_main w.eds w.erss w.pods w.nodes w.now m (Or.inr (by rw [hst]; simp))
      rw [hmain] at hst
      rw [edsMain_statusUpdate _ _ _ _ _ _ st hst]
      unfold edsUpd
      rcases updateInstance_nodes_cases w.eds (currentOf w.eds (ownErs w.eds w.erss) u w.now).1 u
        ((ownErs w.eds w.erss).foldl (fun a e => a + e.status.current) 0)
        ((ownErs w.eds w.erss).foldl (fun a e => a + e.status.ready) 0)
        ((ownErs w.eds w.erss).foldl (fun a e => a + e.status.available) 0) w.now (ownPods w.eds w.pods) w.nodes
        with h | h | ⟨c, sel, short, hc, hsel, h⟩
      · left; exact h
      · right; left; exact h
      · right; right; exact ⟨u, c, sel, short, hu, hc, hsel, h⟩

/-- a step that is not a daemonset reconcile does not write the daemonset's status. -/
theorem stepF_status_frame (f : Faults) (w : World) (op : Op) (h : ∀ nn m, op ≠ .reconcileEds nn m) :
    (stepF f w op).eds.status = w.eds.status := by
  rcases stepF_shape f w op with ⟨nn, m, _, hop, _, _⟩ | ⟨_, _, _, heds⟩ | ⟨_, hst⟩
  · exact absurd hop (h nn m)
  · rw [heds]
  · exact hst

/-- **C15 (step, any fault pattern): `status.canary.nodes` stays duplicate-free.**  No condition on
the node names is needed (`C15_distinct` has none). -/
theorem L3_canaryNodup_stepF (f : Faults) (w : World) (op : Op) (h : CanaryNodup w) :
    CanaryNodup (stepF f w op) := by
  unfold CanaryNodup at h ⊢
  by_cases hop : ∃ nn m, op = .reconcileEds nn m
  · obtain ⟨nn, m, rfl⟩ := hop
    rcases eds_step_nodes_cases f w nn m with h' | h' | ⟨u, c, sel, short, _, _, hsel, h'⟩
    · rw [h']; exact List.nodup_nil
    · rw [h']; exact h
    · rw [h']; exact C15_distinct hsel h
  · rw [stepF_status_frame f w op (fun nn m hc => hop ⟨nn, m, hc⟩)]; exact h

/-- **C15 (history): `status.canary.nodes` is duplicate-free along every run**, whatever the node
lists the environment installs (duplicate node names included). -/
theorem L3_canary_nodup (w : World) (ops : List Op) (h : CanaryNodup w) : CanaryNodup (run w ops) :=
  run_inv (C := fun _ _ => True) (fun w op h _ => by rw [← stepF_ok]; exact L3_canaryNodup_stepF {} w op h)
    ops w h (RunOk_true w ops)

theorem L3_canary_nodup_faults (w : World) (ops : List (Faults × Op)) (h : CanaryNodup w) :
    CanaryNodup (runF w ops) :=
  runF_inv (C := fun _ _ => True) (fun f w op h _ => L3_canaryNodup_stepF f w op h) ops w h (RunOkF_true w ops)

/-- **C15 (step, any fault pattern): the controller never grows the canary node list beyond
max(previous length, resolved request).** -/
theorem L3_canary_bound_stepF (f : Faults) (w : World) (op : Op) :
    ((canaryNodesOf (stepF f w op).eds.status).length : Int) ≤
      max ((canaryNodesOf w.eds.status).length : Int) (requestOf w) := by
  by_cases hop : ∃ nn m, op = .reconcileEds nn m
  · obtain ⟨nn, m, rfl⟩ := hop
    rcases eds_step_nodes_cases f w nn m with h' | h' | ⟨u, c, sel, short, hu, hc, hsel, h'⟩
    · rw [h']; simp only [List.length_nil]; omega
    · rw [h']; omega
    · rw [h']
      obtain ⟨nb, _, hr, _⟩ := Sel.selectNodes_shape hsel
      have hb := (C15_never_exceeds hsel (k := nb) hr).2.2
      have hreq : requestOf w = nb := by
        unfold requestOf; rw [hc, hu]; simp only []; rw [hr]; rfl
      rw [hreq]; omega
  · rw [stepF_status_frame f w op (fun nn m hc => hop ⟨nn, m, hc⟩)]; omega

/-- **C15 (history): a bound on the canary node list along a run.**  If the list starts with at most
`K` names and at every step of the run the resolved request is at most `K`, the list never has more
than `K` names. -/
theorem L3_canary_bound (K : Int) (w : World) (ops : List Op)
    (h : ((canaryNodesOf w.eds.status).length : Int) ≤ K)
    (hreq : RunOk (fun w _ => requestOf w ≤ K) w ops) :
    ((canaryNodesOf (run w ops).eds.status).length : Int) ≤ K :=
  run_inv (P := fun w => ((canaryNodesOf w.eds.status).length : Int) ≤ K)
    (fun w op h hc => by
      have := L3_canary_bound_stepF {} w op
      rw [stepF_ok] at this
      omega) ops w h hreq


/-! ## d. C05: promotion only by the rule, as a history property -/

/-- the CRD schema's enum on `validationMode` (the empty string = not set yet). -/
def modeOk (s : Strategy) : Prop :=
  ∀ c, s.canary = some c → c.validationMode = "" ∨ c.validationMode = "auto" ∨ c.validationMode = "manual"

def SchemaOk (w : World) : Prop := modeOk w.eds.strategy

/-- the side condition that keeps the schema: user edits respect the enum, the controller's default
mode flag is one of its values. -/
def OpSchema (_ : World) : Op → Prop
  | .reconcileEds _ m => m = "" ∨ m = "auto" ∨ m = "manual"
  | .userSpec _ _ s _ => modeOk s
  | _ => True

/-- executable form of `modeOk`. -/
def modeOkB (s : Strategy) : Bool :=
  match s.canary with
  | none => true
  | some c => c.validationMode == "" || c.validationMode == "auto" || c.validationMode == "manual"

theorem modeOk_iff (s : Strategy) : modeOk s ↔ modeOkB s = true := by
  unfold modeOk modeOkB
  cases s.canary with
  | none => simp
  | some c => simp [or_assoc]

instance (s : Strategy) : Decidable (modeOk s) := decidable_of_iff _ (modeOk_iff s).symm
instance (w : World) : Decidable (SchemaOk w) := inferInstanceAs (Decidable (modeOk w.eds.strategy))

instance (w : World) (op : Op) : Decidable (OpSchema w op) :=
  match op with
  | .reconcileEds _ m => inferInstanceAs (Decidable (m = "" ∨ m = "auto" ∨ m = "manual"))
  | .reconcileErs _ _ _ => isTrue trivial
  | .setNodes _ => isTrue trivial
  | .kubelet _ => isTrue trivial
  | .userSpec _ _ s _ => inferInstanceAs (Decidable (modeOk s))
  | .tick _ => isTrue trivial

theorem modeOk_defaultSpec (s : Strategy) (m : String) (h : modeOk s) (hm : m = "" ∨ m = "auto" ∨ m = "manual") :
    modeOk (defaultSpec s m).1 := by
  intro c hc
  unfold defaultSpec at hc
  simp only [Option.map_eq_some_iff] at hc
  obtain ⟨c0, hc0, rfl⟩ := hc
  unfold defaultCanary
  simp only []
  split
  · exact hm
  · exact h c0 hc0

theorem L3_schemaOk_stepF (f : Faults) (w : World) (op : Op) (h : SchemaOk w) (ho : OpSchema w op) :
    SchemaOk (stepF f w op) := by
  unfold SchemaOk at h ⊢
  cases op with
  | reconcileEds nn m =>
    show modeOk (applyEdsObj _ _ _).strategy
    rw [applyEdsObj_strategy]
    rcases (EdsSub.mask f (edsWrites w m)).defaulted with hd | hd
    · rw [hd]; exact h
    · rw [hd]
      rcases reconcileEds_defaulted w.eds w.erss w.pods w.nodes w.now m with hd' | hd'
      · unfold edsWrites; rw [hd']; exact h
      · unfold edsWrites; rw [hd']; exact modeOk_defaultSpec _ _ h ho
  | reconcileErs name rel aff =>
    simp only [stepF]
    cases findErs w name <;> exact h
  | setNodes _ => exact h
  | kubelet _ => exact h
  | userSpec _ _ s _ => exact ho
  | tick _ => exact h

/-- **C05 (step, any fault pattern).**  If a daemonset reconcile changes `status.activeReplicaSet`
from the name of an own replica set `a` to the name of a different own replica set `u`, the promotion
rule of the property statement held for `u` in the pre-state: explicit validation, or auto mode with
the canary duration elapsed, no recent restart, not paused, not failed (or no canary strategy). -/
theorem L3_promotion_stepF (f : Faults) (w : World) (nn m : String) (hs : SchemaOk w) (hn : NamesNodup w)
    (a u : ERS) (ha : a ∈ w.own) (hu : u ∈ w.own)
    (hact : w.eds.status.activeReplicaSet = a.name)
    (hact' : (stepF f w (.reconcileEds nn m)).eds.status.activeReplicaSet = u.name)
    (hne : a.name ≠ u.name) :
    promotionAllowed w.eds.strategy.canary w.eds.annotations u w.now = true := by
  have hst : (stepF f w (.reconcileEds nn m)).eds.status =
      (match (maskEds f (edsWrites w m)).statusUpdate with | some st => st | none => w.eds.status) :=
    applyEds_status _ _ _
  rw [hst] at hact'
  rcases (EdsSub.mask f (edsWrites w m)).status with hm | hm
  · rw [hm] at hact'; simp only [] at hact'
    exact absurd (hact.symm.trans hact') hne
  · rw [hm] at hact'
    cases hsu : (edsWrites w m).statusUpdate with
    | none => rw [hsu] at hact'; exact absurd (hact.symm.trans hact') hne
    | some st =>
      rw [hsu] at hact'; simp only [] at hact'
      unfold edsWrites at hsu
      obtain ⟨hdef, hval, u0, hu0, hmain⟩ := reconcileEds_status_some _ _ _ _ _ _ st hsu
      rw [hmain] at hsu
      have hstc : st.activeReplicaSet = (currentOf w.eds (ownErs w.eds w.erss) u0 w.now).1.name := by
        rw [edsMain_statusUpdate _ _ _ _ _ _ st hsu]; unfold edsUpd; rw [updateInstance_activeReplicaSet]
      have hla : lastWhere (fun e => e.name == w.eds.status.activeReplicaSet) (ownErs w.eds w.erss) = some a :=
        lastWhere_name_of_nodup hn ha _ hact.symm
      have hcn : (currentOf w.eds (ownErs w.eds w.erss) u0 w.now).1.name ≠ a.name := by
        rw [← hstc, hact']; exact fun h => hne h.symm
      obtain ⟨hcur, rq, hsel⟩ := currentOf_promote _ _ _ _ _ hla hcn
      have hu0m := (C13_reuse_selects w.eds w.erss u0 hu0).1
      have hn' : ((ownErs w.eds w.erss).map (·.name)).Nodup := hn
      have : u0 = u := eq_of_nodup_map (·.name) hn' hu0m hu (by rw [← hact', hstc, hcur])
      subst this
      apply C05_only_if _ _ a u0 w.now rq ?_ ?_ hsel
      · intro c hc
        rcases hs c hc with h | h | h
        · exact absurd h (isDefaulted_mode_ne _ _ c hdef hc)
        · exact Or.inl h
        · exact Or.inr h
      · intro c hc hman
        exact C16_validate_ok_manual_no_duration _ c hval hc hman

/-- well-formedness used by the history form: distinct names of the own replica sets, schema. -/
def WF (w : World) : Prop := NamesNodup w ∧ SchemaOk w
def OpOk (w : World) (op : Op) : Prop := OpFresh w op ∧ OpSchema w op

instance (w : World) : Decidable (WF w) := inferInstanceAs (Decidable (_ ∧ _))
instance (w : World) (op : Op) : Decidable (OpOk w op) := inferInstanceAs (Decidable (_ ∧ _))

theorem L3_WF_stepF (f : Faults) (w : World) (op : Op) (h : WF w) (ho : OpOk w op) : WF (stepF f w op) :=
  ⟨L3_namesNodup_stepF f w op h.1 ho.1, L3_schemaOk_stepF f w op h.2 ho.2⟩

theorem L3_WF_run (w : World) (ops : List Op) (h : WF w) (ho : RunOk OpOk w ops) : WF (run w ops) :=
  run_inv (fun w op h hc => by rw [← stepF_ok]; exact L3_WF_stepF {} w op h hc) ops w h ho

theorem L3_WF_runF (w : World) (ops : List (Faults × Op)) (h : WF w) (ho : RunOkF OpOk w ops) : WF (runF w ops) :=
  runF_inv (fun f w op h hc => L3_WF_stepF f w op h hc) ops w h ho

/-- **C05 (history).**  In any run from a well-formed world (fresh names for created replica sets,
validation modes from the schema's enum), whenever a daemonset reconcile changes
`status.activeReplicaSet` from an existing own replica set `a` to a different existing own replica
set `u`, the promotion rule held for `u` at that moment. -/
theorem L3_promotion_history (w0 : World) (ops : List Op) (nn m : String) (h0 : WF w0)
    (hops : RunOk OpOk w0 ops) (a u : ERS)
    (ha : a ∈ (run w0 ops).own) (hu : u ∈ (run w0 ops).own)
    (hact : (run w0 ops).eds.status.activeReplicaSet = a.name)
    (hact' : (run w0 (ops ++ [.reconcileEds nn m])).eds.status.activeReplicaSet = u.name)
    (hne : a.name ≠ u.name) :
    promotionAllowed (run w0 ops).eds.strategy.canary (run w0 ops).eds.annotations u (run w0 ops).now = true := by
  have hwf := L3_WF_run w0 ops h0 hops
  rw [run_append, ← stepF_ok] at hact'
  exact L3_promotion_stepF {} _ nn m hwf.2 hwf.1 a u ha hu hact hact' hne

/-- the same with faults: promotion never bypasses the rule whatever writes fail. -/
theorem L3_promotion_history_faults (w0 : World) (ops : List (Faults × Op)) (f : Faults) (nn m : String)
    (h0 : WF w0) (hops : RunOkF OpOk w0 ops) (a u : ERS)
    (ha : a ∈ (runF w0 ops).own) (hu : u ∈ (runF w0 ops).own)
    (hact : (runF w0 ops).eds.status.activeReplicaSet = a.name)
    (hact' : (stepF f (runF w0 ops) (.reconcileEds nn m)).eds.status.activeReplicaSet = u.name)
    (hne : a.name ≠ u.name) :
    promotionAllowed (runF w0 ops).eds.strategy.canary (runF w0 ops).eds.annotations u (runF w0 ops).now = true := by
  have hwf := L3_WF_runF w0 ops h0 hops
  exact L3_promotion_stepF f _ nn m hwf.2 hwf.1 a u ha hu hact hact' hne


/-! ## e. C12: foreign pods are never touched -/

/-- pods are addressed by namespace/name: the API server keeps these keys unique. -/
def PodKeysUnique (w : World) : Prop :=
  ∀ p ∈ w.pods, ∀ q ∈ w.pods, p.ns = q.ns → p.name = q.name → p = q

instance (w : World) : Decidable (PodKeysUnique w) :=
  inferInstanceAs (Decidable (∀ p ∈ w.pods, ∀ q ∈ w.pods, p.ns = q.ns → p.name = q.name → p = q))

/-- every pod name a replica-set reconcile writes is the name of a stored pod owned by the daemonset
(`C12_ers_writes_ownedByEds` in the world). -/
theorem ersWrites_names_owned (w : World) (rs : ERS) (rel : String → Bool) (aff : Bool) :
    ∀ name ∈ (ersWrites w rs rel aff).cleanupDeletes ++ (ersWrites w rs rel aff).deletes ++
             (ersWrites w rs rel aff).labelAdds ++ (ersWrites w rs rel aff).labelRemoves,
      ∃ p ∈ w.pods, p.name = name ∧ ownedByEds w.eds p := by
  unfold ersWrites
  cases ho : ersOwner rs w.store with
  | none =>
    obtain ⟨h1, h2, h3, h4, _⟩ := reconcileErs_noPodWrite_of_no_owner rs w.store rel aff w.now ho
    rw [h1, h2, h3, h4]; intro name hn; cases hn
  | some d =>
    have hd : d = w.eds := by
      have := (ersOwner_some ho).1
      simpa [World.store] using this
    subst hd
    exact C12_ers_writes_ownedByEds rs w.store rel aff w.now _ ho

/-- the pod transformation of a replica-set reconcile. -/
def podPatch (ns : String) (wr : ErsWrites) (now : Time) (p : Pod) : Pod :=
  markDeletedNs ns (wr.deletes ++ wr.cleanupDeletes) now (patchLabels ns wr.labelAdds wr.labelRemoves p)

theorem applyErs_pods (w : World) (rs : ERS) (wr : ErsWrites) :
    (applyErs w rs wr).pods = w.pods.map (podPatch rs.ns wr w.now) ++ wr.creates.map (·.2) := rfl

theorem podPatch_id (ns : String) (wr : ErsWrites) (now : Time) (p : Pod)
    (h : p.ns = ns → p.name ∉ wr.cleanupDeletes ++ wr.deletes ++ wr.labelAdds ++ wr.labelRemoves) :
    podPatch ns wr now p = p := by
  unfold podPatch patchLabels markDeletedNs
  by_cases hns : p.ns = ns
  · have := h hns
    simp only [List.mem_append, not_or] at this
    obtain ⟨⟨⟨h1, h2⟩, h3⟩, h4⟩ := this
    simp [h1, h2, h3, h4]
  · simp [hns]

theorem findErs_ns {w : World} {name : String} {rs : ERS} (h : findErs w name = some rs) :
    rs ∈ w.erss ∧ rs.ns = w.eds.ns ∧ rs.name = name := by
  unfold findErs at h
  have h1 := List.find?_some h
  simp only [Bool.and_eq_true, beq_iff_eq] at h1
  exact ⟨List.mem_of_find?_eq_some h, h1.1, h1.2⟩

/-- **C12 (step, any fault pattern): a pod that is not the daemonset's is left alone by every
controller step.**  The new pod list is the old one, pod by pod through a map that fixes every pod
not owned by the daemonset (not in its namespace with its name label, not of the DaemonSet being
migrated), followed by created pods.  Needs unique namespace/name keys among the stored pods. -/
theorem L3_foreign_pods_untouched (f : Faults) (w : World) (op : Op) (hk : PodKeysUnique w)
    (hop : ∀ pods', op ≠ .kubelet pods') :
    ∃ g created, (stepF f w op).pods = w.pods.map g ++ created ∧
      ∀ p ∈ w.pods, ¬ ownedByEds w.eds p → g p = p := by
  cases op with
  | reconcileErs name rel aff =>
    simp only [stepF]
    cases hf : findErs w name with
    | none => exact ⟨id, [], by simp, fun _ _ _ => rfl⟩
    | some rs =>
      simp only []
      refine ⟨_, _, applyErs_pods w rs _, ?_⟩
      intro p hp hnot
      apply podPatch_id
      intro hns hmem
      have hmem' : p.name ∈ (ersWrites w rs rel aff).cleanupDeletes ++ (ersWrites w rs rel aff).deletes ++
          (ersWrites w rs rel aff).labelAdds ++ (ersWrites w rs rel aff).labelRemoves := by
        simp only [maskErs, List.mem_append, List.mem_filter] at hmem ⊢
        rcases hmem with ((h | h) | h) | h
        · exact Or.inl (Or.inl (Or.inl h.1))
        · exact Or.inl (Or.inl (Or.inr h.1))
        · exact Or.inl (Or.inr h.1)
        · exact Or.inr h.1
      obtain ⟨q, hq, hqn, hqo⟩ := ersWrites_names_owned w rs rel aff p.name hmem'
      have : q = p := hk q hq p hp (by rw [hqo.1, hns, (findErs_ns hf).2.1]) hqn
      subst this
      exact hnot hqo
  | reconcileEds nn m => exact ⟨id, [], by simp [stepF, applyEds], fun _ _ _ => rfl⟩
  | setNodes _ => exact ⟨id, [], by simp [stepF, envStep], fun _ _ _ => rfl⟩
  | kubelet pods' => exact absurd rfl (hop pods')
  | userSpec _ _ _ _ => exact ⟨id, [], by simp [stepF, envStep], fun _ _ _ => rfl⟩
  | tick _ => exact ⟨id, [], by simp [stepF, envStep], fun _ _ _ => rfl⟩

/-- the daemonset reconcile writes no pod at all. -/
theorem L3_eds_reconcile_writes_no_pod (f : Faults) (w : World) (nn m : String) :
    (stepF f w (.reconcileEds nn m)).pods = w.pods := rfl

/-- in particular every foreign pod is still in the store, unchanged, after the step. -/
theorem L3_foreign_pod_stays (f : Faults) (w : World) (op : Op) (hk : PodKeysUnique w)
    (hop : ∀ pods', op ≠ .kubelet pods') (p : Pod) (hp : p ∈ w.pods) (hnot : ¬ ownedByEds w.eds p) :
    p ∈ (stepF f w op).pods := by
  obtain ⟨g, created, heq, hg⟩ := L3_foreign_pods_untouched f w op hk hop
  rw [heq]
  apply List.mem_append_left
  rw [← hg p hp hnot]
  exact List.mem_map_of_mem hp

/-- created pods are the daemonset's own (when the reconciled replica set carries its name label, as
every replica set the daemonset controller creates does). -/
theorem L3_created_pods_owned (f : Faults) (w : World) (rel : String → Bool) (aff : Bool)
    (rs : ERS) (hown : rs ∈ w.own)
    (x : String × Pod) (hx : x ∈ (maskErs f (ersWrites w rs rel aff)).creates) : ownedByEds w.eds x.2 := by
  have hx' : x ∈ (ersWrites w rs rel aff).creates := (List.mem_filter.1 hx).1
  unfold ersWrites at hx'
  have hl := (List.mem_filter.1 hown).2
  simp only [Bool.and_eq_true, beq_iff_eq] at hl
  cases ho : ersOwner rs w.store with
  | none =>
    have := (reconcileErs_noPodWrite_of_no_owner rs w.store rel aff w.now ho).2.2.2.2
    rw [this] at hx'; cases hx'
  | some d =>
    have hd : d = w.eds := by
      have := (ersOwner_some ho).1
      simpa [World.store] using this
    subst hd
    exact C12_ers_creates_eds_label rs w.store rel aff w.now _ ho hl.2 x hx'


/-! ## f. who writes what; roles -/

/-- **the daemonset's status is written by daemonset reconciles only** (restated for `step`). -/
theorem L3_status_written_only_by_eds_reconcile (w : World) (op : Op) (h : ∀ nn m, op ≠ .reconcileEds nn m) :
    (step w op).eds.status = w.eds.status := by
  rw [← stepF_ok]; exact stepF_status_frame {} w op h

/-- hence the role of every replica set changes at daemonset reconciles only. -/
theorem L3_role_changes_only_at_eds_reconcile (w : World) (op : Op) (h : ∀ nn m, op ≠ .reconcileEds nn m)
    (n : String) : ersRole (step w op).eds n = ersRole w.eds n := by
  unfold ersRole; rw [L3_status_written_only_by_eds_reconcile w op h]

/-- **spec.template, spec.strategy and the annotations are written by the user, by defaulting and by
the rollback only**: a replica-set reconcile, a node / pod change or a tick leaves the whole
daemonset object alone. -/
theorem L3_eds_object_frame (f : Faults) (w : World) (op : Op) (h : ∀ nn m, op ≠ .reconcileEds nn m)
    (hu : ∀ a b c d, op ≠ .userSpec a b c d) : (stepF f w op).eds = w.eds := by
  cases op with
  | reconcileEds nn m => exact absurd rfl (h nn m)
  | reconcileErs name rel aff =>
    simp only [stepF]
    cases findErs w name <;> rfl
  | setNodes _ => rfl
  | kubelet _ => rfl
  | userSpec a b c d => exact absurd rfl (hu a b c d)
  | tick _ => rfl

/-- **a replica set's spec, labels and annotations are never written**; its status is written only by
a reconcile of that very replica set: every replica set after a step is an old one (status possibly
updated, and then the step is its own reconcile) or the one the daemonset reconcile created. -/
theorem L3_ers_written_only_by_own_reconcile (f : Faults) (w : World) (op : Op) (e' : ERS)
    (he' : e' ∈ (stepF f w op).erss) :
    e' ∈ w.erss ∨
    (∃ e ∈ w.erss, e' = { e with status := e'.status } ∧
      ∃ rel aff, op = .reconcileErs e.name rel aff ∧ e.ns = w.eds.ns) ∨
    (∃ nn m, op = .reconcileEds nn m ∧
      e' = ersOfNewAt w.eds (newReplicaSetFromInstance w.eds) nn w.now) := by
  cases op with
  | reconcileEds nn m =>
    have he2 : e' ∈ applyErsList w.eds w.erss (maskEds f (edsWrites w m)) nn w.now := he'
    rcases mem_applyErsList _ _ _ _ _ _ he2 with ⟨h, _⟩ | ⟨n, hn, h⟩
    · exact Or.inl h
    · right; right
      refine ⟨nn, m, rfl, ?_⟩
      rw [h, ((EdsSub.mask f (edsWrites w m)).created_some hn).1]
  | reconcileErs name rel aff =>
    simp only [stepF] at he'
    cases hf : findErs w name with
    | none => rw [hf] at he'; exact Or.inl he'
    | some rs =>
      rw [hf] at he'
      simp only [applyErs_erss] at he'
      obtain ⟨e, he, rfl⟩ := List.mem_map.1 he'
      obtain ⟨_, hns, hname⟩ := findErs_ns hf
      by_cases hhit : (e.ns == rs.ns && e.name == rs.name) = true
      · right; left
        simp only [Bool.and_eq_true, beq_iff_eq] at hhit
        exact ⟨e, he, setStatusOf_eq rs _ e, rel, aff, by rw [hhit.2, hname], by rw [hhit.1, hns]⟩
      · left
        have : setStatusOf rs (maskErs f (ersWrites w rs rel aff)) e = e := by
          unfold setStatusOf; simp only [hhit, Bool.false_eq_true, if_false]
        rw [this]; exact he
  | setNodes _ => exact Or.inl he'
  | kubelet _ => exact Or.inl he'
  | userSpec _ _ _ _ => exact Or.inl he'
  | tick _ => exact Or.inl he'

theorem ersRole_active_l3 {d : EDS} {n : String} (h : ersRole d n = "active") :
    d.status.activeReplicaSet = n ∧ n ≠ "" := by
  unfold ersRole at h
  split at h
  · exact absurd h (by decide)
  · next h0 =>
    split at h
    · next h1 =>
      simp only [beq_iff_eq] at h0 h1
      exact ⟨h1, by rw [← h1]; exact h0⟩
    · split at h
      · split at h <;> exact absurd h (by decide)
      · exact absurd h (by decide)

theorem ersRole_canary {d : EDS} {n : String} (h : ersRole d n = "canary") :
    ∃ cs, d.status.canary = some cs ∧ cs.replicaSet = n ∧ d.status.activeReplicaSet ≠ n := by
  unfold ersRole at h
  split at h
  · exact absurd h (by decide)
  · split at h
    · exact absurd h (by decide)
    · next h1 =>
      split at h
      · next cs hcs =>
        split at h
        · next h2 =>
          simp only [beq_iff_eq] at h1 h2
          exact ⟨cs, hcs, h2, h1⟩
        · exact absurd h (by decide)
      · exact absurd h (by decide)

/-- **roles are exclusive among the own replica sets**: with distinct names at most one own replica
set is active and at most one is the canary. -/
theorem L3_role_unique (w : World) (hn : NamesNodup w) (e1 e2 : ERS) (h1 : e1 ∈ w.own) (h2 : e2 ∈ w.own)
    (r : String) (hr : r = "active" ∨ r = "canary")
    (hr1 : ersRole w.eds e1.name = r) (hr2 : ersRole w.eds e2.name = r) : e1 = e2 := by
  have hn' : ((ownErs w.eds w.erss).map (·.name)).Nodup := hn
  apply eq_of_nodup_map (·.name) hn' h1 h2
  rcases hr with rfl | rfl
  · exact (ersRole_active_l3 hr1).1.symm.trans (ersRole_active_l3 hr2).1
  · obtain ⟨cs1, hc1, hn1, _⟩ := ersRole_canary hr1
    obtain ⟨cs2, hc2, hn2, _⟩ := ersRole_canary hr2
    rw [hc1] at hc2; cases hc2
    exact hn1.symm.trans hn2

/-- … at every point of every run with fresh names. -/
theorem L3_role_unique_history (w0 : World) (ops : List Op) (h0 : NamesNodup w0) (hf : RunOk OpFresh w0 ops)
    (e1 e2 : ERS) (h1 : e1 ∈ (run w0 ops).own) (h2 : e2 ∈ (run w0 ops).own)
    (r : String) (hr : r = "active" ∨ r = "canary")
    (hr1 : ersRole (run w0 ops).eds e1.name = r) (hr2 : ersRole (run w0 ops).eds e2.name = r) : e1 = e2 :=
  L3_role_unique _ (L3_names_nodup w0 ops h0 hf) e1 e2 h1 h2 r hr hr1 hr2

/-- **a status written while spec has a canary strategy never names the same replica set as active
and as canary.**
`_partial`: the unconditional invariant `status.canary.replicaSet ≠ status.activeReplicaSet` is FALSE
along runs — when the user removes `spec.strategy.canary` while a canary runs, `updateInstance` skips
the whole canary block, keeps the old `status.canary` and makes the former canary active (example
`exStaleCanary` below; already recorded in DESIGN.md).  `ersRole` tests "active" first, so the
replica set gets the active role, with the stale canary nodes in its ignore list. -/
theorem L3_roles_distinct_after_write_partial (w : World) (m : String) (c : Canary)
    (hc : w.eds.strategy.canary = some c) (st : EDSStatus)
    (hst : (edsWrites w m).statusUpdate = some st) (cs : CanaryStatus) (hcs : st.canary = some cs) :
    cs.replicaSet ≠ st.activeReplicaSet := by
  unfold edsWrites at hst
  obtain ⟨_, _, u, _, hmain⟩ := reconcileEds_status_some _ _ _ _ _ _ st hst
  rw [hmain] at hst
  have hs := edsMain_statusUpdate _ _ _ _ _ _ st hst
  unfold edsUpd at hs
  generalize hcur : (currentOf w.eds (ownErs w.eds w.erss) u w.now).1 = cur at hs
  have key : ∀ ms : EDSStatus, ms = managedStatus w.eds cur u
      ((ownErs w.eds w.erss).foldl (fun a e => a + e.status.current) 0)
      ((ownErs w.eds w.erss).foldl (fun a e => a + e.status.ready) 0)
      ((ownErs w.eds w.erss).foldl (fun a e => a + e.status.available) 0) w.now →
      ∀ cs', ms.canary = some cs' → cs'.replicaSet ≠ ms.activeReplicaSet := by
    intro ms hms cs' hcs'
    subst hms
    unfold managedStatus at hcs' ⊢
    simp only [hc] at hcs' ⊢
    revert hcs'
    cases hf : isCanaryFailed (some u) with
    | true => rw [manageStatus_failed]; intro hcs'; cases hcs'
    | false =>
      cases ha : isCanaryActive (some c) cur.name u.name false with
      | false => rw [manageStatus_inactive]; intro hcs'; cases hcs'
      | true =>
        rw [manageStatus_active]
        intro hcs'
        simp only [Option.some.injEq] at hcs'
        subst hcs'
        exact fun h => (isCanaryActive_ne ha).1 h.symm
  rcases updateInstance_status_shape w.eds cur u _ _ _ w.now (ownPods w.eds w.pods) w.nodes c hc with h | ⟨sel, h⟩
  · rw [hs, h] at hcs ⊢
    exact key _ rfl cs hcs
  · rw [hs, h] at hcs ⊢
    simp only [Option.map_eq_some_iff] at hcs
    obtain ⟨cs0, hcs0, rfl⟩ := hcs
    exact key _ rfl cs0 hcs0


/-! ## g. C01: at most one live daemon pod per node, with the daemonset object evolving

`C01_syncs_preserve_one_per_node` (EdsProps/C01b.lean) keeps the daemonset object and the nodes
fixed.  In the cluster machine the daemonset's status (hence the canary node list the canary role
reads) is rewritten by daemonset reconciles in between: the hypothesis `hc` of C01b is the invariant
(c) above, so the statement lifts to runs in which both controllers, the user and the clock act. -/

def OnePerNode_l3 (w : World) : Prop := ∀ n, (livePodsOn w.eds w.pods n).length ≤ 1
def NodesOk (nodes : List Node) : Prop := (nodes.map (·.name)).Nodup ∧ ∀ nd ∈ nodes, nd.name ≠ ""

instance (w : World) : Decidable (OnePerNode_l3 w) := decidable_of_iff _ (onePerNode_iff w.eds w.pods)
instance (nodes : List Node) : Decidable (NodesOk nodes) := inferInstanceAs (Decidable (_ ∧ _))

/-- the environment's side conditions: node names stay distinct and non-empty; whatever happens to the
pods outside the controller (kubelet, eviction, users) never raises the number of live pods of the
daemonset attached to a node (pods fail, terminate, disappear, appear elsewhere; an `Unknown` pod
coming back to life next to its replacement is excluded — that is the caveat of C01 itself). -/
def OpEnvC01 (w : World) : Op → Prop
  | .setNodes nodes => NodesOk nodes
  | .kubelet pods' => ∀ n, (livePodsOn w.eds pods' n).length ≤ (livePodsOn w.eds w.pods n).length
  | _ => True

theorem SMap.get?_erase_other (m : SMap) (k k' : String) (h : k' ≠ k) :
    SMap.get? (SMap.erase m k) k' = SMap.get? m k' := by
  unfold SMap.erase
  induction m with
  | nil => rfl
  | cons e m ih =>
    rw [List.filter_cons]
    by_cases hk : e.k = k
    · have hb : (e.k != k) = false := by simp [hk]
      have hne : ¬ e.k = k' := by rw [hk]; exact fun h' => h h'.symm
      simp only [hb, Bool.false_eq_true, if_false]
      rw [SMap.get?_cons, if_neg hne]
      exact ih
    · have hb : (e.k != k) = true := by simp [hk]
      simp only [hb, if_true]
      rw [SMap.get?_cons, SMap.get?_cons, ih]

/-- the pod patch of a replica-set reconcile never makes a pod a live pod of the daemonset on a node. -/
theorem livePodsOn_podPatch_le (d : EDS) (ns : String) (wr : ErsWrites) (now : Time) (pods : List Pod) (n : String) :
    (livePodsOn d (pods.map (podPatch ns wr now)) n).length ≤ (livePodsOn d pods n).length := by
  unfold livePodsOn
  apply filter_map_length_le
  intro p _ hq
  have hne : K.edsNameLabel ≠ K.canaryLabel := by decide
  have hpl : isEdsPod d (patchLabels ns wr.labelAdds wr.labelRemoves p) = isEdsPod d p ∧
      (patchLabels ns wr.labelAdds wr.labelRemoves p).nodeOf = p.nodeOf ∧
      (patchLabels ns wr.labelAdds wr.labelRemoves p).live = p.live := by
    unfold patchLabels
    split
    · refine ⟨?_, rfl, rfl⟩
      unfold isEdsPod
      simp only [SMap.get?_set_other _ _ _ _ hne]
    · split
      · refine ⟨?_, rfl, rfl⟩
        unfold isEdsPod
        simp only [SMap.get?_erase_other _ _ _ hne]
      · exact ⟨rfl, rfl, rfl⟩
  unfold podPatch markDeletedNs at hq
  split at hq
  · simp [Pod.live] at hq
  · rw [hpl.1, hpl.2.1, hpl.2.2] at hq; exact hq

theorem livePodsOn_congr_eds (d d' : EDS) (hn : d.name = d'.name) (hns : d.ns = d'.ns) (pods : List Pod) (n : String) :
    livePodsOn d pods n = livePodsOn d' pods n := by
  unfold livePodsOn isEdsPod; rw [hn, hns]

/-- the combined invariant. -/
def C01Inv (w : World) : Prop := OnePerNode_l3 w ∧ NodesOk w.nodes ∧ CanaryNodup w
instance (w : World) : Decidable (C01Inv w) := inferInstanceAs (Decidable (_ ∧ _ ∧ _))

/-- **C01 (step).** -/
theorem L3_one_per_node_step (w : World) (op : Op) (h : C01Inv w) (ho : OpEnvC01 w op) : C01Inv (step w op) := by
  obtain ⟨h1, h2, h3⟩ := h
  have h3' : CanaryNodup (step w op) := by rw [← stepF_ok]; exact L3_canaryNodup_stepF {} w op h3
  refine ⟨?_, ?_, h3'⟩
  · intro n
    have hid := stepF_ident {} w op
    rw [stepF_ok] at hid
    rw [livePodsOn_congr_eds (step w op).eds w.eds hid.1 hid.2.1]
    cases op with
    | reconcileEds nn m => exact h1 n
    | reconcileErs name rel aff =>
      simp only [step]
      cases hf : findErs w name with
      | none => exact h1 n
      | some rs =>
        simp only [applyErs_pods]
        cases hown : ersOwner rs w.store with
        | none =>
          have := (reconcileErs_noPodWrite_of_no_owner rs w.store rel aff w.now hown).2.2.2.2
          unfold ersWrites
          rw [this, List.map_nil, List.append_nil]
          exact Nat.le_trans (livePodsOn_podPatch_le _ _ _ _ _ _) (h1 n)
        | some d =>
          have hd : d = w.eds := by
            have := (ersOwner_some hown).1
            simpa [World.store] using this
          subst hd
          exact one_per_node_core rs w.store rel aff w.now _ hown (fun _ => h2.1) (fun _ => h3)
            (fun _ => h2.2) h1 _ (livePodsOn_podPatch_le _ _ _ _ _) n
    | setNodes _ => exact h1 n
    | kubelet pods' => exact Nat.le_trans (ho n) (h1 n)
    | userSpec _ _ _ _ => exact h1 n
    | tick _ => exact h1 n
  · cases op with
    | reconcileEds nn m => exact h2
    | reconcileErs name rel aff =>
      simp only [step]
      cases findErs w name <;> exact h2
    | setNodes _ => exact ho
    | kubelet _ => exact h2
    | userSpec _ _ _ _ => exact h2
    | tick _ => exact h2

/-- **C01 (history): at most one live pod of the daemonset per node along every run** of both
controllers, user edits and clock ticks, with node lists of distinct non-empty names and a pod
environment that does not resurrect or add live daemon pods. -/
theorem L3_one_per_node (w : World) (ops : List Op) (h : C01Inv w) (ho : RunOk OpEnvC01 w ops) :
    OnePerNode_l3 (run w ops) :=
  (run_inv (P := C01Inv) L3_one_per_node_step ops w h ho).1


/-! ## the step invariants restated for `step` (every API call succeeds) -/

theorem L3_hashesNodup_step (w : World) (op : Op) (h : HashesNodup w) : HashesNodup (step w op) := by
  rw [← stepF_ok]; exact L3_hashesNodup_stepF {} w op h
theorem L3_allHashed_step (w : World) (op : Op) (h : AllHashed w) : AllHashed (step w op) := by
  rw [← stepF_ok]; exact L3_allHashed_stepF {} w op h
theorem L3_annotGen_step (w : World) (op : Op) (h : AnnotGen w) : AnnotGen (step w op) := by
  rw [← stepF_ok]; exact L3_annotGen_stepF {} w op h
theorem L3_namesNodup_step (w : World) (op : Op) (h : NamesNodup w) (hf : OpFresh w op) :
    NamesNodup (step w op) := by
  rw [← stepF_ok]; exact L3_namesNodup_stepF {} w op h hf
theorem L3_canaryNodup_step (w : World) (op : Op) (h : CanaryNodup w) : CanaryNodup (step w op) := by
  rw [← stepF_ok]; exact L3_canaryNodup_stepF {} w op h
theorem L3_canary_bound_step (w : World) (op : Op) :
    ((canaryNodesOf (step w op).eds.status).length : Int) ≤
      max ((canaryNodesOf w.eds.status).length : Int) (requestOf w) := by
  rw [← stepF_ok]; exact L3_canary_bound_stepF {} w op
theorem L3_schemaOk_step (w : World) (op : Op) (h : SchemaOk w) (ho : OpSchema w op) : SchemaOk (step w op) := by
  rw [← stepF_ok]; exact L3_schemaOk_stepF {} w op h ho
theorem L3_WF_step (w : World) (op : Op) (h : WF w) (ho : OpOk w op) : WF (step w op) := by
  rw [← stepF_ok]; exact L3_WF_stepF {} w op h ho
theorem L3_promotion_step (w : World) (nn m : String) (hs : SchemaOk w) (hn : NamesNodup w)
    (a u : ERS) (ha : a ∈ w.own) (hu : u ∈ w.own)
    (hact : w.eds.status.activeReplicaSet = a.name)
    (hact' : (step w (.reconcileEds nn m)).eds.status.activeReplicaSet = u.name)
    (hne : a.name ≠ u.name) :
    promotionAllowed w.eds.strategy.canary w.eds.annotations u w.now = true := by
  rw [← stepF_ok] at hact'
  exact L3_promotion_stepF {} w nn m hs hn a u ha hu hact hact' hne

end Eds

/-! ## Examples (non-vacuity): a concrete cluster and a concrete run -/
namespace Eds.ExL3
open Eds Eds.Cluster Eds.ExReconcile Eds.Spec.C05

/-- daemonset `ns/ds` at rest on template `h1` (replica set `ds-a`, 3 pods reported); the replica set of
an older template `h2` still exists, drained; three schedulable nodes; the clock at one minute. -/
def w0 : World :=
  { eds := dStable, erss := store2, pods := [], nodes := [exNode15 "n1", exNode15 "n2", exNode15 "n3"],
    settings := [], daemonsets := [], now := minute }

/-- the user applies template `h3`; the controller creates `ds-c`, starts a canary on one node (and
collects the drained `ds-b`), the canary replica set creates its pod, eleven minutes pass. -/
def ops1 : List Op :=
  [ .userSpec "h3" tpl strategy [],
    .reconcileEds "ds-c" "auto",
    .reconcileEds "ds-x" "auto",
    .reconcileErs "ds-c" (fun _ => true) true,
    .tick (11 * 60 * 1000000000) ]

/-- … then the daemonset reconcile promotes `ds-c`, both replica sets sync, the old one is collected. -/
def ops2 : List Op :=
  ops1 ++ [ .reconcileEds "ds-y" "auto", .reconcileErs "ds-c" (fun _ => true) true,
            .reconcileErs "ds-a" (fun _ => true) true, .reconcileEds "ds-z" "auto" ]

/-- what the run does. -/
example : ((run w0 (ops1.take 3)).erss.map (·.name), (run w0 (ops1.take 3)).eds.status.canary) =
    (["ds-a", "ds-c"], some ⟨"ds-c", ["n1"]⟩) := by decide
example : ((run w0 ops1).eds.status.activeReplicaSet, (run w0 ops1).pods.length, (run w0 ops1).now) =
    ("ds-a", 1, 12 * minute) := by decide
example : ((run w0 ops2).eds.status.activeReplicaSet, (run w0 ops2).eds.status.canary,
    (run w0 ops2).erss.map (·.name)) = ("ds-c", none, ["ds-c"]) := by decide

/-! hypotheses of the invariants (a) -/
example : HashesNodup w0 ∧ AllHashed w0 ∧ AnnotGen w0 ∧ NamesNodup w0 ∧ CanaryNodup w0 ∧ SchemaOk w0 := by decide
example : RunOk OpFresh w0 ops2 := by decide
example : RunOk OpOk w0 ops2 := by decide
/-- a name that is NOT fresh breaks `NamesNodup` (the side condition is needed): the API server would
never hand out `ds-a` again. -/
example : ¬ RunOk OpFresh w0 [.userSpec "h3" tpl strategy [], .reconcileEds "ds-a" "auto"] := by decide
example : ¬ NamesNodup (run w0 [.userSpec "h3" tpl strategy [], .reconcileEds "ds-a" "auto"]) := by decide
/-- … but not `HashesNodup`. -/
example : HashesNodup (run w0 [.userSpec "h3" tpl strategy [], .reconcileEds "ds-a" "auto"]) := by decide
/-- the theorems applied to the run … -/
example : HashesNodup (run w0 ops2) := L3_one_per_template w0 ops2 (by decide)
example : AllHashed (run w0 ops2) ∧ AnnotGen (run w0 ops2) :=
  ⟨L3_all_hashed w0 ops2 (by decide), L3_annot_gen w0 ops2 (by decide)⟩
example : NamesNodup (run w0 ops2) := L3_names_nodup w0 ops2 (by decide) (by decide)
example : CanaryNodup (run w0 ops2) := L3_canary_nodup w0 ops2 (by decide)
/-- … with a failing status update and a failing deletion thrown in. -/
example : HashesNodup (runF w0 ((ops2.map (fun op => (({ edsStatus := false, ersDelete := fun _ => false } : Faults), op))))) :=
  L3_one_per_template_faults w0 _ (by decide)
/-- … and the conclusions checked directly. -/
example : HashesNodup (run w0 ops2) ∧ NamesNodup (run w0 ops2) := by decide
/-- from an empty store: the first reconcile creates the first replica set. -/
example : ((run { w0 with erss := [] } [.reconcileEds "ds-1" "auto", .reconcileEds "ds-2" "auto"]).erss.map
    (fun e => (e.name, e.templateGeneration))) = [("ds-1", "h1")] := by decide

/-! (b) in-use replica sets survive; with faults they need not -/

/-- `ds-b` (validated canary of `h2`) is promoted, the drained `ds-a` is collected in the same reconcile. -/
def wPromo : World :=
  { w0 with eds := eds "h2" [⟨K.canaryValidAnnot, "ds-b"⟩] (status "ds-a" none),
            erss := [rs "ds-a" "h1" 0 [], rs "ds-b" "h2" 3 []] }

example : HashesNodup wPromo ∧ AnnotGen wPromo := by decide
example : (edsWrites wPromo "auto").deletedErs = ["ds-a"] ∧
    (step wPromo (.reconcileEds "x" "auto")).eds.status.activeReplicaSet = "ds-b" ∧
    (step wPromo (.reconcileEds "x" "auto")).erss.map (·.name) = ["ds-b"] := by decide
/-- **`L3_active_never_removed` fails under faults**: when the status update fails after the
clean-up succeeded, `status.activeReplicaSet` names a replica set that no longer exists (the next
reconcile adopts the up-to-date one: `C05_adopt_when_missing`). -/
example : (stepF { edsStatus := false } wPromo (.reconcileEds "x" "auto")).eds.status.activeReplicaSet = "ds-a" ∧
    (stepF { edsStatus := false } wPromo (.reconcileEds "x" "auto")).erss.map (·.name) = ["ds-b"] := by decide

/-- the theorems on the fault-free step of this world. -/
example : ∀ e ∈ wPromo.erss, e.name = "ds-b" → Survives e (step wPromo (.reconcileEds "x" "auto")) :=
  fun e he hn => L3_active_never_removed wPromo _ e he (by rw [hn]; decide)
example : ∀ e ∈ wPromo.own, e.name = "ds-b" → Survives e (step wPromo (.reconcileEds "x" "auto")) :=
  fun e he hn => L3_uptodate_never_removed wPromo _ (by decide) (by decide) e he (by
    have : ∀ e ∈ wPromo.own, e.name = "ds-b" → SMap.get? e.annotations K.templateHashAnnot =
        some (step wPromo (.reconcileEds "x" "auto")).eds.templateHash := by decide
    exact this e he hn)

/-- the history form in the run: the step that collects `ds-b` keeps the up-to-date `ds-c` and the
active `ds-a`. -/
example : ∀ e ∈ (run w0 (ops1.take 2)).own, e.name = "ds-c" ∨ e.name = "ds-a" →
    Survives e (step (run w0 (ops1.take 2)) (.reconcileEds "ds-x" "auto")) :=
  fun e he hn => L3_never_deletes_in_use w0 (ops1.take 2) _ (by decide) (by decide) e he (by
    have : ∀ e ∈ (run w0 (ops1.take 2)).own, e.name = "ds-c" ∨ e.name = "ds-a" →
        e.name = (step (run w0 (ops1.take 2)) (.reconcileEds "ds-x" "auto")).eds.status.activeReplicaSet ∨
        SMap.get? e.annotations K.templateHashAnnot =
          some (step (run w0 (ops1.take 2)) (.reconcileEds "ds-x" "auto")).eds.templateHash := by decide
    exact this e he hn)
example : (edsWrites (run w0 (ops1.take 2)) "auto").deletedErs = ["ds-b"] := by decide

/-! (c) canary node list -/
example : ((canaryNodesOf w0.eds.status).length : Int) ≤ 1 ∧ RunOk (fun w _ => requestOf w ≤ 1) w0 ops2 := by
  decide
example : ((canaryNodesOf (run w0 ops2).eds.status).length : Int) ≤ 1 :=
  L3_canary_bound 1 w0 ops2 (by decide) (by decide)
/-- the bound is attained. -/
example : canaryNodesOf (run w0 ops1).eds.status = ["n1"] ∧ requestOf (run w0 (ops1.take 2)) = 1 := by decide

/-! (d) promotion -/

/-- the hypotheses of `L3_promotion_history` at the promotion step of the run: well-formed start,
admissible operations, active `ds-a` before, `ds-c` after, both existing own replica sets. -/
example : WF w0 ∧ RunOk OpOk w0 ops1 ∧
    (∃ a ∈ (run w0 ops1).own, a.name = "ds-a" ∧ (run w0 ops1).eds.status.activeReplicaSet = a.name) ∧
    (∃ u ∈ (run w0 ops1).own, u.name = "ds-c" ∧
      (run w0 (ops1 ++ [.reconcileEds "ds-y" "auto"])).eds.status.activeReplicaSet = u.name) := by decide
/-- its conclusion there: auto mode, 10 minutes elapsed since `ds-c` was created at minute 1. -/
example : ∀ u ∈ (run w0 ops1).own, u.name = "ds-c" →
    promotionAllowed (run w0 ops1).eds.strategy.canary (run w0 ops1).eds.annotations u (run w0 ops1).now = true := by
  decide
/-- the theorem applied there. -/
example : ∀ a ∈ (run w0 ops1).own, ∀ u ∈ (run w0 ops1).own, a.name = "ds-a" → u.name = "ds-c" →
    promotionAllowed (run w0 ops1).eds.strategy.canary (run w0 ops1).eds.annotations u (run w0 ops1).now = true :=
  fun a ha u hu han hun =>
    L3_promotion_history w0 ops1 "ds-y" "auto" (by decide) (by decide) a u ha hu
      (by rw [han]; decide) (by rw [hun]; decide) (by rw [han, hun]; decide)
/-- one minute earlier the rule does not hold and the reconcile does not promote. -/
example : (run w0 (ops1.take 4 ++ [.tick (9 * 60 * 1000000000), .reconcileEds "ds-y" "auto"])).eds.status.activeReplicaSet
    = "ds-a" := by decide
/-- the schema hypothesis is needed: with a validation mode outside the enum the code promotes by
elapsed time although the rule (which asks for "auto") does not allow it. -/
def strategyBadMode : Strategy :=
  { strategy with canary := strategy.canary.map (fun c => { c with validationMode := "foo" }) }
def opsBad : List Op :=
  [ .userSpec "h3" tpl strategyBadMode [], .reconcileEds "ds-c" "auto", .reconcileEds "ds-x" "auto",
    .tick (11 * 60 * 1000000000) ]
example : ¬ RunOk OpOk w0 opsBad := by decide
example : (run w0 opsBad).eds.status.activeReplicaSet = "ds-a" ∧
    (run w0 (opsBad ++ [.reconcileEds "ds-y" "auto"])).eds.status.activeReplicaSet = "ds-c" ∧
    ∀ u ∈ (run w0 opsBad).own, u.name = "ds-c" →
      promotionAllowed (run w0 opsBad).eds.strategy.canary (run w0 opsBad).eds.annotations u (run w0 opsBad).now
        = false := by decide

/-! (e) foreign pods -/

def stray : Pod := { exPod04 "stray" "n1" "ds-c" "h3" false false with ns := "ns" }
/-- the world after the canary started, with a pod of the namespace that is not the daemonset's. -/
def wStray : World := { run w0 (ops1.take 3) with pods := [stray] }
example : PodKeysUnique wStray := by decide
example : ¬ ownedByEds wStray.eds stray := by
  rintro ⟨_, h | ⟨ds, h, _⟩⟩
  · exact absurd h (by decide)
  · have ha : SMap.get? wStray.eds.annotations K.oldDaemonsetAnnot = none := by decide
    rw [ha] at h; cases h
/-- the canary replica set does not count it (it creates its pod on `n1`) and leaves it alone. -/
example : (step wStray (.reconcileErs "ds-c" (fun _ => true) true)).pods.map (·.name) = ["stray", "ds-c-"] ∧
    stray ∈ (step wStray (.reconcileErs "ds-c" (fun _ => true) true)).pods := by decide

example : stray ∈ (step wStray (.reconcileErs "ds-c" (fun _ => true) true)).pods := by
  have h := L3_foreign_pod_stays {} wStray (.reconcileErs "ds-c" (fun _ => true) true) (by decide)
    (fun _ h => by cases h) stray (by decide) (by
      rintro ⟨_, h | ⟨ds, h, _⟩⟩
      · exact absurd h (by decide)
      · have ha : SMap.get? wStray.eds.annotations K.oldDaemonsetAnnot = none := by decide
        rw [ha] at h; cases h)
  rw [stepF_ok] at h; exact h

/-- hypotheses of `L3_created_pods_owned`: an own replica set whose reconcile creates a pod. -/
example : ∃ rs ∈ (run w0 (ops1.take 3)).own, rs.name = "ds-c" ∧
    (maskErs {} (ersWrites (run w0 (ops1.take 3)) rs (fun _ => true) true)).creates.length = 1 := by decide

/-! (f) roles -/
example : ∀ e1 ∈ (run w0 ops1).own, ∀ e2 ∈ (run w0 ops1).own,
    ersRole (run w0 ops1).eds e1.name = "canary" → ersRole (run w0 ops1).eds e2.name = "canary" → e1 = e2 :=
  fun e1 h1 e2 h2 hr1 hr2 =>
    L3_role_unique_history w0 ops1 (by decide) (by decide) e1 e2 h1 h2 "canary" (Or.inr rfl) hr1 hr2

example : ersRole (run w0 ops1).eds "ds-a" = "active" ∧ ersRole (run w0 ops1).eds "ds-c" = "canary" ∧
    ersRole (run w0 ops2).eds "ds-c" = "active" := by decide

/-- `L3_roles_distinct_after_write_partial` cannot be made unconditional: the user drops the canary
strategy while the canary of `h3` runs; the next reconcile makes `ds-c` active and leaves the old
`status.canary` block in place, naming the same replica set (and its node stays in the ignore list of
the now active replica set). -/
def exStaleCanary : World :=
  run w0 (ops1.take 3 ++ [.userSpec "h3" tpl { strategy with canary := none } [], .reconcileEds "ds-y" "auto"])
example : exStaleCanary.eds.status.activeReplicaSet = "ds-c" ∧
    exStaleCanary.eds.status.canary = some ⟨"ds-c", ["n1"]⟩ ∧ exStaleCanary.eds.strategy.canary = none := by decide
/-- hypotheses of the `_partial` theorem in the run: a canary strategy in spec and a status written. -/
example : (run w0 (ops1.take 2)).eds.strategy.canary.isSome = true ∧
    ((edsWrites (run w0 (ops1.take 2)) "auto").statusUpdate.bind (·.canary)) = some ⟨"ds-c", ["n1"]⟩ := by decide

/-! (g) one live pod per node -/
example : C01Inv w0 := by decide
example : RunOk OpEnvC01 w0 ops2 := by
  unfold ops2 ops1; simp [RunOk, OpEnvC01]
example : OnePerNode_l3 (run w0 ops2) :=
  L3_one_per_node w0 ops2 (by decide) (by unfold ops2 ops1; simp [RunOk, OpEnvC01])
/-- two pods were created along the run, on different nodes. -/
example : (run w0 ops2).pods.map (·.nodeOf) = [some "n1", some "n2"] := by decide

end Eds.ExL3
