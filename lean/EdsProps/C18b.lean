import EdsProps.C18
/-
  C18b — the verdict of the setting reconciler does not depend on the STORED statuses, hence
  "reconcile each setting once, in any order, starting from any stale statuses" yields exactly the
  statuses determined by the specs (and those satisfy the mutual exclusion of C18).
-/
namespace Eds
open Spec.C18

/-! ### Pointwise relation of two lists (core Lean has no `List.Forall₂`) -/

/-- `Forall₂ R l l'`: the lists have the same length and are related position by position. -/
inductive Forall₂ {α β : Type} (R : α → β → Prop) : List α → List β → Prop
  | nil : Forall₂ R [] []
  | cons {a : α} {b : β} {l : List α} {l' : List β} :
      R a b → Forall₂ R l l' → Forall₂ R (a :: l) (b :: l')

namespace Forall₂
variable {α β : Type} {R S : α → β → Prop} {l : List α} {l' : List β}

theorem refl_of {R : α → α → Prop} (h : ∀ a, R a a) (l : List α) : Forall₂ R l l := by
  induction l with
  | nil => exact .nil
  | cons a l ih => exact .cons (h a) ih

/-- monotonicity, the implication may use that the left element is a member of the left list -/
theorem imp_mem (h : Forall₂ R l l') (hRS : ∀ a b, a ∈ l → R a b → S a b) : Forall₂ S l l' := by
  induction h with
  | nil => exact .nil
  | cons hab _ ih =>
    exact .cons (hRS _ _ List.mem_cons_self hab)
      (ih (fun a b ha hr => hRS a b (List.mem_cons_of_mem _ ha) hr))

theorem imp (h : Forall₂ R l l') (hRS : ∀ a b, R a b → S a b) : Forall₂ S l l' :=
  h.imp_mem (fun a b _ => hRS a b)

theorem exists_left (h : Forall₂ R l l') {b : β} (hb : b ∈ l') : ∃ a, a ∈ l ∧ R a b := by
  induction h with
  | nil => cases hb
  | cons hab _ ih =>
    rcases List.mem_cons.mp hb with rfl | hb
    · exact ⟨_, List.mem_cons_self, hab⟩
    · obtain ⟨a, ha, hr⟩ := ih hb
      exact ⟨a, List.mem_cons_of_mem _ ha, hr⟩

theorem exists_right (h : Forall₂ R l l') {a : α} (ha : a ∈ l) : ∃ b, b ∈ l' ∧ R a b := by
  induction h with
  | nil => cases ha
  | cons hab _ ih =>
    rcases List.mem_cons.mp ha with rfl | ha
    · exact ⟨_, List.mem_cons_self, hab⟩
    · obtain ⟨b, hb, hr⟩ := ih ha
      exact ⟨b, List.mem_cons_of_mem _ hb, hr⟩

theorem length_eq (h : Forall₂ R l l') : l.length = l'.length := by
  induction h with
  | nil => rfl
  | cons _ _ ih => simp only [List.length_cons, ih]

/-- a relation that is the graph of a function: the right list is the image of the left one -/
theorem eq_map {f : α → β} (h : Forall₂ (fun a b => b = f a) l l') : l' = l.map f := by
  induction h with
  | nil => rfl
  | cons hab _ ih => rw [List.map_cons, ← hab, ← ih]

theorem map_right {γ : Type} {T : α → γ → Prop} (g : β → γ) (h : Forall₂ R l l')
    (hg : ∀ a b, R a b → T a (g b)) : Forall₂ T l (l'.map g) := by
  induction h with
  | nil => exact .nil
  | cons hab _ ih => exact .cons (hg _ _ hab) ih

theorem filter {p : α → Bool} {q : β → Bool} (h : Forall₂ R l l')
    (hpq : ∀ a b, R a b → p a = q b) : Forall₂ R (l.filter p) (l'.filter q) := by
  induction h with
  | nil => exact .nil
  | cons hab _ ih =>
    rw [List.filter_cons, List.filter_cons, hpq _ _ hab]
    split
    · exact .cons hab ih
    · exact ih

theorem map_eq_map {γ : Type} {f : α → γ} {g : β → γ} (h : Forall₂ R l l')
    (hfg : ∀ a b, R a b → f a = g b) : l.map f = l'.map g := by
  induction h with
  | nil => rfl
  | cons hab _ ih => rw [List.map_cons, List.map_cons, hfg _ _ hab, ih]

theorem flip (h : Forall₂ R l l') : Forall₂ (fun b a => R a b) l' l := by
  induction h with
  | nil => exact .nil
  | cons hab _ ih => exact .cons hab ih

theorem trans {γ : Type} {T : β → γ → Prop} {U : α → γ → Prop} {l'' : List γ}
    (hRTU : ∀ a b c, R a b → T b c → U a c)
    (h : Forall₂ R l l') (h' : Forall₂ T l' l'') : Forall₂ U l l'' := by
  induction h generalizing l'' with
  | nil => cases h'; exact .nil
  | cons hab _ ih =>
    cases h' with
    | cons hbc hl => exact .cons (hRTU _ _ _ hab hbc) (ih hl)

end Forall₂

/-! ### Same spec, different stored status -/

/-- `a` and `b` agree on every field except the stored `status` and `error`. -/
def sameSpec (a b : Setting) : Prop :=
  a.name = b.name ∧ a.ns = b.ns ∧ a.creation = b.creation ∧ a.reference = b.reference ∧
  a.nodeSelector = b.nodeSelector ∧ a.badSelector = b.badSelector ∧ a.containers = b.containers

instance (a b : Setting) : Decidable (sameSpec a b) := by
  unfold sameSpec
  infer_instance

/-- position by position the same specs. -/
def sameSpecs (l l' : List Setting) : Prop := Forall₂ sameSpec l l'

/-- `sameSpec` says exactly: overwriting the stored status of `a` with that of `b` gives `b`. -/
theorem sameSpec_iff (a b : Setting) :
    sameSpec a b ↔ { a with status := b.status, error := b.error } = b := by
  cases a
  cases b
  simp only [sameSpec, Setting.mk.injEq, and_true]

theorem sameSpec.refl (a : Setting) : sameSpec a a :=
  ⟨rfl, rfl, rfl, rfl, rfl, rfl, rfl⟩

theorem sameSpec.symm {a b : Setting} (h : sameSpec a b) : sameSpec b a :=
  ⟨h.1.symm, h.2.1.symm, h.2.2.1.symm, h.2.2.2.1.symm, h.2.2.2.2.1.symm, h.2.2.2.2.2.1.symm,
    h.2.2.2.2.2.2.symm⟩

theorem sameSpec.trans {a b c : Setting} (h : sameSpec a b) (h' : sameSpec b c) : sameSpec a c :=
  ⟨h.1.trans h'.1, h.2.1.trans h'.2.1, h.2.2.1.trans h'.2.2.1, h.2.2.2.1.trans h'.2.2.2.1,
    h.2.2.2.2.1.trans h'.2.2.2.2.1, h.2.2.2.2.2.1.trans h'.2.2.2.2.2.1,
    h.2.2.2.2.2.2.trans h'.2.2.2.2.2.2⟩

theorem sameSpecs.refl (l : List Setting) : sameSpecs l l := Forall₂.refl_of sameSpec.refl l

theorem sameSpecs.symm {l l' : List Setting} (h : sameSpecs l l') : sameSpecs l' l :=
  (Forall₂.flip h).imp (fun _ _ hab => sameSpec.symm hab)

theorem sameSpecs.trans {l l' l'' : List Setting} (h : sameSpecs l l') (h' : sameSpecs l' l'') :
    sameSpecs l l'' :=
  Forall₂.trans (R := sameSpec) (T := sameSpec) (U := sameSpec) (fun _ _ _ => sameSpec.trans) h h'

/-- overwriting the stored status with the same values erases the difference -/
theorem sameSpec.with_status_eq {a b : Setting} (h : sameSpec a b) (x y : String) :
    { a with status := x, error := y } = { b with status := x, error := y } := by
  cases a
  cases b
  simp only [sameSpec] at h
  simp only [Setting.mk.injEq, and_true]
  exact h

theorem sameSpecs.names_eq {l l' : List Setting} (h : sameSpecs l l') :
    l.map (·.name) = l'.map (·.name) := by
  induction h with
  | nil => rfl
  | cons hab _ ih => rw [List.map_cons, List.map_cons, ih, hab.1]

/-! ### Every ingredient of `settingReconcile` ignores the stored status -/

theorem settingMatches_sameSpec {a b : Setting} (h : sameSpec a b) (ls : SMap) :
    settingMatches a ls = settingMatches b ls := by
  unfold settingMatches
  rw [h.2.2.2.2.1, h.2.2.2.2.2.1]

theorem settingLess_sameSpec {a a' b b' : Setting} (ha : sameSpec a a') (hb : sameSpec b b') :
    settingLess a b = settingLess a' b' := by
  unfold settingLess
  rw [ha.1, ha.2.2.1, hb.1, hb.2.2.1]

theorem insertSetting_sameSpec {s s' : Setting} (hs : sameSpec s s') {l l' : List Setting}
    (h : sameSpecs l l') : sameSpecs (insertSetting s l) (insertSetting s' l') := by
  induction h with
  | nil => exact .cons hs .nil
  | cons hab hl ih =>
    simp only [insertSetting]
    rw [settingLess_sameSpec hs hab]
    split
    · exact .cons hs (.cons hab hl)
    · exact .cons hab ih

/-- the insertion sort looks at `creation` and `name` only: sorted lists are again related. -/
theorem sortSettings_sameSpec {l l' : List Setting} (h : sameSpecs l l') :
    sameSpecs (sortSettings l) (sortSettings l') := by
  induction h with
  | nil => exact .nil
  | cons hab _ ih => exact insertSetting_sameSpec hab ih

theorem conflictScanNode_sameSpec (instName : String) (ls : SMap) {l l' : List Setting}
    (h : sameSpecs l l') (prev : Option String) :
    conflictScanNode instName ls l prev = conflictScanNode instName ls l' prev := by
  induction h generalizing prev with
  | nil => rfl
  | cons hab _ ih =>
    simp only [conflictScanNode]
    rw [settingMatches_sameSpec hab, hab.1]
    simp only [ih]

theorem usableFor_sameSpec {inst inst' : Setting} (hn : inst.name = inst'.name)
    {all all' : List Setting} (h : sameSpecs all all') :
    sameSpecs (usableFor inst all) (usableFor inst' all') := by
  unfold usableFor
  apply Forall₂.filter h
  intro a b hab
  rw [hab.1, hab.2.2.2.2.2.1, hn]

theorem searchConflict_go_sameSpec {inst inst' : Setting} (hn : inst.name = inst'.name)
    {l l' : List Setting} (h : sameSpecs l l') (nodes : List Node) :
    searchConflict.go inst l nodes = searchConflict.go inst' l' nodes := by
  induction nodes with
  | nil => simp only [searchConflict.go]
  | cons n rest ih =>
    simp only [searchConflict.go]
    rw [hn, conflictScanNode_sameSpec _ _ h, ih]

theorem searchConflict_sameSpec {inst inst' : Setting} (hi : sameSpec inst inst')
    (nodes : List Node) {all all' : List Setting} (h : sameSpecs all all') :
    searchConflict inst nodes all = searchConflict inst' nodes all' := by
  rw [searchConflict_eq, searchConflict_eq]
  exact searchConflict_go_sameSpec hi.1 (sortSettings_sameSpec (usableFor_sameSpec hi.1 h)) nodes

/-- **The verdict does not depend on the stored statuses**, neither that of the reconciled
setting nor those of the other settings of the namespace: status and error message are a function of
the specs (and of the nodes) alone. -/
theorem C18_status_independent (inst inst' : Setting) (nodes : List Node)
    (all all' : List Setting) (hi : sameSpec inst inst') (h : sameSpecs all all') :
    settingReconcile inst nodes all = settingReconcile inst' nodes all' := by
  unfold settingReconcile
  rw [hi.2.2.2.1, searchConflict_sameSpec hi nodes h]

/-! ### One round of reconciliations -/

/-- the setting with its freshly computed status (what `Reconcile` + the status update write). -/
def refreshSetting (nodes : List Node) (all : List Setting) (s : Setting) : Setting :=
  { s with status := (settingReconcile s nodes all).1, error := (settingReconcile s nodes all).2 }

/-- write the freshly computed status of the setting named `nm` into the list (what one
Reconcile + status update does). The verdict is computed from the CURRENT list, stale statuses of
the other settings included. (Every object named `nm` is rewritten; names are unique in a
namespace, so that is one object.) -/
def reconcileOne (nodes : List Node) (all : List Setting) (nm : String) : List Setting :=
  all.map (fun s => if s.name = nm then refreshSetting nodes all s else s)

/-- reconcile the settings named in `order`, one after the other, each seeing the statuses the
previous ones wrote. -/
def reconcileRound (nodes : List Node) (all : List Setting) (order : List String) : List Setting :=
  order.foldl (reconcileOne nodes) all

/-- the statuses determined by the specs: every setting carries the verdict computed on the
original list. -/
def reconciledSettings (nodes : List Node) (all : List Setting) : List Setting :=
  all.map (refreshSetting nodes all)

theorem refreshSetting_sameSpec (nodes : List Node) (all : List Setting) (s : Setting) :
    sameSpec s (refreshSetting nodes all s) :=
  ⟨rfl, rfl, rfl, rfl, rfl, rfl, rfl⟩

/-- refreshing a stale copy against a stale list writes the same object as refreshing the original
against the original list. -/
theorem refreshSetting_eq_of_sameSpec (nodes : List Node) {all cur : List Setting} {s₀ s : Setting}
    (hs : sameSpec s₀ s) (h : sameSpecs all cur) :
    refreshSetting nodes cur s = refreshSetting nodes all s₀ := by
  unfold refreshSetting
  rw [← C18_status_independent s₀ s nodes all cur hs h]
  exact (hs.with_status_eq _ _).symm

theorem reconciledSettings_sameSpecs (nodes : List Node) (all : List Setting) :
    sameSpecs all (reconciledSettings nodes all) :=
  Forall₂.map_right _ (sameSpecs.refl all) (fun a b hab => by
    exact hab.trans (refreshSetting_sameSpec nodes all b))

/-- invariant of a round: `s` is the current version of the original `s₀`; same spec, and already
carrying the final verdict when its name is among the `done` ones. -/
private def roundInv (nodes : List Node) (all : List Setting) (done : String → Prop)
    (s₀ s : Setting) : Prop :=
  sameSpec s₀ s ∧ (done s₀.name → s = refreshSetting nodes all s₀)

private theorem roundInv_step (nodes : List Node) (all cur : List Setting) (done : String → Prop)
    (nm : String) (h : Forall₂ (roundInv nodes all done) all cur) :
    Forall₂ (roundInv nodes all (fun x => done x ∨ x = nm)) all (reconcileOne nodes cur nm) := by
  have hss : sameSpecs all cur := h.imp (fun _ _ hab => hab.1)
  unfold reconcileOne
  apply Forall₂.map_right _ h
  intro a b hab
  obtain ⟨hspec, hdone⟩ := hab
  by_cases hb : b.name = nm
  · rw [if_pos hb, refreshSetting_eq_of_sameSpec nodes hspec hss]
    exact ⟨refreshSetting_sameSpec nodes all a, fun _ => rfl⟩
  · rw [if_neg hb]
    refine ⟨hspec, fun hd => ?_⟩
    rcases hd with hd | hd
    · exact hdone hd
    · exact absurd (hspec.1 ▸ hd) hb

private theorem roundInv_round (nodes : List Node) (all : List Setting) (order : List String) :
    ∀ (cur : List Setting) (done : String → Prop), Forall₂ (roundInv nodes all done) all cur →
      Forall₂ (roundInv nodes all (fun x => done x ∨ x ∈ order)) all
        (order.foldl (reconcileOne nodes) cur) := by
  induction order with
  | nil =>
    intro cur done h
    exact h.imp (fun a b hab => ⟨hab.1, fun hd => hd.elim hab.2 (fun hm => by cases hm)⟩)
  | cons nm rest ih =>
    intro cur done h
    rw [List.foldl_cons]
    refine (ih _ _ (roundInv_step nodes all cur done nm h)).imp (fun a b hab => ⟨hab.1, fun hd => ?_⟩)
    apply hab.2
    rcases hd with hd | hd
    · exact Or.inl (Or.inl hd)
    · rcases List.mem_cons.mp hd with hd | hd
      · exact Or.inl (Or.inr hd)
      · exact Or.inr hd

/-- during a round (whatever `order`) only statuses change: the specs stay those of the original
list, position by position. -/
theorem reconcileRound_sameSpecs (nodes : List Node) (all : List Setting) (order : List String) :
    sameSpecs all (reconcileRound nodes all order) := by
  have h0 : Forall₂ (roundInv nodes all (fun _ => False)) all all :=
    Forall₂.refl_of (fun a => ⟨sameSpec.refl a, fun hf => hf.elim⟩) all
  exact (roundInv_round nodes all order all _ h0).imp (fun _ _ hab => hab.1)

/-- settings whose name is in `order` carry the spec-determined verdict after the round, even when
`order` does not cover every setting (no hypothesis on `order` or on the names). -/
theorem C18_round_result_partial (nodes : List Node) (all : List Setting) (order : List String) :
    Forall₂ (fun s₀ s => sameSpec s₀ s ∧
        (s₀.name ∈ order → (s.status, s.error) = settingReconcile s₀ nodes all))
      all (reconcileRound nodes all order) := by
  have h0 : Forall₂ (roundInv nodes all (fun _ => False)) all all :=
    Forall₂.refl_of (fun a => ⟨sameSpec.refl a, fun hf => hf.elim⟩) all
  refine (roundInv_round nodes all order all _ h0).imp (fun a b hab => ⟨hab.1, fun hm => ?_⟩)
  rw [hab.2 (Or.inr hm)]
  rfl

/-- **Result of a round, as an equation**: when `order` names every setting (repetitions and
foreign names allowed), the list after the round is the original list with every status replaced by
the verdict computed from the ORIGINAL list — whatever the order and the initial stale statuses.
(Distinct names are not even needed for this form.) -/
theorem C18_round_eq (nodes : List Node) (all : List Setting) (order : List String)
    (hcover : ∀ s ∈ all, s.name ∈ order) :
    reconcileRound nodes all order = reconciledSettings nodes all := by
  have h0 : Forall₂ (roundInv nodes all (fun _ => False)) all all :=
    Forall₂.refl_of (fun a => ⟨sameSpec.refl a, fun hf => hf.elim⟩) all
  have h := roundInv_round nodes all order all _ h0
  exact Forall₂.eq_map (h.imp_mem (fun a b ha hab => hab.2 (Or.inr (hcover a ha))))

/-- **Result of a round.** Names distinct, `order` contains every name: after the round every
setting `s` of the list carries `settingReconcile s₀ nodes all`, where `s₀` is the setting of that
name in the ORIGINAL list (stale statuses included) — independent of the order and of the initial
stale statuses. -/
theorem C18_round_result (nodes : List Node) (all : List Setting) (order : List String)
    (hnd : (all.map (·.name)).Nodup) (hcover : ∀ s ∈ all, s.name ∈ order)
    (s : Setting) (hs : s ∈ reconcileRound nodes all order)
    (s₀ : Setting) (hs₀ : s₀ ∈ all) (hname : s₀.name = s.name) :
    (s.status, s.error) = settingReconcile s₀ nodes all := by
  rw [C18_round_eq nodes all order hcover] at hs
  obtain ⟨s₁, hs₁, rfl⟩ := List.mem_map.mp hs
  have : s₀ = s₁ := eq_of_name_eq_of_nodup hnd hs₀ hs₁ hname
  subst this
  rfl

/-- … and every original setting has its counterpart in the result (same names, same positions,
same specs). -/
theorem C18_round_names (nodes : List Node) (all : List Setting) (order : List String) :
    (reconcileRound nodes all order).map (·.name) = all.map (·.name) :=
  (reconcileRound_sameSpecs nodes all order).names_eq.symm

/-- **Two orders give the same list.** -/
theorem C18_round_order_independent (nodes : List Node) (all : List Setting)
    (order order' : List String)
    (hcover : ∀ s ∈ all, s.name ∈ order) (hcover' : ∀ s ∈ all, s.name ∈ order') :
    reconcileRound nodes all order = reconcileRound nodes all order' := by
  rw [C18_round_eq nodes all order hcover, C18_round_eq nodes all order' hcover']

/-- **Two initial stale statuses give the same list** (same specs, same nodes; each with its own
order). -/
theorem C18_round_stale_independent (nodes : List Node) (all all' : List Setting)
    (order order' : List String) (h : sameSpecs all all')
    (hcover : ∀ s ∈ all, s.name ∈ order) (hcover' : ∀ s ∈ all', s.name ∈ order') :
    reconcileRound nodes all order = reconcileRound nodes all' order' := by
  rw [C18_round_eq nodes all order hcover, C18_round_eq nodes all' order' hcover']
  unfold reconciledSettings
  exact Forall₂.map_eq_map h (fun a b hab => (refreshSetting_eq_of_sameSpec nodes hab h).symm)

/-! ### The result of a round satisfies C18 -/

/-- the names stay distinct -/
theorem C18_round_nodup (nodes : List Node) (all : List Setting) (order : List String)
    (hnd : (all.map (·.name)).Nodup) : ((reconcileRound nodes all order).map (·.name)).Nodup := by
  rw [C18_round_names]
  exact hnd

/-- **Mutual exclusion after a round** (hypotheses of `C18_mutual_exclusion_eq`, the computed
statuses being replaced by the STORED statuses of the result): whatever the initial stale statuses
and the order, two settings of the resulting list that are stored `valid` and both match a node of
the cluster are the same setting. -/
theorem C18_round_mutual_exclusion (nodes : List Node) (all : List Setting) (order : List String)
    (hnd : (all.map (·.name)).Nodup) (hcover : ∀ s ∈ all, s.name ∈ order)
    (n : Node) (hn : n ∈ nodes) (s t : Setting)
    (hs : s ∈ reconcileRound nodes all order) (ht : t ∈ reconcileRound nodes all order)
    (hvs : s.status = "valid") (hvt : t.status = "valid")
    (hms : settingMatches s n.labels = some true)
    (hmt : settingMatches t n.labels = some true) :
    s = t := by
  rw [C18_round_eq nodes all order hcover] at hs ht
  obtain ⟨s₀, hs₀, rfl⟩ := List.mem_map.mp hs
  obtain ⟨t₀, ht₀, rfl⟩ := List.mem_map.mp ht
  rw [← settingMatches_sameSpec (refreshSetting_sameSpec nodes all s₀)] at hms
  rw [← settingMatches_sameSpec (refreshSetting_sameSpec nodes all t₀)] at hmt
  rw [C18_mutual_exclusion_eq nodes all hnd n hn s₀ t₀ hs₀ ht₀ hvs hvt hms hmt]

/-- The same through the decidable specification predicate, evaluated on the stored statuses of the
result: for every node at most one setting is both stored `valid` and matching. -/
theorem C18_round_mutual_exclusion_spec (nodes : List Node) (all : List Setting)
    (order : List String)
    (hnd : (all.map (·.name)).Nodup) (hcover : ∀ s ∈ all, s.name ∈ order) :
    mutualExclusion (reconcileRound nodes all order) nodes
      (fun s => decide (s.status = "valid")) = true := by
  rw [C18_round_eq nodes all order hcover]
  have h := C18_mutual_exclusion_spec nodes all hnd
  unfold mutualExclusion at h ⊢
  rw [List.all_eq_true] at h ⊢
  intro n hn
  have hlen := h n hn
  rw [decide_eq_true_eq] at hlen ⊢
  unfold reconciledSettings
  rw [List.filter_map, List.length_map]
  have hp : ((fun s : Setting => decide (s.status = "valid") && (settingMatches s n.labels).getD false)
        ∘ refreshSetting nodes all) =
      (fun s => decide ((settingReconcile s nodes all).1 = "valid") &&
        (settingMatches s n.labels).getD false) := by
    funext s
    simp only [Function.comp]
    rw [← settingMatches_sameSpec (refreshSetting_sameSpec nodes all s)]
    rfl
  rw [hp]
  exact hlen

/-- **The result is a fixed point**: every stored status of the result is what a further reconcile
against the result itself computes (this is the hypothesis `hst` of `C18_unique_choice` and
`C18_choice_order_independent`). -/
theorem C18_round_stable (nodes : List Node) (all : List Setting) (order : List String)
    (hcover : ∀ s ∈ all, s.name ∈ order)
    (s : Setting) (hs : s ∈ reconcileRound nodes all order) :
    settingReconcile s nodes (reconcileRound nodes all order) = (s.status, s.error) := by
  rw [C18_round_eq nodes all order hcover] at hs ⊢
  obtain ⟨s₀, _, rfl⟩ := List.mem_map.mp hs
  rw [← C18_status_independent s₀ (refreshSetting nodes all s₀) nodes all (reconciledSettings nodes all)
    (refreshSetting_sameSpec nodes all s₀) (reconciledSettings_sameSpecs nodes all)]
  rfl

theorem C18_round_statuses_reconciled (nodes : List Node) (all : List Setting) (order : List String)
    (hcover : ∀ s ∈ all, s.name ∈ order) :
    ∀ s ∈ reconcileRound nodes all order,
      s.status = (settingReconcile s nodes (reconcileRound nodes all order)).1 := by
  intro s hs
  rw [C18_round_stable nodes all order hcover s hs]

/-- a second round (any order covering the names) changes nothing. -/
theorem C18_round_idempotent (nodes : List Node) (all : List Setting) (order order' : List String)
    (hcover : ∀ s ∈ all, s.name ∈ order) (hcover' : ∀ s ∈ all, s.name ∈ order') :
    reconcileRound nodes (reconcileRound nodes all order) order' = reconcileRound nodes all order := by
  have hc : ∀ s ∈ reconcileRound nodes all order, s.name ∈ order' := by
    intro s hs
    obtain ⟨s₀, hs₀, hspec⟩ := Forall₂.exists_left (reconcileRound_sameSpecs nodes all order) hs
    rw [← hspec.1]
    exact hcover' s₀ hs₀
  rw [C18_round_eq nodes _ order' hc]
  unfold reconciledSettings
  conv => rhs; rw [← List.map_id (reconcileRound nodes all order)]
  apply List.map_congr_left
  intro s hs
  unfold refreshSetting
  rw [C18_round_stable nodes all order hcover s hs]
  rfl

/-- an `error` verdict of a setting with a reference is a conflict report. -/
theorem settingReconcile_error_message (inst : Setting) (nodes : List Node) (all : List Setting)
    (r : String) (href : inst.reference = some r) (hr : r ≠ "")
    (he : (settingReconcile inst nodes all).1 = "error") :
    ∃ o, (settingReconcile inst nodes all).2 = "conflict with another ExtendedDaemonsetSetting: " ++ o := by
  unfold settingReconcile at he ⊢
  rw [href] at he ⊢
  split at he
  · rename_i heq; cases heq
  · rename_i heq
    simp only [Option.some.injEq] at heq
    exact absurd heq hr
  · split
    · rename_i hsc
      rw [hsc] at he
      exact absurd he (by decide)
    · exact ⟨_, rfl⟩
    · exact ⟨"", by decide⟩

/-- **… and the others report a conflict**: after a round, when a stored-`valid` setting `s` and
another setting `t` of the list both match a node, `t` is stored in `error`, and (having a
reference) its message is a conflict report. -/
theorem C18_round_others_conflict (nodes : List Node) (all : List Setting) (order : List String)
    (hnd : (all.map (·.name)).Nodup) (hcover : ∀ s ∈ all, s.name ∈ order)
    (n : Node) (hn : n ∈ nodes) (s t : Setting)
    (hs : s ∈ reconcileRound nodes all order) (ht : t ∈ reconcileRound nodes all order)
    (hne : s ≠ t) (hvs : s.status = "valid")
    (hms : settingMatches s n.labels = some true)
    (hmt : settingMatches t n.labels = some true) :
    t.status = "error" ∧
    (∀ r, t.reference = some r → r ≠ "" →
      ∃ o, t.error = "conflict with another ExtendedDaemonsetSetting: " ++ o) := by
  have hst := C18_round_stable nodes all order hcover t ht
  have hterr : t.status = "error" := by
    have h1 : (settingReconcile t nodes (reconcileRound nodes all order)).1 = t.status := by rw [hst]
    rcases settingReconcile_status t nodes (reconcileRound nodes all order) with hv | he
    · exact absurd (C18_round_mutual_exclusion nodes all order hnd hcover n hn s t hs ht hvs
        (h1 ▸ hv) hms hmt) hne
    · exact h1 ▸ he
  refine ⟨hterr, fun r href hr => ?_⟩
  have he : (settingReconcile t nodes (reconcileRound nodes all order)).1 = "error" := by
    rw [hst]; exact hterr
  obtain ⟨o, ho⟩ := settingReconcile_error_message t nodes _ r href hr he
  rw [hst] at ho
  exact ⟨o, ho⟩

/-! ### Non-vacuity: three settings with stale statuses, two orders -/

section Examples

/-- pool=a, older than `rNew`: stored `valid`, but in conflict with `rNew` on `node-a`. -/
private def rOld : Setting :=
  ⟨"old", "ns", 10, some "eds", ⟨[⟨"pool", "a"⟩], []⟩, false, [], "valid", ""⟩
/-- selects every node, newest: stored `error` (a conflict that no longer holds), should be `valid`. -/
private def rNew : Setting :=
  ⟨"new", "ns", 20, some "eds", ⟨[], []⟩, false, [], "error",
    "conflict with another ExtendedDaemonsetSetting: gone"⟩
/-- never reconciled yet; an unusable selector. -/
private def rBad : Setting := ⟨"bad", "ns", 30, some "eds", ⟨[], []⟩, true, [], "", ""⟩
private def rNodeA : Node := ⟨"node-a", [⟨"pool", "a"⟩], [], [], "", []⟩
private def rNodeC : Node := ⟨"node-c", [⟨"pool", "c"⟩], [], [], "", []⟩

private def rExpected : List Setting :=
  [{ rOld with status := "error", error := "conflict with another ExtendedDaemonsetSetting: new" },
   { rNew with status := "valid", error := "" },
   { rBad with status := "error", error := "conflict with another ExtendedDaemonsetSetting: " }]

/-- The stale statuses are wrong both ways (`rOld` stored `valid` but in conflict, `rNew` stored `error`
but valid, `rBad` never reconciled); two different orders (the second with a repetition) give the
same list, the spec-determined one, which satisfies the exclusion. -/
example :
    rOld.status = "valid" ∧ rNew.status = "error" ∧
    reconcileRound [rNodeA, rNodeC] [rOld, rNew, rBad] ["old", "new", "bad"] = rExpected ∧
    reconcileRound [rNodeA, rNodeC] [rOld, rNew, rBad] ["bad", "new", "old", "new"] = rExpected ∧
    (([rOld, rNew, rBad].map (·.name)).Nodup) ∧
    mutualExclusion rExpected [rNodeA, rNodeC] (fun s => decide (s.status = "valid")) = true := by
  decide

/-- an incomplete round leaves stale statuses: covering every name is necessary. -/
example :
    reconcileRound [rNodeA, rNodeC] [rOld, rNew, rBad] ["new"]
      = [rOld, { rNew with status := "valid", error := "" }, rBad] ∧
    mutualExclusion (reconcileRound [rNodeA, rNodeC] [rOld, rNew, rBad] ["new"]) [rNodeA, rNodeC]
      (fun s => decide (s.status = "valid")) = false := by
  decide

end Examples

end Eds
