import EdsModel
import EdsSpec.C18
import EdsProofs.SettingCtl
/-
  C18 — At most one valid ExtendedDaemonsetSetting applies to a node.
-/
namespace Eds
open Spec.C18

/-- **Missing reference ⇒ error**, whatever the rest of the cluster looks like. -/
theorem C18_missing_reference_error (inst : Setting) (nodes : List Node) (all : List Setting)
    (h : inst.reference = none ∨ inst.reference = some "") :
    (settingReconcile inst nodes all).1 = "error" := by
  rcases h with h | h <;> simp [settingReconcile, h]

/-- **Only valid settings are attached to nodes, and at most one per node**: the choice made for a
node is a setting whose status is `valid`, that references this ExtendedDaemonSet and matches the
node. -/
theorem C18_only_valid_used (edsName : String) (settings : List Setting) (n : Node) (s : Setting)
    (h : chooseSetting edsName settings n = some (some s)) :
    s.status = "valid" ∧ s.reference = some edsName ∧ settingMatches s n.labels = some true ∧ s ∈ settings := by
  unfold chooseSetting at h
  simp only [] at h
  generalize hm : settings.filter (fun s => s.reference == some edsName) = mine at h
  have hsub : ∀ x ∈ mine, x.reference = some edsName ∧ x ∈ settings := by
    intro x hx
    rw [← hm] at hx
    simp only [List.mem_filter, beq_iff_eq] at hx
    exact ⟨hx.2, hx.1⟩
  clear hm
  induction mine with
  | nil => simp [chooseSetting.go] at h
  | cons x rest ih =>
    unfold chooseSetting.go at h
    split at h
    · exact ih h (fun y hy => hsub y (List.mem_cons_of_mem x hy))
    · rename_i hst
      split at h
      · simp at h
      · rename_i hmatch
        simp only [Option.some.injEq] at h
        subst h
        have := hsub x (List.mem_cons_self)
        simp only [bne_iff_ne, ne_eq, Decidable.not_not] at hst
        exact ⟨hst, this.1, hmatch, this.2⟩
      · exact ih h (fun y hy => hsub y (List.mem_cons_of_mem x hy))

/-! ### Mutual exclusion -/

/-- **Mutual exclusion.** In a namespace whose settings have pairwise distinct names, reconcile
every setting against the same snapshot (`nodes`, `all`). Two settings that both come out `valid`
and whose selectors both match some node `n` of the snapshot have the same name.

(The hypothesis "each setting has a reference" is not needed: a setting without a reference is
never `valid`, `C18_missing_reference_error`.)

Why: both settings have a usable selector (they match), so — names being unique — both runs scan the
very same sorted list of usable settings; on node `n` the one standing later in that list meets the
earlier one in `nodesAlreadySelected` and reports a conflict. -/
theorem C18_mutual_exclusion (nodes : List Node) (all : List Setting)
    (hnd : (all.map (·.name)).Nodup)
    (n : Node) (hn : n ∈ nodes) (s t : Setting) (hs : s ∈ all) (ht : t ∈ all)
    (hvs : (settingReconcile s nodes all).1 = "valid")
    (hvt : (settingReconcile t nodes all).1 = "valid")
    (hms : settingMatches s n.labels = some true)
    (hmt : settingMatches t n.labels = some true) :
    s.name = t.name := by
  apply Decidable.byContradiction
  intro hne
  have hcs := ((settingReconcile_valid_iff s nodes all).mp hvs).2
  have hct := ((settingReconcile_valid_iff t nodes all).mp hvt).2
  rw [searchConflict_eq, usableFor_eq_of_good hnd hs (badSelector_false_of_matches hms),
    searchConflict_go_none_iff] at hcs
  rw [searchConflict_eq, usableFor_eq_of_good hnd ht (badSelector_false_of_matches hmt),
    searchConflict_go_none_iff] at hct
  have hmem : ∀ x : Setting, x ∈ all → x.badSelector = false →
      x ∈ sortSettings (all.filter (fun s => !s.badSelector)) := fun x hx hg =>
    mem_sortSettings.mpr (List.mem_filter.mpr ⟨hx, by simp [hg]⟩)
  exact scan_not_both_none n.labels
    (hmem s hs (badSelector_false_of_matches hms)) (hmem t ht (badSelector_false_of_matches hmt))
    hne hms hmt none ⟨hcs n hn, hct n hn⟩

/-- … hence they are the same setting. -/
theorem C18_mutual_exclusion_eq (nodes : List Node) (all : List Setting)
    (hnd : (all.map (·.name)).Nodup)
    (n : Node) (hn : n ∈ nodes) (s t : Setting) (hs : s ∈ all) (ht : t ∈ all)
    (hvs : (settingReconcile s nodes all).1 = "valid")
    (hvt : (settingReconcile t nodes all).1 = "valid")
    (hms : settingMatches s n.labels = some true)
    (hmt : settingMatches t n.labels = some true) :
    s = t :=
  eq_of_name_eq_of_nodup hnd hs ht (C18_mutual_exclusion nodes all hnd n hn s t hs ht hvs hvt hms hmt)

/-- The same statement through the decidable specification predicate `Spec.C18.mutualExclusion`
(the one the differential-test stream evaluates on real controller output): for every node at
most one setting is both valid and matching. -/
theorem C18_mutual_exclusion_spec (nodes : List Node) (all : List Setting)
    (hnd : (all.map (·.name)).Nodup) :
    mutualExclusion all nodes (fun s => decide ((settingReconcile s nodes all).1 = "valid")) = true := by
  unfold mutualExclusion
  rw [List.all_eq_true]
  intro n hn
  rw [decide_eq_true_eq]
  have hall : all.Nodup := by
    have := List.pairwise_map.mp hnd
    exact this.imp (fun h heq => h (by rw [heq]))
  apply length_le_one_of_all_eq (List.Nodup.sublist List.filter_sublist hall)
  have key : ∀ x : Setting, x ∈ all.filter (fun s =>
      decide ((settingReconcile s nodes all).1 = "valid") && (settingMatches s n.labels).getD false) →
      x ∈ all ∧ (settingReconcile x nodes all).1 = "valid" ∧ settingMatches x n.labels = some true := by
    intro x hx
    rw [List.mem_filter, Bool.and_eq_true, decide_eq_true_eq] at hx
    refine ⟨hx.1, hx.2.1, ?_⟩
    cases hm : settingMatches x n.labels with
    | none => rw [hm] at hx; simp at hx
    | some b => rw [hm] at hx; simp at hx; rw [hx.2.2]
  intro a ha b hb
  obtain ⟨ha1, ha2, ha3⟩ := key a ha
  obtain ⟨hb1, hb2, hb3⟩ := key b hb
  exact C18_mutual_exclusion_eq nodes all hnd n hn a b ha1 hb1 ha2 hb2 ha3 hb3

/-! ### Order independence -/

/-- **The verdict does not depend on the order in which the API server lists the settings**: with
unique names, reconciling against a permutation of the list yields the same status *and* the same
error message. (`sortSettings` is an insertion sort by a total preorder whose only ties are
settings with the same creation time and name, so its output is a function of the multiset.) -/
theorem C18_order_independent (inst : Setting) (nodes : List Node) (all all' : List Setting)
    (hnd : (all.map (·.name)).Nodup) (hp : all'.Perm all) :
    settingReconcile inst nodes all' = settingReconcile inst nodes all := by
  have hsc : searchConflict inst nodes all' = searchConflict inst nodes all := by
    rw [searchConflict_eq, searchConflict_eq]
    congr 1
    apply sortSettings_eq_of_perm (hp.filter _)
    intro a ha b hb hab
    have ha' : a ∈ all := hp.mem_iff.mp (mem_usableFor.mp ha).1
    have hb' : b ∈ all := hp.mem_iff.mp (mem_usableFor.mp hb).1
    exact eq_of_name_eq_of_nodup hnd ha' hb' hab
  unfold settingReconcile
  rw [hsc]

/-- Remark: unique names are necessary for the full statement. Two objects with the same name and
creation time are a tie for the sort, which keeps them in list order; here the instance `a` and
its unusable double `b` (both named `s`) come after the newer `c`, and the *error message* depends on
which of the two the scan meets first (conflict with `c` / selector error). -/
example :
    let c : Setting := ⟨"c", "ns", 1, some "eds", ⟨[], []⟩, false, [], "", ""⟩
    let a : Setting := ⟨"s", "ns", 0, some "eds", ⟨[], []⟩, false, [], "", ""⟩
    let b : Setting := { a with badSelector := true }
    let n : Node := ⟨"n", [], [], [], "", []⟩
    settingReconcile a [n] [c, a, b] = ("error", "conflict with another ExtendedDaemonsetSetting: ") ∧
    settingReconcile a [n] [c, b, a] = ("error", "conflict with another ExtendedDaemonsetSetting: c") := by
  decide

/-! ### Unusable selector -/

/-- **A setting with an unusable selector is in error** as soon as the cluster has a node: the
scan of the first node meets the setting itself (it is never filtered out of its own run) and
stops there with a selector error — unless it stopped earlier with a conflict, which is an error
too. (No hypothesis on the reference is needed: a missing reference is an error as well.) -/
theorem C18_bad_selector_error (inst : Setting) (nodes : List Node) (all : List Setting)
    (hbad : inst.badSelector = true) (hi : inst ∈ all) (hn : nodes ≠ []) :
    (settingReconcile inst nodes all).1 = "error" := by
  apply settingReconcile_error_of_conflict
  rw [searchConflict_eq]
  apply searchConflict_go_ne_none hn
  intro n _
  apply scan_ne_none_of_bad inst.name n.labels (x := inst)
  · exact mem_sortSettings.mpr (mem_usableFor.mpr ⟨hi, fun _ => rfl⟩)
  · exact (settingMatches_eq_none_iff inst n.labels).mpr hbad

/-- Remark: the `nodes ≠ []` hypothesis is necessary. `searchPossibleConflict` only converts the
selectors while it walks the nodes, so in a cluster without nodes a setting with an unusable
selector is reported `valid`. -/
example :
    let a : Setting := ⟨"s", "ns", 0, some "eds", ⟨[], []⟩, true, [], "", ""⟩
    settingReconcile a [] [a] = ("valid", "") := by decide

/-- Remark: so is `inst ∈ all` (the informer cache not yet containing the object being
reconciled): the instance is then never met by the scan. -/
example :
    let a : Setting := ⟨"s", "ns", 0, some "eds", ⟨[], []⟩, true, [], "", ""⟩
    let n : Node := ⟨"n", [], [], [], "", []⟩
    settingReconcile a [n] [] = ("valid", "") := by decide

/-! ### A well-formed setting that overlaps no other is valid -/

/-- **A well-formed setting overlapping no other setting is valid.** Hypotheses: a non-empty
reference, a usable selector, unique names in the namespace (with the instance being the object of
its name: `inst ∈ all`), and no node of the cluster is matched both by the instance and by a
differently named setting. Other settings may have unusable selectors (they are skipped, F9). -/
theorem C18_lonely_valid (inst : Setting) (nodes : List Node) (all : List Setting)
    (r : String) (href : inst.reference = some r) (hr : r ≠ "")
    (hgood : inst.badSelector = false)
    (hnd : (all.map (·.name)).Nodup) (hi : inst ∈ all)
    (hlonely : ∀ n ∈ nodes, ∀ s ∈ all, s.name ≠ inst.name →
      ¬ (settingMatches inst n.labels = some true ∧ settingMatches s n.labels = some true)) :
    (settingReconcile inst nodes all).1 = "valid" := by
  rw [settingReconcile_valid_iff]
  refine ⟨⟨r, href, hr⟩, ?_⟩
  rw [searchConflict_eq, searchConflict_go_none_iff]
  intro n hn
  -- what the scanned list looks like
  have hmem : ∀ x, x ∈ sortSettings (usableFor inst all) →
      x ∈ all ∧ (x.badSelector = true → x.name = inst.name) := fun x hx =>
    mem_usableFor.mp (mem_sortSettings.mp hx)
  have hself : ∀ x, x ∈ sortSettings (usableFor inst all) → x.name = inst.name → x = inst :=
    fun x hx hxn => eq_of_name_eq_of_nodup hnd (hmem x hx).1 hi hxn
  have husable : ∀ x, x ∈ sortSettings (usableFor inst all) → settingMatches x n.labels ≠ none := by
    intro x hx hnone
    have hb := (settingMatches_eq_none_iff x n.labels).mp hnone
    have := hself x hx ((hmem x hx).2 hb)
    subst this
    rw [hgood] at hb
    cases hb
  cases hm : settingMatches inst n.labels with
  | none =>
    rw [(settingMatches_eq_none_iff inst n.labels).mp hm] at hgood
    cases hgood
  | some b =>
    cases b with
    | false =>
      -- the instance does not select this node: nothing named like it matches
      apply scan_none_of_no_inst_match inst.name n.labels husable
      intro x hx hxn
      rw [hself x hx hxn, hm]
      simp
    | true =>
      -- the instance selects this node: nobody else does
      apply scan_none_of_others_false inst.name n.labels (sorted_usable_nodup inst hnd) husable
      intro x hx hxn
      have hnot := hlonely n hn x (hmem x hx).1 hxn
      cases hx' : settingMatches x n.labels with
      | none => exact absurd hx' (husable x hx)
      | some b =>
        cases b with
        | false => rfl
        | true => exact absurd ⟨hm, hx'⟩ hnot

/-- Remark: unique names are necessary in `C18_lonely_valid` — an object listed twice conflicts with
itself. -/
example :
    let a : Setting := ⟨"s", "ns", 0, some "eds", ⟨[], []⟩, false, [], "", ""⟩
    let n : Node := ⟨"n", [], [], [], "", []⟩
    (settingReconcile a [n] [a, a]).1 = "error" := by decide

/-! ### The hypotheses are satisfiable: two overlapping settings, exactly one valid -/

section Examples

private def exOld : Setting := ⟨"old", "ns", 10, some "eds", ⟨[⟨"pool", "a"⟩], []⟩, false, [], "", ""⟩
private def exNew : Setting := ⟨"new", "ns", 20, some "eds", ⟨[], []⟩, false, [], "", ""⟩
private def exBad : Setting := ⟨"bad", "ns", 30, some "eds", ⟨[], []⟩, true, [], "", ""⟩
private def exElse : Setting := ⟨"else", "ns", 5, some "eds", ⟨[⟨"pool", "b"⟩], []⟩, false, [], "", ""⟩
private def exNodeA : Node := ⟨"node-a", [⟨"pool", "a"⟩], [], [], "", []⟩
private def exNodeC : Node := ⟨"node-c", [⟨"pool", "c"⟩], [], [], "", []⟩

/-- `exOld` (pool=a) and `exNew` (selects everything) overlap on `node-a`: the newest is valid, the
other reports the conflict. The unusable `exBad` is in error and does not disturb the others (F9).
`exElse` (pool=b) matches no node, hence overlaps nobody and is valid (`C18_lonely_valid`). The
result is the same for every listing order (`C18_order_independent`). -/
example :
    ([exOld, exNew, exBad, exElse].map (fun s => settingReconcile s [exNodeA, exNodeC] [exOld, exNew, exBad, exElse]))
      = [("error", "conflict with another ExtendedDaemonsetSetting: new"), ("valid", ""),
         ("error", "conflict with another ExtendedDaemonsetSetting: "), ("valid", "")] := by decide

example :
    ([exOld, exNew, exBad, exElse].map (fun s => settingReconcile s [exNodeA, exNodeC] [exElse, exBad, exNew, exOld]))
      = [("error", "conflict with another ExtendedDaemonsetSetting: new"), ("valid", ""),
         ("error", "conflict with another ExtendedDaemonsetSetting: "), ("valid", "")] := by decide

example : (([exOld, exNew, exBad, exElse].map (·.name)).Nodup) := by decide

end Examples

/-! ### The choice made for a node -/

/-- **At most one candidate**: when the stored statuses are the reconciled ones (same snapshot),
two settings of the namespace that are `valid` and match a node of the snapshot are the same
setting — whatever ExtendedDaemonSet they reference. -/
theorem C18_unique_choice (nodes : List Node) (all : List Setting)
    (hnd : (all.map (·.name)).Nodup)
    (hst : ∀ s ∈ all, s.status = (settingReconcile s nodes all).1)
    (n : Node) (hn : n ∈ nodes) (s t : Setting) (hs : s ∈ all) (ht : t ∈ all)
    (hvs : s.status = "valid") (hvt : t.status = "valid")
    (hms : settingMatches s n.labels = some true)
    (hmt : settingMatches t n.labels = some true) :
    s = t :=
  C18_mutual_exclusion_eq nodes all hnd n hn s t hs ht
    (hst s hs ▸ hvs) (hst t ht ▸ hvt) hms hmt

/-- **Every node is affected by at most one setting, independently of the listing order**: under
the hypotheses of `C18_unique_choice`, `getNodeList`'s choice for a node of the snapshot never fails
on a selector and is the same for every permutation of the settings list. -/
theorem C18_choice_order_independent (nodes : List Node) (all all' : List Setting)
    (hnd : (all.map (·.name)).Nodup)
    (hst : ∀ s ∈ all, s.status = (settingReconcile s nodes all).1)
    (hp : all'.Perm all) (edsName : String) (n : Node) (hn : n ∈ nodes) :
    chooseSetting edsName all' n = chooseSetting edsName all n ∧ chooseSetting edsName all n ≠ none := by
  -- facts about any listing `l` of the same settings
  have hgood : ∀ l : List Setting, l.Perm all →
      ∀ x ∈ l.filter (fun s => s.reference == some edsName), x.status = "valid" →
        settingMatches x n.labels ≠ none := by
    intro l hl x hx hv hnone
    have hxa : x ∈ all := hl.mem_iff.mp (List.mem_filter.mp hx).1
    have herr := C18_bad_selector_error x nodes all
      ((settingMatches_eq_none_iff x n.labels).mp hnone) hxa (List.ne_nil_of_mem hn)
    rw [← hst x hxa, hv] at herr
    exact absurd herr (by decide)
  have hcomplete : ∀ l : List Setting, l.Perm all → ∀ s : Setting,
      chooseSetting edsName all n = some (some s) → chooseSetting edsName l n = some (some s) := by
    intro l hl s hc
    obtain ⟨hv, href, hm, hsa⟩ := C18_only_valid_used edsName all n s hc
    show chooseSetting.go n (l.filter (fun s => s.reference == some edsName)) = some (some s)
    apply chooseSetting_go_eq_of_unique n _ hv hm (hgood l hl)
    · intro x hx hxv hxm
      exact C18_unique_choice nodes all hnd hst n hn x s
        (hl.mem_iff.mp (List.mem_filter.mp hx).1) hsa hxv hv hxm hm
    · exact List.mem_filter.mpr ⟨hl.mem_iff.mpr hsa, by simp [href]⟩
  have hne : ∀ l : List Setting, l.Perm all → chooseSetting edsName l n ≠ none := fun l hl =>
    chooseSetting_go_ne_none n (hgood l hl)
  refine ⟨?_, hne all (List.Perm.refl _)⟩
  cases h : chooseSetting edsName all n with
  | none => exact absurd h (hne all (List.Perm.refl _))
  | some o =>
    cases o with
    | some s => exact hcomplete all' hp s h
    | none =>
      cases h' : chooseSetting edsName all' n with
      | none => exact absurd h' (hne all' hp)
      | some o' =>
        cases o' with
        | none => rfl
        | some s' =>
          -- a choice in the permuted list would also be the choice in the original one
          obtain ⟨hv, href, hm, hsa'⟩ := C18_only_valid_used edsName all' n s' h'
          have hsa : s' ∈ all := hp.mem_iff.mp hsa'
          have : chooseSetting edsName all n = some (some s') := by
            show chooseSetting.go n (all.filter (fun s => s.reference == some edsName)) = some (some s')
            apply chooseSetting_go_eq_of_unique n _ hv hm (hgood all (List.Perm.refl _))
            · intro x hx hxv hxm
              exact C18_unique_choice nodes all hnd hst n hn x s' (List.mem_filter.mp hx).1 hsa hxv hv hxm hm
            · exact List.mem_filter.mpr ⟨hsa, by simp [href]⟩
          rw [h] at this
          cases this

/-- Remark ("at most one" by type): the choice is a single optional setting. -/
theorem C18_node_gets_at_most_one (edsName : String) (settings : List Setting) (n : Node) :
    chooseSetting edsName settings n = none ∨ ∃ o : Option Setting, chooseSetting edsName settings n = some o := by
  cases chooseSetting edsName settings n with
  | none => exact Or.inl rfl
  | some o => exact Or.inr ⟨o, rfl⟩

end Eds
