import EdsModel
import EdsSpec.C18
/-
  C18 — At most one valid ExtendedDaemonsetSetting applies to a node.
-/
namespace Eds
open Spec.C18

/-- **Missing reference ⇒ error**, whatever the rest of the cluster looks like. -/
theorem C18_missing_reference_error (inst : Setting) (nodes : List Node) (all : List Setting)
    (h : inst.reference = none ∨ inst.reference = some "") :
    (settingReconcile inst nodes all).1 = "error" := by
  rcases h with h | h <;> simp [settingReconcile, h]

/-- **Only valid settings are attached to nodes, and at most one per node**: the choice made for a
node is a setting whose status is `valid`, that references this ExtendedDaemonSet and matches the
node. -/
theorem C18_only_valid_used (edsName : String) (settings : List Setting) (n : Node) (s : Setting)
    (h : chooseSetting edsName settings n = some (some s)) :
    s.status = "valid" ∧ s.reference = some edsName ∧ settingMatches s n.labels = some true ∧ s ∈ settings := by
  unfold chooseSetting at h
  simp only [] at h
  generalize hm : settings.filter (fun s => s.reference == some edsName) = mine at h
  have hsub : ∀ x ∈ mine, x.reference = some edsName ∧ x ∈ settings := by
    intro x hx
    rw [← hm] at hx
    simp only [List.mem_filter, beq_iff_eq] at hx
    exact ⟨hx.2, hx.1⟩
  clear hm
  induction mine with
  | nil => simp [chooseSetting.go] at h
  | cons x rest ih =>
    unfold chooseSetting.go at h
    split at h
    · exact ih h (fun y hy => hsub y (List.mem_cons_of_mem x hy))
    · rename_i hst
      split at h
      · simp at h
      · rename_i hmatch
        simp only [Option.some.injEq] at h
        subst h
        have := hsub x (List.mem_cons_self)
        simp only [bne_iff_ne, ne_eq, Decidable.not_not] at hst
        exact ⟨hst, this.1, hmatch, this.2⟩
      · exact ih h (fun y hy => hsub y (List.mem_cons_of_mem x hy))

end Eds
