import EdsModel
import EdsSpec.C16
import EdsProofs.Defaults
/-
  C16 — Defaulting is a fixed point and no accepted spec can crash the controller.
-/
namespace Eds
open Spec.C16

/-- **Validation is total on defaulted specs**: it returns a verdict, never a nil dereference. -/
theorem C16_validate_total (s : Strategy) (tn : String) (h : isDefaulted s tn = true) :
    validateSpec s ≠ .panic := by
  unfold validateSpec
  cases hc : s.canary with
  | none => simp
  | some c =>
    simp only []
    have hd : isDefaultedCanary c = true := by
      unfold isDefaulted at h
      simp only [hc, Bool.and_eq_true] at h
      exact h.1.1.2
    unfold isDefaultedCanary at hd
    simp only [Bool.and_eq_true] at hd
    obtain ⟨⟨_, hap⟩, haf⟩ := hd
    unfold isDefaultedAutoPause at hap
    unfold isDefaultedAutoFail at haf
    cases hap' : c.autoPause with
    | none => simp [hap'] at hap
    | some ap =>
      cases haf' : c.autoFail with
      | none => simp [haf'] at haf
      | some af =>
        simp only [hap', haf', Bool.and_eq_true, Option.isSome_iff_exists] at hap haf
        obtain ⟨⟨ape, hape⟩, ⟨apm, hapm⟩⟩ := hap
        obtain ⟨⟨afe, hafe⟩, ⟨afm, hafm⟩⟩ := haf
        have h1 : validateClause1 c = some (afe && ape && decide (afm < apm)) := by
          unfold validateClause1
          simp only [haf', hap', hafe, hape, hafm, hapm, Option.bind_eq_bind, Option.bind_some, Option.pure_def]
          cases afe <;> cases ape <;> simp
        rw [h1]
        cases (afe && ape && decide (afm < apm)) <;> simp <;> (repeat' split) <;> simp

/-! ## Defaulting -/

/-- **Idempotence**: defaulting a defaulted spec changes nothing (any strategy, any default mode,
including modes the controller never passes). -/
theorem C16_idempotent (s : Strategy) (m : String) :
    defaultSpec (defaultSpec s m).1 m = defaultSpec s m := by
  rcases s with ⟨r, c, f⟩
  cases c <;> simp [defaultSpec, defaultRolling_idem, defaultCanary_idem]

/-- **Exact condition for recognition**: the result of defaulting is recognised as defaulted iff
the canary (if any) ends up with a non-empty validation mode, i.e. the user's mode or the default
mode is non-empty. -/
theorem C16_recognised_iff (s : Strategy) (m : String) :
    isDefaulted (defaultSpec s m).1 (defaultSpec s m).2 = true ↔
      ∀ c, s.canary = some c → c.validationMode ≠ "" ∨ m ≠ "" := by
  rcases s with ⟨r, c, f⟩
  cases c with
  | none => simp [isDefaulted, defaultSpec, defaultRolling_defaulted]
  | some c =>
    simp only [isDefaulted, defaultSpec, defaultRolling_defaulted, Option.map_some, Option.isSome_some,
      beq_self_eq_true, Bool.and_true, Bool.true_and, Option.some.injEq, forall_eq']
    constructor
    · intro h
      simp only [isDefaultedCanary, Bool.and_eq_true, bne_iff_ne, ne_eq] at h
      have hne : defaultedMode c m ≠ "" := h.1.1.1.1.2
      unfold defaultedMode at hne
      by_cases h1 : c.validationMode = ""
      · right; simpa [h1] using hne
      · left; exact h1
    · exact defaultCanary_defaulted c m

/-- **Recognised**: with a non-empty default mode (the controller passes "auto" or "manual") the
result of defaulting is recognised as defaulted. -/
theorem C16_recognised (s : Strategy) (m : String) (hm : m ≠ "") :
    isDefaulted (defaultSpec s m).1 (defaultSpec s m).2 = true :=
  (C16_recognised_iff s m).2 (fun _ _ => Or.inr hm)

/-- the controller's instantiation of `C16_recognised`. -/
theorem C16_recognised_ctl (s : Strategy) (m : String) (hm : m = "auto" ∨ m = "manual") :
    isDefaulted (defaultSpec s m).1 (defaultSpec s m).2 = true := by
  apply C16_recognised
  rcases hm with rfl | rfl <;> decide

/-- a canary with every field unset (and the empty validation mode). -/
def cexEmptyCanary : Strategy :=
  { rollingUpdate := { maxUnavailable := none, maxPodSchedulerFailure := none, maxParallelPodCreation := none,
                       slowStartInterval := none, slowStartAdditiveIncrease := none },
    canary := some { replicas := none, duration := none, nodeSelector := none, antiAffinityKeys := [],
                     autoPause := none, autoFail := none, noRestartsDuration := none, validationMode := "" },
    reconcileFrequency := none }

/-- the hypothesis `m ≠ ""` of `C16_recognised` is needed: with an empty user mode and an empty
default mode the defaulted canary keeps the empty mode and is *not* recognised as defaulted. -/
example : isDefaulted (defaultSpec cexEmptyCanary "").1 (defaultSpec cexEmptyCanary "").2 = false := by
  decide

/-- **User values survive**: every field the user set is unchanged by defaulting, and the
template name is cleared. -/
theorem C16_preserves_user (s : Strategy) (m : String) :
    preserves s (defaultSpec s m).1 = true ∧ (defaultSpec s m).2 = "" := by
  refine ⟨?_, rfl⟩
  rcases s with ⟨r, c, f⟩
  simp only [preserves, defaultSpec, defaultRolling_preserves, Bool.true_and, Bool.and_eq_true]
  constructor
  · cases c with
    | none => simp [preservesCanary]
    | some c => simpa using defaultCanary_preserves c m
  · cases f <;> simp

/-- **Fills**: after defaulting, every pointer the reconcilers dereference is set — for every
default mode, even the empty one (`fills` does not ask for a non-empty mode). -/
theorem C16_fills (s : Strategy) (m : String) : fills (defaultSpec s m).1 = true := by
  rcases s with ⟨r, c, f⟩
  cases c with
  | none => simp [fills, defaultSpec, defaultRolling_defaulted]
  | some c =>
    simp only [fills, defaultSpec, defaultRolling_defaulted, Option.map_some, Option.isSome_some,
      Bool.true_and]
    exact defaultCanary_fills c m

/-- **Recognised ⇒ filled.** Whatever `IsDefaultedExtendedDaemonSet` accepts — defaulted by the
controller or written out in full by the user — has every pointer the reconcilers dereference, so
skipping the defaulting step on it is safe. -/
theorem C16_recognised_implies_filled (s : Strategy) (tn : String) (h : isDefaulted s tn = true) :
    fills s = true := by
  unfold isDefaulted at h
  unfold fills
  simp only [Bool.and_eq_true] at h ⊢
  obtain ⟨⟨⟨hr, hc⟩, hf⟩, _⟩ := h
  refine ⟨⟨hr, hf⟩, ?_⟩
  cases hcan : s.canary with
  | none => rfl
  | some c =>
    rw [hcan] at hc
    simp only [] at hc ⊢
    unfold isDefaultedCanary at hc
    simp only [Bool.and_eq_true, Bool.not_eq_true', bne_iff_ne, ne_eq] at hc
    obtain ⟨⟨⟨⟨⟨h1, _⟩, h3⟩, h4⟩, h5⟩, h6⟩ := hc
    simp only [Bool.and_eq_true, Bool.or_eq_true]
    refine ⟨⟨⟨⟨h1, h4⟩, h5⟩, h6⟩, ?_⟩
    by_cases hm : c.validationMode = "auto"
    · right
      simp only [hm, beq_self_eq_true, Bool.and_true] at h3
      cases hd : c.duration with
      | none => simp [hd] at h3
      | some _ => rfl
    · left; simp [hm]

/-- **Defaulting is a no-op on a defaulted spec** — partial version.  `isDefaulted` does not look
at `canary.noRestartsDuration`, but `defaultCanary` fills it in "auto" mode; so the statement
`isDefaulted s tn = true → (defaultSpec s m).1 = s` needs the extra hypothesis that an "auto"
canary already carries its `noRestartsDuration` (counterexample below). -/
theorem C16_default_noop_on_defaulted_partial (s : Strategy) (tn m : String)
    (h : isDefaulted s tn = true)
    (hn : ∀ c, s.canary = some c → c.validationMode = "auto" → c.noRestartsDuration.isSome = true) :
    (defaultSpec s m).1 = s := by
  rcases s with ⟨r, c, f⟩
  simp only [isDefaulted, Bool.and_eq_true] at h
  obtain ⟨⟨⟨hr, hc⟩, hf⟩, _⟩ := h
  simp only [defaultSpec, defaultRolling_noop r hr]
  congr 1
  · cases c with
    | none => rfl
    | some c => simp only [Option.map_some]; rw [defaultCanary_noop c m hc (hn c rfl)]
  · cases f <;> simp at hf ⊢

/-- a fully defaulted "auto" canary without `noRestartsDuration`. -/
def cexAutoNoNRD : Strategy :=
  { rollingUpdate := { maxUnavailable := some (intVal 1), maxPodSchedulerFailure := some (intVal 0),
                       maxParallelPodCreation := some 250, slowStartInterval := some 60,
                       slowStartAdditiveIncrease := some (intVal 1) },
    canary := some { replicas := some (intVal 1), duration := some 600,
                     nodeSelector := some { matchLabels := [], exprs := [] }, antiAffinityKeys := [],
                     autoPause := some { enabled := some true, maxRestarts := some 2, maxSlowStartDuration := none },
                     autoFail := some { enabled := some true, maxRestarts := some 5, maxRestartsDuration := none,
                                        canaryTimeout := none },
                     noRestartsDuration := none, validationMode := "auto" },
    reconcileFrequency := some 10 }

/-- counterexample to the unrestricted no-op statement: the spec is recognised as defaulted, yet
defaulting (in either controller mode) still sets `noRestartsDuration`. -/
example : isDefaulted cexAutoNoNRD "" = true ∧
    (defaultSpec cexAutoNoNRD "auto").1 ≠ cexAutoNoNRD ∧ (defaultSpec cexAutoNoNRD "manual").1 ≠ cexAutoNoNRD ∧
    ((defaultSpec cexAutoNoNRD "auto").1.canary.bind (·.noRestartsDuration)) = some Dflt.canaryNoRestartsDuration := by
  decide

/-- **No defaulting loop**: after defaulting with a non-empty default mode, the reconciler's
"not defaulted" branch is not taken again. -/
theorem C16_no_default_loop (s : Strategy) (m : String) (hm : m ≠ "") :
    isDefaulted (defaultSpec s m).1 "" = true :=
  C16_recognised s m hm

/-! ## Validation -/

/-- (a) auto-fail and auto-pause both enabled with `autoFail.maxRestarts < autoPause.maxRestarts`. -/
theorem C16_validate_rejects_autofail_restarts (s : Strategy) (c : Canary) (af : AutoFail) (ap : AutoPause)
    (a b : Int) (hc : s.canary = some c) (haf : c.autoFail = some af) (hap : c.autoPause = some ap)
    (hafe : af.enabled = some true) (hape : ap.enabled = some true)
    (ha : af.maxRestarts = some a) (hb : ap.maxRestarts = some b) (hlt : a < b) :
    validateSpec s = .errAutoFailRestarts := by
  unfold validateSpec
  simp [hc, validateClause1_eq c af ap true true a b haf hap hafe hape ha hb, hlt]

/-- (b) clause (a) does not fire, auto-fail enabled and `canaryTimeout ≤ duration`. -/
theorem C16_validate_rejects_canary_timeout (s : Strategy) (c : Canary) (af : AutoFail) (ap : AutoPause)
    (ape : Bool) (a b : Int) (t d : Dur)
    (hc : s.canary = some c) (haf : c.autoFail = some af) (hap : c.autoPause = some ap)
    (hafe : af.enabled = some true) (hape : ap.enabled = some ape)
    (ha : af.maxRestarts = some a) (hb : ap.maxRestarts = some b)
    (hna : ¬ (ape = true ∧ a < b))
    (ht : af.canaryTimeout = some t) (hd : c.duration = some d) (htd : t ≤ d) :
    validateSpec s = .errCanaryTimeout := by
  have h1 : validateClause1 c = some false := by
    rw [validateClause1_eq c af ap true ape a b haf hap hafe hape ha hb]
    cases ape <;> simp_all
  unfold validateSpec
  simp [hc, h1, haf, hafe, ht, hd, htd]

/-- (c) clauses (a) and (b) do not fire, mode "manual", `duration` set. -/
theorem C16_validate_rejects_duration_manual (s : Strategy) (c : Canary) (af : AutoFail) (ap : AutoPause)
    (afe ape : Bool) (a b : Int) (d : Dur)
    (hc : s.canary = some c) (haf : c.autoFail = some af) (hap : c.autoPause = some ap)
    (hafe : af.enabled = some afe) (hape : ap.enabled = some ape)
    (ha : af.maxRestarts = some a) (hb : ap.maxRestarts = some b)
    (hna : ¬ (afe = true ∧ ape = true ∧ a < b))
    (hd : c.duration = some d)
    (hnb : ¬ (afe = true ∧ ∃ t, af.canaryTimeout = some t ∧ t ≤ d))
    (hm : c.validationMode = "manual") :
    validateSpec s = .errDurationManual := by
  have h1 : validateClause1 c = some false := by
    rw [validateClause1_eq c af ap afe ape a b haf hap hafe hape ha hb]
    cases afe <;> cases ape <;> simp_all
  unfold validateSpec
  simp only [hc, h1, haf, hafe, hd, hm, Option.bind_some, Option.getD_some]
  cases hto : af.canaryTimeout with
  | none => simp
  | some t =>
    have : ¬ (afe = true ∧ t ≤ d) := fun h => hnb ⟨h.1, t, hto, h.2⟩
    cases afe <;> simp_all

/-- (d) clause (a) does not fire, mode "manual", no `duration`, `noRestartsDuration` set
(clause (b) cannot fire without a `duration`). -/
theorem C16_validate_rejects_norestarts_manual (s : Strategy) (c : Canary) (af : AutoFail) (ap : AutoPause)
    (afe ape : Bool) (a b : Int) (n : Dur)
    (hc : s.canary = some c) (haf : c.autoFail = some af) (hap : c.autoPause = some ap)
    (hafe : af.enabled = some afe) (hape : ap.enabled = some ape)
    (ha : af.maxRestarts = some a) (hb : ap.maxRestarts = some b)
    (hna : ¬ (afe = true ∧ ape = true ∧ a < b))
    (hm : c.validationMode = "manual") (hd : c.duration = none) (hn : c.noRestartsDuration = some n) :
    validateSpec s = .errNoRestartsManual := by
  have h1 : validateClause1 c = some false := by
    rw [validateClause1_eq c af ap afe ape a b haf hap hafe hape ha hb]
    cases afe <;> cases ape <;> simp_all
  unfold validateSpec
  simp only [hc, h1, hd, hm, hn]
  cases af.canaryTimeout <;> simp

/-- an accepted "manual" canary has no `duration`. -/
theorem C16_validate_ok_manual_no_duration (s : Strategy) (c : Canary)
    (hok : validateSpec s = .ok) (hc : s.canary = some c) (hm : c.validationMode = "manual") :
    c.duration = none := by
  unfold validateSpec at hok
  simp only [hc, hm] at hok
  cases hd : c.duration with
  | none => rfl
  | some d =>
    exfalso
    rw [hd] at hok
    cases h1 : validateClause1 c with
    | none => simp [h1] at hok
    | some b =>
      cases b
      · simp only [h1] at hok
        revert hok
        (repeat' split) <;> simp_all
      · simp [h1] at hok

end Eds
