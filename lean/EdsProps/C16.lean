import EdsModel
import EdsSpec.C16
/-
  C16 — Defaulting is a fixed point and no accepted spec can crash the controller.
-/
namespace Eds
open Spec.C16

/-- **Validation is total on defaulted specs**: it returns a verdict, never a nil dereference. -/
theorem C16_validate_total (s : Strategy) (tn : String) (h : isDefaulted s tn = true) :
    validateSpec s ≠ .panic := by
  unfold validateSpec
  cases hc : s.canary with
  | none => simp
  | some c =>
    simp only []
    have hd : isDefaultedCanary c = true := by
      unfold isDefaulted at h
      simp only [hc, Bool.and_eq_true] at h
      exact h.1.1.2
    unfold isDefaultedCanary at hd
    simp only [Bool.and_eq_true] at hd
    obtain ⟨⟨_, hap⟩, haf⟩ := hd
    unfold isDefaultedAutoPause at hap
    unfold isDefaultedAutoFail at haf
    cases hap' : c.autoPause with
    | none => simp [hap'] at hap
    | some ap =>
      cases haf' : c.autoFail with
      | none => simp [haf'] at haf
      | some af =>
        simp only [hap', haf', Bool.and_eq_true, Option.isSome_iff_exists] at hap haf
        obtain ⟨⟨ape, hape⟩, ⟨apm, hapm⟩⟩ := hap
        obtain ⟨⟨afe, hafe⟩, ⟨afm, hafm⟩⟩ := haf
        have h1 : validateClause1 c = some (afe && ape && decide (afm < apm)) := by
          unfold validateClause1
          simp only [haf', hap', hafe, hape, hafm, hapm, Option.bind_eq_bind, Option.bind_some, Option.pure_def]
          cases afe <;> cases ape <;> simp
        rw [h1]
        cases (afe && ape && decide (afm < apm)) <;> simp <;> (repeat' split) <;> simp

end Eds
