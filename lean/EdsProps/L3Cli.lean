import EdsProofs.L3Cli
/-
  L3Cli — property C19 at cluster level: the kubectl-eds commands as operations of the cluster machine
  (`OpC`, `stepC`, `runC` of EdsModel/ClusterCli.lean) and how the controller's NEXT reconciles interpret them.

  EdsProps/C19.lean proves the frame / refusal / interpretation theorems per FUNCTION (`cliRun`, `manageStatus`,
  `selectCurrent`, …).  Here the same statements are runs of the machine of EdsModel/Cluster.lean: the command is a
  step (`.cli cmd`), the controller's answer is the following `reconcileEds` step(s).  Helpers: EdsProofs/L3Cli.lean.

  Standing hypotheses where a canary is running
    `CanaryWorld w a u c`       (EdsProps/L3Live.lean) `a` active, `u ≠ a` up to date, canary strategy `c`, L3 invariants
    `CanaryRunning w u c cs`    (EdsProofs/L3Cli.lean) `status.canary = some cs`, `cs.replicaSet = u.name`, the node
                                selection is settled (requested number = `cs.nodes.length`), `u` has not failed
  Theorems
    2  `L3C_frame`, `L3C_frame_ers`, `L3C_refused_noop`, `L3C_*_stepC` (NamesNodup, HashesNodup, AnnotGen, CanaryNodup)
    3  `L3C_canary_continues` (the reconcile of a continuing canary), then
       (a) `L3C_pause_then_reconcile`   (b) `L3C_unpause_then_reconcile`   (c) `L3C_validate_exact`, `L3C_validate_not_later`
       (d) `L3C_fail_rolls_back`, `L3C_fail_converges`   (e) `L3C_rupause_refused_during_canary`, `L3C_freeze_refused_during_canary`
    4  `Eds.ExCli`: the theorems applied to / the runs evaluated on the worlds of `Eds.ExLive`.
-/
namespace Eds
open Cluster Spec.C19

/-! ## 2. Frame -/

/-- what a kubectl-eds command never touches: pods, nodes, settings, DaemonSets, the clock, and every field of the
ExtendedDaemonSet except its annotations (spec.template and its hash, the strategy, the whole status). -/
structure CliFrame (w w' : World) : Prop where
  pods : w'.pods = w.pods
  nodes : w'.nodes = w.nodes
  settings : w'.settings = w.settings
  daemonsets : w'.daemonsets = w.daemonsets
  now : w'.now = w.now
  eds : w'.eds = { w.eds with annotations := w'.eds.annotations }

/-- **Frame at L3 (ExtendedDaemonSet side).**  A command changes nothing but annotations of the ExtendedDaemonSet,
and among them only the documented keys: every lookup outside `documentedKeys cmd` is unchanged and the entries
outside them are literally the same list.  `canary fail` does not touch the daemonset at all. -/
theorem L3C_frame (w : World) (cmd : CliCmd) :
    CliFrame w (stepC w (.cli cmd)) ∧
    (∀ k, (documentedKeys cmd).contains k = false →
      SMap.get? (stepC w (.cli cmd)).eds.annotations k = SMap.get? w.eds.annotations k) ∧
    (stepC w (.cli cmd)).eds.annotations.filter (fun e => !(documentedKeys cmd).contains e.k) =
      w.eds.annotations.filter (fun e => !(documentedKeys cmd).contains e.k) ∧
    (cmd = .canaryFail → (stepC w (.cli cmd)).eds = w.eds) := by
  rw [stepC_cli_eq]
  refine ⟨⟨rfl, rfl, rfl, rfl, rfl, rfl⟩, ?_, ?_, ?_⟩
  · intro k hk
    show SMap.get? (cliAnn w cmd) k = _
    unfold cliAnn
    split
    · rename_i ann hr
      exact C19_frame_get cmd _ _ _ ann hr k hk
    · rfl
  · show (cliAnn w cmd).filter _ = _
    unfold cliAnn
    split
    · rename_i ann hr
      exact C19_frame_entries cmd _ _ _ ann hr
    · rfl
  · rintro rfl
    show ({ w.eds with annotations := cliAnn w .canaryFail } : EDS) = w.eds
    rw [cliAnn_fail]

/-- **Frame at L3 (replica-set side).**  The replica-set list after a command is the same list with, at most, the
Canary-Failed condition of the CANARY replica set rewritten: an object is touched only by `canary fail`, only when it
is the replica set `status.canary.replicaSet` names in the daemonset's namespace, and then only its status
conditions change — the Canary-Failed one reads True afterwards, the conditions of every other type are the same
list.  Every other command leaves the replica-set list alone. -/
theorem L3C_frame_ers (w : World) (cmd : CliCmd) :
    (stepC w (.cli cmd)).erss = w.erss.map (cliErsMap w cmd) ∧
    (cmd ≠ .canaryFail → (stepC w (.cli cmd)).erss = w.erss) ∧
    (∀ e : ERS, cliErsMap w cmd e = e ∨
      (cmd = .canaryFail ∧ w.eds.strategy.canary.isSome = true ∧
        (∃ cs, w.eds.status.canary = some cs ∧ e.name = cs.replicaSet) ∧ e.ns = w.eds.ns ∧
        cliErsMap w cmd e = { e with status := { e.status with conds := cliFailConds e.status.conds w.now } } ∧
        isCondTrue (cliFailConds e.status.conds w.now) "Canary-Failed" = true ∧
        (cliFailConds e.status.conds w.now).filter (fun c => c.type != "Canary-Failed") =
          e.status.conds.filter (fun c => c.type != "Canary-Failed"))) := by
  refine ⟨by rw [stepC_cli_eq], ?_, ?_⟩
  · intro h
    rw [stepC_cli_eq]
    show w.erss.map (cliErsMap w cmd) = w.erss
    conv => rhs; rw [← List.map_id w.erss]
    exact List.map_congr_left (fun e _ => cliErsMap_of_ne_fail w cmd h e)
  · intro e
    unfold cliErsMap
    split
    · rename_i name hr
      have hcmd := C19_only_fail_touches_ers cmd _ _ _ name hr
      subst hcmd
      obtain ⟨h1, cs, h2, h3⟩ := C19_fail_only_canary_ers _ _ _ name hr
      by_cases hm : (e.ns == w.eds.ns && e.name == name) = true
      · right
        simp only [Bool.and_eq_true, beq_iff_eq] at hm
        refine ⟨rfl, h1, ⟨cs, h2, hm.2.trans h3⟩, hm.1, ?_, cliFailConds_true _ _, cliFailConds_other _ _⟩
        simp [hm.1, hm.2, failErsObj]
      · left
        simp [hm]
    · left; rfl

/-- **A refused command is a no-op.** -/
theorem L3C_refused_noop (w : World) (cmd : CliCmd) (why : String) (h : cliOut w cmd = .refused why) :
    stepC w (.cli cmd) = w := by
  show applyCli w (cliOut w cmd) = w
  rw [h]; rfl

/-- … in particular whenever the documented precondition fails, or the object already is in the requested state. -/
theorem L3C_refused_of_precondition (w : World) (cmd : CliCmd)
    (h : precondition cmd w.eds.strategy.canary.isSome w.eds.status.canary = false ∨
         C19.already cmd w.eds.status.canary w.eds.annotations = true) :
    stepC w (.cli cmd) = w := by
  rcases h with h | h
  · obtain ⟨why, hw⟩ := C19_refuses cmd _ _ w.eds.annotations h
    exact L3C_refused_noop w cmd why hw
  · obtain ⟨why, hw⟩ := C19_refuses_already cmd w.eds.strategy.canary.isSome _ _ h
    exact L3C_refused_noop w cmd why hw

/-! ### the L3 invariants are preserved by `stepC` -/

theorem L3C_namesNodup_stepC (w : World) (op : OpC) (h : NamesNodup w)
    (hf : ∀ o, op = .op o → OpFresh w o) : NamesNodup (stepC w op) := by
  cases op with
  | op o => exact L3_namesNodup_step w o h (hf o rfl)
  | cli cmd =>
    show ((stepC w (.cli cmd)).own.map (·.name)).Nodup
    rw [stepC_cli_own, map_status_frame _ (cliErsMap_eq w cmd) _ (fun _ _ => rfl)]
    exact h

theorem L3C_hashesNodup_stepC (w : World) (op : OpC) (h : HashesNodup w) : HashesNodup (stepC w op) := by
  cases op with
  | op o => exact L3_hashesNodup_step w o h
  | cli cmd =>
    rw [HashesNodup_iff] at h ⊢
    rw [stepC_cli_own, map_status_frame _ (cliErsMap_eq w cmd) _ (fun _ _ => rfl)]
    exact h

theorem L3C_annotGen_stepC (w : World) (op : OpC) (h : AnnotGen w) : AnnotGen (stepC w op) := by
  cases op with
  | op o => exact L3_annotGen_step w o h
  | cli cmd =>
    intro e he
    rw [stepC_cli_own] at he
    obtain ⟨e0, he0, rfl⟩ := List.mem_map.1 he
    rw [cliErsMap_eq w cmd e0]
    exact h e0 he0

theorem L3C_canaryNodup_stepC (w : World) (op : OpC) (h : CanaryNodup w) : CanaryNodup (stepC w op) := by
  cases op with
  | op o => exact L3_canaryNodup_step w o h
  | cli cmd =>
    unfold CanaryNodup at h ⊢
    rw [stepC_cli_eq]
    exact h

/-- the four invariants along every run with commands (fresh names for created replica sets). -/
def RunOkC (C : World → Op → Prop) : World → List OpC → Prop
  | _, [] => True
  | w, .op o :: ops => C w o ∧ RunOkC C (stepC w (.op o)) ops
  | w, .cli cmd :: ops => RunOkC C (stepC w (.cli cmd)) ops

instance RunOkC.dec {C : World → Op → Prop} [∀ w op, Decidable (C w op)] :
    ∀ (w : World) (ops : List OpC), Decidable (RunOkC C w ops)
  | _, [] => isTrue trivial
  | w, .op o :: ops => @instDecidableAnd _ _ inferInstance (RunOkC.dec (stepC w (.op o)) ops)
  | w, .cli cmd :: ops => RunOkC.dec (stepC w (.cli cmd)) ops

theorem L3C_invariants_runC (w : World) (ops : List OpC)
    (h : NamesNodup w ∧ HashesNodup w ∧ AnnotGen w ∧ CanaryNodup w) (hf : RunOkC OpFresh w ops) :
    NamesNodup (runC w ops) ∧ HashesNodup (runC w ops) ∧ AnnotGen (runC w ops) ∧ CanaryNodup (runC w ops) := by
  induction ops generalizing w with
  | nil => exact h
  | cons op ops ih =>
    show _ ∧ _ ∧ _ ∧ _
    unfold runC
    rw [List.foldl_cons]
    cases op with
    | op o =>
      exact ih _ ⟨L3C_namesNodup_stepC w _ h.1 (fun o' ho => by cases ho; exact hf.1),
        L3C_hashesNodup_stepC w _ h.2.1, L3C_annotGen_stepC w _ h.2.2.1, L3C_canaryNodup_stepC w _ h.2.2.2⟩ hf.2
    | cli cmd =>
      exact ih _ ⟨L3C_namesNodup_stepC w _ h.1 (fun o' ho => by cases ho),
        L3C_hashesNodup_stepC w _ h.2.1, L3C_annotGen_stepC w _ h.2.2.1, L3C_canaryNodup_stepC w _ h.2.2.2⟩ hf

/-- a canary in progress is still in progress after any command (the command rewrites at most `u`'s status). -/
theorem L3C_canaryWorld_cli {w : World} {a u : ERS} {c : Canary} (H : CanaryWorld w a u c) (cmd : CliCmd) :
    CanaryWorld (stepC w (.cli cmd)) (cliErsMap w cmd a) (cliErsMap w cmd u) c :=
  H.transfer (cliErsMap w cmd) (cliErsMap_eq w cmd) (stepC_cli_own w cmd)
    (by rw [stepC_cli_eq]) (by rw [stepC_cli_eq]) (by rw [stepC_cli_eq]) (by rw [stepC_cli_eq])

/-! ## 3. Interpretation -/

section Continues
variable {w : World} {a u : ERS} {c : Canary} {cs : CanaryStatus}

/-- **the daemonset reconcile of a continuing canary.**  A canary is running and settled, and
`selectCurrentReplicaSet` keeps the active replica set (no validation, and paused or not yet ended).  Then one
reconcile (all writes applied) reports `Canary Paused` when the pause reader answers true and `Canary` otherwise;
the active replica set and the canary block are unchanged; spec.template, its hash and the annotations are
unchanged; and the canary is still in progress and still running (with `status.desired` the sum of both replica sets'). -/
theorem L3C_canary_continues (H : CanaryWorld w a u c) (R : CanaryRunning w u c cs)
    (hsel : (selectCurrent (some c) w.eds.annotations (some a) u false w.now).1 = .active) (nn m : String) :
    (step w (.reconcileEds nn m)).eds.status.state =
      (if (isCanaryPaused w.eds.annotations (some u)).1 then "Canary Paused" else "Canary") ∧
    (step w (.reconcileEds nn m)).eds.status.activeReplicaSet = a.name ∧
    (step w (.reconcileEds nn m)).eds.status.canary = some cs ∧
    (step w (.reconcileEds nn m)).eds.status.desired = a.status.desired + u.status.desired ∧
    (step w (.reconcileEds nn m)).eds.annotations = w.eds.annotations ∧
    (step w (.reconcileEds nn m)).eds.templateHash = w.eds.templateHash ∧
    (step w (.reconcileEds nn m)).eds.template = w.eds.template ∧
    EdsFrame w (step w (.reconcileEds nn m)) ∧
    CanaryWorld (step w (.reconcileEds nn m)) a u c := by
  rw [step_reconcileEds]
  have hw := H.writes m
  have hsub : EdsSub (edsWrites w m) (edsMain w.eds w.own u w.pods w.nodes w.now) := by
    rw [hw]; exact EdsSub.refl _
  obtain ⟨hdef, hcre⟩ := hsub.main_none
  have hcur : (currentOf w.eds w.own u w.now).1 = a :=
    currentOf_of_active w.eds w.own u a w.now c H.canary H.activeLookup hsel
  have hupd : edsUpd w.eds w.own a u w.pods w.nodes w.now = _ :=
    updateInstance_running w.eds a u _ _ _ w.now (ownPods w.eds w.pods) w.nodes c cs H.canary H.ne R.notFailed
      R.block R.settled
  have hse : (edsUpd w.eds w.own (currentOf w.eds w.own u w.now).1 u w.pods w.nodes w.now).selectErr = false := by
    rw [hcur, hupd]
  have hstatus : (applyEds w (edsWrites w m) nn).eds.status = (edsUpd w.eds w.own a u w.pods w.nodes w.now).status := by
    rw [applyEds_status, hw]
    exact (edsMain_after_status _ _ _ _ _ _ hse).trans (by rw [hcur])
  have hhash0 : (match (edsWrites w m).specUpdate with | some x => x.1 | none => w.eds.templateHash) = w.eds.templateHash := by
    rw [hw]
    refine (edsMain_after_hash _ _ _ _ _ _ hse).trans ?_
    rw [hcur, hupd]
  have hhash : (applyEds w (edsWrites w m) nn).eds.templateHash = w.eds.templateHash := by
    show (applyEdsObj _ _ _).templateHash = _
    rw [applyEdsObj_templateHash]; exact hhash0
  have hann : (applyEds w (edsWrites w m) nn).eds.annotations = w.eds.annotations := by
    show (applyEdsObj _ _ _).annotations = _
    rw [applyEdsObj_annotations, hw]
    refine (edsMain_after_annotations _ _ _ _ _ _ hse).trans ?_
    rw [hcur, hupd]
  have htpl : (applyEds w (edsWrites w m) nn).eds.template = w.eds.template := by
    show (applyEdsObj _ _ _).template = _
    rw [applyEdsObj_template]
    cases hx : (edsWrites w m).specUpdate with
    | none => rfl
    | some x =>
      obtain ⟨h, ann⟩ := x
      rw [hx] at hhash0
      simp only [] at hhash0 ⊢
      rw [hhash0]
      exact restoreTemplate_same _ _ _
  have hfr := applyEds_edsFrame w (edsWrites w m) nn hdef
  have hown := applyEds_own w (edsWrites w m) nn hdef hcre
  have hsublist : (applyEds w (edsWrites w m) nn).own.Sublist w.own := by rw [hown]; exact List.filter_sublist
  have hkept : ∀ e ∈ w.own, e.name = a.name ∨ e.name = u.name → e ∈ (applyEds w (edsWrites w m) nn).own := by
    intro e he hn
    rw [hown, List.mem_filter]
    refine ⟨he, ?_⟩
    have hk := kept_of_edsMain w.eds w.erss u w.pods w.nodes w.now (edsWrites w m) nn hsub.deleted e (mem_own he)
      (by show _ = (currentOf w.eds w.own u w.now).1.name ∨ _; rw [hcur]; exact hn)
    rcases mem_applyErsList _ _ _ _ _ _ hk with ⟨_, h⟩ | ⟨n, h, _⟩
    · rcases h with h | h
      · exact absurd (own_ns he) h
      · simp [h]
    · rw [hcre] at h; cases h
  have hmemu := hkept u H.uOwn (Or.inr rfl)
  have hact : (applyEds w (edsWrites w m) nn).eds.status.activeReplicaSet = a.name := by
    rw [hstatus]; unfold edsUpd; rw [updateInstance_activeReplicaSet]
  rw [hupd] at hstatus
  simp only [] at hstatus
  refine ⟨?_, hact, ?_, ?_, hann, hhash, htpl, hfr, ?_⟩
  · rw [hstatus, C08_canary_state]
    cases (isCanaryPaused w.eds.annotations (some u)).1 <;> rfl
  · rw [hstatus, manageStatus_active]
    show some ({ (w.eds.status.canary.getD { replicaSet := "", nodes := [] }) with replicaSet := u.name } : CanaryStatus) = _
    rw [R.block, ← R.named]
    rfl
  · rw [hstatus, manageStatus_active]
    rfl
  · exact
      { defaulted := by rw [hfr.strategy, hfr.templateName]; exact H.defaulted
        valid := by rw [hfr.strategy]; exact H.valid
        canary := by rw [hfr.strategy]; exact H.canary
        names := List.Nodup.sublist (hsublist.map _) H.names
        hashes := (HashesNodup_iff _).mpr (List.Nodup.sublist (hsublist.map _) ((HashesNodup_iff w).mp H.hashes))
        annotGen := fun e he => H.annotGen e (hsublist.subset he)
        aOwn := hkept a H.aOwn (Or.inl rfl)
        upToDate := by
          apply C07_after_rollback_uptodate _ _ u hmemu
          · rw [hhash]; exact H.uHash
          · intro e he hh
            rw [hhash] at hh
            exact eq_of_nodup_map (fun e : ERS => SMap.get? e.annotations K.templateHashAnnot)
              ((HashesNodup_iff w).mp H.hashes) (hsublist.subset he) H.uOwn (by rw [hh, H.uHash])
        active := hact
        ne := H.ne }

end Continues

/-! ### small transfer lemmas -/

theorem stepC_cli_status (w : World) (cmd : CliCmd) : (stepC w (.cli cmd)).eds.status = w.eds.status := by
  rw [stepC_cli_eq]

theorem stepC_cli_template (w : World) (cmd : CliCmd) :
    (stepC w (.cli cmd)).eds.templateHash = w.eds.templateHash ∧ (stepC w (.cli cmd)).eds.template = w.eds.template := by
  rw [stepC_cli_eq]; exact ⟨rfl, rfl⟩

theorem stepC_cli_annotations (w : World) (cmd : CliCmd) : (stepC w (.cli cmd)).eds.annotations = cliAnn w cmd := by
  rw [stepC_cli_eq]

theorem CanaryRunning.of_status {w w' : World} {u : ERS} {c : Canary} {cs : CanaryStatus}
    (R : CanaryRunning w u c cs) (h : w'.eds.status = w.eds.status) : CanaryRunning w' u c cs :=
  ⟨by rw [h]; exact R.block, R.named, by rw [h]; exact R.settled, R.notFailed⟩

/-- a clock tick changes nothing a `CanaryWorld` reads. -/
theorem CanaryWorld.tick {w : World} {a u : ERS} {c : Canary} (H : CanaryWorld w a u c) (d : Nat) :
    CanaryWorld (step w (.tick d)) a u c :=
  H.transfer id (fun _ => rfl) (List.map_id _).symm rfl rfl rfl rfl

/-- a canary in progress after a command that is not `canary fail`: same `a`, same `u`. -/
theorem L3C_canaryWorld_cli_ne_fail {w : World} {a u : ERS} {c : Canary} (H : CanaryWorld w a u c) (cmd : CliCmd)
    (h : cmd ≠ .canaryFail) : CanaryWorld (stepC w (.cli cmd)) a u c := by
  have := L3C_canaryWorld_cli H cmd
  rwa [cliErsMap_of_ne_fail w cmd h, cliErsMap_of_ne_fail w cmd h] at this

/-- after `canary pause` on a daemonset with a canary strategy and an active canary the canary-paused annotation
reads "true" — whether the command acted or refused because it already did. -/
theorem pause_annotation (w : World) (c : Canary) (cs : CanaryStatus) (hc : w.eds.strategy.canary = some c)
    (hb : w.eds.status.canary = some cs) :
    SMap.get? (stepC w (.cli .canaryPause)).eds.annotations K.canaryPausedAnnot = some "true" := by
  rw [stepC_cli_annotations]
  unfold cliAnn cliOut
  rw [hc, hb]
  cases hal : C19.already .canaryPause (some cs) w.eds.annotations with
  | true =>
    obtain ⟨why, hw⟩ := C19_refuses_already .canaryPause true (some cs) w.eds.annotations hal
    simp only [Option.isSome_some, hw]
    simpa [C19.already] using hal
  | false =>
    have hr := (C19_acts .canaryPause true (some cs) w.eds.annotations rfl hal).1 (by decide)
    simp only [Option.isSome_some, hr]
    exact (C19_pause_annotations true (some cs) _ _ hr).1

/-- after `canary validate` with an active canary the canary-valid annotation names `status.canary.replicaSet`. -/
theorem validate_annotation (w : World) (cs : CanaryStatus) (hb : w.eds.status.canary = some cs) :
    SMap.get? (stepC w (.cli .canaryValidate)).eds.annotations K.canaryValidAnnot = some cs.replicaSet := by
  rw [stepC_cli_annotations]
  unfold cliAnn cliOut
  rw [hb]
  cases hal : C19.already .canaryValidate (some cs) w.eds.annotations with
  | true =>
    obtain ⟨why, hw⟩ := C19_refuses_already .canaryValidate w.eds.strategy.canary.isSome (some cs) w.eds.annotations hal
    simp only [hw]
    simpa [C19.already] using hal
  | false =>
    have hr := (C19_acts .canaryValidate w.eds.strategy.canary.isSome (some cs) w.eds.annotations rfl hal).1 (by decide)
    simp only [hr]
    have := C19_writes _ _ _ _ _ hr
    simpa [writtenOk] using this

/-! ### (a) pause -/

/-- **(a) `L3C_pause_then_reconcile`.**  A canary is running (settled, not failed, not validated).  After
`kubectl eds canary pause`, ANY amount `d` of elapsed time and one daemonset reconcile: `status.state` is
`Canary Paused`, the active replica set and the canary block are unchanged, spec.template and its hash are unchanged —
the canary is NOT promoted however late the clock is — and the canary is still in progress (and running). -/
theorem L3C_pause_then_reconcile {w : World} {a u : ERS} {c : Canary} {cs : CanaryStatus}
    (H : CanaryWorld w a u c) (R : CanaryRunning w u c cs)
    (hv : isCanaryValid w.eds.annotations u.name = false) (d : Nat) (nn m : String) :
    let w' := step (step (stepC w (.cli .canaryPause)) (.tick d)) (.reconcileEds nn m)
    w'.eds.status.state = "Canary Paused" ∧
    w'.eds.status.activeReplicaSet = a.name ∧ w'.eds.status.activeReplicaSet = w.eds.status.activeReplicaSet ∧
    w'.eds.status.canary = some cs ∧ w'.eds.status.canary = w.eds.status.canary ∧
    w'.eds.templateHash = w.eds.templateHash ∧ w'.eds.template = w.eds.template ∧
    SMap.get? w'.eds.annotations K.canaryPausedAnnot = some "true" ∧
    w'.eds.status.desired = a.status.desired + u.status.desired ∧
    CanaryWorld w' a u c := by
  intro w'
  have H1 := (L3C_canaryWorld_cli_ne_fail H .canaryPause (by decide)).tick d
  have R1 : CanaryRunning (step (stepC w (.cli .canaryPause)) (.tick d)) u c cs :=
    R.of_status (stepC_cli_status w .canaryPause)
  have hpa : SMap.get? (step (stepC w (.cli .canaryPause)) (.tick d)).eds.annotations K.canaryPausedAnnot = some "true" :=
    pause_annotation w c cs H.canary R.block
  have hp : (isCanaryPaused (step (stepC w (.cli .canaryPause)) (.tick d)).eds.annotations (some u)).1 = true := by
    rw [C08_pause_sources, hpa]; simp
  have hv1 : isCanaryValid (step (stepC w (.cli .canaryPause)) (.tick d)).eds.annotations u.name = false := by
    unfold isCanaryValid at hv ⊢
    have := (L3C_frame w .canaryPause).2.1 K.canaryValidAnnot (by decide)
    show (SMap.get? (stepC w (.cli .canaryPause)).eds.annotations K.canaryValidAnnot == some u.name) = false
    rw [this]; exact hv
  obtain ⟨h1, h2, h3, h4, h5, h6, h7, _, h9⟩ :=
    L3C_canary_continues H1 R1 (C05_paused_never_by_time c _ a u _ hp hv1) nn m
  rw [hp] at h1
  exact ⟨h1, h2, h2.trans H.active.symm, h3, h3.trans R.block.symm,
    h6.trans (stepC_cli_template w .canaryPause).1, h7.trans (stepC_cli_template w .canaryPause).2,
    by rw [h5]; exact hpa, h4, h9⟩

/-! ### (b) unpause -/

/-- after `canary unpause` (canary strategy, active canary) the canary-paused annotation reads "false" — whether the
command acted or refused because it already did. -/
theorem unpause_annotation (w : World) (c : Canary) (cs : CanaryStatus) (hc : w.eds.strategy.canary = some c)
    (hb : w.eds.status.canary = some cs) :
    SMap.get? (stepC w (.cli .canaryUnpause)).eds.annotations K.canaryPausedAnnot = some "false" := by
  rw [stepC_cli_annotations]
  unfold cliAnn cliOut
  rw [hc, hb]
  cases hal : C19.already .canaryUnpause (some cs) w.eds.annotations with
  | true =>
    obtain ⟨why, hw⟩ := C19_refuses_already .canaryUnpause true (some cs) w.eds.annotations hal
    simp only [Option.isSome_some, hw]
    simpa [C19.already] using hal
  | false =>
    have hr := (C19_acts .canaryUnpause true (some cs) w.eds.annotations rfl hal).1 (by decide)
    simp only [Option.isSome_some, hr]
    exact (C19_unpause_annotations cs _ _ hr).2.1

/-- **(b) `L3C_unpause_then_reconcile`.**  From a world with a running canary (for instance the result of (a): the
hypotheses are (a)'s conclusions): `kubectl eds canary unpause`, any elapsed time `d`, a sync of the canary replica
set `u` (which rewrites `u`'s status: `u2` below), then one daemonset reconcile.  If after the sync `u2` carries
neither a true Canary-Paused nor a true Canary-Failed condition (what `C08_canary_resumes_on_unpause` / C06 give for a
sync that read the unpaused annotation and found no failing pod) then
  * canary NOT ended at that instant  ⟹ `status.state = "Canary"`, active replica set and canary block unchanged;
  * canary ended (duration elapsed, no recent restart) in auto mode ⟹ the reconcile PROMOTES `u2`: no canary in progress, `u2` active.
In both cases spec.template and its hash are unchanged. -/
theorem L3C_unpause_then_reconcile {w : World} {a u : ERS} {c : Canary} {cs : CanaryStatus}
    (H : CanaryWorld w a u c) (R : CanaryRunning w u c cs)
    (hv : isCanaryValid w.eds.annotations u.name = false) (hfind : findErs w u.name = some u)
    (d : Nat) (rel : String → Bool) (aff : Bool) (nn m : String) :
    let w1 := step (stepC w (.cli .canaryUnpause)) (.tick d)
    let w2 := step w1 (.reconcileErs u.name rel aff)
    let u2 : ERS := { u with status := (ersWrites w1 u rel aff).statusUpdate.getD u.status }
    let w3 := step w2 (.reconcileEds nn m)
    SMap.get? w2.eds.annotations K.canaryPausedAnnot = some "false" ∧
    CanaryWorld w2 a u2 c ∧
    (isCondTrue u2.status.conds "Canary-Paused" = false → isCanaryFailed (some u2) = false →
      ((isCanaryEnded (some c) u2 w2.now).1 = false →
        w3.eds.status.state = "Canary" ∧ w3.eds.status.activeReplicaSet = a.name ∧ w3.eds.status.canary = some cs ∧
        w3.eds.templateHash = w.eds.templateHash ∧ w3.eds.template = w.eds.template ∧ CanaryWorld w3 a u2 c) ∧
      ((isCanaryEnded (some c) u2 w2.now).1 = true → c.validationMode = "auto" →
        LiveOn w3 u2 ∧ w3.eds.status.activeReplicaSet = u.name ∧ w3.eds.status.canary = none ∧
        w3.eds.templateHash = w.eds.templateHash ∧ w3.eds.template = w.eds.template)) := by
  intro w1 w2 u2 w3
  have H1 : CanaryWorld w1 a u c := (L3C_canaryWorld_cli_ne_fail H .canaryUnpause (by decide)).tick d
  have hfind1 : findErs w1 u.name = some u := by
    show findErs (stepC w (.cli .canaryUnpause)) u.name = some u
    rw [findErs_stepC_cli, hfind, Option.map_some, cliErsMap_of_ne_fail w _ (by decide)]
  have hw2 : w2 = applyErs w1 u (ersWrites w1 u rel aff) := step_reconcileErs_some w1 u.name rel aff u hfind1
  have hu2 : setStatusOf u (ersWrites w1 u rel aff) u = u2 := setStatusOf_self u _
  have ha2 : setStatusOf u (ersWrites w1 u rel aff) a = a := by
    unfold setStatusOf
    have : (a.name == u.name) = false := by simpa using H.ne
    simp [this]
  have hown2 : w2.own = w1.own.map (setStatusOf u (ersWrites w1 u rel aff)) := by
    rw [hw2]; exact own_applyErs w1 u _
  have heds2 : w2.eds = (stepC w (.cli .canaryUnpause)).eds := by rw [hw2]; rfl
  have H2 : CanaryWorld w2 a u2 c := by
    have := H1.transfer (w' := w2) (setStatusOf u (ersWrites w1 u rel aff)) (setStatusOf_eq u _) hown2
      (by rw [heds2]; rfl) (by rw [heds2]; rfl) (by rw [heds2]; rfl) (by rw [heds2]; rfl)
    rwa [ha2, hu2] at this
  have hpa : SMap.get? w2.eds.annotations K.canaryPausedAnnot = some "false" := by
    rw [heds2]; exact unpause_annotation w c cs H.canary R.block
  have htpl2 : w2.eds.templateHash = w.eds.templateHash ∧ w2.eds.template = w.eds.template := by
    rw [heds2]; exact stepC_cli_template w .canaryUnpause
  refine ⟨hpa, H2, ?_⟩
  intro hnp2 hnf2
  have R2 : CanaryRunning w2 u2 c cs :=
    ⟨by rw [heds2, stepC_cli_status]; exact R.block, R.named,
     by rw [heds2, stepC_cli_status]; exact R.settled, hnf2⟩
  have hp2 : (isCanaryPaused w2.eds.annotations (some u2)).1 = false := by
    rw [C08_pause_sources, hnp2, hpa]; decide
  have hv2 : isCanaryValid w2.eds.annotations u2.name = false := by
    unfold isCanaryValid at hv ⊢
    rw [heds2, (L3C_frame w .canaryUnpause).2.1 K.canaryValidAnnot (by decide)]
    exact hv
  constructor
  · intro he
    have hsel : (selectCurrent (some c) w2.eds.annotations (some a) u2 false w2.now).1 = .active := by
      simp [selectCurrent, hv2, he]
    obtain ⟨h1, h2, h3, _, _, h6, h7, _, h9⟩ := L3C_canary_continues H2 R2 hsel nn m
    rw [hp2] at h1
    exact ⟨h1, h2, h3, h6.trans htpl2.1, h7.trans htpl2.2, h9⟩
  · intro he hm
    obtain ⟨L, _, h1, h2, _⟩ := L3Live_promotion_step H2 (Or.inr ⟨hm, he, hp2, hnf2⟩) nn m
    exact ⟨L, L.active, L.noCanary, h1.trans htpl2.1, h2.trans htpl2.2⟩

/-! ### (c) validate -/

/-- **(c) `L3C_validate_exact`.**  A canary is in progress and the status names `u` as the canary replica set.  After
`kubectl eds canary validate` and one daemonset reconcile, `u` — the replica set that was `status.canary.replicaSet`
when the command ran — is promoted: it is the active replica set, no canary is in progress any more, spec.template
and its hash are unchanged.  No hypothesis on time, pause or failure marks: an explicit validation overrides them. -/
theorem L3C_validate_exact {w : World} {a u : ERS} {c : Canary} {cs : CanaryStatus}
    (H : CanaryWorld w a u c) (hb : w.eds.status.canary = some cs) (hn : cs.replicaSet = u.name) (nn m : String) :
    let w' := step (stepC w (.cli .canaryValidate)) (.reconcileEds nn m)
    isCanaryValid (stepC w (.cli .canaryValidate)).eds.annotations u.name = true ∧
    LiveOn w' u ∧
    w'.eds.status.activeReplicaSet = cs.replicaSet ∧ w'.eds.status.canary = none ∧
    w'.eds.templateHash = w.eds.templateHash ∧ w'.eds.template = w.eds.template ∧
    EdsFrame (stepC w (.cli .canaryValidate)) w' := by
  intro w'
  have H1 := L3C_canaryWorld_cli_ne_fail H .canaryValidate (by decide)
  have hval : isCanaryValid (stepC w (.cli .canaryValidate)).eds.annotations u.name = true := by
    unfold isCanaryValid
    rw [validate_annotation w cs hb, hn]; simp
  obtain ⟨L, F, h1, h2, _⟩ := L3Live_promotion_step H1 (Or.inl hval) nn m
  exact ⟨hval, L, L.active.trans hn.symm, L.noCanary, h1.trans (stepC_cli_template w .canaryValidate).1,
    h2.trans (stepC_cli_template w .canaryValidate).2, F⟩

/-- a replica set created at the world's clock has not ended its canary (durations are not negative). -/
theorem isCanaryEnded_new (c : Canary) (n : ERS) (now : Time) (hcr : n.creation = now)
    (hd : ∀ d, c.duration = some d → 0 ≤ d) : (isCanaryEnded (some c) n now).1 = false := by
  unfold isCanaryEnded
  simp only []
  cases hdu : c.duration with
  | none => rfl
  | some d =>
    have := hd d hdu
    simp only [hcr]
    generalize pendingNoRestart c d n now = pnr
    have hp : (if pnr > now + d - now then pnr else now + d - now) ≥ 0 := by split <;> omega
    rw [if_pos hp]

/-- **(c, continued) `L3C_validate_not_later`.**  The validation names the replica set that was the canary WHEN THE
COMMAND RAN.  If, after `canary validate` and before the next reconcile, the user changes spec.template to a template
no own replica set has (`userSpec` with a new hash `h'`, same strategy and annotations), the next reconcile creates a
NEW up-to-date replica set `n` (named `nn` by the API server) and the reconcile after that does NOT promote it by that
annotation: the annotation still names `u`, `isCanaryValid … n.name = false`, and — `n` being neither paused-exempt nor
old enough to be promoted by time — the active replica set is still `a`. -/
theorem L3C_validate_not_later {w : World} {a u : ERS} {c : Canary} {cs : CanaryStatus}
    (H : CanaryWorld w a u c) (hb : w.eds.status.canary = some cs) (hn : cs.replicaSet = u.name)
    (h' : String) (t' : Template) (nn m nn' m' : String)
    (hnew : ∀ e ∈ w.own, SMap.get? e.annotations K.templateHashAnnot ≠ some h')
    (hfresh : nn ∉ w.own.map (·.name))
    (hd : ∀ d, c.duration = some d → 0 ≤ d) :
    let w1 := stepC w (.cli .canaryValidate)
    let w2 := step w1 (.userSpec h' t' w1.eds.strategy w1.eds.annotations)
    let w3 := step w2 (.reconcileEds nn m)
    let w4 := step w3 (.reconcileEds nn' m')
    let n := ersOfNewAt w2.eds (newReplicaSetFromInstance w2.eds) nn w.now
    w3.own = w.own ++ [n] ∧ upToDateOf w3.eds w3.own = some n ∧ n.name = nn ∧ n.name ≠ u.name ∧
    isCanaryValid w3.eds.annotations u.name = true ∧ isCanaryValid w3.eds.annotations n.name = false ∧
    CanaryWorld w3 a n c ∧
    w4.eds.status.activeReplicaSet = a.name ∧ w4.eds.status.activeReplicaSet ≠ n.name := by
  intro w1 w2 w3 w4 n
  have hune : nn ≠ u.name := fun h => hfresh (List.mem_map.2 ⟨u, H.uOwn, h.symm⟩)
  have hane : a.name ≠ nn := fun h => hfresh (List.mem_map.2 ⟨a, H.aOwn, h⟩)
  have hown1 : w1.own = w.own := by
    show (stepC w (.cli .canaryValidate)).own = w.own
    rw [stepC_cli_own]
    conv => rhs; rw [← List.map_id w.own]
    exact List.map_congr_left (fun e _ => cliErsMap_of_ne_fail w _ (by decide) e)
  have hown2 : w2.own = w.own := hown1
  have hstrat2 : w2.eds.strategy = w.eds.strategy := by
    show (stepC w (.cli .canaryValidate)).eds.strategy = _
    rw [stepC_cli_eq]
  have htn2 : w2.eds.templateName = w.eds.templateName := by
    show (stepC w (.cli .canaryValidate)).eds.templateName = _
    rw [stepC_cli_eq]
  have hst2 : w2.eds.status = w.eds.status := stepC_cli_status w .canaryValidate
  have hnone : upToDateOf w2.eds w2.own = none := by
    unfold upToDateOf
    rw [lastWhere_eq_none_iff]
    intro x hx
    rw [hown2] at hx
    have := hnew x hx
    show (SMap.get? x.annotations K.templateHashAnnot == some h') = false
    simpa using this
  have hwr : edsWrites w2 m = { created := some (newReplicaSetFromInstance w2.eds), requeue := true } := by
    unfold edsWrites reconcileEds
    have h1 : isDefaulted w2.eds.strategy w2.eds.templateName = true := by rw [hstrat2, htn2]; exact H.defaulted
    have h2 : validateSpec w2.eds.strategy = .ok := by rw [hstrat2]; exact H.valid
    have h3 : upToDateOf w2.eds (ownErs w2.eds w2.erss) = none := hnone
    simp only [h1, h2, h3, Bool.not_true, Bool.false_eq_true, if_false]
    simp
  have heds3 : w3.eds = w2.eds := by
    show (applyEds w2 (edsWrites w2 m) nn).eds = w2.eds
    rw [hwr]; rfl
  have hnow3 : w3.now = w.now := by
    show (applyEds w2 (edsWrites w2 m) nn).now = w.now
    show (stepC w (.cli .canaryValidate)).now = w.now
    rw [stepC_cli_eq]
  have hnow2 : w2.now = w.now := by
    show (stepC w (.cli .canaryValidate)).now = w.now
    rw [stepC_cli_eq]
  have hown3 : w3.own = w.own ++ [n] := by
    show ownErs (applyEds w2 (edsWrites w2 m) nn).eds (applyEds w2 (edsWrites w2 m) nn).erss = _
    have : (applyEds w2 (edsWrites w2 m) nn).eds = w2.eds := heds3
    rw [this, applyEds_erss, ownErs_applyErsList w2.eds w2.erss _ nn w2.now (by rw [hwr]; intro n hn; cases hn; rfl), hwr]
    show (ownErs w2.eds w2.erss).filter _ ++ [ersOfNewAt w2.eds (newReplicaSetFromInstance w2.eds) nn w2.now] = _
    rw [hnow2]
    have : ownErs w2.eds w2.erss = w.own := hown2
    rw [this]
    congr 1
    simp
  have hnhash : SMap.get? n.annotations K.templateHashAnnot = some w2.eds.templateHash := ersOfNewAt_hash _ _ _
  have hmemn : n ∈ w3.own := by rw [hown3]; simp
  have hNames : NamesNodup w3 := L3_namesNodup_step w2 (.reconcileEds nn m) (by show (w2.own.map _).Nodup; rw [hown2]; exact H.names)
    (by show nn ∉ w2.own.map (·.name); rw [hown2]; exact hfresh)
  have hHashes : HashesNodup w3 := L3_hashesNodup_step w2 (.reconcileEds nn m)
    (by rw [HashesNodup_iff, hown2]; exact (HashesNodup_iff w).mp H.hashes)
  have hAnnot : AnnotGen w3 := L3_annotGen_step w2 (.reconcileEds nn m)
    (by intro e he; rw [hown2] at he; exact H.annotGen e he)
  have hup3 : upToDateOf w3.eds w3.own = some n := by
    apply C07_after_rollback_uptodate _ _ n hmemn
    · rw [heds3]; exact hnhash
    · intro e he hh
      rw [heds3] at hh
      exact eq_of_nodup_map (fun e : ERS => SMap.get? e.annotations K.templateHashAnnot)
        ((HashesNodup_iff w3).mp hHashes) he hmemn (by rw [hh, hnhash])
  have hann3 : w3.eds.annotations = (stepC w (.cli .canaryValidate)).eds.annotations := by rw [heds3]; rfl
  have hvu : isCanaryValid w3.eds.annotations u.name = true := by
    unfold isCanaryValid
    rw [hann3, validate_annotation w cs hb, hn]; simp
  have hvn : isCanaryValid w3.eds.annotations n.name = false := by
    unfold isCanaryValid
    rw [hann3, validate_annotation w cs hb, hn]
    show (some u.name == some nn) = false
    simpa using fun h => hune h.symm
  have H3 : CanaryWorld w3 a n c :=
    { defaulted := by rw [heds3, hstrat2, htn2]; exact H.defaulted
      valid := by rw [heds3, hstrat2]; exact H.valid
      canary := by rw [heds3, hstrat2]; exact H.canary
      names := hNames
      hashes := hHashes
      annotGen := hAnnot
      aOwn := by rw [hown3]; exact List.mem_append_left _ H.aOwn
      upToDate := hup3
      active := by rw [heds3, hst2]; exact H.active
      ne := hane }
  have hsel : (selectCurrent (some c) w3.eds.annotations (some a) n false w3.now).1 = .active := by
    have he : (isCanaryEnded (some c) n w3.now).1 = false := isCanaryEnded_new c n w3.now (by rw [hnow3]; rfl) hd
    simp [selectCurrent, hvn, he]
  have hcur : (currentOf w3.eds w3.own n w3.now).1 = a :=
    currentOf_of_active w3.eds w3.own n a w3.now c H3.canary H3.activeLookup hsel
  have hact4 : w4.eds.status.activeReplicaSet = a.name := by
    show (applyEds w3 (edsWrites w3 m') nn').eds.status.activeReplicaSet = a.name
    rw [applyEds_status, H3.writes m', edsMain_active_after, hcur]
  exact ⟨hown3, hup3, rfl, hune, hvu, hvn, H3, hact4, by rw [hact4]; exact hane⟩

/-! ### (d) fail -/

theorem cliOut_fail {w : World} {c : Canary} {cs : CanaryStatus} (hc : w.eds.strategy.canary = some c)
    (hb : w.eds.status.canary = some cs) : cliOut w .canaryFail = .failErs cs.replicaSet := by
  unfold cliOut
  rw [hc, hb]; rfl

/-- the world after `canary fail`: only the replica-set list differs. -/
theorem stepC_fail_eq (w : World) :
    stepC w (.cli .canaryFail) = { w with erss := w.erss.map (cliErsMap w .canaryFail) } := by
  rw [stepC_cli_eq, cliAnn_fail]

/-- a failed canary is in progress after `canary fail`: `u` carries a true Canary-Failed condition. -/
theorem L3C_canaryWorld_fail {w : World} {a u : ERS} {c : Canary} {cs : CanaryStatus}
    (H : CanaryWorld w a u c) (hb : w.eds.status.canary = some cs) (hn : cs.replicaSet = u.name) :
    CanaryWorld (stepC w (.cli .canaryFail)) a (failErsObj w.now u) c ∧
    isCanaryFailed (some (failErsObj w.now u)) = true ∧
    findErs (stepC w (.cli .canaryFail)) a.name = findErs w a.name := by
  have hout := cliOut_fail H.canary hb
  have hu : cliErsMap w .canaryFail u = failErsObj w.now u := by
    unfold cliErsMap
    rw [hout]
    simp [own_ns H.uOwn, hn]
  have ha' : ∀ e : ERS, e.name = a.name → cliErsMap w .canaryFail e = e := by
    intro e he
    unfold cliErsMap
    rw [hout]
    have : (e.name == cs.replicaSet) = false := by
      rw [he, hn]; simpa using H.ne
    simp [this]
  have := L3C_canaryWorld_cli H .canaryFail
  rw [hu, ha' a rfl] at this
  refine ⟨this, failErsObj_failed _ _, ?_⟩
  rw [findErs_stepC_cli]
  cases hf : findErs w a.name with
  | none => rfl
  | some e =>
    obtain ⟨_, _, hen⟩ := findErs_ns hf
    rw [Option.map_some, ha' e hen]

/-- **(d) `L3C_fail_rolls_back`.**  A canary is in progress, the status names `u` as the canary replica set and the
canary-valid annotation does not name it.  After `kubectl eds canary fail`:
  (one step)  one daemonset reconcile (all writes applied) rolls back: the active replica set is unchanged (`a`),
              the canary block is cleared, spec.template is `a`'s template again (hash `a.templateGeneration`);
  (two steps) when the spec write of that reconcile is dropped, the next reconcile completes the rollback. -/
theorem L3C_fail_rolls_back {w : World} {a u : ERS} {c : Canary} {cs : CanaryStatus}
    (H : CanaryWorld w a u c) (hb : w.eds.status.canary = some cs) (hn : cs.replicaSet = u.name)
    (hv : isCanaryValid w.eds.annotations u.name = false) (nn m : String) :
    let w1 := stepC w (.cli .canaryFail)
    (LiveOn (step w1 (.reconcileEds nn m)) a ∧
      (step w1 (.reconcileEds nn m)).eds.status.activeReplicaSet = w.eds.status.activeReplicaSet ∧
      (step w1 (.reconcileEds nn m)).eds.status.canary = none ∧
      (step w1 (.reconcileEds nn m)).eds.templateHash = a.templateGeneration ∧
      (step w1 (.reconcileEds nn m)).eds.template = a.template ∧
      EdsFrame w1 (step w1 (.reconcileEds nn m))) ∧
    (∀ (f : Faults) (nn' m' : String), f.edsSpec = false →
      LiveOn (step (stepF f w1 (.reconcileEds nn m)) (.reconcileEds nn' m')) a ∧
      (step (stepF f w1 (.reconcileEds nn m)) (.reconcileEds nn' m')).eds.status.activeReplicaSet =
        w.eds.status.activeReplicaSet ∧
      (step (stepF f w1 (.reconcileEds nn m)) (.reconcileEds nn' m')).eds.status.canary = none ∧
      (step (stepF f w1 (.reconcileEds nn m)) (.reconcileEds nn' m')).eds.templateHash = a.templateGeneration ∧
      (step (stepF f w1 (.reconcileEds nn m)) (.reconcileEds nn' m')).eds.template = a.template ∧
      EdsFrame w1 (step (stepF f w1 (.reconcileEds nn m)) (.reconcileEds nn' m'))) := by
  intro w1
  obtain ⟨H1, hf, _⟩ := L3C_canaryWorld_fail H hb hn
  have hv1 : isCanaryValid w1.eds.annotations (failErsObj w.now u).name = false := by
    show isCanaryValid (stepC w (.cli .canaryFail)).eds.annotations u.name = false
    rw [stepC_cli_annotations, cliAnn_fail]; exact hv
  obtain ⟨⟨L, F, h1, h2, _, _⟩, h'⟩ := L3Live_rollback_steps H1 hf hv1 nn m
  refine ⟨⟨L, L.active.trans H.active.symm, L.noCanary, h1, h2, F⟩, ?_⟩
  intro f nn' m' hp
  obtain ⟨L, F, h1, h2, _, _⟩ := h' f nn' m' hp
  exact ⟨L, L.active.trans H.active.symm, L.noCanary, h1, h2, F⟩

/-- **(d, continued) `L3C_fail_converges`**: "… and subsequently replaces the canary pods".  Under the hypotheses of
`L3Live_converges_after_rollback` for the active replica set `a` (stated in the world BEFORE the command: the command
touches neither the daemonset, nor a pod, nor a node, nor the clock), the run

    `cli canaryFail` :: `reconcileEds nn m` [:: `reconcileEds nn' m'` when the spec write was dropped] :: `k` rounds of `a`

ends in the converged cluster for `a`: every eligible node runs exactly one Ready pod of `a`'s template, which is
spec.template again, and nothing else; the failed canary replica set is an inert leftover. -/
theorem L3C_fail_converges {w : World} {a u : ERS} {c : Canary} {cs : CanaryStatus} {aff : Bool}
    {gen : String → String} {items : List NodeItem}
    (H : CanaryWorld w a u c) (hb : w.eds.status.canary = some cs) (hn : cs.replicaSet = u.name)
    (hv : isCanaryValid w.eds.annotations u.name = false)
    (E : LiveEnv w a aff) (hfind : findErs w a.name = some a)
    (S : CoopStore w.eds a gen items w.store) (hK : StratOk w.eds (fitItems a items).length)
    (hinj : ∀ x y, gen x = gen y → x = y) (clock : Nat → Time) (h0 : w.now ≤ clock 0)
    (hclock : ∀ k, clock k + max 0 (ersFreq w.eds) ≤ clock (k + 1)) (G : GateFree w.eds a (clock 0))
    (nn m : String) (k : Nat) (hk : liveBound w a items ≤ k) :
    let w1 := stepC w (.cli .canaryFail)
    (ClusterConverged (coopRunW a.name aff gen clock k (step w1 (.reconcileEds nn m))) a aff items ∧
      (coopRunW a.name aff gen clock k (step w1 (.reconcileEds nn m))).eds.template = a.template ∧
      ersRole (coopRunW a.name aff gen clock k (step w1 (.reconcileEds nn m))).eds u.name = "unknown") ∧
    (∀ (f : Faults) (nn' m' : String), f.edsSpec = false →
      ClusterConverged
        (coopRunW a.name aff gen clock k (step (stepF f w1 (.reconcileEds nn m)) (.reconcileEds nn' m'))) a aff items ∧
      (coopRunW a.name aff gen clock k (step (stepF f w1 (.reconcileEds nn m)) (.reconcileEds nn' m'))).eds.template
        = a.template ∧
      ersRole (coopRunW a.name aff gen clock k (step (stepF f w1 (.reconcileEds nn m)) (.reconcileEds nn' m'))).eds u.name
        = "unknown") := by
  intro w1
  obtain ⟨H1, hf, hfa⟩ := L3C_canaryWorld_fail H hb hn
  have hv1 : isCanaryValid w1.eds.annotations (failErsObj w.now u).name = false := by
    show isCanaryValid (stepC w (.cli .canaryFail)).eds.annotations u.name = false
    rw [stepC_cli_annotations, cliAnn_fail]; exact hv
  have hfind1 : findErs w1 a.name = some a := hfa.trans hfind
  have heq : w1 = { w with erss := w.erss.map (cliErsMap w .canaryFail) } := stepC_fail_eq w
  have heds : w1.eds = w.eds := by rw [heq]
  have hstore : w1.store = w.store := by rw [heq]; rfl
  have hnow : w1.now = w.now := by rw [heq]
  have E1 : LiveEnv w1 a aff :=
    ⟨E.named, by rw [heds]; exact E.notPaused, by rw [heds]; exact E.notFrozen, by rw [heds]; exact E.noOldDs, E.affOk⟩
  have S1 : CoopStore w1.eds a gen items w1.store := by rw [heds, hstore]; exact S
  have hK1 : StratOk w1.eds (fitItems a items).length := by rw [heds]; exact hK
  have G1 : GateFree w1.eds a (clock 0) := by rw [heds]; exact G
  have hk1 : liveBound w1 a items ≤ k := by unfold liveBound; rw [heds, hstore]; exact hk
  obtain ⟨⟨C, _, t, r⟩, h'⟩ := L3Live_converges_after_rollback H1 hf hv1 E1 hfind1 S1 hK1 hinj clock
    (by rw [hnow]; exact h0) (by rw [heds]; exact hclock) G1 nn m k hk1
  refine ⟨⟨C, t, r⟩, ?_⟩
  intro f nn' m' hp
  obtain ⟨C, _, t, r⟩ := h' f nn' m' hp
  exact ⟨C, t, r⟩

/-! ### (e) rolling-update pause / freeze during a canary -/

/-- **(e)** with `status.canary` set, `rolling-update pause` and `rolling-update unpause` are no-ops of the cluster
machine — whatever `status.state`, the annotations or anything else in the world say. -/
theorem L3C_rupause_refused_during_canary (w : World) (cs : CanaryStatus) (hb : w.eds.status.canary = some cs) :
    stepC w (.cli .ruPause) = w ∧ stepC w (.cli .ruUnpause) = w ∧
    cliOut w .ruPause = .refused "active-canary" ∧ cliOut w .ruUnpause = .refused "active-canary" := by
  have h1 : cliOut w .ruPause = .refused "active-canary" := by unfold cliOut; rw [hb]; rfl
  have h2 : cliOut w .ruUnpause = .refused "active-canary" := by unfold cliOut; rw [hb]; rfl
  exact ⟨L3C_refused_noop w _ _ h1, L3C_refused_noop w _ _ h2, h1, h2⟩

/-- **(e)** the same for `rollout freeze` / `rollout unfreeze`. -/
theorem L3C_freeze_refused_during_canary (w : World) (cs : CanaryStatus) (hb : w.eds.status.canary = some cs) :
    stepC w (.cli .freeze) = w ∧ stepC w (.cli .unfreeze) = w ∧
    cliOut w .freeze = .refused "active-canary" ∧ cliOut w .unfreeze = .refused "active-canary" := by
  have h1 : cliOut w .freeze = .refused "active-canary" := by unfold cliOut; rw [hb]; rfl
  have h2 : cliOut w .unfreeze = .refused "active-canary" := by unfold cliOut; rw [hb]; rfl
  exact ⟨L3C_refused_noop w _ _ h1, L3C_refused_noop w _ _ h2, h1, h2⟩

end Eds

/-! ## 4. Non-vacuity: the commands on the two-node cluster of `Eds.ExLive` -/
namespace Eds.ExCli
open Eds Eds.Cluster Eds.ExLive

def csL : CanaryStatus := { replicaSet := "d-new", nodes := ["n1"] }

/-- one minute into the canary (`wR` without the failure mark): running, settled, not promoted by time yet. -/
def wC : World := { wP with now := minute }

theorem canaryWorldC : CanaryWorld wC aL uL cL where
  defaulted := by decide
  valid := by decide
  canary := by decide
  names := by decide
  hashes := by decide
  annotGen := by decide
  aOwn := by decide
  upToDate := by decide
  active := by decide
  ne := by decide

theorem runningC : CanaryRunning wC uL cL csL := ⟨by decide, by decide, by decide, by decide⟩
theorem runningP : CanaryRunning wP uL cL csL := ⟨by decide, by decide, by decide, by decide⟩

/-- (state, active, canary block, hash of spec.template). -/
def viewC (w : World) : String × String × Option CanaryStatus × String :=
  (w.eds.status.state, w.eds.status.activeReplicaSet, w.eds.status.canary, w.eds.templateHash)

/-! ### frame, refusals, invariants -/

example : (stepC wC (.cli .canaryPause)).eds.annotations =
    [⟨K.canaryPausedAnnot, "true"⟩, ⟨K.canaryUnpausedAnnot, "false"⟩] := by decide
example : (stepC wC (.cli .canaryValidate)).eds.annotations = [⟨K.canaryValidAnnot, "d-new"⟩] := by decide
example : CliFrame wC (stepC wC (.cli .canaryPause)) := (L3C_frame wC .canaryPause).1
/-- `canary fail` rewrites the canary replica set's conditions and nothing else. -/
example : (stepC wC (.cli .canaryFail)).erss =
    [ersL "d-old" "old", ersL "d-new" "new" [⟨"Canary-Failed", "True", minute, minute, "Manually failed", ""⟩]] ∧
    (stepC wC (.cli .canaryFail)).eds = wC.eds ∧ (stepC wC (.cli .canaryFail)).pods = wC.pods := by decide
/-- an earlier `False` entry is rewritten in place (F12): the command is not shadowed. -/
example : cliFailConds [⟨"Canary-Failed", "False", 0, 0, "", ""⟩] 5 = [⟨"Canary-Failed", "True", 5, 5, "Manually failed", ""⟩] := by
  decide
/-- a second `pause` is refused (`L3C_refused_noop`); `unpause` on a canary that was never paused acts. -/
example : stepC (stepC wC (.cli .canaryPause)) (.cli .canaryPause) = stepC wC (.cli .canaryPause) :=
  L3C_refused_noop _ _ "already-paused" (by decide)
example : (stepC wC (.cli .canaryUnpause)).eds.annotations =
    [⟨K.canaryPausedAnnot, "false"⟩, ⟨K.canaryUnpausedAnnot, "true"⟩] := by decide
/-- no canary in progress (after the promotion): the canary commands are refused, `freeze` acts. -/
example : stepC (step wP (.reconcileEds "x" "auto")) (.cli .canaryPause) = step wP (.reconcileEds "x" "auto") :=
  L3C_refused_of_precondition _ _ (Or.inl (by decide))
example : (stepC (step wP (.reconcileEds "x" "auto")) (.cli .freeze)).eds.annotations = [⟨K.rolloutFrozenAnnot, "true"⟩] := by
  decide
example : NamesNodup (runC wC [.cli .canaryFail, .op (.reconcileEds "x" "auto"), .cli .freeze]) :=
  (L3C_invariants_runC wC _ ⟨by decide, by decide, by decide, by decide⟩ (by decide)).1

/-! ### (a) pause -/

/-- `L3C_pause_then_reconcile` applied, one hour later. -/
example : (step (step (stepC wC (.cli .canaryPause)) (.tick 3600000000000)) (.reconcileEds "x" "auto")).eds.status.state = "Canary Paused" :=
  (L3C_pause_then_reconcile canaryWorldC runningC (by decide) 3600000000000 "x" "auto").1
/-- the runs evaluated: at 11 minutes the canary is promoted without the pause and kept with it. -/
example : viewC (step wP (.reconcileEds "x" "auto")) = ("Running", "d-new", none, "new") := by decide
example : viewC (step (stepC wP (.cli .canaryPause)) (.reconcileEds "x" "auto")) =
    ("Canary Paused", "d-old", some csL, "new") := by decide
example : viewC (step (step (stepC wC (.cli .canaryPause)) (.tick 3600000000000)) (.reconcileEds "x" "auto")) =
    ("Canary Paused", "d-old", some csL, "new") := by decide

/-! ### (c) validate -/

/-- `L3C_validate_exact` applied one minute into the canary: promoted at once. -/
example : LiveOn (step (stepC wC (.cli .canaryValidate)) (.reconcileEds "x" "auto")) uL :=
  (L3C_validate_exact canaryWorldC (cs := csL) (by decide) (by decide) "x" "auto").2.1
example : viewC (step wC (.reconcileEds "x" "auto")) = ("Canary", "d-old", some csL, "new") := by decide
example : viewC (step (stepC wC (.cli .canaryValidate)) (.reconcileEds "x" "auto")) = ("Running", "d-new", none, "new") := by
  decide

/-- `L3C_validate_not_later` applied: validate `d-new`, the user then moves spec.template to hash `newer`; the next
reconcile creates `d-newer`, the one after keeps `d-old` active — the annotation names `d-new`, not `d-newer`. -/
example :
    (step (step (step (stepC wC (.cli .canaryValidate))
      (.userSpec "newer" exTemplate01 (stepC wC (.cli .canaryValidate)).eds.strategy (stepC wC (.cli .canaryValidate)).eds.annotations))
      (.reconcileEds "d-newer" "auto")) (.reconcileEds "y" "auto")).eds.status.activeReplicaSet = "d-old" :=
  (L3C_validate_not_later canaryWorldC (cs := csL) (by decide) (by decide) "newer" exTemplate01 "d-newer" "auto" "y" "auto"
    (by decide) (by decide)
    (by intro d h; have h2 : cL.duration = some (10 * minute) := by decide
        rw [h2] at h; cases h; decide)).2.2.2.2.2.2.2.1
example :
    let w3 := step (step (stepC wC (.cli .canaryValidate))
      (.userSpec "newer" exTemplate01 (stepC wC (.cli .canaryValidate)).eds.strategy (stepC wC (.cli .canaryValidate)).eds.annotations))
      (.reconcileEds "d-newer" "auto")
    w3.erss.map (·.name) = ["d-old", "d-new", "d-newer"] ∧
    viewC (step w3 (.reconcileEds "y" "auto")) = ("Canary", "d-old", some { replicaSet := "d-newer", nodes := ["n1"] }, "newer") := by
  decide

/-! ### (b) unpause -/

/-- the result of (a) at one minute. -/
def wA : World := step (step (stepC wC (.cli .canaryPause)) (.tick 0)) (.reconcileEds "x" "auto")

theorem canaryWorldA : CanaryWorld wA aL uL cL :=
  (L3C_pause_then_reconcile canaryWorldC runningC (by decide) 0 "x" "auto").2.2.2.2.2.2.2.2.2
theorem runningA : CanaryRunning wA uL cL csL := ⟨by decide, by decide, by decide, by decide⟩

/-- `L3C_unpause_then_reconcile` applied: 10 s later the state is `Canary` again; 15 minutes later the canary is promoted. -/
example : (step (step (step (stepC wA (.cli .canaryUnpause)) (.tick 10000000000)) (.reconcileErs "d-new" (fun _ => false) true))
    (.reconcileEds "y" "auto")).eds.status.state = "Canary" :=
  (((L3C_unpause_then_reconcile canaryWorldA runningA (by decide) (by decide) 10000000000 (fun _ => false) true "y" "auto").2.2
    (by decide) (by decide)).1 (by decide)).1
example : viewC wA = ("Canary Paused", "d-old", some csL, "new") := by decide
example : viewC (step (step (step (stepC wA (.cli .canaryUnpause)) (.tick 10000000000)) (.reconcileErs "d-new" (fun _ => false) true))
    (.reconcileEds "y" "auto")) = ("Canary", "d-old", some csL, "new") := by decide
example : viewC (step (step (step (stepC wA (.cli .canaryUnpause)) (.tick 900000000000)) (.reconcileErs "d-new" (fun _ => false) true))
    (.reconcileEds "y" "auto")) = ("Running", "d-new", none, "new") := by decide
/-- without the unpause the same run stays paused, however late. -/
example : viewC (step (step (step wA (.tick 900000000000)) (.reconcileErs "d-new" (fun _ => false) true))
    (.reconcileEds "y" "auto")) = ("Canary Paused", "d-old", some csL, "new") := by decide

/-! ### (d) fail -/

/-- `L3C_fail_rolls_back` applied (one step, and two with the spec write dropped). -/
example : LiveOn (step (stepC wC (.cli .canaryFail)) (.reconcileEds "x" "auto")) aL ∧
    LiveOn (step (stepF { edsSpec := false } (stepC wC (.cli .canaryFail)) (.reconcileEds "x" "auto")) (.reconcileEds "y" "auto")) aL :=
  let h := L3C_fail_rolls_back canaryWorldC (cs := csL) (by decide) (by decide) (by decide) "x" "auto"
  ⟨h.1.1, (h.2 { edsSpec := false } "y" "auto" rfl).1⟩
example : viewC (step (stepC wC (.cli .canaryFail)) (.reconcileEds "x" "auto")) = ("Canary Failed", "d-old", none, "old") := by
  decide

theorem envC : LiveEnv wC aL true := ⟨by decide, by decide, by decide, by decide, by decide⟩
theorem edsPodsC : edsPodsOf wC.eds wC.store = podsL := by decide
theorem storeC : CoopStore wC.eds aL genOld itemsL wC.store := storeR
theorem stratC : StratOk wC.eds (fitItems aL itemsL).length := stratR

/-- `L3C_fail_converges` applied: fail, rollback, two cooperative rounds of `d-old` replace the canary pod. -/
example : ClusterConverged (coopRunW "d-old" true genOld clockR 2
    (step (stepC wC (.cli .canaryFail)) (.reconcileEds "x" "auto"))) aL true itemsL :=
  (L3C_fail_converges canaryWorldC (cs := csL) (by decide) (by decide) (by decide) envC (by decide) storeC stratC
    genOld_inj clockR (by decide) clockR_ok gateR "x" "auto" 2 (by decide)).1.1
example : viewP (coopRunW "d-old" true genOld clockR 2 (step (stepC wC (.cli .canaryFail)) (.reconcileEds "x" "auto"))) =
    [("old-2", "n2", some "old", true), ("d-old-n1", "n1", some "old", true)] := by decide

/-! ### (e) -/

example : stepC wC (.cli .ruPause) = wC := (L3C_rupause_refused_during_canary wC csL (by decide)).1
example : stepC wC (.cli .unfreeze) = wC := (L3C_freeze_refused_during_canary wC csL (by decide)).2.1
/-- … whatever `status.state` says: here the state string claims "Running" while `status.canary` is set. -/
example : stepC { wC with eds := { wC.eds with status := { wC.eds.status with state := "Running" } } } (.cli .freeze) =
    { wC with eds := { wC.eds with status := { wC.eds.status with state := "Running" } } } :=
  (L3C_freeze_refused_during_canary _ csL (by decide)).1

/-! ### the hypothesis `isCanaryValid … u.name = false` of (a), (b), (d) cannot be dropped -/

/-- the canary-valid annotation already names `d-new`. -/
def wCV : World := { wC with eds := edsL [⟨K.canaryValidAnnot, "d-new"⟩] }

/-- pause, then reconcile: the validated canary is promoted although it is paused (C05: validation overrides pause). -/
example : viewC (step (stepC wCV (.cli .canaryPause)) (.reconcileEds "x" "auto")) = ("Running", "d-new", none, "new") := by
  decide
/-- fail, then reconcile: the validated canary is promoted although it is failed (the finding recorded in C07 / `ExLive.wV`). -/
example : (step (stepC wCV (.cli .canaryFail)) (.reconcileEds "x" "auto")).eds.status.activeReplicaSet = "d-new" ∧
    isCanaryFailed (findErs (stepC wCV (.cli .canaryFail)) "d-new") = true := by decide

end Eds.ExCli
