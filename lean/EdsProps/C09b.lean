import EdsProofs.ReconcileErs
import EdsProps.C04
/-
  C09 (replica-set side) — the LastFullSync gate: full syncs of one replica set are spaced by at
  least `spec.strategy.reconcileFrequency`.

  Subject: `reconcileErs` (EdsModel/ReconcileErs.lean); inversion lemmas EdsProofs/ReconcileErs.lean.
  `freq` is `d.strategy.reconcileFrequency.getD 0` (`ersFreq d`) for the owner EDS `d`.

    7  `C09_gate`        — a gated sync issues no write at all and requeues for the remaining time
    8  `C09_stamp`       — a written status of a defaulted, non-gated sync carries
                           `LastFullSync = True` with `lastUpdate = now`;
       `C09_stamp_read`  — so does the status the next sync will read, written or not;
       `C09_stamp_written`, `C09_stamp_of_write` — a full / write-issuing sync does write the status
                           [hyp `hlast`: the stored `LastFullSync.lastUpdate ≠ now`];
       `C09_stamp_of_write_pos` — `hlast` follows from `0 < freq`;
       the hypothesis is necessary: with `freq = 0` a sync repeated at the same instant re-issues its
       creations and writes no status (last `example`).
    9  `C09_spacing`, `C09_spacing_unchanged`, `C09_spacing_read` — two write-issuing syncs, the
       second reading the status the first left, are `freq` apart.  No `t₁ < t₂` hypothesis needed.

  All at full strength; no `_partial` theorem in this file.

  Remark (time resolution).  Instants are unbounded integers (nanoseconds) in the model and
  `lastUpdate` is stored as given.  The real API server persists `metav1.Time` with one-second
  resolution, so the timestamp the second sync reads back is `t₁` truncated to the second
  (`⌊t₁⌋ ≤ t₁`); `C09_spacing_read` with `c.lastUpdate = ⌊t₁⌋` then gives `t₂ ≥ ⌊t₁⌋ + freq`, i.e. the
  guaranteed spacing is `freq` minus less than one second.
-/
namespace Eds

section
variable (rs : ERS) (st : ErsStore) (released : String → Bool) (aff : Bool) (now : Time) (d : EDS)

theorem ersGated_of_cond {c : Cond} (hc : findCond rs.status.conds "LastFullSync" = some c) :
    ersGated d rs now = decide (c.lastUpdate + ersFreq d > now) := by
  unfold ersGated; rw [hc]

/-! ### 7. the gate -/

/-- **Gate.**  While `LastFullSync.lastUpdate + freq` is in the future the sync issues no pod write
and no status write, and asks to be requeued after exactly the remaining time. -/
theorem C09_gate (h : ersOwner rs st = some d) (hd : isDefaulted d.strategy d.templateName = true)
    (c : Cond) (hc : findCond rs.status.conds "LastFullSync" = some c)
    (hlt : c.lastUpdate + d.strategy.reconcileFrequency.getD 0 > now) :
    (reconcileErs rs st released aff now).creates = [] ∧
    (reconcileErs rs st released aff now).deletes = [] ∧
    (reconcileErs rs st released aff now).cleanupDeletes = [] ∧
    (reconcileErs rs st released aff now).labelAdds = [] ∧
    (reconcileErs rs st released aff now).labelRemoves = [] ∧
    (reconcileErs rs st released aff now).statusUpdate = none ∧
    (reconcileErs rs st released aff now).requeueAfter =
      c.lastUpdate + d.strategy.reconcileFrequency.getD 0 - now ∧
    (reconcileErs rs st released aff now).earlyErr = false := by
  have hg : ersGated d rs now = true := by
    rw [ersGated_of_cond rs now d hc]; exact decide_eq_true hlt
  have hw : ersGateWait d rs now = c.lastUpdate + d.strategy.reconcileFrequency.getD 0 - now := by
    unfold ersGateWait; rw [hc]; rfl
  have hb : ersBody d rs st released aff now = { requeueAfter := ersGateWait d rs now } := by
    unfold ersBody
    rw [hd, hg]
    rfl
  rw [reconcileErs_eq rs st released aff now d h, hb]
  exact ⟨rfl, rfl, rfl, rfl, rfl, rfl, hw, rfl⟩

/-! ### 8. the stamp -/

/-- the status a full run leaves behind (written, or equal to the stored one) carries the stamp. -/
theorem fullRun_stamp {w : ErsWrites} {items : List NodeItem} {r : StratResult} {adds removes : List String}
    {se : Bool} {st0 : ERSStatus} (F : FullRun d rs st released aff now w items r adds removes se st0) :
    ∃ c, findCond (w.statusUpdate.getD rs.status).conds "LastFullSync" = some c ∧
      c.lastUpdate = now ∧ c.status = "True" := by
  obtain ⟨s1, cs, hs⟩ := ersFinish_statusUpdate rs (ersRole d rs.name) (ersFreq d)
    (ersParams released d rs items (ersPods d st) now) r adds removes se st0 aff now
  rw [F.eq, hs]
  split
  · exact findCond_updateCond_same_true cs now "LastFullSync" "" "full sync" true
  · rename_i hne
    have heq : ({ s1 with conds := updateCond cs now "LastFullSync" "True" "" "full sync" true true } : ERSStatus)
        = rs.status := by simpa using hne
    simp only [Option.getD_none]
    rw [← heq]
    exact findCond_updateCond_same_true cs now "LastFullSync" "" "full sync" true

/-- **Stamp.**  A status written by a defaulted, non-gated sync has `LastFullSync = True` with
`lastUpdate = now`.  (A written status rules the early returns out; the not-defaulted sync writes
`ReconcileError` only, hence `hd`.) -/
theorem C09_stamp (h : ersOwner rs st = some d) (hd : isDefaulted d.strategy d.templateName = true)
    (hg : ersGated d rs now = false)
    (s : ERSStatus) (hs : (reconcileErs rs st released aff now).statusUpdate = some s) :
    ∃ c, findCond s.conds "LastFullSync" = some c ∧ c.lastUpdate = now ∧ c.status = "True" := by
  have he : (reconcileErs rs st released aff now).earlyErr = false := by
    rw [reconcileErs_eq rs st released aff now d h] at hs ⊢
    rcases ersBody_cases d rs st released aff now with h' | ⟨h', _⟩ | ⟨_, h', _⟩ | ⟨_, _, _, _, _, _, F⟩
    · rw [h'] at hs; cases hs
    · rw [hd] at h'; cases h'
    · rw [hg] at h'; cases h'
    · rw [F.eq]; rfl
  obtain ⟨items, r, adds, removes, se, st0, F⟩ := reconcileErs_full rs st released aff now d h hd hg he
  have := fullRun_stamp rs st released aff now d F
  rw [hs] at this
  exact this

/-- the status the next sync reads after a full run — written or left as it was — carries the stamp. -/
theorem C09_stamp_read (h : ersOwner rs st = some d) (hd : isDefaulted d.strategy d.templateName = true)
    (hg : ersGated d rs now = false) (he : (reconcileErs rs st released aff now).earlyErr = false) :
    ∃ c, findCond ((reconcileErs rs st released aff now).statusUpdate.getD rs.status).conds "LastFullSync" = some c ∧
      c.lastUpdate = now ∧ c.status = "True" := by
  obtain ⟨items, r, adds, removes, se, st0, F⟩ := reconcileErs_full rs st released aff now d h hd hg he
  exact fullRun_stamp rs st released aff now d F

/-- **The stamp is written.**  A full run whose stored `LastFullSync.lastUpdate` is not `now` (or that
has no stored `LastFullSync`) writes the status. -/
theorem C09_stamp_written (h : ersOwner rs st = some d) (hd : isDefaulted d.strategy d.templateName = true)
    (hg : ersGated d rs now = false) (he : (reconcileErs rs st released aff now).earlyErr = false)
    (hlast : ∀ c, findCond rs.status.conds "LastFullSync" = some c → c.lastUpdate ≠ now) :
    (reconcileErs rs st released aff now).statusUpdate ≠ none := by
  intro hn
  obtain ⟨c, hc, hu, _⟩ := C09_stamp_read rs st released aff now d h hd hg he
  rw [hn] at hc
  exact hlast c hc hu

/-- a sync that issues any pod write writes the status (same hypothesis on the stored stamp). -/
theorem C09_stamp_of_write (h : ersOwner rs st = some d)
    (hw : (reconcileErs rs st released aff now).issuesPodWrite)
    (hlast : ∀ c, findCond rs.status.conds "LastFullSync" = some c → c.lastUpdate ≠ now) :
    (reconcileErs rs st released aff now).statusUpdate ≠ none := by
  obtain ⟨items, r, adds, removes, se, st0, F⟩ := reconcileErs_full_of_write rs st released aff now d h hw
  intro hn
  obtain ⟨c, hc, hu, _⟩ := fullRun_stamp rs st released aff now d F
  rw [hn] at hc
  exact hlast c hc hu

/-- with a positive reconcile frequency the hypothesis on the stored stamp is automatic: the sync is
not gated, so the stored stamp is at least `freq` old. -/
theorem C09_stamp_of_write_pos (h : ersOwner rs st = some d)
    (hw : (reconcileErs rs st released aff now).issuesPodWrite)
    (hpos : 0 < d.strategy.reconcileFrequency.getD 0) :
    (reconcileErs rs st released aff now).statusUpdate ≠ none := by
  obtain ⟨items, r, adds, removes, se, st0, F⟩ := reconcileErs_full_of_write rs st released aff now d h hw
  refine C09_stamp_of_write rs st released aff now d h hw ?_
  intro c hc hu
  have hg := F.notGated
  rw [ersGated_of_cond rs now d hc] at hg
  have : ¬ (c.lastUpdate + ersFreq d > now) := by simpa using hg
  have hf : ersFreq d = d.strategy.reconcileFrequency.getD 0 := rfl
  omega

end

/-! ### 9. spacing -/

/-- **Spacing**, general form: a write-issuing sync at `t₂` that reads a status whose `LastFullSync`
was stamped at `t` satisfies `t₂ ≥ t + freq`. -/
theorem C09_spacing_read (rs : ERS) (st : ErsStore) (released : String → Bool) (aff : Bool) (t₂ : Time) (d : EDS)
    (h : ersOwner rs st = some d) (hw : (reconcileErs rs st released aff t₂).issuesPodWrite)
    (c : Cond) (hc : findCond rs.status.conds "LastFullSync" = some c) :
    t₂ ≥ c.lastUpdate + d.strategy.reconcileFrequency.getD 0 := by
  obtain ⟨items, r, adds, removes, se, st0, F⟩ := reconcileErs_full_of_write rs st released aff t₂ d h hw
  have hg := F.notGated
  rw [ersGated_of_cond rs t₂ d hc] at hg
  have : ¬ (c.lastUpdate + ersFreq d > t₂) := by simpa using hg
  have hf : ersFreq d = d.strategy.reconcileFrequency.getD 0 := rfl
  omega

/-- two write-issuing syncs, the second reading whatever status the first left behind. -/
theorem C09_spacing_getD (rs₁ rs₂ : ERS) (st₁ st₂ : ErsStore) (rel₁ rel₂ : String → Bool) (aff₁ aff₂ : Bool)
    (t₁ t₂ : Time) (d₁ d₂ : EDS)
    (h₁ : ersOwner rs₁ st₁ = some d₁) (h₂ : ersOwner rs₂ st₂ = some d₂)
    (hw₁ : (reconcileErs rs₁ st₁ rel₁ aff₁ t₁).issuesPodWrite)
    (hw₂ : (reconcileErs rs₂ st₂ rel₂ aff₂ t₂).issuesPodWrite)
    (hread : rs₂.status = (reconcileErs rs₁ st₁ rel₁ aff₁ t₁).statusUpdate.getD rs₁.status) :
    t₂ ≥ t₁ + d₂.strategy.reconcileFrequency.getD 0 := by
  obtain ⟨items, r, adds, removes, se, st0, F⟩ := reconcileErs_full_of_write rs₁ st₁ rel₁ aff₁ t₁ d₁ h₁ hw₁
  obtain ⟨c, hc, hu, _⟩ := fullRun_stamp rs₁ st₁ rel₁ aff₁ t₁ d₁ F
  rw [← hread] at hc
  have := C09_spacing_read rs₂ st₂ rel₂ aff₂ t₂ d₂ h₂ hw₂ c hc
  omega

/-- **Spacing.**  Two write-issuing syncs of a replica set at instants `t₁`, `t₂`, where the second
reads the status `s₁` the first wrote, are at least `freq` apart (`freq` = the reconcile frequency
of the EDS the second sync reads).  If `t₂ < t₁ + freq` the second sync is gated and, by `C09_gate`,
issues no write. -/
theorem C09_spacing (rs₁ rs₂ : ERS) (st₁ st₂ : ErsStore) (rel₁ rel₂ : String → Bool) (aff₁ aff₂ : Bool)
    (t₁ t₂ : Time) (d₁ d₂ : EDS)
    (h₁ : ersOwner rs₁ st₁ = some d₁) (h₂ : ersOwner rs₂ st₂ = some d₂)
    (hw₁ : (reconcileErs rs₁ st₁ rel₁ aff₁ t₁).issuesPodWrite)
    (hw₂ : (reconcileErs rs₂ st₂ rel₂ aff₂ t₂).issuesPodWrite)
    (s₁ : ERSStatus) (hs₁ : (reconcileErs rs₁ st₁ rel₁ aff₁ t₁).statusUpdate = some s₁)
    (hread : rs₂.status = s₁) :
    t₂ ≥ t₁ + d₂.strategy.reconcileFrequency.getD 0 :=
  C09_spacing_getD rs₁ rs₂ st₁ st₂ rel₁ rel₂ aff₁ aff₂ t₁ t₂ d₁ d₂ h₁ h₂ hw₁ hw₂ (by rw [hs₁]; exact hread)

/-- the same when the first sync found its status already current and wrote nothing. -/
theorem C09_spacing_unchanged (rs₁ rs₂ : ERS) (st₁ st₂ : ErsStore) (rel₁ rel₂ : String → Bool) (aff₁ aff₂ : Bool)
    (t₁ t₂ : Time) (d₁ d₂ : EDS)
    (h₁ : ersOwner rs₁ st₁ = some d₁) (h₂ : ersOwner rs₂ st₂ = some d₂)
    (hw₁ : (reconcileErs rs₁ st₁ rel₁ aff₁ t₁).issuesPodWrite)
    (hw₂ : (reconcileErs rs₂ st₂ rel₂ aff₂ t₂).issuesPodWrite)
    (hs₁ : (reconcileErs rs₁ st₁ rel₁ aff₁ t₁).statusUpdate = none)
    (hread : rs₂.status = rs₁.status) :
    t₂ ≥ t₁ + d₂.strategy.reconcileFrequency.getD 0 :=
  C09_spacing_getD rs₁ rs₂ st₁ st₂ rel₁ rel₂ aff₁ aff₂ t₁ t₂ d₁ d₂ h₁ h₂ hw₁ hw₂ (by rw [hs₁]; exact hread)

/-- contrapositive, as the informal statement has it: too early ⇒ no write. -/
theorem C09_too_early_no_write (rs₁ rs₂ : ERS) (st₁ st₂ : ErsStore) (rel₁ rel₂ : String → Bool) (aff₁ aff₂ : Bool)
    (t₁ t₂ : Time) (d₁ d₂ : EDS)
    (h₁ : ersOwner rs₁ st₁ = some d₁) (h₂ : ersOwner rs₂ st₂ = some d₂)
    (hw₁ : (reconcileErs rs₁ st₁ rel₁ aff₁ t₁).issuesPodWrite)
    (hread : rs₂.status = (reconcileErs rs₁ st₁ rel₁ aff₁ t₁).statusUpdate.getD rs₁.status)
    (hearly : t₂ < t₁ + d₂.strategy.reconcileFrequency.getD 0) :
    (reconcileErs rs₂ st₂ rel₂ aff₂ t₂).noPodWrite := by
  rcases reconcileErs_cases rs₂ st₂ rel₂ aff₂ t₂ d₂ h₂ with hno | ⟨items, r, adds, removes, se, st0, F⟩
  · exact hno
  · exfalso
    obtain ⟨items₁, r₁, adds₁, removes₁, se₁, st0₁, F₁⟩ :=
      reconcileErs_full_of_write rs₁ st₁ rel₁ aff₁ t₁ d₁ h₁ hw₁
    obtain ⟨c, hc, hu, _⟩ := fullRun_stamp rs₁ st₁ rel₁ aff₁ t₁ d₁ F₁
    rw [← hread] at hc
    have hg := F.notGated
    rw [ersGated_of_cond rs₂ t₂ d₂ hc] at hg
    have : ¬ (c.lastUpdate + ersFreq d₂ > t₂) := by simpa using hg
    have hf : ersFreq d₂ = d₂.strategy.reconcileFrequency.getD 0 := rfl
    omega

/-! ### Non-vacuity (store of EdsProps/C04.lean: canary replica set `d-new`, `freq` = 10 s) -/

/-- the status written by the first sync at `t₁ = 100`. -/
def exStatus09 : ERSStatus :=
  ((reconcileErs (exErs04 "d-new" "new") exStore04 (fun _ => true) true 100).statusUpdate).getD default

/-- the first sync creates a pod and stamps `LastFullSync.lastUpdate = 100`. -/
example : (reconcileErs (exErs04 "d-new" "new") exStore04 (fun _ => true) true 100).creates.map (·.1) = ["n1"] ∧
    (findCond exStatus09.conds "LastFullSync").map (·.lastUpdate) = some 100 := by decide

/-- 5 s later the sync is gated: nothing is written and it requeues for the remaining 5 s. -/
example : (reconcileErs { exErs04 "d-new" "new" with status := exStatus09 } exStore04 (fun _ => true) true
      (100 + 5 * sec)).noPodWrite ∧
    (reconcileErs { exErs04 "d-new" "new" with status := exStatus09 } exStore04 (fun _ => true) true
      (100 + 5 * sec)).statusUpdate = none ∧
    (reconcileErs { exErs04 "d-new" "new" with status := exStatus09 } exStore04 (fun _ => true) true
      (100 + 5 * sec)).requeueAfter = 5 * sec := by decide

/-- 10 s later it runs again (the pod is still missing in this store, so it is created again). -/
example : (reconcileErs { exErs04 "d-new" "new" with status := exStatus09 } exStore04 (fun _ => true) true
      (100 + 10 * sec)).creates.map (·.1) = ["n1"] := by decide

/-- `hlast` of `C09_stamp_written` is needed: with `reconcileFrequency = 0` a sync repeated at the very
same instant on the status it has just written re-issues the creation and writes no status. -/
def exStatus09z : ERSStatus :=
  ((reconcileErs (exErs04 "d-new" "new") (exStore04 [] true 0) (fun _ => true) true 100).statusUpdate).getD default
example : (reconcileErs { exErs04 "d-new" "new" with status := exStatus09z } (exStore04 [] true 0) (fun _ => true) true
      100).creates.map (·.1) = ["n1"] ∧
    (reconcileErs { exErs04 "d-new" "new" with status := exStatus09z } (exStore04 [] true 0) (fun _ => true) true
      100).statusUpdate = none := by decide

end Eds
