import EdsModel
import EdsProofs.CanaryS
import EdsProofs.ReconcileErs
import EdsProps.C04
/-
  C07 (replica-set side) — the failure mark of a canary replica set is not lost by the replica-set
  controller once the replica set has left the canary role.

  Subject: `reconcileErs` (EdsModel/ReconcileErs.lean); decomposition and inversion lemmas in
  EdsProofs/ReconcileErs.lean; condition-list lemmas `isCondTrue_updateCond_other` (EdsProofs/CanaryS.lean).

  After the EDS controller has rolled a failed canary back, `status.canary` is gone, so the failed
  replica set is neither active nor canary: its role is "unknown".  `cleanupReplicaSet` (C07_retention)
  and the EDS controller's `Canary-Failed` test read the mark from the replica set's status, which the
  replica-set controller keeps rewriting.  Every status it writes in that role still carries the mark:

    * `isCondTrue_ite_updateCond_other`, `preConds_failed_kept`, `manageUnknown_conds`,
      `ersFinish_failed_kept`, `ersNotDefaulted_failed_kept`   — the pieces;
    * `C07_failed_mark_kept`                                   — the statement, at full strength;
    * `C07_failed_mark_kept_read`                              — the same for the status the next sync
                                                                 reads (written, or left as it was);
    * `C07_failed_mark_kept_canary`                            — it also holds in the canary role
                                                                 PROVIDED the strategy itself keeps it
                                                                 (hypothesis on `manageCanaryStatus`);
    * `C07_failed_mark_cleared_active`                         — contrast: the active role clears it
                                                                 (`preConds` writes Canary-Failed=False).

  Conditions touched in the unknown role (all of a type other than "Canary-Failed"):
    not-defaulted path   ReconcileError
    full run             Canary, Active (`preConds`), Unschedule, PodDeletion?, PodCreation?,
                         ReconcileError, LastFullSync    [PodsCleanupDone is canary-role only;
                         `manageUnknown` creates and deletes nothing, so PodDeletion / PodCreation are
                         in fact never touched either, but the proof does not need that]
  No `_partial` theorem in this file.
-/
namespace Eds

/-! ### Condition-list helpers -/

/-- a conditional update of another type leaves `isCondTrue · t` alone. -/
theorem isCondTrue_ite_updateCond_other (b : Bool) (cs : List Cond) (now : Time) (t t' status reason desc : String)
    (w sl : Bool) (hne : t' ≠ t) :
    isCondTrue (if b = true then updateCond cs now t' status reason desc w sl else cs) t = isCondTrue cs t := by
  cases b
  · rfl
  · simp only [if_true]
    exact isCondTrue_updateCond_other cs now t t' status reason desc w sl hne

/-- outside the active role `preConds` does not touch Canary-Failed. -/
theorem preConds_failed_kept (role : String) (cs : List Cond) (now : Time) (hra : role ≠ "active") :
    isCondTrue (preConds role cs now) "Canary-Failed" = isCondTrue cs "Canary-Failed" := by
  unfold preConds
  have h1 : (role == "active") = false := by simpa using hra
  simp only [h1, Bool.false_eq_true, if_false]
  split
  · rw [isCondTrue_updateCond_other _ _ _ _ _ _ _ _ _ (by decide),
      isCondTrue_updateCond_other _ _ _ _ _ _ _ _ _ (by decide)]
  · rw [isCondTrue_updateCond_other _ _ _ _ _ _ _ _ _ (by decide),
      isCondTrue_updateCond_other _ _ _ _ _ _ _ _ _ (by decide)]

/-- in the active role `preConds` leaves Canary-Failed not true. -/
theorem preConds_failed_cleared_active (cs : List Cond) (now : Time) :
    isCondTrue (preConds "active" cs now) "Canary-Failed" = false := by
  unfold preConds
  simp only [beq_self_eq_true, if_true]
  exact isCondTrue_updateCond_same _ now "Canary-Failed" false "" "" false false

/-- `manageUnknown` hands the condition list of `newStatus` on unchanged. -/
theorem manageUnknown_conds (p : StratParams) (wall : Time) (st : ERSStatus)
    (h : (manageUnknown p wall).newStatus = some st) : st.conds = p.newStatus.conds := by
  unfold manageUnknown at h
  simp only [Option.some.injEq] at h
  rw [← h]

/-! ### The pieces of `reconcileErs` -/

/-- whatever the role and the strategy result, the tail of the sync (`ersFinish`) does not touch
Canary-Failed: the status it compares with the stored one has the strategy status's mark. -/
theorem ersFinish_failed_kept (rs : ERS) (role : String) (freq : Dur) (sp : StratParams) (r : StratResult)
    (adds removes : List String) (se : Bool) (st0 : ERSStatus) (aff : Bool) (now : Time)
    (s : ERSStatus) (hs : (ersFinish rs role freq sp r adds removes se st0 aff now).statusUpdate = some s) :
    isCondTrue s.conds "Canary-Failed" = isCondTrue st0.conds "Canary-Failed" := by
  unfold ersFinish at hs
  simp only [] at hs
  rw [Option.ite_none_right_eq_some] at hs
  obtain ⟨_, hs⟩ := hs
  injection hs with hs
  rw [← hs]
  simp only []
  rw [isCondTrue_updateCond_other _ _ _ _ _ _ _ _ _ (by decide),
    isCondTrue_updateCond_other _ _ _ _ _ _ _ _ _ (by decide),
    isCondTrue_ite_updateCond_other _ _ _ _ _ _ _ _ _ _ (by decide),
    isCondTrue_ite_updateCond_other _ _ _ _ _ _ _ _ _ _ (by decide),
    isCondTrue_updateCond_other _ _ _ _ _ _ _ _ _ (by decide),
    isCondTrue_ite_updateCond_other _ _ _ _ _ _ _ _ _ _ (by decide)]

/-- the not-defaulted path updates ReconcileError only. -/
theorem ersNotDefaulted_failed_kept (rs : ERS) (now : Time) (s : ERSStatus)
    (hs : (ersNotDefaulted rs now).statusUpdate = some s) :
    isCondTrue s.conds "Canary-Failed" = isCondTrue rs.status.conds "Canary-Failed" := by
  unfold ersNotDefaulted at hs
  simp only [] at hs
  rw [Option.ite_none_right_eq_some] at hs
  obtain ⟨_, hs⟩ := hs
  injection hs with hs
  rw [← hs]
  simp only []
  rw [isCondTrue_updateCond_other _ _ _ _ _ _ _ _ _ (by decide)]

/-- the status the unknown-role strategy hands to `ersFinish` has the stored mark. -/
theorem fullRun_unknown_st0 {d : EDS} {rs : ERS} {st : ErsStore} {released : String → Bool} {aff : Bool}
    {now : Time} {w : ErsWrites} {items : List NodeItem} {r : StratResult} {adds removes : List String}
    {se : Bool} {st0 : ERSStatus} (F : FullRun d rs st released aff now w items r adds removes se st0)
    (hr : ersRole d rs.name = "unknown") :
    isCondTrue st0.conds "Canary-Failed" = isCondTrue rs.status.conds "Canary-Failed" := by
  have hstrat := F.strat
  rw [hr] at hstrat
  obtain ⟨hrm, _, _, _⟩ := ersStrategy_unknown (by decide) (by decide) hstrat
  have hst := F.status
  rw [hrm] at hst
  rw [manageUnknown_conds _ _ _ hst]
  show isCondTrue (preConds (ersRole d rs.name) rs.status.conds now) "Canary-Failed" = _
  rw [hr]
  exact preConds_failed_kept "unknown" _ now (by decide)

/-! ### The statement -/

section
variable (rs : ERS) (st : ErsStore) (released : String → Bool) (aff : Bool) (now : Time) (d : EDS)

/-- in the unknown role a written status has exactly the stored Canary-Failed truth value. -/
theorem C07_failed_mark_unchanged (h : ersOwner rs st = some d) (hr : ersRole d rs.name = "unknown")
    (s : ERSStatus) (hs : (reconcileErs rs st released aff now).statusUpdate = some s) :
    isCondTrue s.conds "Canary-Failed" = isCondTrue rs.status.conds "Canary-Failed" := by
  rw [reconcileErs_eq rs st released aff now d h] at hs
  rcases ersBody_cases d rs st released aff now with h' | ⟨_, h'⟩ | ⟨_, _, h'⟩ | ⟨items, r, adds, removes, se, st0, F⟩
  · rw [h'] at hs; cases hs
  · rw [h'] at hs
    exact ersNotDefaulted_failed_kept rs now s hs
  · rw [h'] at hs; cases hs
  · rw [F.eq] at hs
    rw [ersFinish_failed_kept _ _ _ _ _ _ _ _ _ _ _ s hs]
    exact fullRun_unknown_st0 F hr

/-- **The failure mark survives the unknown role.** A replica set that is neither active nor canary
and carries Canary-Failed=True still carries it in whatever status its sync writes. -/
theorem C07_failed_mark_kept (rs : ERS) (st : ErsStore) (released : String → Bool) (aff : Bool) (now : Time)
    (d : EDS) (h : ersOwner rs st = some d) (hr : ersRole d rs.name = "unknown")
    (hf : isCondTrue rs.status.conds "Canary-Failed" = true)
    (s : ERSStatus) (hs : (reconcileErs rs st released aff now).statusUpdate = some s) :
    isCondTrue s.conds "Canary-Failed" = true := by
  rw [C07_failed_mark_unchanged rs st released aff now d h hr s hs]
  exact hf

/-- the same for the status the next sync reads: the one written, or the stored one when none is. -/
theorem C07_failed_mark_kept_read (h : ersOwner rs st = some d) (hr : ersRole d rs.name = "unknown")
    (hf : isCondTrue rs.status.conds "Canary-Failed" = true) :
    isCondTrue ((reconcileErs rs st released aff now).statusUpdate.getD rs.status).conds "Canary-Failed" = true := by
  cases hs : (reconcileErs rs st released aff now).statusUpdate with
  | none => exact hf
  | some s => exact C07_failed_mark_kept rs st released aff now d h hr hf s hs

/-- canary role: the controller's own condition updates (Canary, Active, PodsCleanupDone, Unschedule,
PodDeletion, PodCreation, ReconcileError, LastFullSync) keep the mark; whether it is kept then depends
on the canary strategy alone (`hkeep`). -/
theorem C07_failed_mark_kept_canary (h : ersOwner rs st = some d) (hr : ersRole d rs.name = "canary")
    (hf : isCondTrue rs.status.conds "Canary-Failed" = true)
    (hkeep : ∀ (p : StratParams) (r0 : StratResult) (st0 : ERSStatus),
      manageCanaryStatus p now = some r0 → r0.newStatus = some st0 →
      isCondTrue p.newStatus.conds "Canary-Failed" = true → isCondTrue st0.conds "Canary-Failed" = true)
    (s : ERSStatus) (hs : (reconcileErs rs st released aff now).statusUpdate = some s) :
    isCondTrue s.conds "Canary-Failed" = true := by
  rw [reconcileErs_eq rs st released aff now d h] at hs
  rcases ersBody_cases d rs st released aff now with h' | ⟨_, h'⟩ | ⟨_, _, h'⟩ | ⟨items, r, adds, removes, se, st0, F⟩
  · rw [h'] at hs; cases hs
  · rw [h'] at hs
    rw [ersNotDefaulted_failed_kept rs now s hs]; exact hf
  · rw [h'] at hs; cases hs
  · rw [F.eq] at hs
    rw [ersFinish_failed_kept _ _ _ _ _ _ _ _ _ _ _ s hs]
    have hstrat := F.strat
    rw [hr] at hstrat
    obtain ⟨r0, hm, hrm, _⟩ := ersStrategy_canary hstrat
    have hst := F.status
    rw [hrm] at hst
    refine hkeep _ r0 st0 hm hst ?_
    show isCondTrue (preConds (ersRole d rs.name) rs.status.conds now) "Canary-Failed" = true
    rw [hr, preConds_failed_kept "canary" _ now (by decide)]
    exact hf

/-- contrast — the active role: the status handed to the rolling-update strategy has the mark cleared. -/
theorem C07_failed_mark_cleared_active (items : List NodeItem) (pods : List Pod)
    (hr : ersRole d rs.name = "active") :
    isCondTrue (ersParams released d rs items pods now).newStatus.conds "Canary-Failed" = false := by
  show isCondTrue (preConds (ersRole d rs.name) rs.status.conds now) "Canary-Failed" = false
  rw [hr]
  exact preConds_failed_cleared_active _ now

end

/-! ### Non-vacuity (store of EdsProps/C04.lean; `d-x` is neither the active `d-old` nor the canary `d-new`) -/

/-- a stored Canary-Failed=True condition, set at instant 50. -/
def exFailed07 : Cond :=
  { type := "Canary-Failed", status := "True", lastTransition := 50, lastUpdate := 50, reason := "", message := "" }

/-- the hypotheses of `C07_failed_mark_kept` hold, a status IS written (full run through
`manageUnknown`), and it carries the mark. -/
example : ersOwner (exErs04 "d-x" "x" [exFailed07]) exStore04 = some exEds04 ∧
    ersRole exEds04 (exErs04 "d-x" "x" [exFailed07]).name = "unknown" ∧
    isCondTrue (exErs04 "d-x" "x" [exFailed07]).status.conds "Canary-Failed" = true ∧
    isDefaulted (exEds04).strategy (exEds04).templateName = true ∧
    ((reconcileErs (exErs04 "d-x" "x" [exFailed07]) exStore04 (fun _ => true) true 100).statusUpdate).isSome = true ∧
    (((reconcileErs (exErs04 "d-x" "x" [exFailed07]) exStore04 (fun _ => true) true 100).statusUpdate).getD default
      ).conds.map (fun c => (c.type, c.status)) =
      [("Canary-Failed", "True"), ("LastFullSync", "True")] := by
  decide

/-- a stored condition of type `t`, status `s`, set at instant 50. -/
def exCond07 (t s : String) : Cond :=
  { type := t, status := s, lastTransition := 50, lastUpdate := 50, reason := "", message := "" }

/-- with the conditions of its canary time still stored around the mark (Canary=True before it,
ReconcileError=True after it) the sync rewrites both neighbours and leaves the mark. -/
example :
    ((reconcileErs (exErs04 "d-x" "x" [exCond07 "Canary" "True", exFailed07, exCond07 "ReconcileError" "True"])
        exStore04 (fun _ => true) true 100).statusUpdate.getD default).conds.map (fun c => (c.type, c.status)) =
      [("Canary", "False"), ("Canary-Failed", "True"), ("ReconcileError", "False"), ("LastFullSync", "True")] := by
  decide

/-- the not-defaulted path (owner with a template name set, hence `isDefaulted = false`) writes a status
too, with ReconcileError appended after the mark. -/
example :
    let d : EDS := { exEds04 with templateName := "tpl" }
    let st : ErsStore := { exStore04 with edss := [d] }
    ersOwner (exErs04 "d-x" "x" [exFailed07]) st = some d ∧
    ersRole d "d-x" = "unknown" ∧ isDefaulted d.strategy d.templateName = false ∧
    ((reconcileErs (exErs04 "d-x" "x" [exFailed07]) st (fun _ => true) true 100).statusUpdate.getD default
      ).conds.map (fun c => (c.type, c.status)) = [("Canary-Failed", "True"), ("ReconcileError", "True")] := by
  decide

end Eds
