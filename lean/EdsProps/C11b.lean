import EdsProps.C14b
import EdsProps.C01b
import EdsProofs.ErsRun
/-
  C11 / C02 — UNIQUENESS of the fixpoint failure-free reconciliation converges to.

  Property text (C11): "Subsequent failure-free reconciliation then converges to the same final pods
  and status as the run without the failure."  Convergence is C02's statement (`C02_converges_coop`,
  scenario streams).  This file proves that the state converged to does not depend on the path: any
  two quiescent stores over the same nodes, the same EDS strategy and the same active replica set carry
  the same pods up to names / creation times / list order, and `reconcileErs` reports the same status
  counters on both and writes no pod on either.

  `QuiescentAt d rs st items` (store level, for the ACTIVE replica set `rs` of EDS `d`, no canary):
    * `rs` is owned by the stored, defaulted EDS `d`, is its active replica set, `d.status.canary = none`;
    * the node listing of the sync succeeds with `items`, node names distinct;
    * every listed node that is fit for `rs.template` has EXACTLY ONE pod of the EDS (`ersPods d st`: the
      pods carrying the EDS name label in the namespace, plus the pods of the DaemonSet being migrated);
    * every pod of the EDS is scheduled on such a node, live (not terminating, phase Running), Ready, carries
      no canary label and is up to date for its node in the controller's own sense
      (`comparePod rs.templateGeneration`: template-hash annotation = `rs.templateGeneration`, setting
      overrides and node resource hash as expected) — hence there is NO OTHER pod of the EDS.
  `Quiescent d rs st := ∃ items, QuiescentAt d rs st items`.

  `Spec.C02.fixpoint` (EdsSpec/C02.lean) is the same situation seen by the scenario harness: it is stated
  over the harness's `PodView` (node, hash, ready, phase, terminating, ns, eds) and over `d.template` /
  `d.templateHash`, while `reconcileErs` reads full pods, `rs.template`, `rs.templateGeneration`, settings
  and node hashes; it is therefore not reused as the definition, but `C11_quiescent_spec_fixpoint` shows
  that a quiescent store satisfies it (under `rs.template = d.template`,
  `rs.templateGeneration = d.templateHash`, listing unfiltered, no DaemonSet migration).

    1  `C11_quiescent_no_write`      — at a quiescent store a sync issues no pod write (any back-off state,
                                       affinity mode, clock) — store-level form of `C02_fixpoint` /
                                       `C14_quiescent_counts`;
    2  `C11_quiescent_counters`      — the (desired, current, ready, available, ignored) the next sync reads are
                                       `quiescentCounters d.strategy rs N now`, a function of the strategy, the
                                       replica set, the clock and the NUMBER `N` of listed fit nodes only
                                       (all `N` when the sync runs; the stored ones when it is gated or
                                       `ManageDeployment` returns early);
    3  `C11_quiescent_assignment`    — the multiset of (node, template hash) pairs of the EDS's pods is
                                       {(n, rs.templateGeneration) | n listed fit node};
    4  `C11_fixpoint_unique`         — two quiescent stores with the same stored nodes, the same strategy and
                                       the same replica set: equal assignment multisets, equal counters, no pod
                                       write on either.  Nothing is assumed about pod names, creation times,
                                       pod-list order, settings, or the rest of the two stores.
    5  `C11_quiescent_perm`          — quiescence itself does not depend on the order of the pod list;
    6  `C11_quiescent_spec_fixpoint` — a quiescent store satisfies `Spec.C02.fixpoint` on the harness's pod views.

  All at full strength; no `_partial` theorem in this file.
-/
namespace Eds
open Spec.C03

/-! ### Definition -/

structure QuiescentAt (d : EDS) (rs : ERS) (st : ErsStore) (items : List NodeItem) : Prop where
  owner : ersOwner rs st = some d
  defaulted : isDefaulted d.strategy d.templateName = true
  active : ersRole d rs.name = "active"
  noCanary : d.status.canary = none
  listed : ersNodeItems d rs st = some items
  nodeNames : (items.map (·.node.name)).Nodup
  onePod : ∀ ni ∈ items, fit rs.template ni.node = true →
    ((ersPods d st).filter (fun p => p.nodeName == ni.node.name)).length = 1
  podOk : ∀ p ∈ ersPods d st,
    p.nodeName ≠ "" ∧ p.deletion = none ∧ p.phase = "Running" ∧ p.ready = true ∧
    SMap.get? p.labels K.canaryLabel ≠ some "true" ∧
    ∃ ni ∈ items, ni.node.name = p.nodeName ∧ fit rs.template ni.node = true ∧
      comparePod rs.templateGeneration p ni = true

def Quiescent (d : EDS) (rs : ERS) (st : ErsStore) : Prop := ∃ items, QuiescentAt d rs st items

/-- the listed nodes fit for the replica set's template. -/
def fitItemsQ (rs : ERS) (items : List NodeItem) : List NodeItem := items.filter (fun ni => fit rs.template ni.node)

/-- (node, template-hash annotation) of every pod of the EDS. -/
def hashAssignment (d : EDS) (st : ErsStore) : List (String × Option String) :=
  (ersPods d st).map (fun p => (p.nodeName, SMap.get? p.annotations K.templateHashAnnot))

/-- the counters of a replica-set status. -/
def counters (s : ERSStatus) : Int × Int × Int × Int × Int := (s.desired, s.current, s.ready, s.available, s.ignored)

/-! ### The filter at a quiescent store -/

section Q
variable {d : EDS} {rs : ERS} {st : ErsStore} {items : List NodeItem} (Q : QuiescentAt d rs st items)
include Q

theorem QuiescentAt.nodeOf {p : Pod} (hp : p ∈ ersPods d st) : p.nodeOf = some p.nodeName := by
  have h := (Q.podOk p hp).1
  unfold Pod.nodeOf
  have : (p.nodeName != "") = true := by simpa using h
  rw [if_pos this]

theorem QuiescentAt.ignore_nil : ersIgnore d rs = [] := by
  unfold ersIgnore; rw [Q.noCanary]; rfl

theorem QuiescentAt.canaryNodes_nil : ersCanaryNodes d = [] := by
  unfold ersCanaryNodes; rw [Q.noCanary]

omit Q in
theorem candidates_nil_eq : candidates rs.template items [] = fitItemsQ rs items := by
  unfold candidates fitItemsQ
  apply List.filter_congr
  intro ni _
  simp

/-- a pod of the EDS sits on a candidate node. -/
theorem QuiescentAt.pod_on_candidate {p : Pod} (hp : p ∈ ersPods d st) :
    ∃ ni ∈ candidates rs.template items [], ni.node.name = p.nodeName ∧
      comparePod rs.templateGeneration p ni = true := by
  obtain ⟨_, _, _, _, _, ni, hni, hn, hf, hc⟩ := Q.podOk p hp
  refine ⟨ni, ?_, hn, hc⟩
  rw [candidates_nil_eq]
  exact List.mem_filter.mpr ⟨hni, hf⟩

/-- a candidate node has a pod of the EDS. -/
theorem QuiescentAt.candidate_has_pod {ni : NodeItem} (hni : ni ∈ candidates rs.template items []) :
    ∃ p ∈ ersPods d st, p.nodeName = ni.node.name := by
  rw [candidates_nil_eq] at hni
  obtain ⟨h1, h2⟩ := List.mem_filter.mp hni
  have hl := Q.onePod ni h1 h2
  cases hf : (ersPods d st).filter (fun p => p.nodeName == ni.node.name) with
  | nil => rw [hf] at hl; cases hl
  | cons p tl =>
    have : p ∈ (ersPods d st).filter (fun p => p.nodeName == ni.node.name) := by rw [hf]; exact List.mem_cons_self
    obtain ⟨hp, hn⟩ := List.mem_filter.mp this
    exact ⟨p, hp, by simpa using hn⟩

/-- **no clean-up**: the filter finds no pod to delete. -/
theorem QuiescentAt.toDelete_nil (released : String → Bool) :
    (filterAndMap released rs.template items (ersPods d st) []).toDelete = [] := by
  apply List.eq_nil_iff_forall_not_mem.mpr
  intro p hp
  have inv := scanFinal_inv released rs.template items (ersPods d st) []
  rcases mem_filter_toDelete.mp hp with h | ⟨e, he, h⟩
  · obtain ⟨hmem, _, n, hn, hc⟩ := inv.delSound p h
    rw [Q.nodeOf hmem] at hn
    have hn' : p.nodeName = n := Option.some.inj hn
    rcases hc with ⟨_, hf, _⟩ | ⟨hk, _⟩
    · rw [(Q.podOk p hmem).2.2.1] at hf; exact absurd hf (by decide)
    · obtain ⟨ni, hni, hname, _⟩ := Q.pod_on_candidate hmem
      apply hk
      unfold candNames
      exact List.mem_map.mpr ⟨ni, hni, by rw [hname, hn']⟩
  · -- a duplicate: impossible, the node has exactly one pod
    have hkey : e.1 ∈ candNames rs.template items [] := by
      rw [← inv.keys]; exact List.mem_map.mpr ⟨e, he, rfl⟩
    obtain ⟨ni, hni, hname⟩ := List.mem_map.mp hkey
    have hni' := hni
    rw [candidates_nil_eq] at hni'
    obtain ⟨h1, h2⟩ := List.mem_filter.mp hni'
    have hone := Q.onePod ni h1 h2
    have hall : ∀ q ∈ e.2, (fun p : Pod => p.nodeName == ni.node.name) q = true := by
      intro q hq
      obtain ⟨hqm, hqn, _⟩ := inv.attSound e he q hq
      rw [Q.nodeOf hqm] at hqn
      have : q.nodeName = e.1 := Option.some.inj hqn
      simp only [beq_iff_eq]
      rw [this, ← hname]
    have hsub : e.2.Sublist ((ersPods d st).filter (fun p => p.nodeName == ni.node.name)) := by
      have := (inv.attSub e he).filter (fun p : Pod => p.nodeName == ni.node.name)
      rwa [List.filter_eq_self.mpr hall] at this
    have hlen : e.2.length ≤ 1 := by have := hsub.length_le; omega
    have hlen' : (sortPods e.2).length ≤ 1 := by rw [(sortPods_perm e.2).length_eq]; exact hlen
    have : (sortPods e.2).drop 1 = [] := by
      apply List.drop_eq_nil_of_le; exact hlen'
    rw [this] at h
    cases h

/-- **the per-node map**: every candidate node carries a kept pod of the EDS bound to it. -/
theorem QuiescentAt.byNode_some (released : String → Bool) :
    ∀ e ∈ (filterAndMap released rs.template items (ersPods d st) []).byNode,
      ∃ k, e.2 = some k ∧ k ∈ ersPods d st ∧ k.nodeName = e.1.node.name := by
  intro e he
  obtain ⟨ni, o⟩ := e
  cases o with
  | none =>
    exfalso
    have hc : ni ∈ candidates rs.template items [] := (mem_filter_byNode he).1
    obtain ⟨p, hp, hn⟩ := Q.candidate_has_pod hc
    have := C01_kept_none released rs.template items (ersPods d st) [] ni he p hp (by rw [Q.nodeOf hp, hn])
    have hph := (Q.podOk p hp).2.2.1
    rcases this with h | ⟨h, _⟩ <;> (rw [hph] at h; exact absurd h (by decide))
  | some k =>
    obtain ⟨hk, hn, _⟩ := C01_dup_resolution released rs.template items (ersPods d st) [] ni k he
    rw [Q.nodeOf hk] at hn
    exact ⟨k, rfl, hk, Option.some.inj hn⟩

/-- **every entry is up to date, available and ready**, at any wall-clock. -/
theorem QuiescentAt.classify_current (released : String → Bool) (wall : Time) :
    ∀ e ∈ (filterAndMap released rs.template items (ersPods d st) []).byNode,
      classify rs.templateGeneration wall e = .upToDate true true := by
  intro e he
  obtain ⟨k, hk, hmem, hname⟩ := Q.byNode_some released e he
  obtain ⟨ni, o⟩ := e
  simp only at hk hname
  subst hk
  obtain ⟨hsched, hdel, _, hready, _, ni', hni', hn', _, hcmp⟩ := Q.podOk k hmem
  have hni : ni ∈ items := by
    have := (mem_filter_byNode he).1
    exact (List.mem_filter.mp this).1
  have heq : ni' = ni := inj_of_nodup_map _ Q.nodeNames hni' hni (by rw [hn', hname])
  subst heq
  have hs : k.schedulerIssue wall = false := by
    unfold Pod.schedulerIssue Pod.scheduled
    have : (k.nodeName != "") = true := by simpa using hsched
    rw [this, hdel]
    rfl
  have hav : k.available = true := hready
  simp only [classify, hs, hcmp, hav, hready, Bool.false_eq_true, if_false, Bool.not_true]

omit Q in
theorem filter_byNode_length (released : String → Bool) :
    (filterAndMap released rs.template items (ersPods d st) []).byNode.length = (fitItemsQ rs items).length := by
  rw [filterAndMap_byNode, List.length_map, candidates_nil_eq]

end Q

/-! ### The strategy outcome depends on the strategy values and the node count only -/

/-- the constructor of an outcome. -/
def Outcome.kind {α} : Outcome α → Outcome Unit
  | .ok _ => .ok ()
  | .err m => .err m
  | .panic => .panic

/-- the three strategy values `ManageDeployment` resolves before it plans. -/
def mdResolve (ru : RollingUpdate) (N : Int) (start now : Time) : Outcome Unit :=
  match resolveIntOrPercent ru.maxPodSchedulerFailure N with
  | none => .err "maxPodSchedulerFailure"
  | some _ =>
    match resolveIntOrPercent ru.maxUnavailable N with
    | none => .err "maxUnavailable"
    | some _ =>
      (calculateMaxCreation ru.slowStartAdditiveIncrease ru.slowStartInterval ru.maxParallelPodCreation
        N start now).kind

theorem manageDeployment_kind (p : StratParams) (now wall : Time) (cf : Bool) :
    (manageDeployment p now wall cf).kind =
      mdResolve p.strategy.rollingUpdate (targeted p).length (rollingUpdateStartTime p.ers.status now) now := by
  unfold manageDeployment mdResolve targeted
  simp only []
  cases resolveIntOrPercent p.strategy.rollingUpdate.maxPodSchedulerFailure
      ↑(dropCanaryNodes p.byNode p.canaryNodes).length with
  | none => rfl
  | some ms =>
    simp only []
    cases resolveIntOrPercent p.strategy.rollingUpdate.maxUnavailable
        ↑(dropCanaryNodes p.byNode p.canaryNodes).length with
    | none => rfl
    | some mu =>
      simp only []
      cases calculateMaxCreation p.strategy.rollingUpdate.slowStartAdditiveIncrease
          p.strategy.rollingUpdate.slowStartInterval p.strategy.rollingUpdate.maxParallelPodCreation
          (↑(dropCanaryNodes p.byNode p.canaryNodes).length) (rollingUpdateStartTime p.ers.status now) now <;> rfl

/-- what the next sync reads at a quiescent store with `N` listed fit nodes. -/
def quiescentCounters (strategy : Strategy) (rs : ERS) (N : Int) (now : Time) : Int × Int × Int × Int × Int :=
  if (match findCond rs.status.conds "LastFullSync" with
      | some c => decide (c.lastUpdate + strategy.reconcileFrequency.getD 0 > now)
      | none => false) then counters rs.status
  else
    match mdResolve strategy.rollingUpdate N (rollingUpdateStartTime rs.status now) now with
    | .ok _ => (N, N, N, N, 0)
    | _ => counters rs.status

theorem dropCanaryNodes_nil (l : List (NodeItem × Option Pod)) : dropCanaryNodes l [] = l := by
  unfold dropCanaryNodes
  apply List.filter_eq_self.mpr
  intro e _
  simp

theorem ersFinish_counters (rs : ERS) (role : String) (freq : Dur) (sp : StratParams) (r : StratResult)
    (adds removes : List String) (se : Bool) (st0 : ERSStatus) (aff : Bool) (now : Time) :
    counters ((ersFinish rs role freq sp r adds removes se st0 aff now).statusUpdate.getD rs.status) = counters st0 := by
  unfold ersFinish
  simp only []
  rw [getD_ite_bne]
  rfl

/-! ### 1, 2. One sync at a quiescent store -/

section Sync
variable {d : EDS} {rs : ERS} {st : ErsStore} {items : List NodeItem} (Q : QuiescentAt d rs st items)
  (released : String → Bool) (aff : Bool) (now : Time)
include Q

theorem QuiescentAt.targeted_eq :
    targeted (ersParams released d rs items (ersPods d st) now) =
      (filterAndMap released rs.template items (ersPods d st) []).byNode := by
  unfold targeted
  show dropCanaryNodes (ersFilter released d rs items (ersPods d st)).byNode (ersCanaryNodes d) = _
  unfold ersFilter
  rw [Q.canaryNodes_nil, Q.ignore_nil, dropCanaryNodes_nil]

theorem QuiescentAt.canaryLabelled_nil : canaryLabelled d.name rs st = [] := by
  apply List.eq_nil_iff_forall_not_mem.mpr
  intro p hp
  obtain ⟨hmem, hns, hlab, _, heds⟩ := mem_canaryLabelled.mp hp
  have hdns : d.ns = rs.ns := (ersOwner_some Q.owner).2.1
  have : p ∈ ersPods d st := by
    unfold ersPods
    simp only []
    apply List.mem_append_left
    simp only [List.mem_filter, Bool.and_eq_true, beq_iff_eq]
    exact ⟨hmem, by rw [hns, hdns], heds⟩
  exact (Q.podOk p this).2.2.2.2.1 hlab

/-- the sync, spelled out: it is `ersRun` on the listed nodes unless gated. -/
theorem QuiescentAt.reconcile_eq :
    reconcileErs rs st released aff now =
      if ersGated d rs now then { requeueAfter := ersGateWait d rs now }
      else ersRun d rs (ersPods d st) ((canaryLabelled d.name rs st).map (·.name)) released aff now items := by
  rw [reconcileErs_eq rs st released aff now d Q.owner]
  unfold ersBody
  rw [Q.defaulted, Q.listed]
  rfl

/-- **C11/C02, fixpoint at store level.**  At a quiescent store a sync of the active replica set —
whatever the back-off state, the affinity mode and the clock — issues no pod write: no creation, no
deletion, no clean-up, no label patch. -/
theorem C11_quiescent_no_write : (reconcileErs rs st released aff now).noPodWrite := by
  rw [Q.reconcile_eq released aff now]
  split
  · exact ⟨rfl, rfl, rfl, rfl, rfl⟩
  · rcases ersRun_cases d rs (ersPods d st) ((canaryLabelled d.name rs st).map (·.name)) released aff now items
      with h | ⟨r, adds, removes, se, st0, hs, hst0, hfin⟩
    · rw [h]; exact ⟨rfl, rfl, rfl, rfl, rfl⟩
    · rw [hfin]
      rw [Q.active] at hs ⊢
      rcases ersStrategy_active hs hst0 with ⟨hok, hadds, hrem, _⟩ | ⟨_, hre, hadds, hrem, _⟩
      · have hall := Q.classify_current released now
        rw [← Q.targeted_eq released now] at hall
        obtain ⟨hc, hd⟩ := C02_fixpoint _ now now false r hok (fun e he => ⟨true, true, hall e he⟩)
        have hcl : r.cleanupDeletes = [] := by
          rw [manageDeployment_cleanup _ _ _ _ _ hok]
          show cleanupTargets (ersFilter released d rs items (ersPods d st)).toDelete = []
          unfold ersFilter
          rw [Q.ignore_nil, Q.toDelete_nil released]
          rfl
        have hrem' : removes = [] := by
          rw [hrem, Q.canaryLabelled_nil]; simp
        refine ⟨?_, hadds, hrem', ?_, ?_⟩
        · rw [ersFinish_cleanupDeletes]; exact hcl
        · obtain ⟨b, hb⟩ := ersFinish_deletes_eq rs "active" (ersFreq d)
            (ersParams released d rs items (ersPods d st) now) r adds removes se st0 aff now
          rw [hb, hd]; cases b <;> rfl
        · obtain ⟨b, hb⟩ := ersFinish_creates_eq rs "active" (ersFreq d)
            (ersParams released d rs items (ersPods d st) now) r adds removes se st0 aff now
          rw [hb, hc]; cases b <;> rfl
      · subst hre hadds hrem
        exact ersFinish_errResult_noPodWrite _ _ _ _ _ _ _ _ _

/-- **C11/C02, the status at the fixpoint.**  The counters the next sync reads after a sync at a
quiescent store — the written ones, or the stored ones when nothing is written — are
`quiescentCounters`: a function of the strategy, the replica set's own status, the clock and the number
of listed fit nodes.  No pod name, creation time, list order, setting or node detail enters. -/
theorem C11_quiescent_counters :
    counters ((reconcileErs rs st released aff now).statusUpdate.getD rs.status) =
      quiescentCounters d.strategy rs (fitItemsQ rs items).length now := by
  rw [Q.reconcile_eq released aff now]
  unfold quiescentCounters
  have hg : ersGated d rs now = (match findCond rs.status.conds "LastFullSync" with
      | some c => decide (c.lastUpdate + d.strategy.reconcileFrequency.getD 0 > now)
      | none => false) := rfl
  rw [← hg]
  cases hgv : ersGated d rs now with
  | true => rfl
  | false =>
    simp only [Bool.false_eq_true, if_false]
    have hlen : ((targeted (ersParams released d rs items (ersPods d st) now)).length : Int)
        = ((fitItemsQ rs items).length : Int) := by
      rw [Q.targeted_eq released now, filter_byNode_length released]
    have hkind := manageDeployment_kind (ersParams released d rs items (ersPods d st) now) now now false
    rw [hlen] at hkind
    have hru : (ersParams released d rs items (ersPods d st) now).strategy.rollingUpdate = d.strategy.rollingUpdate := rfl
    have hers : (ersParams released d rs items (ersPods d st) now).ers.status = rs.status := rfl
    rw [hru, hers] at hkind
    unfold ersRun
    rw [Q.active]
    unfold ersStrategy
    simp only [beq_self_eq_true, if_true]
    cases hm : manageDeployment (ersParams released d rs items (ersPods d st) now) now now false with
    | panic =>
      rw [hm] at hkind
      rw [← hkind]
      rfl
    | err m =>
      rw [hm] at hkind
      rw [← hkind]
      simp only [Outcome.kind]
      rw [ersFinish_counters]
      rfl
    | ok r =>
      rw [hm] at hkind
      rw [← hkind]
      simp only [Outcome.kind]
      obtain ⟨st0, hst0⟩ := C14_ers_reports _ now now false r hm
      rw [hst0]
      simp only []
      rw [ersFinish_counters]
      have hall := Q.classify_current released now
      rw [← Q.targeted_eq released now] at hall
      have hcoop : coop rs.templateGeneration now (targeted (ersParams released d rs items (ersPods d st) now)) = true := by
        unfold coop
        rw [List.all_eq_true]
        intro e he
        simp [coopEntry, isCurE, hall e he]
      have hE : coopE (targeted (ersParams released d rs items (ersPods d st) now)) = 0 := by
        unfold coopE
        rw [List.countP_eq_zero]
        intro e he
        have := hall e he
        cases hh : isEmptyE e with
        | false => simp
        | true =>
          rw [isEmptyE_iff rs.templateGeneration now] at hh
          rw [hh] at this; cases this
      have hO : coopO rs.templateGeneration now (targeted (ersParams released d rs items (ersPods d st) now)) = 0 := by
        unfold coopO
        rw [List.countP_eq_zero]
        intro e he
        simp [isOldE, hall e he]
      obtain ⟨h1, h2, h3, h4, h5, _, _⟩ := C14_quiescent_counts _ now now false r st0 hm hst0 hcoop hE hO
      unfold counters
      rw [h1, h2, h3, h4, h5, hlen]

end Sync

/-! ### 3. The assignment -/

theorem countP_name_fitItems (rs : ERS) (items : List NodeItem) (hn : (items.map (·.node.name)).Nodup) (n : String) :
    (fitItemsQ rs items).countP (fun ni => ni.node.name == n) =
      if ∃ ni ∈ fitItemsQ rs items, ni.node.name = n then 1 else 0 := by
  have hnd : ((fitItemsQ rs items).map (·.node.name)).Nodup :=
    List.Nodup.sublist (List.Sublist.map _ List.filter_sublist) hn
  have hc : (fitItemsQ rs items).countP (fun ni => ni.node.name == n) = ((fitItemsQ rs items).map (·.node.name)).count n := by
    rw [List.count_eq_countP, List.countP_map]; rfl
  rw [hc]
  split
  · rename_i hex
    obtain ⟨ni, hni, hname⟩ := hex
    have h1 : ((fitItemsQ rs items).map (·.node.name)).count n ≤ 1 := List.nodup_iff_count.mp hnd n
    have h2 : 0 < ((fitItemsQ rs items).map (·.node.name)).count n :=
      List.count_pos_iff.mpr (List.mem_map.mpr ⟨ni, hni, hname⟩)
    omega
  · rename_i hex
    apply List.count_eq_zero.mpr
    intro hmem
    obtain ⟨ni, hni, hname⟩ := List.mem_map.mp hmem
    exact hex ⟨ni, hni, hname⟩

/-- **C11/C02, the pods at the fixpoint.**  At a quiescent store the multiset of (node, template hash)
pairs of the EDS's pods is exactly one pair `(n, rs.templateGeneration)` per listed fit node `n`. -/
theorem C11_quiescent_assignment {d : EDS} {rs : ERS} {st : ErsStore} {items : List NodeItem}
    (Q : QuiescentAt d rs st items) :
    (hashAssignment d st).Perm ((fitItemsQ rs items).map (fun ni => (ni.node.name, some rs.templateGeneration))) := by
  rw [List.perm_iff_count]
  intro a
  obtain ⟨n, h⟩ := a
  unfold hashAssignment
  rw [List.count_eq_countP, List.count_eq_countP, List.countP_map, List.countP_map]
  -- every pod of the EDS carries the hash
  have hhash : ∀ p ∈ ersPods d st, SMap.get? p.annotations K.templateHashAnnot = some rs.templateGeneration := by
    intro p hp
    obtain ⟨ni, _, _, hc⟩ := Q.pod_on_candidate hp
    unfold comparePod compareSpecTemplateHash at hc
    simp only [Bool.and_eq_true, beq_iff_eq] at hc
    exact hc.1.1
  by_cases hh : h = some rs.templateGeneration
  · subst hh
    have e1 : (ersPods d st).countP ((fun x => x == (n, some rs.templateGeneration)) ∘
          fun p => (p.nodeName, SMap.get? p.annotations K.templateHashAnnot))
        = (ersPods d st).countP (fun p => p.nodeName == n) := by
      apply List.countP_congr
      intro p hp
      simp only [Function.comp, hhash p hp]
      simp
    have e2 : (fitItemsQ rs items).countP ((fun x => x == (n, some rs.templateGeneration)) ∘
          fun ni => (ni.node.name, some rs.templateGeneration))
        = (fitItemsQ rs items).countP (fun ni => ni.node.name == n) := by
      apply List.countP_congr
      intro ni _
      simp only [Function.comp]
      simp
    rw [e1, e2, countP_name_fitItems rs items Q.nodeNames n]
    split
    · rename_i hex
      obtain ⟨ni, hni, hname⟩ := hex
      obtain ⟨h1, h2⟩ := List.mem_filter.mp hni
      rw [List.countP_eq_length_filter, ← hname]
      exact Q.onePod ni h1 h2
    · rename_i hex
      rw [List.countP_eq_zero]
      intro p hp
      simp only [beq_iff_eq]
      intro hpn
      obtain ⟨ni, hni, hname, _⟩ := Q.pod_on_candidate hp
      rw [candidates_nil_eq] at hni
      exact hex ⟨ni, hni, by rw [hname, hpn]⟩
  · have e1 : (ersPods d st).countP ((fun x => x == (n, h)) ∘
          fun p => (p.nodeName, SMap.get? p.annotations K.templateHashAnnot)) = 0 := by
      rw [List.countP_eq_zero]
      intro p hp
      simp only [Function.comp, hhash p hp, beq_iff_eq, Prod.mk.injEq, not_and]
      intro _ hc
      exact hh hc.symm
    have e2 : (fitItemsQ rs items).countP ((fun x => x == (n, h)) ∘
          fun ni => (ni.node.name, some rs.templateGeneration)) = 0 := by
      rw [List.countP_eq_zero]
      intro ni _
      simp only [Function.comp, beq_iff_eq, Prod.mk.injEq, not_and]
      intro _ hc
      exact hh hc.symm
    rw [e1, e2]

/-! ### 4. Uniqueness -/

/-- the nodes `getNodeList` lists: a function of the replica set's selector and the stored nodes. -/
def listedNodes (rs : ERS) (nodes : List Node) : List Node :=
  match rs.selector with
  | none => nodes
  | some sel => nodes.filter (fun n => (labelSelectorMatches sel n.labels).getD false)

theorem ersNodeItems_nodes (d : EDS) (rs : ERS) (st : ErsStore) (items : List NodeItem)
    (h : ersNodeItems d rs st = some items) : items.map (·.node) = listedNodes rs st.nodes := by
  unfold ersNodeItems at h
  simp only [] at h
  split at h
  · cases h
  · rename_i ns hns
    have hproj : items.map (·.node) = ns := by
      refine mapM_option_proj _ (·.node) ?_ ns items h
      intro n b hf
      cases hc : chooseSetting d.name (st.settings.filter (fun s => s.ns == d.ns)) n with
      | none => rw [hc] at hf; cases hf
      | some s => rw [hc] at hf; simp only [Option.map_some, Option.some.injEq] at hf; rw [← hf]
    rw [hproj]
    unfold listedNodes
    split at hns
    · rename_i hsel
      cases hns; rw [hsel]
    · rename_i sel hsel
      split at hns
      · cases hns
      · cases hns; rw [hsel]

theorem fitItems_map_node (rs : ERS) (items : List NodeItem) :
    (fitItemsQ rs items).map (·.node) = (items.map (·.node)).filter (fit rs.template) := by
  unfold fitItemsQ
  rw [List.filter_map]
  rfl

/-- **C11/C02, uniqueness of the fixpoint.**  Two quiescent stores for the same replica set `rs`, with
the same stored nodes and the same EDS strategy — but otherwise arbitrary: different pod names,
creation times, pod-list orders, settings, EDS annotations, other objects —
  (a) carry the same multiset of (node, template hash) pairs of EDS pods,
  (b) make `reconcileErs` report the same status counters (desired, current, ready, available, ignored),
      at any clock value and for any back-off states / affinity modes, and
  (c) receive no pod write from it. -/
theorem C11_fixpoint_unique (d₁ d₂ : EDS) (rs : ERS) (st₁ st₂ : ErsStore)
    (Q₁ : Quiescent d₁ rs st₁) (Q₂ : Quiescent d₂ rs st₂)
    (hnodes : st₁.nodes = st₂.nodes) (hstrat : d₁.strategy = d₂.strategy)
    (rel₁ rel₂ : String → Bool) (aff₁ aff₂ : Bool) (now : Time) :
    (hashAssignment d₁ st₁).Perm (hashAssignment d₂ st₂) ∧
    counters ((reconcileErs rs st₁ rel₁ aff₁ now).statusUpdate.getD rs.status) =
      counters ((reconcileErs rs st₂ rel₂ aff₂ now).statusUpdate.getD rs.status) ∧
    (reconcileErs rs st₁ rel₁ aff₁ now).noPodWrite ∧ (reconcileErs rs st₂ rel₂ aff₂ now).noPodWrite := by
  obtain ⟨items₁, Q₁⟩ := Q₁
  obtain ⟨items₂, Q₂⟩ := Q₂
  have hn : items₁.map (·.node) = items₂.map (·.node) := by
    rw [ersNodeItems_nodes d₁ rs st₁ items₁ Q₁.listed, ersNodeItems_nodes d₂ rs st₂ items₂ Q₂.listed, hnodes]
  have hfit : (fitItemsQ rs items₁).map (·.node) = (fitItemsQ rs items₂).map (·.node) := by
    rw [fitItems_map_node, fitItems_map_node, hn]
  have hcanon : (fitItemsQ rs items₁).map (fun ni => (ni.node.name, some rs.templateGeneration)) =
      (fitItemsQ rs items₂).map (fun ni => (ni.node.name, some rs.templateGeneration)) := by
    have := congrArg (List.map (fun n : Node => (n.name, some rs.templateGeneration))) hfit
    simpa [List.map_map, Function.comp_def] using this
  have hlen : (fitItemsQ rs items₁).length = (fitItemsQ rs items₂).length := by
    have := congrArg List.length hfit
    simpa using this
  refine ⟨?_, ?_, C11_quiescent_no_write Q₁ rel₁ aff₁ now, C11_quiescent_no_write Q₂ rel₂ aff₂ now⟩
  · exact (C11_quiescent_assignment Q₁).trans (hcanon ▸ (C11_quiescent_assignment Q₂).symm)
  · rw [C11_quiescent_counters Q₁ rel₁ aff₁ now, C11_quiescent_counters Q₂ rel₂ aff₂ now, hstrat, hlen]

/-! ### 5. Quiescence does not depend on the order of the pod list -/

theorem ersPods_perm (d : EDS) (st : ErsStore) (pods' : List Pod) (hp : pods'.Perm st.pods) :
    (ersPods d { st with pods := pods' }).Perm (ersPods d st) := by
  unfold ersPods
  simp only []
  apply List.Perm.append (hp.filter _)
  split
  · exact List.Perm.refl _
  · split
    · exact List.Perm.refl _
    · apply List.Perm.filter
      split
      · exact hp.filter _
      · exact hp.filter _

/-- **Order independence.**  Listing the pods of the store in another order leaves quiescence — and
hence, by 1–4, the assignment, the counters and the absence of writes — unchanged. -/
theorem C11_quiescent_perm {d : EDS} {rs : ERS} {st : ErsStore} {items : List NodeItem}
    (Q : QuiescentAt d rs st items) (pods' : List Pod) (hp : pods'.Perm st.pods) :
    QuiescentAt d rs { st with pods := pods' } items where
  owner := Q.owner
  defaulted := Q.defaulted
  active := Q.active
  noCanary := Q.noCanary
  listed := Q.listed
  nodeNames := Q.nodeNames
  onePod := by
    intro ni hni hf
    rw [((ersPods_perm d st pods' hp).filter _).length_eq]
    exact Q.onePod ni hni hf
  podOk := by
    intro p hpm
    exact Q.podOk p ((ersPods_perm d st pods' hp).mem_iff.mp hpm)

/-! ### 6. Link with `Spec.C02.fixpoint` (the predicate the scenario streams check) -/

/-- the harness's canonical view of a pod (harness/streams/sim.go, `view`). -/
def podViewOf (p : Pod) : Spec.C02.PodView :=
  { node := p.nodeOf.getD "", hash := (SMap.get? p.annotations K.templateHashAnnot).getD "",
    ready := p.ready, phase := p.phase, terminating := p.deletion.isSome, ns := p.ns,
    eds := (SMap.get? p.labels K.edsNameLabel).getD "" }

theorem ersPods_own (d : EDS) (st : ErsStore) (hold : SMap.get? d.annotations K.oldDaemonsetAnnot = none) :
    ersPods d st = st.pods.filter (fun p => p.ns == d.ns && SMap.get? p.labels K.edsNameLabel == some d.name) := by
  unfold ersPods
  simp only [hold, List.append_nil]

theorem ownPods_views (d : EDS) (st : ErsStore) (hold : SMap.get? d.annotations K.oldDaemonsetAnnot = none)
    (hname : d.name ≠ "") :
    Spec.C02.ownPods d (st.pods.map podViewOf) = (ersPods d st).map podViewOf := by
  unfold Spec.C02.ownPods
  rw [ersPods_own d st hold, List.filter_map]
  congr 1
  apply List.filter_congr
  intro p _
  simp only [Function.comp, podViewOf]
  congr 1
  cases hl : SMap.get? p.labels K.edsNameLabel with
  | none =>
    have : ("" == d.name) = false := by simpa using fun h => hname h
    simp [this]
  | some v => simp

/-- **A quiescent store satisfies `Spec.C02.fixpoint`** (for a replica set built from the EDS's live
template, an unfiltered node listing and no DaemonSet migration in progress). -/
theorem C11_quiescent_spec_fixpoint {d : EDS} {rs : ERS} {st : ErsStore} {items : List NodeItem}
    (Q : QuiescentAt d rs st items) (hsel : rs.selector = none) (ht : rs.template = d.template)
    (hh : rs.templateGeneration = d.templateHash)
    (hold : SMap.get? d.annotations K.oldDaemonsetAnnot = none) (hname : d.name ≠ "") :
    Spec.C02.fixpoint d st.nodes (st.pods.map podViewOf) = true := by
  have hnodes : items.map (·.node) = st.nodes := by
    rw [ersNodeItems_nodes d rs st items Q.listed]; unfold listedNodes; rw [hsel]
  have hnode : ∀ p ∈ ersPods d st, (podViewOf p).node = p.nodeName := by
    intro p hp
    simp only [podViewOf, Q.nodeOf hp, Option.getD_some]
  unfold Spec.C02.fixpoint
  simp only []
  rw [ownPods_views d st hold hname]
  unfold Spec.C02.eligibleNodes
  rw [Bool.and_eq_true, List.all_eq_true, List.all_eq_true]
  constructor
  · intro n hn
    obtain ⟨hmem, hfit⟩ := List.mem_filter.mp hn
    rw [← hnodes] at hmem
    obtain ⟨ni, hni, rfl⟩ := List.mem_map.mp hmem
    have hone := Q.onePod ni hni (by rw [ht]; exact hfit)
    simp only [beq_iff_eq]
    rw [List.filter_map, List.length_map, ← hone]
    congr 1
    apply List.filter_congr
    intro p hp
    simp only [Function.comp, hnode p hp]
  · intro v hv
    obtain ⟨p, hp, rfl⟩ := List.mem_map.mp hv
    obtain ⟨_, hdel, hph, hready, _, ni, hni, hn, hfit, hcmp⟩ := Q.podOk p hp
    have hhash : SMap.get? p.annotations K.templateHashAnnot = some rs.templateGeneration := by
      unfold comparePod compareSpecTemplateHash at hcmp
      simp only [Bool.and_eq_true, beq_iff_eq] at hcmp
      exact hcmp.1.1
    have hany : (st.nodes.filter (fit d.template)).any (fun n => n.name == (podViewOf p).node) = true := by
      rw [List.any_eq_true]
      refine ⟨ni.node, List.mem_filter.mpr ⟨?_, by rw [← ht]; exact hfit⟩, ?_⟩
      · rw [← hnodes]; exact List.mem_map.mpr ⟨ni, hni, rfl⟩
      · rw [hnode p hp]; simpa using hn
    rw [hany]
    simp [podViewOf, hready, hhash, hh, hdel, hph]

/-! ### Non-vacuity.  Store of EdsProps/C04.lean after the canary: `d-new` is the active replica set of
EDS `d`, no canary, two fit nodes `n1`, `n2`. -/

/-- store A: pods `a-1` on `n1`, `a-2` on `n2`. -/
def exStoreA11 : ErsStore :=
  exStore04 [exPod04 "a-1" "n1" "d-new" "new", exPod04 "a-2" "n2" "d-new" "new"] false

/-- store B — what another history (e.g. one with a failed and retried creation) leaves: other pod names,
other creation times, listed in the other order, and an unrelated pod of another namespace in between. -/
def exStoreB11 : ErsStore :=
  exStore04 [{ exPod04 "b-9" "n2" "d-new" "new" with creation := 77, startTime := some 78 },
             { exPod04 "zzz" "n1" "d-new" "new" with ns := "other" },
             { exPod04 "b-7" "n1" "d-new" "new" with creation := 55 }] false

def exItems11 : List NodeItem := [exNode01 "n1", exNode01 "n2"]

theorem exQuiescentA11 : QuiescentAt (exEds04 false) (exErs04 "d-new" "new") exStoreA11 exItems11 where
  owner := by decide
  defaulted := by decide
  active := by decide
  noCanary := by decide
  listed := by decide
  nodeNames := by decide
  onePod := by decide
  podOk := by decide

theorem exQuiescentB11 : QuiescentAt (exEds04 false) (exErs04 "d-new" "new") exStoreB11 exItems11 where
  owner := by decide
  defaulted := by decide
  active := by decide
  noCanary := by decide
  listed := by decide
  nodeNames := by decide
  onePod := by decide
  podOk := by decide

/-- the two stores differ (pod names, order, creation times) … -/
example : exStoreA11.pods.map (·.name) = ["a-1", "a-2"] ∧ exStoreB11.pods.map (·.name) = ["b-9", "zzz", "b-7"] := by
  decide

/-- … and `C11_fixpoint_unique` applies; its three conclusions, checked by evaluation as well:
same assignment multiset, same counters (2, 2, 2, 2, 0), no pod write. -/
example : (hashAssignment (exEds04 false) exStoreA11).Perm (hashAssignment (exEds04 false) exStoreB11) ∧
    counters ((reconcileErs (exErs04 "d-new" "new") exStoreA11 (fun _ => true) true (100 * sec)).statusUpdate.getD
      (exErs04 "d-new" "new").status) =
    counters ((reconcileErs (exErs04 "d-new" "new") exStoreB11 (fun _ => false) false (100 * sec)).statusUpdate.getD
      (exErs04 "d-new" "new").status) ∧
    (reconcileErs (exErs04 "d-new" "new") exStoreA11 (fun _ => true) true (100 * sec)).noPodWrite ∧
    (reconcileErs (exErs04 "d-new" "new") exStoreB11 (fun _ => false) false (100 * sec)).noPodWrite :=
  C11_fixpoint_unique _ _ _ _ _ ⟨_, exQuiescentA11⟩ ⟨_, exQuiescentB11⟩ rfl rfl _ _ _ _ _

example : hashAssignment (exEds04 false) exStoreA11 = [("n1", some "new"), ("n2", some "new")] ∧
    hashAssignment (exEds04 false) exStoreB11 = [("n2", some "new"), ("n1", some "new")] ∧
    counters ((reconcileErs (exErs04 "d-new" "new") exStoreB11 (fun _ => false) false (100 * sec)).statusUpdate.getD
      (exErs04 "d-new" "new").status) = (2, 2, 2, 2, 0) ∧
    quiescentCounters (exEds04 false).strategy (exErs04 "d-new" "new") 2 (100 * sec) = (2, 2, 2, 2, 0) := by decide

/-- the link with the scenario predicate on store A. -/
example : Spec.C02.fixpoint { exEds04 false with templateHash := "new" } exStoreA11.nodes
    (exStoreA11.pods.map podViewOf) = true := by decide

/-- the definition is not vacuous the other way either: a store lacking the pod of `n2` is not quiescent
(and the sync does write there). -/
example : ¬ Quiescent (exEds04 false) (exErs04 "d-new" "new")
      (exStore04 [exPod04 "a-1" "n1" "d-new" "new"] false) ∧
    (reconcileErs (exErs04 "d-new" "new") (exStore04 [exPod04 "a-1" "n1" "d-new" "new"] false)
      (fun _ => true) true (100 * sec)).creates.map (·.1) = ["n2"] := by
  refine ⟨?_, by decide⟩
  rintro ⟨items, Q⟩
  have hl : ersNodeItems (exEds04 false) (exErs04 "d-new" "new")
      (exStore04 [exPod04 "a-1" "n1" "d-new" "new"] false) = some exItems11 := by decide
  have : items = exItems11 := by
    have := Q.listed
    rw [hl] at this
    exact (Option.some.inj this).symm
  subst this
  have := Q.onePod (exNode01 "n2") (by decide) (by decide)
  revert this
  decide

end Eds
