import EdsModel.Rolling
import EdsModel.CanaryPred
/-
  EdsModel.CanaryS — `manageCanaryStatus` / `manageCanaryPodFailures` (strategy/canary.go).
-/
namespace Eds

structure FailState where
  isFailed : Bool
  failedReason : String
  isPaused : Bool
  pausedReason : String
  newRestartTime : Time := zeroTime
  restartingPodStatus : String := ""
  cannotStart : Bool := false
  cannotStartPodReason : String := ""
  cannotStartPodStatus : String := ""
  panicked : Bool := false
  deriving Repr, DecidableEq

structure FailCfg where
  autoPauseEnabled : Bool
  autoPauseMaxRestarts : Int
  maxSlowStart : Option Dur
  autoFailEnabled : Bool
  autoFailMaxRestarts : Int
  maxRestartsDuration : Option Dur
  canaryTimeout : Option Dur
  isUnpaused : Bool
  /-- (lastTransition, lastUpdate) of the stored PodRestarting condition -/
  restartCond : Option (Time × Time)
  /-- lastTransition of the Canary condition -/
  startCond : Option Time
  now : Time
  deriving Repr

/-- one iteration of the per-pod loop of `manageCanaryPodFailures`. -/
def failStep (cfg : FailCfg) (s : FailState) (pod : Pod) : FailState :=
  if s.panicked then s else
  let (restartCount, highReason) := highestRestart pod.cstats
  let s :=
    if restartCount != 0 then
      let (rt, rr) := mostRecentRestart pod.cstats
      if rt > s.newRestartTime then
        { s with newRestartTime := rt,
                 restartingPodStatus := "Pod " ++ pod.name ++ " restarting with reason: " ++ rr }
      else s
    else s
  let (cs0, csr0) := cannotStart pod.cstats
  -- evaluation of the slow-start gates (dereferences pod.Status.StartTime)
  let needStart := (cs0 && cfg.maxSlowStart.isSome) ||
                   (!cs0 && cfg.autoPauseEnabled && pendingCreate pod.cstats && cfg.maxSlowStart.isSome)
  if needStart && pod.startTime.isNone then { s with panicked := true } else
  let startT := pod.startTime.getD 0
  let slow := cfg.maxSlowStart.getD 0
  let after := cfg.now > startT + slow
  let (cs, csr, s) :=
    if cs0 && cfg.maxSlowStart.isSome && !after then (false, "Unknown", s)
    else if cs0 then
      (true, csr0, { s with cannotStartPodStatus := "Pod " ++ pod.name ++ " cannot start with reason: " ++ csr0,
                            cannotStartPodReason := csr0 })
    else if cfg.autoPauseEnabled && pendingCreate pod.cstats && cfg.maxSlowStart.isSome then
      if after then
        (true, "SlowStartTimeoutExceeded",
          { s with cannotStartPodStatus := "Pod " ++ pod.name ++ " cannot start with reason: SlowStartTimeoutExceeded",
                   cannotStartPodReason := "SlowStartTimeoutExceeded" })
      else (false, csr0, s)
    else (false, csr0, s)
  let s := { s with cannotStart := cs }
  if s.isFailed then s
  else if cfg.autoFailEnabled && restartCount > cfg.autoFailMaxRestarts then
    { s with isFailed := true, failedReason := highReason }
  else if cfg.autoFailEnabled && (match cfg.maxRestartsDuration, cfg.restartCond with
                                  | some d, some (tr, up) => up - tr > d
                                  | _, _ => false) then
    { s with isFailed := true, failedReason := "RestartsTimeoutExceeded" }
  else if cfg.autoFailEnabled && (match cfg.startCond, cfg.canaryTimeout with
                                  | some st, some d => cfg.now - st > d
                                  | _, _ => false) then
    { s with isFailed := true, failedReason := "TimeoutExceeded" }
  else if cfg.isUnpaused then { s with isPaused := false, pausedReason := "" }
  else if cfg.autoPauseEnabled then
    if cs then { s with isPaused := true, pausedReason := csr }
    else if restartCount > cfg.autoPauseMaxRestarts then { s with isPaused := true, pausedReason := highReason }
    else s
  else s

/-- the pointer dereferences at the top of `manageCanaryPodFailures`; `none` = nil dereference. -/
def canaryDerefs (canary : Option Canary) :
    Option (Bool × Int × Option Dur × Bool × Int × Option Dur × Option Dur) := do
  let c ← canary
  let ap ← c.autoPause
  let ape ← ap.enabled
  let apm ← ap.maxRestarts
  let af ← c.autoFail
  let afe ← af.enabled
  let afm ← af.maxRestarts
  pure (ape, apm, ap.maxSlowStartDuration, afe, afm, af.maxRestartsDuration, af.canaryTimeout)

/-- `manageCanaryPodFailures`: returns the updated flags and status; `none` = nil dereference. -/
def manageCanaryPodFailures (pods : List Pod) (canary : Option Canary) (paramsStatus : ERSStatus)
    (st : ERSStatus) (isFailed : Bool) (isPaused : Bool) (pausedReason : String) (isUnpaused : Bool)
    (now : Time) : Option (FailState × ERSStatus) :=
  match canaryDerefs canary with
  | none => none
  | some (ape, apm, slow, afe, afm, mrd, cto) =>
    let restartCond := findCond paramsStatus.conds "PodRestarting"
    let cfg : FailCfg := {
      autoPauseEnabled := ape, autoPauseMaxRestarts := apm, maxSlowStart := slow,
      autoFailEnabled := afe, autoFailMaxRestarts := afm, maxRestartsDuration := mrd,
      canaryTimeout := cto, isUnpaused := isUnpaused,
      restartCond := restartCond.map (fun rc => (rc.lastTransition, rc.lastUpdate)),
      startCond := (findCond st.conds "Canary").map (·.lastTransition), now := now }
    -- F3 repair: with no pod to evaluate, a manual unpause still overrides a previous pause
    let override := pods.isEmpty && isUnpaused && !isFailed
    let s0 : FailState := { isFailed := isFailed, failedReason := "",
                            isPaused := if override then false else isPaused,
                            pausedReason := if override then "" else pausedReason }
    let s := pods.foldl (failStep cfg) s0
    if s.panicked then none else
    let conds := updateCond st.conds now "Canary-Failed" (boolCond s.isFailed) s.failedReason "" false true
    let conds := updateCond conds now "Canary-Paused" (boolCond s.isPaused) s.pausedReason "" false true
    let lastRestart : Time := match restartCond with | some rc => rc.lastUpdate | none => zeroTime
    let conds :=
      if !isZeroTime (s.newRestartTime) && s.newRestartTime > lastRestart then
        updateCond conds s.newRestartTime "PodRestarting" "True" s.cannotStartPodReason s.restartingPodStatus false true
      else conds
    let conds := updateCond conds now "PodCannotStart" (boolCond s.cannotStart) s.cannotStartPodReason s.cannotStartPodStatus false true
    let st := { st with conds := conds, status := if s.isFailed then "canary-failed" else st.status }
    some (s, st)

structure CanaryScan where
  desired : Int := 0
  current : Int := 0
  available : Int := 0
  ready : Int := 0
  needRequeue : Bool := false
  toCreate : List NodeItem := []
  toDelete : List (NodeItem × Pod) := []
  toCheck : List Pod := []
  deriving Repr

def lookupNode (byNode : List (NodeItem × Option Pod)) (name : String) : Option (NodeItem × Option Pod) :=
  byNode.find? (fun e => e.1.node.name == name)

def canaryScanStep (tg : String) (byNode : List (NodeItem × Option Pod)) (c : CanaryScan) (nodeName : String) : CanaryScan :=
  let c := { c with desired := c.desired + 1 }
  match lookupNode byNode nodeName with
  | none => c
  | some (ni, none) => { c with toCreate := c.toCreate ++ [ni] }
  | some (ni, some pod) =>
    if pod.deletion.isSome then { c with needRequeue := true }
    else if !comparePod tg pod ni then { c with toDelete := c.toDelete ++ [(ni, pod)] }
    else { c with current := c.current + 1,
                  available := c.available + (if pod.available then 1 else 0),
                  ready := c.ready + (if pod.ready then 1 else 0),
                  toCheck := c.toCheck ++ [pod] }

/-- `manageCanaryStatus(annotations, params, now)`; `none` = nil dereference (panic). -/
def manageCanaryStatus (p : StratParams) (now : Time) : Option StratResult :=
  let st0 : ERSStatus := { p.newStatus with status := "canary" }
  let failed0 := isCanaryFailed (some p.ers)
  let (paused0, reason0) := isCanaryPaused p.edsAnnotations (some p.ers)
  let unpaused := isCanaryUnpaused p.edsAnnotations
  let c := p.canaryNodes.foldl (canaryScanStep p.ers.templateGeneration p.byNode) {}
  match manageCanaryPodFailures c.toCheck p.strategy.canary p.newStatus st0 failed0 paused0 reason0 unpaused now with
  | none => none
  | some (s, st) =>
    let st := { st with desired := c.desired, ready := c.ready, available := c.available, current := c.current }
    let create := !c.toCreate.isEmpty && !s.isPaused && !s.isFailed
    let needRequeue := c.needRequeue || create
    let rq := needRequeue || (!s.isFailed && !s.isPaused && st.desired != st.ready)
    some { createE := if create then c.toCreate else [],
           deleteE := c.toDelete,
           isPaused := s.isPaused, pausedReason := s.pausedReason, isUnpaused := unpaused,
           isFailed := s.isFailed, failedReason := s.failedReason,
           newStatus := some st, requeue := rq, requeueAfter := if rq then sec else 0 }

end Eds
