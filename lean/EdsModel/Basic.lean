/-
  EdsModel.Basic — primitive types shared by the whole model.
  Core Lean only (no Mathlib, no `Lean.*` imports) so that the driver links as a `lean_exe`
  and proof files stay fast.

  Conventions (see DESIGN.md §3.1):
  * Go `int`/`int32`            → unbounded `Int`
  * `time.Time`                 → `Int` nanoseconds relative to the harness epoch; Go's zero time is
                                  `zeroTime` (a value far below every real instant)
  * `time.Duration`             → `Int` nanoseconds
  * `map[string]string`         → association list `SMap` (the harness emits it sorted by key)
  * optional pointer fields     → `Option`
-/
namespace Eds

/- `Time` / `Dur` are notations for `Int` (not definitions), so that `omega` sees through them. -/
notation "Time" => Int
notation "Dur" => Int

/-- Wire value of Go's zero `time.Time` (harness: `canon.Time`). -/
def zeroTime : Time := -4000000000000000000
def sec : Int := 1000000000
def minute : Int := 60 * sec

def isZeroTime (t : Time) : Bool := t == zeroTime

structure KV where
  k : String
  v : String
  deriving DecidableEq, Repr, Inhabited

abbrev SMap := List KV

def SMap.get? (m : SMap) (key : String) : Option String :=
  match m.find? (fun e => e.k == key) with
  | some e => some e.v
  | none => none

/-- Go's `m[key]` on a `map[string]string`: the zero value `""` when absent. -/
def SMap.getD (m : SMap) (key : String) : String := (SMap.get? m key).getD ""

def SMap.contains (m : SMap) (key : String) : Bool := (SMap.get? m key).isSome

def SMap.erase (m : SMap) (key : String) : SMap := m.filter (fun e => e.k != key)

def SMap.set (m : SMap) (key val : String) : SMap :=
  if SMap.contains m key then m.map (fun e => if e.k == key then { e with v := val } else e)
  else m ++ [{ k := key, v := val }]

/-- `intstr.IntOrString` after the harness has parsed the string form the way the *legacy*
`GetValueFromIntOrPercent` does (every `%` stripped, then `strconv.Atoi`):
`kind = "int"` a number, `"pct"` a string that parsed (always treated as a percentage),
`"bad"` a string that did not parse. -/
structure IntOrStr where
  kind : String
  val : Int
  deriving DecidableEq, Repr, Inhabited

/-- Integer ceiling of `a / 100` (what `int(math.Ceil(float64(v)*float64(total)/100))` computes
for |a| < 2^45, DESIGN.md §7). -/
def ceilDiv100 (a : Int) : Int := (a + 99) / 100

/-- `intstr.GetValueFromIntOrPercent(x, total, true)`; `none` = the error return. -/
def resolveIntOrPercent (x : Option IntOrStr) (total : Int) : Option Int :=
  match x with
  | none => none
  | some v =>
    if v.kind == "int" then some v.val
    else if v.kind == "pct" then some (ceilDiv100 (v.val * total))
    else none

/-- Outcome of a Go call that may panic. -/
inductive Outcome (α : Type) where
  | ok (a : α)
  | err (msg : String)
  | panic
  deriving Repr, DecidableEq

end Eds
