import EdsModel.Basic
/-
  EdsModel.Objects — the Kubernetes / EDS objects at the level of detail the controller's decisions
  read.  The Go harness (`harness/canon`) converts the real API structs into exactly these records;
  the JSON decoders are derived from these declarations in `Driver/Json.lean`, so there is no
  second description of the data.
-/
namespace Eds

structure Taint where
  key : String
  value : String
  effect : String
  deriving DecidableEq, Repr, Inhabited

structure Toleration where
  key : String
  op : String        -- "", "Exists", "Equal"
  value : String
  effect : String
  deriving DecidableEq, Repr, Inhabited

/-- `NodeSelectorRequirement` / `LabelSelectorRequirement`. -/
structure Req where
  key : String
  op : String
  values : List String
  deriving DecidableEq, Repr, Inhabited

structure Term where
  exprs : List Req
  fields : List Req
  deriving DecidableEq, Repr, Inhabited

structure LabelSelector where
  matchLabels : SMap
  exprs : List Req
  deriving DecidableEq, Repr, Inhabited

/-- Resource lists; quantities canonicalised to their milli-value (as a decimal string). -/
structure Resources where
  limits : SMap
  requests : SMap
  deriving DecidableEq, Repr, Inhabited

structure Container where
  name : String
  res : Resources
  deriving DecidableEq, Repr, Inhabited

/-- a node annotation `resources.extendeddaemonset.datadoghq.com/<ns>.<eds>.<container>` as parsed
by the harness with `json.Unmarshal` into `ResourceRequirements` (`ok = false`: malformed JSON). -/
structure Override where
  container : String
  ok : Bool
  res : Resources
  deriving DecidableEq, Repr, Inhabited

/-- Affinity convention (Template, Pod): `affRequired = none` covers Affinity==nil, NodeAffinity==nil
and RequiredDuringScheduling==nil; `affOther` is an opaque fingerprint of everything else in the
Affinity struct (pod affinity, preferred terms). -/
structure Node where
  name : String
  labels : SMap
  annotations : SMap
  taints : List Taint
  /-- `comparison.GenerateHashFromEDSResourceNodeAnnotation(ns, eds, annotations)` as computed by
  the real function in the harness (its defining property has its own stream, C10). -/
  resHash : String := ""
  /-- the node's resource-override annotations for (ns, eds), one per container name -/
  overrides : List Override := []
  deriving DecidableEq, Repr, Inhabited

structure Template where
  labels : SMap
  annotations : SMap
  nodeSelector : SMap
  affOther : String
  affRequired : Option (List Term)
  tolerations : List Toleration
  containers : List Container
  deriving DecidableEq, Repr, Inhabited

structure LastTerm where
  reason : String
  finishedAt : Time
  /-- the `Terminated` struct equals its zero value -/
  empty : Bool
  deriving DecidableEq, Repr, Inhabited

structure ContainerStatus where
  name : String
  restarts : Int
  waiting : Option String
  lastTerm : Option LastTerm
  deriving DecidableEq, Repr, Inhabited

structure PodCond where
  type : String
  status : String
  reason : String
  lastTransition : Time
  deriving DecidableEq, Repr, Inhabited

structure OwnerRef where
  kind : String
  name : String
  deriving DecidableEq, Repr, Inhabited

structure Pod where
  name : String
  ns : String
  labels : SMap
  hasLabels : Bool := true          -- pod.Labels != nil
  annotations : SMap
  owners : List OwnerRef
  creation : Time
  deletion : Option Time
  gracePeriod : Option Int
  nodeName : String
  affOther : String
  affRequired : Option (List Term)
  tolerations : List Toleration
  containers : List Container
  phase : String
  startTime : Option Time
  conds : List PodCond
  cstats : List ContainerStatus       -- containers ++ init ++ ephemeral, in that order
  mainCstats : Nat := 0               -- how many of `cstats` are regular containers
  deriving DecidableEq, Repr, Inhabited

structure Cond where
  type : String
  status : String
  lastTransition : Time
  lastUpdate : Time
  reason : String
  message : String
  deriving DecidableEq, Repr, Inhabited

structure ERSStatus where
  status : String
  desired : Int
  current : Int
  ready : Int
  available : Int
  ignored : Int
  conds : List Cond
  deriving DecidableEq, Repr, Inhabited

structure ERS where
  name : String
  ns : String
  uid : String
  labels : SMap
  annotations : SMap
  creation : Time
  deleted : Bool
  ownerEds : Option String
  selector : Option LabelSelector
  templateGeneration : String
  template : Template
  status : ERSStatus
  deriving DecidableEq, Repr, Inhabited

structure RollingUpdate where
  maxUnavailable : Option IntOrStr
  maxPodSchedulerFailure : Option IntOrStr
  maxParallelPodCreation : Option Int
  slowStartInterval : Option Dur
  slowStartAdditiveIncrease : Option IntOrStr
  deriving DecidableEq, Repr, Inhabited

structure AutoPause where
  enabled : Option Bool
  maxRestarts : Option Int
  maxSlowStartDuration : Option Dur
  deriving DecidableEq, Repr, Inhabited

structure AutoFail where
  enabled : Option Bool
  maxRestarts : Option Int
  maxRestartsDuration : Option Dur
  canaryTimeout : Option Dur
  deriving DecidableEq, Repr, Inhabited

structure Canary where
  replicas : Option IntOrStr
  duration : Option Dur
  nodeSelector : Option LabelSelector
  antiAffinityKeys : List String
  autoPause : Option AutoPause
  autoFail : Option AutoFail
  noRestartsDuration : Option Dur
  validationMode : String
  deriving DecidableEq, Repr, Inhabited

structure Strategy where
  rollingUpdate : RollingUpdate
  canary : Option Canary
  reconcileFrequency : Option Dur
  deriving DecidableEq, Repr, Inhabited

structure CanaryStatus where
  replicaSet : String
  nodes : List String
  deriving DecidableEq, Repr, Inhabited

structure EDSStatus where
  desired : Int
  current : Int
  ready : Int
  available : Int
  upToDate : Int
  ignored : Int
  state : String
  activeReplicaSet : String
  reason : String
  canary : Option CanaryStatus
  conds : List Cond
  deriving DecidableEq, Repr, Inhabited

structure EDS where
  name : String
  ns : String
  labels : SMap
  annotations : SMap
  /-- `GenerateMD5PodTemplateSpec(&spec.template)` as computed by the real function. -/
  templateHash : String
  templateName : String
  template : Template
  strategy : Strategy
  status : EDSStatus
  deriving DecidableEq, Repr, Inhabited

structure Setting where
  name : String
  ns : String
  creation : Time
  reference : Option String
  nodeSelector : LabelSelector
  /-- `metav1.LabelSelectorAsSelector` fails on this selector -/
  badSelector : Bool := false
  containers : List Container
  status : String
  error : String
  deriving DecidableEq, Repr, Inhabited

/-! ### Constants (the hand-written values are tied to the source by `Generated.Facts`, see
`EdsProofs/FactsBridge.lean`). -/
namespace K
def edsNameLabel := "extendeddaemonset.datadoghq.com/name"
def ersNameLabel := "extendeddaemonsetreplicaset.datadoghq.com/name"
def settingNameLabel := "extendeddaemonsetsetting.datadoghq.com/name"
def settingNsLabel := "extendeddaemonsetsetting.datadoghq.com/namespace"
def canaryLabel := "extendeddaemonsetreplicaset.datadoghq.com/canary"
def templateHashAnnot := "extendeddaemonset.datadoghq.com/templatehash"
def canaryValidAnnot := "extendeddaemonset.datadoghq.com/canary-valid"
def canaryPausedAnnot := "extendeddaemonset.datadoghq.com/canary-paused"
def canaryPausedReasonAnnot := "extendeddaemonset.datadoghq.com/canary-paused-reason"
def canaryUnpausedAnnot := "extendeddaemonset.datadoghq.com/canary-unpaused"
def oldDaemonsetAnnot := "extendeddaemonset.datadoghq.com/old-daemonset"
def nodeHashAnnot := "extendeddaemonset.datadoghq.com/nodehash"
def rollingUpdatePausedAnnot := "extendeddaemonset.datadoghq.com/rolling-update-paused"
def rolloutFrozenAnnot := "extendeddaemonset.datadoghq.com/rollout-frozen"
def autoscalerAnnot := "cluster-autoscaler.kubernetes.io/daemonset-pod"
end K

/-! ### Condition-list helpers (both `conditions` packages have the same code). -/

def findCond (cs : List Cond) (t : String) : Option Cond := cs.find? (fun c => c.type == t)

def isCondTrue (cs : List Cond) (t : String) : Bool :=
  match findCond cs t with
  | some c => c.status == "True"
  | none => false

def boolCond (b : Bool) : String := if b then "True" else "False"

/-- Update of the *first* entry of type `t` (what `GetIndexForConditionType` finds). -/
def updateFirst (cs : List Cond) (t : String) (f : Cond → Cond) : List Cond :=
  match cs with
  | [] => []
  | c :: rest => if c.type == t then f c :: rest else c :: updateFirst rest t f

/-- `UpdateExtendedDaemonSetReplicaSetStatusCondition` (and the EDS twin). -/
def updateCond (cs : List Cond) (now : Time) (t status reason desc : String)
    (writeFalseIfNotExist supportLastUpdate : Bool) : List Cond :=
  match findCond cs t with
  | some _ =>
    updateFirst cs t (fun c =>
      let c1 := if c.status != status then
                  { c with lastTransition := now, status := status, lastUpdate := now } else c
      let c2 := if supportLastUpdate then { c1 with lastUpdate := now } else c1
      if status == "True" then { c2 with message := desc, reason := reason } else c2)
  | none =>
    if status == "True" || writeFalseIfNotExist then
      cs ++ [{ type := t, status := status, lastTransition := now, lastUpdate := now,
               reason := reason, message := desc }]
    else cs

end Eds
