import EdsModel.Objects
/-
  EdsModel.PodTemplateCtl — the PodTemplate controller (`controllers/podtemplate/controller.go`):
  one `Reconcile` keeps the `PodTemplate` object named like the ExtendedDaemonSet equal to
  `spec.template`, stamped with the template hash, labelled for the cluster autoscaler and owned
  by the ExtendedDaemonSet.  Store → at most one write.
-/
namespace Eds

/-- a `corev1.PodTemplate` as the harness canonicalises it.  `templateHash` is
`GenerateMD5PodTemplateSpec(&podTpl.Template)` computed by the real function. -/
structure PodTpl where
  name : String
  ns : String
  labels : SMap
  annotations : SMap
  templateHash : String
  template : Template
  ownerEds : Option String
  deriving DecidableEq, Repr, Inhabited

inductive PodTplWrite where
  | none
  | create (p : PodTpl)
  | update (p : PodTpl)
  deriving DecidableEq, Repr

/-- `newPodTemplate`: labels and annotations of the EDS, plus the hash annotation and the
autoscaler label, the template copied, owner reference to the EDS. -/
def newPodTemplate (d : EDS) : PodTpl :=
  { name := d.name, ns := d.ns,
    labels := SMap.set d.labels K.autoscalerAnnot "true",
    annotations := SMap.set d.annotations K.templateHashAnnot d.templateHash,
    templateHash := d.templateHash, template := d.template, ownerEds := some d.name }

/-- `Reconcile` for an existing EDS: create when absent, update when the hash annotation differs,
nothing otherwise. -/
def reconcilePodTemplate (d : EDS) (cur : Option PodTpl) : PodTplWrite :=
  match cur with
  | none => .create (newPodTemplate d)
  | some p =>
    if SMap.get? p.annotations K.templateHashAnnot == some d.templateHash then .none
    else .update (newPodTemplate d)

/-- the stored object after the write (the API server applies it as is). -/
def PodTplWrite.apply (w : PodTplWrite) (cur : Option PodTpl) : Option PodTpl :=
  match w with
  | .none => cur
  | .create p => some p
  | .update p => some p

end Eds
