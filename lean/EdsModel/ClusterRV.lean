import EdsModel.Cluster
/-
  EdsModel.ClusterRV — L3 with resourceVersions: STALE READS of the ExtendedDaemonSet.

  In `EdsModel/Cluster.lean` every reconcile reads a consistent snapshot.  The real controller reads
  the ExtendedDaemonSet from an informer cache that may lag behind the controller's own last write.
  The API server protects the object with optimistic concurrency (`metadata.resourceVersion`): an
  `Update` / `Status().Update` carrying an outdated version is refused (409 Conflict), and `Reconcile`
  returns that error without retrying (controllers/extendeddaemonset/controller.go: every
  `r.client.Update` / `r.client.Status().Update` is followed by `if err != nil { return …, err }`).
  The `Create` / `Delete` calls on replica sets issued by the same reconcile carry the REPLICA SET, not
  the ExtendedDaemonSet: they are not guarded by the ExtendedDaemonSet's version.

  `WorldRV`  a `World`, the resourceVersion `rv` of its ExtendedDaemonSet object and `hist`, the values
             the object had before (most recent first; `hist[k]` is the value `k+1` writes ago).  Every
             APPLIED write to the object — the defaulting `Update`, `Status().Update`, the spec `Update`,
             the user's edit — adds one to `rv` and pushes the previous value on `hist` (`WorldRV.put`).
             (A write that stores an identical object also bumps: a real API server would not; nothing
             below depends on it.)  The field `hist_le : hist.length ≤ rv` keeps the version of a
             recorded value (`rv - (k+1)`) different from `rv`; a world without history starts at any
             version (`WorldRV.init`).
  `OpRV`     `.fresh op` (an op of `Op`, the reconcile reading the stored object with its version) or
             `.reconcileEdsStale k newName mode`: the reconcile reads `hist[k]` (no-op when there is no
             such value) with the version it was stored under, and every list — replica sets, pods,
             nodes — and the clock CURRENT (they come from other caches / other informers).
  `execEds`  the calls of one `Reconcile`, in the order the Go code issues them, stopping at the first
             refused one:
               1. `Update` of the defaulted object        (guarded; the Go code returns after it)
               2. `Create` of the replica set / `Delete`s of the clean-up   (NOT guarded, applied)
               3. `Status().Update`                        (guarded)
               4. `Update` of spec.template / annotations  (guarded, with the version 3 returned)
             The order 2 < 3 < 4 is the one of `Reconcile`: `createNewReplicaSet` returns right after the
             `Create`; `cleanupReplicaSet` runs BEFORE `updateInstanceWithCurrentRS`, which issues
             `Status().Update` then `Update`.  `applyEds` / `applyEdsObj` of `EdsModel/Cluster.lean` apply
             the same writes in the same order without the guard.
  `stepRV`, `runRV`.

  Modelling decisions (in addition to those of `EdsModel/Cluster.lean`):
  * a guarded write is applied field-wise to the STORED object (status subresource: only `.status`;
    main resource: only spec / annotations).  Since the write is accepted only when the client's
    version is the stored one, the client's copy IS the stored object then, so this is the same as
    storing the client's copy;
  * the created replica set carries the template, hash, labels and annotations of the object the
    reconcile READ (`newReplicaSetFromInstance(instance)`), the deletions address its namespace;
  * the user's edit is not guarded (`kubectl apply` / `patch` send no resourceVersion);
  * a stale read of the replica-set, pod or node caches is not modelled here (`kubelet` / `setNodes`
    already install arbitrary lists); staleness of the ExtendedDaemonSet read by the REPLICA-SET
    controller is not modelled either.
-/
namespace Eds

structure WorldRV where
  world : World
  /-- `metadata.resourceVersion` of the stored ExtendedDaemonSet -/
  rv : Nat
  /-- its earlier stored values, most recent first -/
  hist : List EDS
  hist_le : hist.length ≤ rv

/-- a world whose ExtendedDaemonSet has no recorded past, at version `v`. -/
def WorldRV.init (w : World) (v : Nat := 0) : WorldRV :=
  { world := w, rv := v, hist := [], hist_le := Nat.zero_le _ }

inductive OpRV where
  /-- an op of `Op`; a reconcile reads the stored ExtendedDaemonSet and its version -/
  | fresh (op : Op)
  /-- `Reconcile` of the daemonset reading its `k`-th earlier stored value (`k = 0`: one write behind) -/
  | reconcileEdsStale (k : Nat) (newName : String) (defaultMode : String)

/-- an APPLIED write `f` to the stored ExtendedDaemonSet: the version is bumped, the previous value
recorded. -/
def WorldRV.put (w : WorldRV) (f : EDS → EDS) : WorldRV :=
  { world := { w.world with eds := f w.world.eds },
    rv := w.rv + 1,
    hist := w.world.eds :: w.hist,
    hist_le := Nat.succ_le_succ w.hist_le }

/-- the API server's optimistic-concurrency check: a write carrying version `ver` is applied iff `ver`
is the stored version (`none` = 409 Conflict). -/
def WorldRV.putGuarded (w : WorldRV) (ver : Nat) (f : EDS → EDS) : Option WorldRV :=
  if ver = w.rv then some (WorldRV.put w f) else none

/-- a write to the replica-set list: the ExtendedDaemonSet, its version and its history are untouched. -/
def WorldRV.setErss (w : WorldRV) (erss : List ERS) : WorldRV :=
  { w with world := { w.world with erss := erss } }

namespace ClusterRV
open Cluster

/-- the three guarded writes, as functions on the stored object (`applyEdsObj` restricted to one write). -/
def wDefaulted (x : Strategy × String) (d : EDS) : EDS := applyEdsObj d { defaulted := some x } d.template
def wStatus (st : EDSStatus) (d : EDS) : EDS := applyEdsObj d { statusUpdate := some st } d.template
def wSpec (x : String × SMap) (restored : Template) (d : EDS) : EDS := applyEdsObj d { specUpdate := some x } restored

/-- the API calls of one `Reconcile` that read the ExtendedDaemonSet `d` at version `ver` and planned
the writes `wr`, in the order the Go code issues them; the reconcile stops at the first refused call. -/
def execEds (w : WorldRV) (d : EDS) (ver : Nat) (wr : EdsWrites) (newName : String) : WorldRV :=
  -- the template a spec update restores, computed from what the reconcile read
  let restored := match wr.specUpdate with
    | some (h, _) => restoreTemplate d w.world.erss w.world.now h
    | none => d.template
  -- 1. `Update` of the defaulted object
  match (match wr.defaulted with
         | some x => (WorldRV.putGuarded w ver (wDefaulted x)).map (fun w1 => (w1, ver + 1))
         | none => some (w, ver)) with
  | none => w
  | some (w1, v1) =>
    -- 2. `Create` / `Delete` of replica sets: no version of the ExtendedDaemonSet involved
    let w2 := WorldRV.setErss w1 (applyErsList d w.world.erss wr newName w.world.now)
    -- 3. `Status().Update`
    match (match wr.statusUpdate with
           | some st => (WorldRV.putGuarded w2 v1 (wStatus st)).map (fun w3 => (w3, v1 + 1))
           | none => some (w2, v1)) with
    | none => w2
    | some (w3, v3) =>
      -- 4. `Update` (spec.template, annotations) with the version the status update returned
      match wr.specUpdate with
      | some x => (WorldRV.putGuarded w3 v3 (wSpec x restored)).getD w3
      | none => w3

/-- the world a reconcile sees when the ExtendedDaemonSet cache returns `d`: everything else current. -/
def seenWith (w : World) (d : EDS) : World := { w with eds := d }

end ClusterRV

open Cluster ClusterRV

/-- one step of the cluster with resourceVersions. -/
def stepRV (w : WorldRV) : OpRV → WorldRV
  | .fresh (.reconcileEds newName m) => execEds w w.world.eds w.rv (edsWrites w.world m) newName
  | .fresh (.userSpec h t s ann) =>
    WorldRV.put w (fun d => { d with templateHash := h, template := t, strategy := s, annotations := ann })
  | .fresh op => { w with world := step w.world op }
  | .reconcileEdsStale k newName m =>
    match w.hist[k]? with
    | none => w
    | some d => execEds w d (w.rv - (k + 1)) (edsWrites (seenWith w.world d) m) newName

def runRV (w : WorldRV) (ops : List OpRV) : WorldRV := ops.foldl stepRV w

end Eds
