import EdsModel.Scheduler
import EdsModel.PodUtil
/-
  EdsModel.PodBuild — `CreatePodFromDaemonSetReplicaSet` (pkg/controller/utils/pod/create.go) and
  `ReplaceNodeNameNodeAffinity` (pkg/controller/utils/affinity/affinity.go).
-/
namespace Eds

def nameReq (nodeName : String) : Req := { key := "metadata.name", op := "In", values := [nodeName] }

/-- rewriting of one required term by `ReplaceNodeNameNodeAffinity`. -/
def pinTerm (nodeName : String) (t : Term) : Term :=
  if t.fields.isEmpty then { t with fields := [nameReq nodeName] }
  else if t.fields.any (fun f => f.key == "metadata.name") then
    { t with fields := t.fields.map (fun f => if f.key == "metadata.name" then nameReq nodeName else f) }
  else { t with fields := t.fields ++ [nameReq nodeName] }

/-- `ReplaceNodeNameNodeAffinity` on the required terms (everything else in the affinity is kept). -/
def pinAffinity (req : Option (List Term)) (nodeName : String) : List Term :=
  match req with
  | none => [{ exprs := [], fields := [nameReq nodeName] }]
  | some terms => terms.map (pinTerm nodeName)

/-- `overwriteResourcesFromEdsNode`: for each setting container (in order) the first template
container with that name gets the setting's resources (a full replacement). -/
def applySettingContainers (cs : List Container) (extra : List Container) : List Container :=
  extra.foldl (fun (acc : List Container) e =>
    let rec go : List Container → List Container
      | [] => []
      | c :: rest => if c.name == e.name then { c with res := e.res } :: rest else c :: go rest
    go acc) cs

/-- `overwriteResourcesFromNode`: a well-formed override annotation replaces the container's
resources; a malformed one is skipped (and reported as an error). -/
def applyOverrides (cs : List Container) (ovs : List Override) : List Container :=
  cs.map (fun c =>
    match ovs.find? (fun o => o.container == c.name) with
    | some o => if o.ok then { c with res := o.res } else c
    | none => c)

structure BuiltPod where
  pod : Pod
  /-- the error returned: some override annotation did not parse (only visible without a scheme) -/
  overrideError : Bool
  deriving Repr

/-- `CreatePodFromDaemonSetReplicaSet(scheme, rs, node, setting, addNodeAffinity)`; the pod's
`name` field carries `generateName`. -/
def createPod (rs : ERS) (node : Option Node) (setting : Option Setting) (addAffinity : Bool) (withOwner : Bool := true) : BuiltPod :=
  let t := rs.template
  let edsName := SMap.getD rs.labels K.edsNameLabel
  let labels := SMap.set (SMap.set t.labels K.ersNameLabel rs.name) K.edsNameLabel edsName
  let labels := match setting with
    | some s => SMap.set (SMap.set labels K.settingNameLabel s.name) K.settingNsLabel s.ns
    | none => labels
  let ann := SMap.set (SMap.set t.annotations K.templateHashAnnot rs.templateGeneration) K.autoscalerAnnot "true"
  let ann := match node with
    | some n => if n.resHash != "" then SMap.set ann K.nodeHashAnnot n.resHash else ann
    | none => ann
  let cs := match setting with
    | some s => applySettingContainers t.containers s.containers
    | none => t.containers
  let cs := match node with
    | some n => applyOverrides cs n.overrides
    | none => cs
  let overrideErr := match node with
    | some n => cs.any (fun c => match n.overrides.find? (fun o => o.container == c.name) with
                                  | some o => !o.ok | none => false)
    | none => false
  let (nodeName, affReq) := match node with
    | some n => if addAffinity then ("", some (pinAffinity t.affRequired n.name)) else (n.name, t.affRequired)
    | none => ("", t.affRequired)
  { pod := { name := rs.name ++ "-", ns := rs.ns, labels := labels, annotations := ann,
             owners := if withOwner then [{ kind := "ExtendedDaemonSetReplicaSet", name := rs.name }] else [],
             creation := zeroTime, deletion := none, gracePeriod := none, nodeName := nodeName,
             affOther := t.affOther, affRequired := affReq,
             tolerations := t.tolerations ++ standardTolerations, containers := cs,
             phase := "", startTime := none, conds := [], cstats := [] },
    -- with a scheme the returned error is overwritten by SetControllerReference's (nil)
    overrideError := overrideErr && !withOwner }

end Eds
