import EdsModel.Scheduler
import EdsModel.PodUtil
/-
  EdsModel.Filter — `FilterAndMapPodsByNode`, `FilterPodsByNode`, `sortPodByNodeName`
  (controllers/extendeddaemonsetreplicaset/filters.go).

  Go maps become association lists.  The failed-pod back-off is an explicit parameter
  `released : String → Bool` ("node is not in back-off at the start of the sync"); within one sync a
  node that has just been released is in back-off for the rest of the scan (`Next` sets
  `lastUpdate = now`, and `0 < backoff`).
-/
namespace Eds

/-- `sortPodByNodeName.Less`. -/
def podLess (a b : Pod) : Bool :=
  if a.nodeName != "" && b.nodeName == "" then true
  else if a.nodeName == "" && b.nodeName != "" then false
  else if a.creation == b.creation then a.name < b.name
  else a.creation < b.creation

/-- insertion of `p` into a list sorted by `podLess` (before the first strictly greater element):
models `sort.Sort` up to the order of elements that are equivalent under `podLess` (none, given
unique pod names). -/
def insertPod (p : Pod) : List Pod → List Pod
  | [] => [p]
  | q :: rest => if podLess p q then p :: q :: rest else q :: insertPod p rest

def sortPods (ps : List Pod) : List Pod := ps.foldr insertPod []

structure FilterOut where
  /-- fit, non-ignored nodes in node-list order, each with its kept pod -/
  byNode : List (NodeItem × Option Pod)
  toDelete : List Pod
  unscheduled : List Pod
  deriving Repr

/-- state of the scan over the pod list -/
structure ScanState where
  /-- pods attached to each candidate node, in list order -/
  attached : List (String × List Pod)
  toDelete : List Pod
  unscheduled : List Pod
  /-- nodes whose back-off was armed during this scan -/
  armed : List String
  deriving Repr

def attach (att : List (String × List Pod)) (node : String) (p : Pod) : List (String × List Pod) :=
  att.map (fun e => if e.1 == node then (e.1, e.2 ++ [p]) else e)

def scanPod (released : String → Bool) (ignore : List String) (st : ScanState) (p : Pod) : ScanState :=
  match p.nodeOf with
  | none => st
  | some nodeName =>
    if p.phase == "Unknown" then st
    else if st.attached.any (fun e => e.1 == nodeName) then
      if p.phase == "Failed" && released nodeName && !st.armed.contains nodeName then
        { st with toDelete := st.toDelete ++ [p], armed := nodeName :: st.armed }
      else
        { st with attached := attach st.attached nodeName p,
                  unscheduled := if p.scheduled then st.unscheduled else st.unscheduled ++ [p] }
    else if ignore.contains nodeName then st
    else if p.deletion.isNone then { st with toDelete := st.toDelete ++ [p] }
    else st

/-- candidate nodes: not ignored and fit for the replica set's template. -/
def candidates (t : Template) (nodes : List NodeItem) (ignore : List String) : List NodeItem :=
  nodes.filter (fun ni => !ignore.contains ni.node.name && fit t ni.node)

def filterAndMap (released : String → Bool) (t : Template) (nodes : List NodeItem) (pods : List Pod)
    (ignore : List String) : FilterOut :=
  let cands := candidates t nodes ignore
  let st0 : ScanState := { attached := cands.map (fun ni => (ni.node.name, [])), toDelete := [],
                           unscheduled := [], armed := [] }
  let st := pods.foldl (scanPod released ignore) st0
  let sorted := st.attached.map (fun e => (e.1, sortPods e.2))
  let byNode := cands.map (fun ni =>
    match sorted.find? (fun e => e.1 == ni.node.name) with
    | some (_, p :: _) => (ni, some p)
    | _ => (ni, none))
  let dups := (sorted.map (fun e => e.2.drop 1)).flatten
  { byNode := byNode, toDelete := st.toDelete ++ dups, unscheduled := st.unscheduled }

end Eds
