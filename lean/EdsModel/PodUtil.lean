import EdsModel.Objects
/-
  EdsModel.PodUtil — helpers of pkg/controller/utils/pod/pod.go, pkg/controller/utils/affinity and
  strategy/utils.go (`compareCurrentPodWithNewPod`).
-/
namespace Eds

/-- `affinity.GetNodeNameFromAffinity`: first `metadata.name` match field with a value, scanning
terms in order. -/
def nodeNameFromTerms (terms : List Term) : String :=
  match terms with
  | [] => ""
  | t :: rest =>
    match t.fields.find? (fun f => f.key == "metadata.name" && !f.values.isEmpty) with
    | some f => f.values.head!
    | none => nodeNameFromTerms rest

def nodeNameFromAffinity (req : Option (List Term)) : String :=
  match req with
  | none => ""
  | some ts => nodeNameFromTerms ts

/-- `podutils.GetNodeNameFromPod`; `none` = error (no node binding at all). -/
def Pod.nodeOf (p : Pod) : Option String :=
  if p.nodeName != "" then some p.nodeName
  else
    let n := nodeNameFromAffinity p.affRequired
    if n == "" then none else some n

def Pod.scheduled (p : Pod) : Bool := p.nodeName != ""

/-- `IsPodReady`: first condition of type Ready is True. -/
def Pod.ready (p : Pod) : Bool :=
  match p.conds.find? (fun c => c.type == "Ready") with
  | some c => c.status == "True"
  | none => false

/-- `IsPodAvailable(pod, 0, now)` — with `minReadySeconds = 0` availability is readiness. -/
def Pod.available (p : Pod) : Bool := p.ready

def Pod.terminating (p : Pod) : Bool := p.deletion.isSome

/-- `HasPodSchedulerIssue` evaluated at wall-clock `wall`; `issueAge` = 10 min (fact). -/
def Pod.schedulerIssue (p : Pod) (wall : Time) (issueAge : Dur := 600 * sec) : Bool :=
  (!p.scheduled && p.creation + issueAge < wall) ||
  (match p.deletion, p.gracePeriod with
   | some d, some g => d + g * sec < wall
   | _, _ => false)

/-- `HighestRestartCount`: (count, reason) of the first container status holding the strict
maximum, scanning containers ++ init ++ ephemeral. -/
def highestRestart (cs : List ContainerStatus) : Int × String :=
  cs.foldl (fun (acc : Int × String) s =>
    if s.restarts > acc.1 then
      (s.restarts,
        match s.lastTerm with
        | some t => if !t.empty && t.reason != "" then t.reason else "Unknown"
        | none => "Unknown")
    else acc) (0, "")

/-- `MostRecentRestart`: latest `finishedAt` among containers with restarts and a last state. -/
def mostRecentRestart (cs : List ContainerStatus) : Time × String :=
  cs.foldl (fun (acc : Time × String) s =>
    match s.lastTerm with
    | some t =>
      if s.restarts != 0 && t.finishedAt > acc.1 then
        (t.finishedAt, if t.reason != "" then t.reason else "Unknown")
      else acc
    | none => acc) (zeroTime, "")

def cannotStartReasons : List String :=
  ["ErrImagePull", "ImagePullBackOff", "ImageInspectError", "ErrImageNeverPull",
   "RegistryUnavailable", "InvalidImageName", "CreateContainerConfigError",
   "CreateContainerError", "PreStartHookError", "PostStartHookError", "PreCreateHookError"]

def knownStatusReasons : List String :=
  ["CrashLoopBackOff", "OOMKilled", "RestartsTimeoutExceeded", "SlowStartTimeoutExceeded",
   "ErrImagePull", "ImagePullBackOff", "ImageInspectError", "ErrImageNeverPull",
   "RegistryUnavailable", "InvalidImageName", "CreateContainerConfigError",
   "CreateContainerError", "PreStartHookError", "PostStartHookError", "PreCreateHookError",
   "StartError", "Unknown"]

def convertReason (r : String) : String := if knownStatusReasons.contains r then r else "Unknown"

/-- `CannotStart`: first container waiting with a cannot-start reason. -/
def cannotStart (cs : List ContainerStatus) : Bool × String :=
  match cs.find? (fun s => match s.waiting with
                           | some r => cannotStartReasons.contains r
                           | none => false) with
  | some s => (true, convertReason (s.waiting.getD ""))
  | none => (false, "Unknown")

def pendingCreate (cs : List ContainerStatus) : Bool :=
  cs.any (fun s => s.waiting == some "ContainerCreating")

/-! ### compareCurrentPodWithNewPod -/

structure NodeItem where
  node : Node
  setting : Option Setting
  deriving DecidableEq, Repr, Inhabited

def compareSpecTemplateHash (hash : String) (p : Pod) : Bool :=
  SMap.get? p.annotations K.templateHashAnnot == some hash

/-- overlaying `over` on `base` key by key leaves `base` unchanged. -/
def overlayIsNoop (base over : SMap) : Bool :=
  over.all (fun e => SMap.get? base e.k == some e.v)

/-- `compareWithExtendedDaemonsetSettingOverwrite`: re-applying the setting's resource values to
the pod's containers (first setting container with the same name) changes nothing.  Containers that
a well-formed node override annotation governs are skipped (F4 repair): at creation the annotation
wins over the setting, so the setting's values are not expected on them. -/
def compareSettingOverwrite (p : Pod) (ni : NodeItem) : Bool :=
  match ni.setting with
  | none => true
  | some s =>
    p.containers.all (fun c =>
      if ni.node.overrides.any (fun o => o.container == c.name && o.ok) then true else
      match s.containers.find? (fun c2 => c2.name == c.name) with
      | some c2 => overlayIsNoop c.res.limits c2.res.limits && overlayIsNoop c.res.requests c2.res.requests
      | none => true)

def compareNodeHash (p : Pod) (ni : NodeItem) : Bool :=
  match SMap.get? p.annotations K.nodeHashAnnot with
  | none => ni.node.resHash == ""
  | some v => v == ni.node.resHash

def comparePod (templateGeneration : String) (p : Pod) (ni : NodeItem) : Bool :=
  compareSpecTemplateHash templateGeneration p && compareSettingOverwrite p ni && compareNodeHash p ni

end Eds
