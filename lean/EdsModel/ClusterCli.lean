import EdsModel.Cluster
import EdsModel.Cli
/-
  EdsModel.ClusterCli — the kubectl-eds commands as operations of the cluster machine (L3).

  `OpC` = an `Op` of EdsModel/Cluster.lean, or `cli cmd`: the `run()` body of the plugin command `cmd`
  (`cliRun` of EdsModel/Cli.lean) applied to what the world holds at that moment:

    * the command reads the ExtendedDaemonSet of the world: `spec.strategy.canary != nil`, `status.canary`,
      the annotations (`cliOut`);
    * `patchAnnotations ann'`: the merge patch of the daemonset — its annotation map becomes `ann'`, nothing else;
    * `failErs name`: `Get` of the replica set `name` in the daemonset's namespace, then a status update whose
      Canary-Failed condition is `UpdateExtendedDaemonSetReplicaSetStatusCondition(status, now, Canary-Failed,
      True, "Manually failed", "", false, true)` (pkg/plugin/canary/fail.go after the F12 repair: first entry
      rewritten in place, appended when absent) at the world's clock; as for `applyErs`, the object is addressed
      by namespace/name (a name that is not found: the command fails, nothing is written);
    * `refused _`: the command returns an error before any write — a no-op.
-/
namespace Eds

inductive OpC where
  /-- an operation of the cluster machine (reconciles, environment, clock). -/
  | op (o : Op)
  /-- a kubectl-eds command run by a user against the world's ExtendedDaemonSet. -/
  | cli (cmd : CliCmd)

instance : Coe Op OpC := ⟨OpC.op⟩

namespace Cluster

/-- the condition list `canary fail` writes (fail.go: `writeFalseIfNotExist = false`, `supportLastUpdate = true`). -/
def cliFailConds (conds : List Cond) (now : Time) : List Cond :=
  updateCond conds now "Canary-Failed" "True" "Manually failed" "" false true

/-- the replica set after the status update of `canary fail`. -/
def failErsObj (now : Time) (e : ERS) : ERS :=
  { e with status := { e.status with conds := cliFailConds e.status.conds now } }

/-- what the command computes from the world's ExtendedDaemonSet. -/
def cliOut (w : World) (cmd : CliCmd) : CliOut :=
  cliRun cmd w.eds.strategy.canary.isSome w.eds.status.canary w.eds.annotations

/-- the world after the command's write (if any). -/
def applyCli (w : World) : CliOut → World
  | .patchAnnotations ann => { w with eds := { w.eds with annotations := ann } }
  | .failErs name =>
    { w with erss := w.erss.map (fun e => if e.ns == w.eds.ns && e.name == name then failErsObj w.now e else e) }
  | .refused _ => w

end Cluster

open Cluster

/-- one step of the cluster with users running kubectl-eds. -/
def stepC (w : World) : OpC → World
  | .op o => step w o
  | .cli cmd => applyCli w (cliOut w cmd)

def runC (w : World) (ops : List OpC) : World := ops.foldl stepC w

end Eds
