import EdsModel.Kernel
import EdsModel.Filter
/-
  EdsModel.Rolling — `strategy.ManageDeployment` (rollingupdate.go), `ManageUnknown` (unknown.go)
  and the helpers they share (strategy/utils.go).

  The per-node map `PodByNodeName` is the association list `byNode`; its order stands for Go's map
  iteration order and every theorem quantifies over it.
-/
namespace Eds

def isRollingUpdatePaused (ann : SMap) : Bool := SMap.getD ann K.rollingUpdatePausedAnnot == "true"
def isRolloutFrozen (ann : SMap) : Bool := SMap.getD ann K.rolloutFrozenAnnot == "true"

structure StratParams where
  edsName : String
  edsAnnotations : SMap
  strategy : Strategy
  ers : ERS
  newStatus : ERSStatus
  canaryNodes : List String
  byNode : List (NodeItem × Option Pod)
  toCleanUp : List Pod
  unscheduled : List Pod
  deriving Repr

structure StratResult where
  /-- nodes to create a pod on / (node, pod) pairs to delete, in the order the strategy lists them -/
  createE : List NodeItem := []
  deleteE : List (NodeItem × Pod) := []
  unscheduledNodes : List String := []
  isFrozen : Bool := false
  isPaused : Bool := false
  pausedReason : String := ""
  isUnpaused : Bool := false
  isFailed : Bool := false
  failedReason : String := ""
  newStatus : Option ERSStatus := none
  requeue : Bool := false
  requeueAfter : Dur := 0
  /-- pods passed to `client.Delete` by `cleanupPods` -/
  cleanupDeletes : List String := []
  deriving Repr

def StratResult.podsToCreate (r : StratResult) : List String := r.createE.map (·.node.name)
def StratResult.podsToDelete (r : StratResult) : List String := r.deleteE.map (·.1.node.name)

/-- `manageUnscheduledPodNodes`. -/
def unscheduledNodes (pods : List Pod) : List String :=
  pods.filterMap (fun p =>
    match p.conds.find? (fun c => c.type == "PodScheduled") with
    | some c =>
      if c.status == "False" && c.reason == "Unschedulable" then
        some (if p.nodeName != "" then p.nodeName else nodeNameFromAffinity p.affRequired)
      else none
    | none => none)

/-- `getRollingUpdateStartTime`. -/
def rollingUpdateStartTime (st : ERSStatus) (now : Time) : Time :=
  match findCond st.conds "Active" with
  | some c => if c.status == "True" then c.lastTransition else now
  | none => now

/-- node categories of the `ManageDeployment` loop. -/
inductive Cat where
  | noPod | stuck | upToDate (avail ready : Bool) | outdated (avail : Bool) | outdatedTerminating
  deriving DecidableEq, Repr

def classify (tg : String) (wall : Time) (e : NodeItem × Option Pod) : Cat :=
  match e.2 with
  | none => .noPod
  | some p =>
    if p.schedulerIssue wall then .stuck
    else if !comparePod tg p e.1 then
      (if p.deletion.isNone then .outdated p.available else .outdatedTerminating)
    else .upToDate p.available p.ready

structure Counts where
  desired : Int := 0
  allPods : Int := 0
  created : Int := 0
  available : Int := 0
  ready : Int := 0
  oldAvailable : Int := 0
  oldUnavailable : Int := 0
  terminating : Int := 0
  stuck : Int := 0
  toCreate : List NodeItem := []
  toDeleteUnavail : List (NodeItem × Pod) := []
  toDeleteAvail : List (NodeItem × Pod) := []
  deriving Repr

def countStep (tg : String) (wall : Time) (c : Counts) (e : NodeItem × Option Pod) : Counts :=
  let c := { c with desired := c.desired + 1 }
  match e.2 with
  | none => { c with toCreate := c.toCreate ++ [e.1] }
  | some pod =>
    match classify tg wall e with
    | .noPod => c
    | .stuck => { c with stuck := c.stuck + 1 }
    | .outdatedTerminating => { c with allPods := c.allPods + 1, terminating := c.terminating + 1 }
    | .outdated true => { c with allPods := c.allPods + 1, oldAvailable := c.oldAvailable + 1,
                                 toDeleteAvail := c.toDeleteAvail ++ [(e.1, pod)] }
    | .outdated false => { c with allPods := c.allPods + 1, oldUnavailable := c.oldUnavailable + 1,
                                  toDeleteUnavail := c.toDeleteUnavail ++ [(e.1, pod)] }
    | .upToDate a r => { c with allPods := c.allPods + 1, created := c.created + 1,
                                available := c.available + (if a then 1 else 0),
                                ready := c.ready + (if r then 1 else 0) }

def countAll (tg : String) (wall : Time) (es : List (NodeItem × Option Pod)) : Counts :=
  es.foldl (countStep tg wall) {}

def dropCanaryNodes (byNode : List (NodeItem × Option Pod)) (canaryNodes : List String) :=
  byNode.filter (fun e => !canaryNodes.contains e.1.node.name)

/-- the entries the active (and unknown) role works on -/
def targeted (p : StratParams) : List (NodeItem × Option Pod) := dropCanaryNodes p.byNode p.canaryNodes

/-- pods of `toCleanUp` that `deletePodSlice` actually deletes. -/
def cleanupTargets (pods : List Pod) : List String :=
  (pods.filter (fun p => p.deletion.isNone)).map (·.name)

/-- the create / delete lists `ManageDeployment` derives from the counters: the limits kernel, the
`min` with the candidate counts, the unavailable-first ordering of the deletion candidates (F1
repair) and the paused / frozen gates. -/
def rollingPlan (c : Counts) (nbNodes maxSched maxUnavailable maxCreation : Int) (paused frozen : Bool) :
    List NodeItem × List (NodeItem × Pod) :=
  let lim := calcLimits {
    nbNodes := nbNodes, nbPods := c.allPods, nbAvailablesPod := c.available,
    nbOldAvailablesPod := c.oldAvailable, nbCreatedPod := c.created,
    nbUnresponsiveNodes := c.stuck, nbOldUnavailablePods := c.oldUnavailable,
    maxPodCreation := maxCreation, maxUnavailablePod := maxUnavailable,
    maxUnschedulablePod := maxSched }
  let allDelete := c.toDeleteUnavail ++ c.toDeleteAvail
  let nDel := min lim.2 allDelete.length
  let nCre := min lim.1 c.toCreate.length
  (if !frozen then c.toCreate.take nCre.toNat else [],
   if !paused && !frozen then allDelete.take nDel.toNat else [])

/-- the three conditions `ManageDeployment` updates in place on `params.NewStatus` before anything
can fail: what the status holds when the function returns early with an error. -/
def rollingConds (p : StratParams) (now : Time) : List Cond :=
  let paused := isRollingUpdatePaused p.edsAnnotations
  let frozen := isRolloutFrozen p.edsAnnotations
  let conds := updateCond p.newStatus.conds now "RollingUpdatePaused" (boolCond paused) "" "" false false
  let conds := updateCond conds now "RolloutFrozen" (boolCond frozen) "" "" false false
  updateCond conds now "Active" (boolCond (!paused && !frozen)) "" "" false false

/-- `ManageDeployment` up to (not including) the canary-label clean-up, which talks to the API and
is modelled in `Reconcile.lean`.  `cleanupFailed` = some `client.Delete` of the clean-up failed.
`.err` = the early `return result, err` (NewStatus stays nil). -/
def manageDeployment (p : StratParams) (now wall : Time) (cleanupFailed : Bool := false) :
    Outcome StratResult :=
  let paused := isRollingUpdatePaused p.edsAnnotations
  let frozen := isRolloutFrozen p.edsAnnotations
  let conds := updateCond p.newStatus.conds now "RollingUpdatePaused" (boolCond paused) "" "" false false
  let conds := updateCond conds now "RolloutFrozen" (boolCond frozen) "" "" false false
  let conds := updateCond conds now "Active" (boolCond (!paused && !frozen)) "" "" false false
  let byNode := dropCanaryNodes p.byNode p.canaryNodes
  let nbNodes : Int := byNode.length
  let ru := p.strategy.rollingUpdate
  match resolveIntOrPercent ru.maxPodSchedulerFailure nbNodes with
  | none => .err "maxPodSchedulerFailure"
  | some maxSched =>
  let c := countAll p.ers.templateGeneration wall byNode
  match resolveIntOrPercent ru.maxUnavailable nbNodes with
  | none => .err "maxUnavailable"
  | some maxUnavailable =>
  let start := rollingUpdateStartTime p.ers.status now
  match calculateMaxCreation ru.slowStartAdditiveIncrease ru.slowStartInterval ru.maxParallelPodCreation nbNodes start now with
  | .panic => .panic
  | .err m => .err m
  | .ok maxCreation =>
  let plan := rollingPlan c nbNodes maxSched maxUnavailable maxCreation paused frozen
  let st : ERSStatus :=
    { p.newStatus with
      conds := conds, status := "active", desired := c.desired, ready := c.ready,
      current := c.created, available := c.available, ignored := c.stuck }
  let targets := cleanupTargets p.toCleanUp
  let st := if p.toCleanUp.isEmpty then st else
    { st with conds := updateCond st.conds wall "PodsCleanupDone" (boolCond (!cleanupFailed)) "" "" true false }
  .ok { createE := plan.1, deleteE := plan.2,
        unscheduledNodes := unscheduledNodes p.unscheduled,
        isFrozen := frozen, isPaused := paused, newStatus := some st,
        requeue := st.desired != st.ready, cleanupDeletes := targets }

/-- `ManageUnknown`. -/
def manageUnknown (p : StratParams) (wall : Time) : StratResult :=
  let byNode := dropCanaryNodes p.byNode p.canaryNodes
  let step := fun (acc : Int × Int × Int × Int) (e : NodeItem × Option Pod) =>
    match e.2 with
    | none => acc
    | some pod =>
      if comparePod p.ers.templateGeneration pod e.1 then
        if pod.schedulerIssue wall then (acc.1, acc.2.1, acc.2.2.1, acc.2.2.2 + 1)
        else (acc.1 + 1, acc.2.1 + (if pod.available then 1 else 0),
              acc.2.2.1 + (if pod.ready then 1 else 0), acc.2.2.2)
      else acc
  let (cur, avail, rdy, ign) := byNode.foldl step (0, 0, 0, 0)
  let st : ERSStatus :=
    { p.newStatus with
      status := "unknown", desired := 0, ready := rdy, current := cur, available := avail,
      ignored := ign }
  { newStatus := some st, requeue := (0 : Int) != rdy, requeueAfter := sec }

end Eds
