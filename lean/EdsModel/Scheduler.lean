import EdsModel.Objects
/-
  EdsModel.Scheduler — `scheduler.CheckNodeFitness` (predicates.go) and the apimachinery label /
  field selector semantics it relies on (trusted re-implementation, DESIGN.md §7.4; exercised by
  the `fitness` correspondence stream).
-/
namespace Eds

/-- `labels.NewRequirement` validity as far as operator / value-count / integer parsing go.
Key and value *syntax* validation is not modelled (generators use valid names). -/
def reqValid (r : Req) : Bool :=
  if r.op == "In" || r.op == "NotIn" then !r.values.isEmpty
  else if r.op == "Exists" || r.op == "DoesNotExist" then r.values.isEmpty
  else if r.op == "Gt" || r.op == "Lt" then
    match r.values with
    | [v] => v.toInt?.isSome
    | _ => false
  else false

def reqMatches (r : Req) (ls : SMap) : Bool :=
  if r.op == "In" then
    match SMap.get? ls r.key with
    | some v => r.values.contains v
    | none => false
  else if r.op == "NotIn" then
    match SMap.get? ls r.key with
    | some v => !r.values.contains v
    | none => true
  else if r.op == "Exists" then SMap.contains ls r.key
  else if r.op == "DoesNotExist" then !SMap.contains ls r.key
  else if r.op == "Gt" || r.op == "Lt" then
    match SMap.get? ls r.key, r.values with
    | some v, [rv] =>
      match v.toInt?, rv.toInt? with
      | some a, some b => if r.op == "Gt" then a > b else a < b
      | _, _ => false
    | _, _ => false
  else false

/-- node selector requirements as a label selector: `none` = conversion error. -/
def exprsMatch (exprs : List Req) (ls : SMap) : Bool :=
  exprs.all reqValid && exprs.all (fun r => reqMatches r ls)

def fieldGet (nodeName : String) (key : String) : String :=
  if key == "metadata.name" then nodeName else ""

def fieldReqValid (r : Req) : Bool := (r.op == "In" || r.op == "NotIn") && r.values.length == 1

def fieldReqMatches (r : Req) (nodeName : String) : Bool :=
  match r.values with
  | [v] => if r.op == "In" then fieldGet nodeName r.key == v else fieldGet nodeName r.key != v
  | _ => false

def fieldsMatch (fs : List Req) (nodeName : String) : Bool :=
  fs.all fieldReqValid && fs.all (fun r => fieldReqMatches r nodeName)

/-- one `NodeSelectorTerm` of `MatchNodeSelectorTerms`. -/
def termMatches (t : Term) (n : Node) : Bool :=
  if t.exprs.isEmpty && t.fields.isEmpty then false
  else (t.exprs.isEmpty || exprsMatch t.exprs n.labels)
    && (t.fields.isEmpty || fieldsMatch t.fields n.name)

def nodeSelectorMatches (sel : SMap) (ls : SMap) : Bool :=
  sel.all (fun e => SMap.get? ls e.k == some e.v)

/-- `checkNodeSelector`. -/
def checkNodeSelector (nodeSelector : SMap) (required : Option (List Term)) (n : Node) : Bool :=
  nodeSelectorMatches nodeSelector n.labels &&
  match required with
  | none => true
  | some terms => terms.any (fun t => termMatches t n)

def tolerates (t : Toleration) (taint : Taint) : Bool :=
  if t.effect != "" && t.effect != taint.effect then false
  else if t.key != "" && t.key != taint.key then false
  else if t.op == "" || t.op == "Equal" then t.value == taint.value
  else if t.op == "Exists" then true
  else false

def taintFiltered (t : Taint) : Bool := t.effect == "NoSchedule" || t.effect == "NoExecute"

def toleratesTaints (tols : List Toleration) (taints : List Taint) : Bool :=
  taints.all (fun t => !taintFiltered t || tols.any (fun tol => tolerates tol t))

/-- `StandardDaemonSetTolerations` (pod/const.go); tied to the source by `FactsBridge`. -/
def standardTolerations : List Toleration := [
  { key := "node.kubernetes.io/not-ready", op := "Exists", value := "", effect := "NoExecute" },
  { key := "node.kubernetes.io/unreachable", op := "Exists", value := "", effect := "NoExecute" },
  { key := "node.kubernetes.io/disk-pressure", op := "Exists", value := "", effect := "NoSchedule" },
  { key := "node.kubernetes.io/memory-pressure", op := "Exists", value := "", effect := "NoSchedule" },
  { key := "node.kubernetes.io/unschedulable", op := "Exists", value := "", effect := "NoSchedule" },
  { key := "node.kubernetes.io/network-unavailable", op := "Exists", value := "", effect := "NoSchedule" }]

/-- `CheckNodeFitness(newPod, node)` where `newPod` is the pod built from template `t` without a
node (so its tolerations are the template's followed by the standard ones). -/
def fit (t : Template) (n : Node) : Bool :=
  checkNodeSelector t.nodeSelector t.affRequired n &&
  toleratesTaints (t.tolerations ++ standardTolerations) n.taints

end Eds
