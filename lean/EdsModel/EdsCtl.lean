import EdsModel.Kernel
import EdsModel.CanaryPred
import EdsModel.Scheduler
import EdsModel.Defaults
/-
  EdsModel.EdsCtl — controllers/extendeddaemonset/controller.go: the decision functions of the
  ExtendedDaemonSet reconcile.
-/
namespace Eds

inductive Pick where
  | active | upToDate
  deriving DecidableEq, Repr

/-- `selectCurrentReplicaSet`.  `samePtr` = the two arguments are the same pointer (never the case
inside `Reconcile`, where the up-to-date one is a deep copy).  The time-based disjunct carries the
`!isFailed` of the F2 repair. -/
def selectCurrent (canary : Option Canary) (ann : SMap) (active : Option ERS) (u : ERS)
    (samePtr : Bool) (now : Time) : Pick × Dur :=
  if samePtr then (.active, 0)
  else match active with
  | none => (.upToDate, 0)
  | some _ =>
    match canary with
    | none => (.upToDate, 0)
    | some c =>
      let (ended, rq) := isCanaryEnded (some c) u now
      let paused := (isCanaryPaused ann (some u)).1
      let valid := isCanaryValid ann u.name
      let failed := isCanaryFailed (some u)
      if valid || (!paused && !failed && ended) then (.upToDate, rq) else (.active, rq)

def nonCanaryState (ann : SMap) : String :=
  if SMap.getD ann K.rolloutFrozenAnnot == "true" then "Rollout frozen"
  else if SMap.getD ann K.rollingUpdatePausedAnnot == "true" then "RollingUpdate Paused"
  else "Running"

def isCanaryActive (canary : Option Canary) (activeName upToDateName : String) (failed : Bool) : Bool :=
  canary.isSome && !(failed || activeName == upToDateName)

/-- `manageCanaryStatusConditions`.  Note the inverted option name in the Go code
(`writeFalseIfNotExist = options.IgnoreFalseConditionIfNotExist = false`). -/
def manageCanaryStatusConditions (conds : List Cond) (now : Time) (failed paused : Bool)
    (pausedReason ersName : String) : List Cond :=
  let conds :=
    if failed then updateCond conds now "Canary-Failed" "True" "CanaryFailed" ("canary failed with ers: " ++ ersName) false false
    else updateCond conds now "Canary-Failed" "False" "" "" false false
  if paused && !failed then
    updateCond conds now "Canary-Paused" "True" pausedReason ("canary paused with ers: " ++ ersName) false false
  else updateCond conds now "Canary-Paused" "False" "" "" false false

/-- `manageStatus`. -/
def manageStatus (st : EDSStatus) (u : ERS) (canaryActive failed paused : Bool) (pausedReason : String)
    (ann : SMap) : EDSStatus :=
  if failed then { st with canary := none, state := "Canary Failed", reason := "" }
  else if canaryActive then
    let cs : CanaryStatus := (st.canary.getD { replicaSet := "", nodes := [] })
    { st with
      desired := st.desired + u.status.desired, upToDate := u.status.current,
      ignored := st.ignored + u.status.ignored,
      state := if !paused then "Canary" else "Canary Paused",
      reason := if !paused then "" else pausedReason,
      canary := some { cs with replicaSet := u.name } }
  else { st with canary := none, state := nonCanaryState ann, reason := "" }

/-- `shouldDeleteERS(now, ers)` for a non-nil ers. -/
def shouldDeleteERS (now : Time) (e : ERS) (retention : Dur := 2 * minute) : Bool :=
  let blocked :=
    match findCond e.status.conds "Canary-Failed" with
    | some c => c.status == "True" && now < c.lastTransition + retention
    | none => false
  !blocked && e.status.available + e.status.current + e.status.desired + e.status.ready == 0

/-- names of the replica sets `cleanupReplicaSet` deletes. -/
def cleanupTargetsERS (now : Time) (list : List ERS) (current upToDate : String) : List String :=
  (list.filter (fun e => e.name != current && e.name != upToDate && !e.deleted && shouldDeleteERS now e)).map (·.name)

def clearCanaryAnnotations (ann : SMap) : SMap × Bool :=
  let keys := [K.canaryPausedAnnot, K.canaryPausedReasonAnnot, K.canaryUnpausedAnnot]
  (ann.filter (fun e => !keys.contains e.k), keys.any (fun k => SMap.contains ann k))

/-! ### selectNodes -/

/-- `utils.ConvertLabelSelector` + `Matches`; operators other than the four label-selector ones are
skipped (logged) by the Go code. `none` = conversion error. -/
def labelSelectorMatches (sel : LabelSelector) (ls : SMap) : Option Bool :=
  let exprs := sel.exprs.filter (fun r => r.op == "In" || r.op == "NotIn" || r.op == "Exists" || r.op == "DoesNotExist")
  if !(exprs.all reqValid) then none
  else some (sel.matchLabels.all (fun e => SMap.get? ls e.k == some e.v) && exprs.all (fun r => reqMatches r ls))

def antiAffinityValue (keys : List String) (n : Node) : String :=
  "$".intercalate (keys.map (fun k => SMap.getD n.labels k))

/-- restarts per node name: sum over listed pods with `spec.nodeName = name` of the *regular*
container restart counts. -/
def nodeRestarts (pods : List Pod) (name : String) : Int :=
  (pods.filter (fun p => p.nodeName == name)).foldl
    (fun acc p => acc + (p.cstats.take p.mainCstats).foldl (fun a s => a + s.restarts) 0) 0

def insertByKey (key : Node → Int) (n : Node) : List Node → List Node
  | [] => [n]
  | m :: rest => if key n ≤ key m then n :: m :: rest else m :: insertByKey key n rest

/-- stable sort by restart count (Go's `sort.Slice` is an insertion sort, hence stable, for the
population sizes the correspondence uses (≤ 12)). -/
def sortByRestarts (pods : List Pod) (nodes : List Node) : List Node :=
  nodes.foldr (fun n acc => insertByKey (fun m => nodeRestarts pods m.name) n acc) []

def incr (m : List (String × Int)) (k : String) : List (String × Int) :=
  if m.any (fun e => e.1 == k) then m.map (fun e => if e.1 == k then (e.1, e.2 + 1) else e)
  else m ++ [(k, 1)]

def lookupCount (m : List (String × Int)) (k : String) : Int :=
  match m.find? (fun e => e.1 == k) with | some e => e.2 | none => 0

structure SelState where
  current : List String
  counts : List (String × Int)
  done : Bool := false
  deriving Repr

/-- `selectNodes`: returns (new node list, error?).  `base` is the number the percentage is resolved
against (the F6b repair uses the daemonset's `status.desired`, the same base as the trigger). -/
def selectNodes (t : Template) (canary : Canary) (base : Int) (currentNodes : List String)
    (pods : List Pod) (allNodes : List Node) : Outcome (List String × Bool) :=
  let listed :=
    match canary.nodeSelector with
    | some sel =>
      -- a selector that does not convert is logged and the list is unfiltered
      (match labelSelectorMatches sel [] with
       | none => allNodes
       | some _ => allNodes.filter (fun n => (labelSelectorMatches sel n.labels).getD false))
    | none => allNodes
  match resolveIntOrPercent canary.replicas base with
  | none => .err "replicas"
  | some nb =>
  let sorted := sortByRestarts pods listed
  -- drop already selected nodes that are listed but no longer fit; names that are no longer listed
  -- (node deleted, or no longer matching the canary node selector) are never examined and stay
  -- (known finding F6a)
  let current := sorted.foldl (fun (cur : List String) n =>
      if cur.contains n.name && !fit t n then cur.erase n.name else cur) currentNodes
  let keys := canary.antiAffinityKeys
  let result :=
    if (current.length : Int) < nb then
      let counts0 : List (String × Int) :=
        if keys.isEmpty then [] else
        sorted.foldl (fun (m : List (String × Int)) n =>
          let v := antiAffinityValue keys n
          let m := if m.any (fun e => e.1 == v) then m else m ++ [(v, 0)]
          if current.contains n.name then incr m v else m) []
      let st := sorted.foldl (fun (s : SelState) n =>
        if s.done then s
        else if s.current.contains n.name then s
        else
          let v := antiAffinityValue keys n
          let nvals : Int := s.counts.length
          if !keys.isEmpty && lookupCount s.counts v >= Int.tdiv (nb + nvals - 1) nvals then s
          else
            let counts := if keys.isEmpty then s.counts else incr s.counts v
            let cur := if fit t n then s.current ++ [n.name] else s.current
            { current := cur, counts := counts, done := (cur.length : Int) == nb }) { current := current, counts := counts0 }
      st.current
    else current
  .ok (result, (result.length : Int) < nb)

end Eds
