import EdsModel.Basic
/-
  EdsModel.Conc — small-step interleaving semantics of the three fan-out / fan-in helpers
  (`createPods`, `deletePods` in controllers/extendeddaemonsetreplicaset/utils.go and
  `deletePodSlice` in strategy/utils.go).

  Each goroutine `i` performs its API call (failing iff `fails i`) and then reports the error.
  How it reports is the *discipline* extracted from the source by tools/extract
  (`Generated.Facts.goroutineWrites`):
    * `chan`   — `errsChan <- err` on a channel buffered for every goroutine (never blocks);
                 the parent drains the channel after `wg.Wait()` + `close`;
    * `locked` — `mu.Lock(); errs = append(errs, err); mu.Unlock()` (one atomic step);
    * `racy`   — `errs = append(errs, err)` without synchronisation: a read of the shared slice
                 followed by a write of (what was read ++ [err]) — two steps other goroutines
                 may interleave with.
  The scheduler is an arbitrary list of goroutine indices; sequential consistency at the
  granularity "one statement = one step" (DESIGN.md §7.6).
-/
namespace Eds.Conc

inductive Discipline where
  | chan | locked | racy
  deriving DecidableEq, Repr

/-- program counter of one goroutine: 0 = before the API call, 1 = call done and failed, error not
yet reported (racy: shared slice not yet read), 2 = racy only: slice read into `snap`, 3 = done. -/
structure G where
  pc : Nat := 0
  snap : List Nat := []
  deriving DecidableEq, Repr

structure St where
  gs : List G
  /-- the shared `errs` slice, or the channel's buffer (goroutine ids of the errors) -/
  shared : List Nat := []
  deriving DecidableEq, Repr

def init (n : Nat) : St := { gs := List.replicate n {} }

def setG (gs : List G) (i : Nat) (g : G) : List G := gs.set i g

/-- one step of goroutine `i` (no-op when it is finished or does not exist). -/
def step (d : Discipline) (fails : Nat → Bool) (s : St) (i : Nat) : St :=
  match s.gs[i]? with
  | none => s
  | some g =>
    if g.pc == 0 then
      { s with gs := setG s.gs i { g with pc := if fails i then 1 else 3 } }
    else if g.pc == 1 then
      match d with
      | .chan | .locked => { gs := setG s.gs i { g with pc := 3 }, shared := s.shared ++ [i] }
      | .racy => { s with gs := setG s.gs i { g with pc := 2, snap := s.shared } }
    else if g.pc == 2 then
      { gs := setG s.gs i { g with pc := 3 }, shared := g.snap ++ [i] }
    else s

def run (d : Discipline) (fails : Nat → Bool) (sched : List Nat) (s : St) : St :=
  sched.foldl (step d fails) s

def finished (s : St) : Bool := s.gs.all (fun g => g.pc == 3)

/-- number of injected failures among goroutines `0..n-1`. -/
def nFails (fails : Nat → Bool) (n : Nat) : Nat := ((List.range n).filter fails).length

end Eds.Conc
